//! C23 — schema coordinates: parse / print / lookup vs the Lean model, plus direct oracles.
use crate::util::*;
use apollo_compiler::coordinate::*;
use apollo_compiler::schema::ExtendedType;
use apollo_compiler::Schema;

fn is_name(s: &str) -> bool {
    let b = s.as_bytes();
    !b.is_empty()
        && (b[0].is_ascii_alphabetic() || b[0] == b'_')
        && b[1..].iter().all(|c| c.is_ascii_alphanumeric() || *c == b'_')
}

/// The five forms, written as a direct recogniser (independent of the implementation's cascade).
fn spec_form(s: &str) -> Option<String> {
    let (at, body) = match s.strip_prefix('@') { Some(r) => (true, r), None => (false, s) };
    let (head, arg) = match body.find('(') {
        Some(i) => {
            let rest = &body[i + 1..];
            let a = rest.strip_suffix(":)")?;
            if !is_name(a) { return None; }
            (&body[..i], Some(a))
        }
        None => (body, None),
    };
    if at {
        if !is_name(head) { return None; }
        return Some(match arg { Some(a) => format!("dirarg:{head}:{a}"), None => format!("dir:{head}") });
    }
    match head.find('.') {
        Some(i) => {
            let (t, f) = (&head[..i], &head[i + 1..]);
            if !is_name(t) || !is_name(f) { return None; }
            Some(match arg { Some(a) => format!("fieldarg:{t}:{f}:{a}"), None => format!("attr:{t}:{f}") })
        }
        None => {
            if arg.is_some() || !is_name(head) { return None; }
            Some(format!("type:{head}"))
        }
    }
}

fn show(c: &SchemaCoordinate) -> String {
    match c {
        SchemaCoordinate::Type(c) => format!("type:{}", c.ty),
        SchemaCoordinate::TypeAttribute(c) => format!("attr:{}:{}", c.ty, c.attribute),
        SchemaCoordinate::FieldArgument(c) => format!("fieldarg:{}:{}:{}", c.ty, c.field, c.argument),
        SchemaCoordinate::Directive(c) => format!("dir:{}", c.directive),
        SchemaCoordinate::DirectiveArgument(c) => format!("dirarg:{}:{}", c.directive, c.argument),
    }
}

fn parse_case(ctx: &mut Ctx, s: &str) {
    let got = match s.parse::<SchemaCoordinate>() {
        Ok(c) => {
            let printed = c.to_string();
            if printed != s {
                ctx.fail("coord-print-not-inverse", s, &format!("parsed then printed gives {printed:?}"));
            }
            match printed.parse::<SchemaCoordinate>() {
                Ok(c2) if c2 == c => {}
                _ => ctx.fail("coord-reparse", s, "printing then parsing does not give the coordinate back"),
            }
            ctx.nontrivial(s);
            show(&c)
        }
        Err(_) => "err".to_string(),
    };
    let want = spec_form(s).unwrap_or_else(|| "err".to_string());
    if got != want {
        ctx.fail("coord-parse-vs-forms", s, &format!("parse gives {got}, the five forms give {want}"));
    }
    per_kind(ctx, s, &want);
    ctx.case("coord", &[enc(s)], &got);
}

/// The five per-kind `from_str` (anchored next to `SchemaCoordinate::from_str`, but hidden behind its cascade:
/// e.g. `DirectiveCoordinate::from_str` is only reached for inputs that start with `@`): each accepts exactly
/// the strings of its own form and gives the same names.
fn per_kind(ctx: &mut Ctx, s: &str, want: &str) {
    let got: [(&str, Option<String>); 5] = [
        ("type:", s.parse::<TypeCoordinate>().ok().map(|c| show(&c.into()))),
        ("attr:", s.parse::<TypeAttributeCoordinate>().ok().map(|c| show(&c.into()))),
        ("fieldarg:", s.parse::<FieldArgumentCoordinate>().ok().map(|c| show(&c.into()))),
        ("dir:", s.parse::<DirectiveCoordinate>().ok().map(|c| show(&c.into()))),
        ("dirarg:", s.parse::<DirectiveArgumentCoordinate>().ok().map(|c| show(&c.into()))),
    ];
    for (prefix, g) in got {
        let expect = if want.starts_with(prefix) { Some(want.to_string()) } else { None };
        if g != expect {
            ctx.fail("coord-perkind-vs-forms", s, &format!("the `{prefix}` from_str gives {g:?}, the five forms give {expect:?}"));
        }
    }
}

const SCHEMAS: [&str; 3] = [
    "type Query { a(x: Int, y: Int): Int b: E } enum E { A B } input In { a: Int b: In } union U = Query
     interface I { a(x: Int): Int } scalar S directive @d(a: Int, b: Int) on FIELD directive @e on FIELD",
    "type Query { Query(Query: Int): Int } type a implements b { a(a: Int): Int b: Int } interface b { a(a: Int): Int }
     enum b_ { a b } input x { a: Int = 1 x: Int } directive @a(a: Int) repeatable on FIELD",
    "schema { query: Q } type Q { f: Int } extend type Q { g(a: Int): Int } enum E { A } extend enum E { B }
     input N { a: Int } extend input N { b: Int } directive @skip(if: Boolean!, extra: Int) on FIELD",
];

fn export_schema(s: &Schema) -> String {
    let mut out: Vec<String> = vec![];
    for (name, ty) in &s.types {
        let e = match ty {
            ExtendedType::Scalar(_) => format!("s {name}"),
            ExtendedType::Union(_) => format!("u {name}"),
            ExtendedType::Enum(e) => format!("e {name} {}", e.values.keys().map(|k| k.to_string()).collect::<Vec<_>>().join(" ")),
            ExtendedType::InputObject(i) => format!("n {name} {}", i.fields.keys().map(|k| k.to_string()).collect::<Vec<_>>().join(" ")),
            ExtendedType::Object(o) => format!("o {name} {}", o.fields.values().map(|f| format!("{}({})", f.name, f.arguments.iter().map(|a| a.name.to_string()).collect::<Vec<_>>().join(","))).collect::<Vec<_>>().join(" ")),
            ExtendedType::Interface(o) => format!("i {name} {}", o.fields.values().map(|f| format!("{}({})", f.name, f.arguments.iter().map(|a| a.name.to_string()).collect::<Vec<_>>().join(","))).collect::<Vec<_>>().join(" ")),
        };
        out.push(e.trim_end().to_string());
    }
    for (name, d) in &s.directive_definitions {
        out.push(format!("d {name} {}", d.arguments.iter().map(|a| a.name.to_string()).collect::<Vec<_>>().join(" ")).trim_end().to_string());
    }
    out.join(";")
}

/// What the coordinate denotes in `schema`, found by a plain linear scan over the public maps with string
/// comparison (no `lookup`, no `get`): the address of the element, or `None` when there is none.
#[derive(PartialEq, Debug, Clone, Copy)]
enum Elem { Type(usize), Directive(usize), Field(usize), InputField(usize), EnumValue(usize), Argument(usize) }

fn addr<T>(r: &T) -> usize { r as *const T as usize }

fn expected(schema: &Schema, coord: &SchemaCoordinate) -> Option<Elem> {
    let find_type = |n: &str| schema.types.iter().find(|(k, _)| k.as_str() == n).map(|(_, v)| v);
    let find_dir = |n: &str| schema.directive_definitions.iter().find(|(k, _)| k.as_str() == n).map(|(_, v)| v);
    let attr = |t: &str, a: &str| -> Option<Elem> {
        match find_type(t)? {
            ExtendedType::Enum(e) => e.values.iter().find(|(k, _)| k.as_str() == a).map(|(_, v)| Elem::EnumValue(addr(v))),
            ExtendedType::InputObject(i) => i.fields.iter().find(|(k, _)| k.as_str() == a).map(|(_, v)| Elem::InputField(addr(v))),
            ExtendedType::Object(o) => o.fields.iter().find(|(k, _)| k.as_str() == a).map(|(_, v)| Elem::Field(addr(v))),
            ExtendedType::Interface(o) => o.fields.iter().find(|(k, _)| k.as_str() == a).map(|(_, v)| Elem::Field(addr(v))),
            ExtendedType::Scalar(_) | ExtendedType::Union(_) => None,
        }
    };
    match coord {
        SchemaCoordinate::Type(c) => find_type(c.ty.as_str()).map(|t| Elem::Type(addr(t))),
        SchemaCoordinate::Directive(c) => find_dir(c.directive.as_str()).map(|d| Elem::Directive(addr(d))),
        SchemaCoordinate::TypeAttribute(c) => attr(c.ty.as_str(), c.attribute.as_str()),
        SchemaCoordinate::FieldArgument(c) => {
            let f = match find_type(c.ty.as_str())? {
                ExtendedType::Object(o) => o.fields.iter().find(|(k, _)| k.as_str() == c.field.as_str()).map(|(_, v)| v)?,
                ExtendedType::Interface(o) => o.fields.iter().find(|(k, _)| k.as_str() == c.field.as_str()).map(|(_, v)| v)?,
                _ => return None,
            };
            f.arguments.iter().find(|a| a.name.as_str() == c.argument.as_str()).map(|a| Elem::Argument(addr(a)))
        }
        SchemaCoordinate::DirectiveArgument(c) => {
            find_dir(c.directive.as_str())?.arguments.iter().find(|a| a.name.as_str() == c.argument.as_str()).map(|a| Elem::Argument(addr(a)))
        }
    }
}

fn lookup_one(ctx: &mut Ctx, schema: &Schema, exported: &str, c: &str) {
    let Ok(coord) = c.parse::<SchemaCoordinate>() else { ctx.fail("coord-pool-unparseable", c, "generated coordinate did not parse"); return };
    let mut got_elem: Option<Elem> = None;
    let got = match coord.lookup(schema) {
        Ok(SchemaCoordinateLookup::Type(t)) => {
            got_elem = Some(Elem::Type(addr(t)));
            if let SchemaCoordinate::Type(tc) = &coord { if t.name() != &tc.ty { ctx.fail("lookup-wrong-element", c, "type has another name"); } }
            "ok:type"
        }
        Ok(SchemaCoordinateLookup::Directive(d)) => {
            got_elem = Some(Elem::Directive(addr(d)));
            if let SchemaCoordinate::Directive(dc) = &coord { if d.name != dc.directive { ctx.fail("lookup-wrong-element", c, "directive has another name"); } }
            "ok:directive"
        }
        Ok(SchemaCoordinateLookup::Field(f)) => {
            got_elem = Some(Elem::Field(addr(f)));
            if let SchemaCoordinate::TypeAttribute(tc) = &coord { if f.name != tc.attribute { ctx.fail("lookup-wrong-element", c, "field has another name"); } }
            "ok:field"
        }
        Ok(SchemaCoordinateLookup::InputField(f)) => {
            got_elem = Some(Elem::InputField(addr(f)));
            if let SchemaCoordinate::TypeAttribute(tc) = &coord { if f.name != tc.attribute { ctx.fail("lookup-wrong-element", c, "input field has another name"); } }
            "ok:inputfield"
        }
        Ok(SchemaCoordinateLookup::EnumValue(f)) => {
            got_elem = Some(Elem::EnumValue(addr(f)));
            if let SchemaCoordinate::TypeAttribute(tc) = &coord { if f.value != tc.attribute { ctx.fail("lookup-wrong-element", c, "enum value has another name"); } }
            "ok:enumvalue"
        }
        Ok(SchemaCoordinateLookup::Argument(a)) => {
            got_elem = Some(Elem::Argument(addr(a)));
            let want = match &coord {
                SchemaCoordinate::FieldArgument(fc) => Some(&fc.argument),
                SchemaCoordinate::DirectiveArgument(dc) => Some(&dc.argument),
                _ => None,
            };
            if want != Some(&a.name) { ctx.fail("lookup-wrong-element", c, "argument has another name"); }
            "ok:argument"
        }
        Ok(_) => "ok:other",
        Err(_) => "err",
    };
    // "the element with exactly those names": the very element a linear scan of the schema finds (same address —
    // an equally named field of ANOTHER type, or an equally named argument of another field, is the wrong element)
    let want_elem = expected(schema, &coord);
    if got_elem != want_elem && got != "ok:other" {
        ctx.fail("lookup-not-the-element", c, &format!("lookup gives {got} {got_elem:?}, scanning the schema gives {want_elem:?}"));
    }
    // the kind-specific convenience lookups must agree with the general one
    if let SchemaCoordinate::TypeAttribute(tc) = &coord {
        let f = tc.lookup_field(schema).ok().map(|f| Elem::Field(addr(f)));
        let i = tc.lookup_input_field(schema).ok().map(|f| Elem::InputField(addr(f)));
        let e = tc.lookup_enum_value(schema).ok().map(|f| Elem::EnumValue(addr(f)));
        let pick = |k: fn(&Elem) -> bool| want_elem.filter(|x| k(x));
        if f != pick(|x| matches!(x, Elem::Field(_))) || i != pick(|x| matches!(x, Elem::InputField(_))) || e != pick(|x| matches!(x, Elem::EnumValue(_))) {
            ctx.fail("lookup-perkind", c, &format!("lookup_field/lookup_input_field/lookup_enum_value give {f:?}/{i:?}/{e:?}, scanning the schema gives {want_elem:?}"));
        }
    }
    ctx.stat(&format!("lookup:{got}"));
    if got != "err" { ctx.nontrivial(&format!("{}{c}", exported.len())); }
    ctx.case("lookup", &[enc(exported), enc(c)], got);
}

fn lookup_cases(ctx: &mut Ctx) {
    for src in SCHEMAS {
        let schema = match Schema::parse(src, "s.graphql") { Ok(s) => s, Err(e) => e.partial };
        let exported = export_schema(&schema);
        let mut pool: Vec<String> = vec!["a", "b", "x", "y", "A", "B", "E", "I", "In", "U", "S", "Query", "Q", "N", "f", "g", "d", "e",
            "skip", "if", "extra", "Int", "b_", "__Type", "kind", "name", "__Schema", "include", "deprecated", "reason", "zz"]
            .into_iter().map(String::from).collect();
        pool.sort(); pool.dedup();
        let mut coords: Vec<String> = vec![];
        for t in &pool {
            coords.push(t.clone());
            coords.push(format!("@{t}"));
            for f in &pool {
                coords.push(format!("{t}.{f}"));
                coords.push(format!("@{t}({f}:)"));
            }
        }
        // field arguments: restrict type × field to plausible ones, argument over the whole pool
        for t in ["Query", "a", "b", "I", "Q", "E", "In", "U", "__Type", "zz"] {
            for f in ["a", "b", "Query", "g", "f", "fields", "A", "zz"] {
                for a in &pool { coords.push(format!("{t}.{f}({a}:)")); }
            }
        }
        for c in coords { lookup_one(ctx, &schema, &exported, &c); }
    }
}

/// "Same names everywhere": every kind of type carries attributes / arguments drawn from the SAME three names,
/// so a lookup that goes to the wrong type, the wrong field, the wrong namespace (types vs directives) or the
/// wrong position in an argument list still finds *something* of the right name. Six rotations give every kind
/// every name set; all coordinates over the pool are looked up (the verdict through the `lookup` stream, the
/// identity of the element through the address oracle).
fn collision_family(ctx: &mut Ctx) {
    let n = ["a", "b", "c"];
    let kinds = ["O", "I", "N", "E", "U", "S"];
    for rot in 0..6usize {
        // type names: the six kind letters rotated, so that e.g. the name `E` is an enum in one schema and an object in the next
        let name = |k: usize| kinds[(k + rot) % 6];
        let (x, y, z) = (n[rot % 3], n[(rot + 1) % 3], n[(rot + 2) % 3]);
        let src = format!(
            "type {o} implements {i} {{ {x}({x}: Int, {y}: Int): Int {y}({y}: Int, {z}: Int, {x}: Int): Int {z}: Int }}
             interface {i} {{ {x}({y}: Int): Int {y}({x}: Int, {z}: Int): Int }}
             input {inp} {{ {x}: Int {y}: Int }}
             enum {e} {{ {x} {z} }}
             union {u} = {o}
             scalar {s}
             directive @{x}({x}: Int, {y}: Int) on FIELD
             directive @{y}({y}: Int) on FIELD
             directive @{o}({z}: Int, {x}: Int) on FIELD
             directive @{e} on FIELD
             extend type {o} {{ {o}({o}: Int): Int }}
             schema {{ query: {o} }}",
            o = name(0), i = name(1), inp = name(2), e = name(3), u = name(4), s = name(5));
        let schema = match Schema::parse(&src, "s.graphql") { Ok(s) => s, Err(e) => e.partial };
        let exported = export_schema(&schema);
        let pool = ["a", "b", "c", "O", "I", "N", "E", "U", "S", "zz", "__typename", "Int"];
        let mut n_c = 0u64;
        for t in pool {
            lookup_one(ctx, &schema, &exported, t);
            lookup_one(ctx, &schema, &exported, &format!("@{t}"));
            n_c += 2;
            for f in pool {
                lookup_one(ctx, &schema, &exported, &format!("{t}.{f}"));
                lookup_one(ctx, &schema, &exported, &format!("@{t}({f}:)"));
                n_c += 2;
                for a in pool { lookup_one(ctx, &schema, &exported, &format!("{t}.{f}({a}:)")); n_c += 1; }
            }
        }
        ctx.stat_n("family:collision_lookups", n_c);
    }
}

/// Generated schemas (the C14/C15 generator): every coordinate that exists in the schema must be found, and the
/// names of one element combined with the names of another (attribute of type A under type B, argument of field f
/// under field g) must be found exactly when the scan finds them.
fn generated_schema_family(ctx: &mut Ctx) {
    let n_schemas = if ctx.thorough { 300 } else { 25 };
    let per_schema_cross = if ctx.thorough { 400 } else { 150 };
    for _ in 0..n_schemas {
        let defs = crate::schemagen::Gen::new(&mut ctx.rng).valid();
        let src = crate::schemagen::print_doc(&defs);
        let schema = match Schema::parse(&src, "g.graphql") { Ok(s) => s, Err(e) => e.partial };
        let exported = export_schema(&schema);
        if exported.contains('\t') || exported.contains('\n') { continue; }
        let mut present: Vec<String> = vec![];
        let mut tnames: Vec<String> = vec![]; let mut anames: Vec<String> = vec![]; let mut argnames: Vec<String> = vec![]; let mut dnames: Vec<String> = vec![];
        let mut tf: Vec<(String, String)> = vec![];
        for (name, ty) in &schema.types {
            tnames.push(name.to_string());
            present.push(name.to_string());
            let fields: Vec<(String, Vec<String>)> = match ty {
                ExtendedType::Object(o) => o.fields.values().map(|f| (f.name.to_string(), f.arguments.iter().map(|a| a.name.to_string()).collect())).collect(),
                ExtendedType::Interface(o) => o.fields.values().map(|f| (f.name.to_string(), f.arguments.iter().map(|a| a.name.to_string()).collect())).collect(),
                ExtendedType::InputObject(o) => o.fields.keys().map(|k| (k.to_string(), vec![])).collect(),
                ExtendedType::Enum(e) => e.values.keys().map(|k| (k.to_string(), vec![])).collect(),
                _ => vec![],
            };
            for (f, args) in fields {
                if name.starts_with("__") && present.len() > 400 { continue; }
                present.push(format!("{name}.{f}"));
                tf.push((name.to_string(), f.clone()));
                anames.push(f.clone());
                for a in args { present.push(format!("{name}.{f}({a}:)")); argnames.push(a); }
            }
        }
        for (name, d) in &schema.directive_definitions {
            dnames.push(name.to_string());
            present.push(format!("@{name}"));
            for a in &d.arguments { present.push(format!("@{name}({}:)", a.name)); argnames.push(a.name.to_string()); }
        }
        for v in [&mut anames, &mut argnames] { v.sort(); v.dedup(); }
        ctx.stat_n("family:generated_present_coordinates", present.len() as u64);
        for c in &present {
            // oracle-only sanity of the family itself: a coordinate read off the schema must resolve
            if let Ok(k) = c.parse::<SchemaCoordinate>() { if k.lookup(&schema).is_err() { ctx.fail("lookup-misses-existing", c, "a coordinate read off the schema's own maps is not found"); } }
            lookup_one(ctx, &schema, &exported, c);
        }
        for _ in 0..per_schema_cross {
            let c = match ctx.rng.below(4) {
                0 => format!("{}.{}", ctx.rng.pick(&tnames), ctx.rng.pick(&anames)),
                1 if !argnames.is_empty() => { let (t, f) = ctx.rng.pick(&tf).clone(); format!("{t}.{f}({}:)", ctx.rng.pick(&argnames)) }
                2 if !argnames.is_empty() => format!("@{}({}:)", ctx.rng.pick(&dnames), ctx.rng.pick(&argnames)),
                _ => { let t = ctx.rng.pick(&tnames).clone(); if ctx.rng.chance(1, 2) { format!("@{t}") } else { ctx.rng.pick(&dnames).clone() } }
            };
            lookup_one(ctx, &schema, &exported, &c);
        }
        ctx.stat_n("family:generated_cross_coordinates", per_schema_cross as u64);
    }
}

/// Every ASCII character (and a few non-ASCII look-alikes) at the start, in the middle and at the end of every
/// Name slot of every form: the Name grammar's boundaries (`@`/`A`, `Z`/`[`, `` ` ``/`a`, `z`/`{`, `/`/`0`,
/// `9`/`:`, `_`) at every place a coordinate takes a Name.
fn char_sweep(ctx: &mut Ctx) {
    let forms: [(&str, usize); 5] = [("{0}", 1), ("{0}.{1}", 2), ("{0}.{1}({2}:)", 3), ("@{0}", 1), ("@{0}({1}:)", 2)];
    let mut chars: Vec<char> = (0u8..128).map(|b| b as char).collect();
    chars.extend(['\u{80}', 'é', 'ı', '\u{212A}', '０', 'Ａ', '\u{feff}', '\u{200b}', '\u{2028}', '😀']);
    let mut n = 0u64;
    for (form, slots) in forms {
        for slot in 0..slots {
            for pos in 0..4 {
                for &ch in &chars {
                    let name = match pos { 0 => format!("{ch}b"), 1 => format!("A{ch}b"), 2 => format!("Ab{ch}"), _ => ch.to_string() };
                    let mut s = form.to_string();
                    for k in 0..3 { s = s.replace(&format!("{{{k}}}"), if k == slot { &name } else { "Xy" }); }
                    parse_case(ctx, &s);
                    n += 1;
                }
            }
        }
    }
    ctx.stat_n("family:char_sweep", n);
}

/// Token-level neighbourhoods of the five valid forms: all strings at edit distance ≤ 2 (delete / insert /
/// replace one token) over the tokens Name, digit-name, `.`, `(`, `)`, `:`, `@`, space. The field-argument form
/// has seven tokens, longer than the exhaustive alphabet enumeration reaches, so this is where its near-misses
/// (`a.b(c)`, `a.b(c:`, `a.b(:c)`, `a(b:)`, `@a.b(c:)`, `a.b(c:)(d:)`, `a.b(c::)`, …) are produced systematically.
fn token_edits(ctx: &mut Ctx) {
    let toks = ["a", "B_1", "9", ".", "(", ")", ":", "@", " "];
    let forms: [&[&str]; 5] = [&["a"], &["a", ".", "b"], &["a", ".", "b", "(", "c", ":", ")"], &["@", "a"], &["@", "a", "(", "c", ":", ")"]];
    fn edits(v: &[String], toks: &[&str]) -> Vec<Vec<String>> {
        let mut out = vec![];
        for i in 0..v.len() { let mut w = v.to_vec(); w.remove(i); out.push(w); }
        for i in 0..=v.len() { for t in toks { let mut w = v.to_vec(); w.insert(i, t.to_string()); out.push(w); } }
        for i in 0..v.len() { for t in toks { if v[i] != *t { let mut w = v.to_vec(); w[i] = t.to_string(); out.push(w); } } }
        out
    }
    let mut seen = std::collections::HashSet::new();
    let depth = if ctx.thorough { 3 } else { 2 };
    for f in forms {
        let start: Vec<String> = f.iter().map(|s| s.to_string()).collect();
        let mut layer = vec![start];
        let mut expanded = std::collections::HashSet::new();
        for d in 0..=depth {
            let mut next = vec![];
            for v in &layer {
                let s = v.concat();
                if !expanded.insert(v.clone()) { continue; }
                if seen.insert(s.clone()) {
                    parse_case(ctx, &s);
                    ctx.stat(&format!("family:token_edits_distance_{d}"));
                }
                if d < depth && (d < 2 || v.len() <= 4) { next.extend(edits(v, &toks)); }
            }
            layer = next;
        }
    }
}

pub fn run(ctx: &mut Ctx) {
    let alphabet = ["a", "Z", "_", "0", ".", "(", ")", ":", "@", " ", "é"];
    let k = if ctx.thorough { 6 } else { 5 };
    let mut all = Vec::new();
    for_all_strings(&alphabet, k, |s| all.push(s.to_string()));
    ctx.stat_n("exhaustive_strings", all.len() as u64);
    for s in &all { parse_case(ctx, s); }
    char_sweep(ctx);
    token_edits(ctx);
    // longer, near-valid strings: mutate valid coordinates
    let names = ["a", "Ab_9", "_", "Query", "x0"];
    let n = if ctx.thorough { 200_000 } else { 20_000 };
    for _ in 0..n {
        let t = *ctx.rng.pick(&names); let f = *ctx.rng.pick(&names); let a = *ctx.rng.pick(&names);
        let mut s = match ctx.rng.below(5) {
            0 => t.to_string(), 1 => format!("{t}.{f}"), 2 => format!("{t}.{f}({a}:)"), 3 => format!("@{t}"), _ => format!("@{t}({a}:)"),
        };
        let muts = ctx.rng.below(3);
        for _ in 0..muts {
            let mut cs: Vec<char> = s.chars().collect();
            let pos = ctx.rng.below(cs.len() + 1);
            let ch = ctx.rng.pick(&alphabet).chars().next().unwrap();
            match ctx.rng.below(3) {
                0 => cs.insert(pos, ch),
                1 => { if pos < cs.len() { cs.remove(pos); } }
                _ => { if pos < cs.len() { cs[pos] = ch; } }
            }
            s = cs.into_iter().collect();
        }
        parse_case(ctx, &s);
    }
    lookup_cases(ctx);
    collision_family(ctx);
    generated_schema_family(ctx);
}
