//! C23 — schema coordinates: parse / print / lookup vs the Lean model, plus direct oracles.
use crate::util::*;
use apollo_compiler::coordinate::*;
use apollo_compiler::schema::ExtendedType;
use apollo_compiler::Schema;

fn is_name(s: &str) -> bool {
    let b = s.as_bytes();
    !b.is_empty()
        && (b[0].is_ascii_alphabetic() || b[0] == b'_')
        && b[1..].iter().all(|c| c.is_ascii_alphanumeric() || *c == b'_')
}

/// The five forms, written as a direct recogniser (independent of the implementation's cascade).
fn spec_form(s: &str) -> Option<String> {
    let (at, body) = match s.strip_prefix('@') { Some(r) => (true, r), None => (false, s) };
    let (head, arg) = match body.find('(') {
        Some(i) => {
            let rest = &body[i + 1..];
            let a = rest.strip_suffix(":)")?;
            if !is_name(a) { return None; }
            (&body[..i], Some(a))
        }
        None => (body, None),
    };
    if at {
        if !is_name(head) { return None; }
        return Some(match arg { Some(a) => format!("dirarg:{head}:{a}"), None => format!("dir:{head}") });
    }
    match head.find('.') {
        Some(i) => {
            let (t, f) = (&head[..i], &head[i + 1..]);
            if !is_name(t) || !is_name(f) { return None; }
            Some(match arg { Some(a) => format!("fieldarg:{t}:{f}:{a}"), None => format!("attr:{t}:{f}") })
        }
        None => {
            if arg.is_some() || !is_name(head) { return None; }
            Some(format!("type:{head}"))
        }
    }
}

fn show(c: &SchemaCoordinate) -> String {
    match c {
        SchemaCoordinate::Type(c) => format!("type:{}", c.ty),
        SchemaCoordinate::TypeAttribute(c) => format!("attr:{}:{}", c.ty, c.attribute),
        SchemaCoordinate::FieldArgument(c) => format!("fieldarg:{}:{}:{}", c.ty, c.field, c.argument),
        SchemaCoordinate::Directive(c) => format!("dir:{}", c.directive),
        SchemaCoordinate::DirectiveArgument(c) => format!("dirarg:{}:{}", c.directive, c.argument),
    }
}

fn parse_case(ctx: &mut Ctx, s: &str) {
    let got = match s.parse::<SchemaCoordinate>() {
        Ok(c) => {
            let printed = c.to_string();
            if printed != s {
                ctx.fail("coord-print-not-inverse", s, &format!("parsed then printed gives {printed:?}"));
            }
            match printed.parse::<SchemaCoordinate>() {
                Ok(c2) if c2 == c => {}
                _ => ctx.fail("coord-reparse", s, "printing then parsing does not give the coordinate back"),
            }
            ctx.nontrivial(s);
            show(&c)
        }
        Err(_) => "err".to_string(),
    };
    let want = spec_form(s).unwrap_or_else(|| "err".to_string());
    if got != want {
        ctx.fail("coord-parse-vs-forms", s, &format!("parse gives {got}, the five forms give {want}"));
    }
    ctx.case("coord", &[enc(s)], &got);
}

const SCHEMAS: [&str; 3] = [
    "type Query { a(x: Int, y: Int): Int b: E } enum E { A B } input In { a: Int b: In } union U = Query
     interface I { a(x: Int): Int } scalar S directive @d(a: Int, b: Int) on FIELD directive @e on FIELD",
    "type Query { Query(Query: Int): Int } type a implements b { a(a: Int): Int b: Int } interface b { a(a: Int): Int }
     enum b_ { a b } input x { a: Int = 1 x: Int } directive @a(a: Int) repeatable on FIELD",
    "schema { query: Q } type Q { f: Int } extend type Q { g(a: Int): Int } enum E { A } extend enum E { B }
     input N { a: Int } extend input N { b: Int } directive @skip(if: Boolean!, extra: Int) on FIELD",
];

fn export_schema(s: &Schema) -> String {
    let mut out: Vec<String> = vec![];
    for (name, ty) in &s.types {
        let e = match ty {
            ExtendedType::Scalar(_) => format!("s {name}"),
            ExtendedType::Union(_) => format!("u {name}"),
            ExtendedType::Enum(e) => format!("e {name} {}", e.values.keys().map(|k| k.to_string()).collect::<Vec<_>>().join(" ")),
            ExtendedType::InputObject(i) => format!("n {name} {}", i.fields.keys().map(|k| k.to_string()).collect::<Vec<_>>().join(" ")),
            ExtendedType::Object(o) => format!("o {name} {}", o.fields.values().map(|f| format!("{}({})", f.name, f.arguments.iter().map(|a| a.name.to_string()).collect::<Vec<_>>().join(","))).collect::<Vec<_>>().join(" ")),
            ExtendedType::Interface(o) => format!("i {name} {}", o.fields.values().map(|f| format!("{}({})", f.name, f.arguments.iter().map(|a| a.name.to_string()).collect::<Vec<_>>().join(","))).collect::<Vec<_>>().join(" ")),
        };
        out.push(e.trim_end().to_string());
    }
    for (name, d) in &s.directive_definitions {
        out.push(format!("d {name} {}", d.arguments.iter().map(|a| a.name.to_string()).collect::<Vec<_>>().join(" ")).trim_end().to_string());
    }
    out.join(";")
}

fn lookup_cases(ctx: &mut Ctx) {
    for src in SCHEMAS {
        let schema = match Schema::parse(src, "s.graphql") { Ok(s) => s, Err(e) => e.partial };
        let exported = export_schema(&schema);
        let mut pool: Vec<String> = vec!["a", "b", "x", "y", "A", "B", "E", "I", "In", "U", "S", "Query", "Q", "N", "f", "g", "d", "e",
            "skip", "if", "extra", "Int", "b_", "__Type", "kind", "name", "__Schema", "include", "deprecated", "reason", "zz"]
            .into_iter().map(String::from).collect();
        pool.sort(); pool.dedup();
        let mut coords: Vec<String> = vec![];
        for t in &pool {
            coords.push(t.clone());
            coords.push(format!("@{t}"));
            for f in &pool {
                coords.push(format!("{t}.{f}"));
                coords.push(format!("@{t}({f}:)"));
            }
        }
        // field arguments: restrict type × field to plausible ones, argument over the whole pool
        for t in ["Query", "a", "b", "I", "Q", "E", "In", "U", "__Type", "zz"] {
            for f in ["a", "b", "Query", "g", "f", "fields", "A", "zz"] {
                for a in &pool { coords.push(format!("{t}.{f}({a}:)")); }
            }
        }
        for c in coords {
            let Ok(coord) = c.parse::<SchemaCoordinate>() else { ctx.fail("coord-pool-unparseable", &c, "generated coordinate did not parse"); continue };
            let got = match coord.lookup(&schema) {
                Ok(SchemaCoordinateLookup::Type(t)) => {
                    if let SchemaCoordinate::Type(tc) = &coord { if t.name() != &tc.ty { ctx.fail("lookup-wrong-element", &c, "type has another name"); } }
                    "ok:type"
                }
                Ok(SchemaCoordinateLookup::Directive(d)) => {
                    if let SchemaCoordinate::Directive(dc) = &coord { if d.name != dc.directive { ctx.fail("lookup-wrong-element", &c, "directive has another name"); } }
                    "ok:directive"
                }
                Ok(SchemaCoordinateLookup::Field(f)) => {
                    if let SchemaCoordinate::TypeAttribute(tc) = &coord { if f.name != tc.attribute { ctx.fail("lookup-wrong-element", &c, "field has another name"); } }
                    "ok:field"
                }
                Ok(SchemaCoordinateLookup::InputField(f)) => {
                    if let SchemaCoordinate::TypeAttribute(tc) = &coord { if f.name != tc.attribute { ctx.fail("lookup-wrong-element", &c, "input field has another name"); } }
                    "ok:inputfield"
                }
                Ok(SchemaCoordinateLookup::EnumValue(f)) => {
                    if let SchemaCoordinate::TypeAttribute(tc) = &coord { if f.value != tc.attribute { ctx.fail("lookup-wrong-element", &c, "enum value has another name"); } }
                    "ok:enumvalue"
                }
                Ok(SchemaCoordinateLookup::Argument(a)) => {
                    let want = match &coord {
                        SchemaCoordinate::FieldArgument(fc) => Some(&fc.argument),
                        SchemaCoordinate::DirectiveArgument(dc) => Some(&dc.argument),
                        _ => None,
                    };
                    if want != Some(&a.name) { ctx.fail("lookup-wrong-element", &c, "argument has another name"); }
                    "ok:argument"
                }
                Ok(_) => "ok:other",
                Err(_) => "err",
            };
            if got != "err" { ctx.nontrivial(&format!("{}{c}", exported.len())); }
            ctx.case("lookup", &[enc(&exported), enc(&c)], got);
        }
    }
}

pub fn run(ctx: &mut Ctx) {
    let alphabet = ["a", "Z", "_", "0", ".", "(", ")", ":", "@", " ", "é"];
    let k = if ctx.thorough { 6 } else { 5 };
    let mut all = Vec::new();
    for_all_strings(&alphabet, k, |s| all.push(s.to_string()));
    ctx.stat_n("exhaustive_strings", all.len() as u64);
    for s in &all { parse_case(ctx, s); }
    // longer, near-valid strings: mutate valid coordinates
    let names = ["a", "Ab_9", "_", "Query", "x0"];
    let n = if ctx.thorough { 200_000 } else { 20_000 };
    for _ in 0..n {
        let t = *ctx.rng.pick(&names); let f = *ctx.rng.pick(&names); let a = *ctx.rng.pick(&names);
        let mut s = match ctx.rng.below(5) {
            0 => t.to_string(), 1 => format!("{t}.{f}"), 2 => format!("{t}.{f}({a}:)"), 3 => format!("@{t}"), _ => format!("@{t}({a}:)"),
        };
        let muts = ctx.rng.below(3);
        for _ in 0..muts {
            let mut cs: Vec<char> = s.chars().collect();
            let pos = ctx.rng.below(cs.len() + 1);
            let ch = ctx.rng.pick(&alphabet).chars().next().unwrap();
            match ctx.rng.below(3) {
                0 => cs.insert(pos, ch),
                1 => { if pos < cs.len() { cs.remove(pos); } }
                _ => { if pos < cs.len() { cs[pos] = ch; } }
            }
            s = cs.into_iter().collect();
        }
        parse_case(ctx, &s);
    }
    lookup_cases(ctx);
}
