//! C27 — asynchronous execution does not depend on the schedule.
//! Resolver futures and list-item streams are `Pending` a chosen number of times (waking themselves);
//! `execute_async` is driven by a manual poll loop with a counting waker; every resolver call is logged.
//! Stream `c27.exec`: plan ↦ `response|call log|number of Pending polls` (Lean model of the sequential executor).
//! Oracle on the implementation: same response and same call log as `execute_sync` over the equivalent
//! synchronous world, for every assignment of pending counts; every `Pending` is preceded by a wake-up; for
//! mutations the calls made for root field i all come before the calls made for root field i+1.
use crate::util::*;
use apollo_compiler::resolvers::{AsyncObjectValue, AsyncResolvedValue, Execution, FieldError, ObjectValue, ResolveInfo, ResolvedValue};
use apollo_compiler::validation::Valid;
use apollo_compiler::{ExecutableDocument, Schema};
use futures::future::BoxFuture;
use futures::stream::Stream;
use std::future::Future;
use std::pin::Pin;
use std::sync::atomic::{AtomicUsize, Ordering};
use std::sync::{Arc, Mutex};
use std::task::{Context, Poll, Wake, Waker};

const SCHEMA: &str = "type Query { a: Int b: T c: [T] d: [Int] e: T }
type Mutation { a: Int b: T c: [T] d: [Int] e: T }
type T { a: Int b: T c: [T] d: [Int] e: T }";

#[derive(Clone, Debug)]
enum Plan {
    Leaf(u64), Error, Obj(Vec<FieldPlan>), List(Vec<(usize, Plan)>),
    // outside the Lean model's plan language (oracle-only cases, audit G5):
    /// the resolver returns a JSON null
    Null,
    /// a list whose stream is pending `tail` more times before it ends
    ListTail(Vec<(usize, Plan)>, usize),
}
#[derive(Clone, Debug)]
struct FieldPlan { key: String, delay: usize, plan: Plan }

/// selection shape: (response key, field name, sub-shape for composite fields)
#[derive(Clone, Debug)]
struct Shape { fields: Vec<(String, String, Option<Shape>)> }

fn gen_shape(r: &mut Rng, depth: usize, budget: &mut usize) -> Shape {
    let n = 1 + r.below(3);
    let mut fields = vec![];
    let mut used = vec![];
    for _ in 0..n {
        if *budget == 0 { break; }
        let fname = *r.pick(if depth >= 3 { &["a", "d"][..] } else { &["a", "b", "c", "d", "e"][..] });
        let key = if r.chance(1, 4) { format!("k{}", r.below(3)) } else { fname.to_string() };
        if used.contains(&key) { continue; }
        used.push(key.clone());
        *budget -= 1;
        let sub = if matches!(fname, "b" | "c" | "e") { Some(gen_shape(r, depth + 1, budget)) } else { None };
        fields.push((key, fname.to_string(), sub));
    }
    if fields.is_empty() { fields.push(("a".into(), "a".into(), None)); }
    Shape { fields }
}
fn shape_text(s: &Shape) -> String {
    let items: Vec<String> = s.fields.iter().map(|(k, f, sub)| {
        let head = if k == f { f.clone() } else { format!("{k}: {f}") };
        match sub { Some(sub) => format!("{head} {}", shape_text(sub)), None => head }
    }).collect();
    format!("{{ {} }}", items.join(" "))
}
/// a world for one object instance of the shape; `delay(r)` picks the pending count of each future / item
fn gen_world(r: &mut Rng, s: &Shape, delay: &mut dyn FnMut(&mut Rng) -> usize) -> Vec<FieldPlan> {
    s.fields.iter().map(|(key, fname, sub)| {
        let d = delay(r);
        let plan = match (fname.as_str(), sub) {
            ("a", _) => if r.chance(1, 8) { Plan::Error } else { Plan::Leaf(r.below(100) as u64) },
            ("d", _) => if r.chance(1, 10) { Plan::Error } else { let n = r.below(4); Plan::List((0..n).map(|_| (delay(r), Plan::Leaf(r.below(100) as u64))).collect()) },
            ("c", Some(sub)) => { let n = r.below(3); Plan::List((0..n).map(|_| (delay(r), Plan::Obj(gen_world(r, sub, delay)))).collect()) }
            (_, Some(sub)) => if r.chance(1, 8) { Plan::Error } else { Plan::Obj(gen_world(r, sub, delay)) },
            _ => Plan::Error,
        };
        FieldPlan { key: key.clone(), delay: d, plan }
    }).collect()
}
fn enc_plan(p: &Plan, out: &mut String) {
    match p {
        Plan::Leaf(v) => out.push_str(&format!("L{v};")),
        Plan::Error => out.push('E'),
        Plan::Obj(fs) => { out.push('O'); enc_fields(fs, out); }
        Plan::List(items) => { out.push('A'); for (d, p) in items { out.push_str(&format!("I{d},")); enc_plan(p, out); } out.push('.'); }
        Plan::Null => out.push('N'),
        Plan::ListTail(items, t) => { out.push('A'); for (d, p) in items { out.push_str(&format!("I{d},")); enc_plan(p, out); } out.push_str(&format!("T{t}.")); }
    }
}
fn enc_fields(fs: &[FieldPlan], out: &mut String) {
    for f in fs { out.push_str(&format!("F{},{},", f.key, f.delay)); enc_plan(&f.plan, out); }
    out.push('.');
}
fn count_delays(fs: &[FieldPlan]) -> usize {
    fn p(pl: &Plan) -> usize { match pl { Plan::Obj(fs) => count_delays(fs), Plan::List(items) => items.iter().map(|(d, q)| d + p(q)).sum(), Plan::ListTail(items, t) => t + items.iter().map(|(d, q)| d + p(q)).sum::<usize>(), _ => 0 } }
    fs.iter().map(|f| f.delay + p(&f.plan)).sum()
}
fn count_futures(fs: &[FieldPlan]) -> usize {
    fn p(pl: &Plan) -> usize { match pl { Plan::Obj(fs) => count_futures(fs), Plan::List(items) => items.iter().map(|(_, q)| 1 + p(q)).sum(), _ => 0 } }
    fs.iter().map(|f| 1 + p(&f.plan)).sum()
}

// ---------- asynchronous world ----------
struct Delay { remaining: usize }
impl Future for Delay {
    type Output = ();
    fn poll(mut self: Pin<&mut Self>, cx: &mut Context<'_>) -> Poll<()> {
        if self.remaining > 0 { self.remaining -= 1; cx.waker().wake_by_ref(); Poll::Pending } else { Poll::Ready(()) }
    }
}
type Log = Arc<Mutex<Vec<String>>>;
struct AObj<'a> { fields: &'a [FieldPlan], path: String, log: Log }
fn a_value<'a>(plan: &'a Plan, path: String, log: Log) -> Result<AsyncResolvedValue<'a>, FieldError> {
    match plan {
        Plan::Leaf(v) => Ok(AsyncResolvedValue::Leaf((*v).into())),
        Plan::Error => Err(FieldError { message: "planned error".into() }),
        Plan::Obj(fs) => Ok(AsyncResolvedValue::Object(Box::new(AObj { fields: fs, path, log }))),
        Plan::List(items) => Ok(AsyncResolvedValue::List(Box::pin(ItemStream { items, idx: 0, remaining: items.first().map(|i| i.0).unwrap_or(0), tail: 0, path, log }))),
        Plan::Null => Ok(AsyncResolvedValue::null()),
        Plan::ListTail(items, t) => Ok(AsyncResolvedValue::List(Box::pin(ItemStream { items, idx: 0, remaining: items.first().map(|i| i.0).unwrap_or(0), tail: *t, path, log }))),
    }
}
struct ItemStream<'a> { items: &'a [(usize, Plan)], idx: usize, remaining: usize, tail: usize, path: String, log: Log }
impl<'a> Stream for ItemStream<'a> {
    type Item = Result<AsyncResolvedValue<'a>, FieldError>;
    fn poll_next(mut self: Pin<&mut Self>, cx: &mut Context<'_>) -> Poll<Option<Self::Item>> {
        if self.idx >= self.items.len() {
            if self.tail > 0 { self.tail -= 1; cx.waker().wake_by_ref(); return Poll::Pending; }
            return Poll::Ready(None);
        }
        if self.remaining > 0 { self.remaining -= 1; cx.waker().wake_by_ref(); return Poll::Pending; }
        let i = self.idx;
        self.idx += 1;
        self.remaining = self.items.get(self.idx).map(|x| x.0).unwrap_or(0);
        let items: &'a [(usize, Plan)] = self.items;
        // producing an item is resolver code too: it is part of the observable call order
        self.log.lock().unwrap().push(format!("{}/{}#", self.path, i));
        Poll::Ready(Some(a_value(&items[i].1, format!("{}/{}", self.path, i), self.log.clone())))
    }
}
impl<'a> AsyncObjectValue for AObj<'a> {
    fn type_name(&self) -> &str { if self.path.is_empty() { "Query" } else { "T" } }
    fn resolve_field<'b>(&'b self, info: &'b ResolveInfo<'b>) -> BoxFuture<'b, Result<AsyncResolvedValue<'b>, FieldError>> {
        let key = info.field_selections()[0].response_key().to_string();
        let path = format!("{}/{}", self.path, key);
        self.log.lock().unwrap().push(path.clone());
        let entry = self.fields.iter().find(|f| f.key == key);
        let log = self.log.clone();
        Box::pin(async move {
            let Some(entry) = entry else { return Err(FieldError { message: format!("no plan for {key}") }) };
            Delay { remaining: entry.delay }.await;
            a_value(&entry.plan, path, log)
        })
    }
}
// root object of a mutation must say "Mutation"
struct ARoot<'a> { inner: AObj<'a>, ty: &'static str }
impl<'a> AsyncObjectValue for ARoot<'a> {
    fn type_name(&self) -> &str { self.ty }
    fn resolve_field<'b>(&'b self, info: &'b ResolveInfo<'b>) -> BoxFuture<'b, Result<AsyncResolvedValue<'b>, FieldError>> { self.inner.resolve_field(info) }
}

// ---------- synchronous world ----------
struct SObj<'a> { fields: &'a [FieldPlan], path: String, log: Log, ty: &'static str }
fn s_value<'a>(plan: &'a Plan, path: String, log: Log) -> Result<ResolvedValue<'a>, FieldError> {
    match plan {
        Plan::Leaf(v) => Ok(ResolvedValue::leaf(*v)),
        Plan::Error => Err(FieldError { message: "planned error".into() }),
        Plan::Obj(fs) => Ok(ResolvedValue::object(SObj { fields: fs, path, log, ty: "T" })),
        Plan::Null => Ok(ResolvedValue::null()),
        Plan::List(items) | Plan::ListTail(items, _) => {
            let it = items.iter().enumerate().map(move |(i, (_, p))| {
                log.lock().unwrap().push(format!("{path}/{i}#"));
                s_value(p, format!("{path}/{i}"), log.clone())
            });
            Ok(ResolvedValue::List(Box::new(it)))
        }
    }
}
impl<'a> ObjectValue for SObj<'a> {
    fn type_name(&self) -> &str { self.ty }
    fn resolve_field<'b>(&'b self, info: &'b ResolveInfo<'b>) -> Result<ResolvedValue<'b>, FieldError> {
        let key = info.field_selections()[0].response_key().to_string();
        let path = format!("{}/{}", self.path, key);
        self.log.lock().unwrap().push(path.clone());
        let Some(entry) = self.fields.iter().find(|f| f.key == key) else { return Err(FieldError { message: format!("no plan for {key}") }) };
        s_value(&entry.plan, path, self.log.clone())
    }
}

struct CountWaker(AtomicUsize);
impl Wake for CountWaker { fn wake(self: Arc<Self>) { self.0.fetch_add(1, Ordering::SeqCst); } fn wake_by_ref(self: &Arc<Self>) { self.0.fetch_add(1, Ordering::SeqCst); } }

fn data_text(resp: &apollo_compiler::response::ExecutionResponse) -> String {
    match &resp.data { Some(m) => serde_json::to_string(m).unwrap_or_default(), None => "null".into() }
}

fn one(ctx: &mut Ctx, schema: &Valid<Schema>, mutation: bool, shape: &Shape, world: &[FieldPlan]) {
    one_m(ctx, schema, mutation, shape, world, true)
}

/// `model`: the plan is in the Lean model's language (all positions nullable, no item errors, no trailing
/// stream delay) and goes to the correspondence stream; otherwise only the oracle (async = sync, wake-ups,
/// serial root fields) is evaluated
fn one_m(ctx: &mut Ctx, schema: &Valid<Schema>, mutation: bool, shape: &Shape, world: &[FieldPlan], model: bool) {
    let src = format!("{} {}", if mutation { "mutation" } else { "query" }, shape_text(shape));
    let Ok(doc) = ExecutableDocument::parse_and_validate(schema, &src, "q.graphql") else { ctx.stat("invalid_generated"); return };
    let Ok(op) = doc.operations.get(None) else { return };
    let ty: &'static str = if mutation { "Mutation" } else { "Query" };
    let mut enc = String::new();
    enc_fields(world, &mut enc);
    let input = format!("{src} plan={enc}");
    // asynchronous run under the manual executor
    let alog: Log = Arc::new(Mutex::new(vec![]));
    let aroot = ARoot { inner: AObj { fields: world, path: String::new(), log: alog.clone() }, ty };
    let exec = Execution::new(schema, &doc).operation(op);
    let waker_state = Arc::new(CountWaker(AtomicUsize::new(0)));
    let waker: Waker = waker_state.clone().into();
    let mut cx = Context::from_waker(&waker);
    let mut pendings = 0usize;
    let mut lost_wake = false;
    let limit = count_delays(world) + 50;
    let async_result = catch(|| {
        let mut fut = Box::pin(exec.execute_async(&aroot));
        loop {
            let before = waker_state.0.load(Ordering::SeqCst);
            match fut.as_mut().poll(&mut cx) {
                Poll::Ready(r) => return Some(r),
                Poll::Pending => {
                    pendings += 1;
                    if waker_state.0.load(Ordering::SeqCst) == before { lost_wake = true; }
                    if pendings > limit { return None; }
                }
            }
        }
    });
    let aresp = match async_result {
        Ok(Some(Ok(r))) => r,
        Ok(Some(Err(e))) => { ctx.fail("async-request-error", &input, &format!("{e:?}")); return }
        Ok(None) => { ctx.fail("async-does-not-complete", &input, &format!("still Pending after {pendings} polls (planned {})", count_delays(world))); return }
        Err(m) => { ctx.fail("async-panic", &input, &m); return }
    };
    if !model {
        if aresp.data.is_none() { ctx.stat("extended:data_null"); }
        if !aresp.errors.is_empty() { ctx.stat("extended:with_field_errors"); }
        if aresp.errors.iter().any(|e| matches!(e.path.last(), Some(apollo_compiler::response::ResponseDataPathSegment::ListIndex(_)))) { ctx.stat("extended:error_at_list_item"); }
    }
    if lost_wake { ctx.fail("pending-without-wake", &input, "execute_async returned Pending although no waker was invoked"); }
    let alog_v = alog.lock().unwrap().clone();
    let atext = data_text(&aresp);
    if model { ctx.case("c27.exec", &[format!("={enc}")], &format!("{atext}|{}|{pendings}", alog_v.join(","))); } else { ctx.stat("oracle_only"); }
    // every planned pending poll is observed exactly once when nothing is cut short by a propagated null
    if !model && pendings > count_delays(world) { ctx.fail("async-more-pending-than-planned", &input, &format!("{pendings} Pending polls, {} planned", count_delays(world))); }
    // equivalent synchronous world
    let slog: Log = Arc::new(Mutex::new(vec![]));
    let sroot = SObj { fields: world, path: String::new(), log: slog.clone(), ty };
    let exec2 = Execution::new(schema, &doc).operation(op);
    match catch(|| exec2.execute_sync(&sroot)) {
        Ok(Ok(sresp)) => {
            let stext = data_text(&sresp);
            let slog_v = slog.lock().unwrap().clone();
            if stext != atext { ctx.fail("async-response-differs-from-sync", &input, &format!("async {atext} sync {stext}")); }
            if sresp.errors.len() != aresp.errors.len() || sresp.errors.iter().zip(aresp.errors.iter()).any(|(a, b)| a.path != b.path) {
                ctx.fail("async-errors-differ-from-sync", &input, &format!("async {:?} sync {:?}", aresp.errors.iter().map(|e| &e.path).collect::<Vec<_>>(), sresp.errors.iter().map(|e| &e.path).collect::<Vec<_>>()));
            }
            if slog_v != alog_v { ctx.fail("async-call-order-differs-from-sync", &input, &format!("async {alog_v:?} sync {slog_v:?}")); }
        }
        Ok(Err(e)) => ctx.fail("sync-request-error", &input, &format!("{e:?}")),
        Err(m) => ctx.fail("sync-panic", &input, &m),
    }
    // serial root fields: the calls of root field i form one block, blocks in document order
    let roots: Vec<&str> = world.iter().map(|f| f.key.as_str()).collect();
    let mut cur = 0usize;
    for entry in &alog_v {
        let root = entry.trim_start_matches('/').split('/').next().unwrap_or("");
        match roots.iter().position(|r| *r == root) {
            Some(i) if i >= cur => cur = i,
            _ => { ctx.fail(if mutation { "mutation-not-serial" } else { "root-fields-interleaved" }, &input, &format!("call log {alog_v:?}")); break }
        }
    }
    if pendings > 0 { ctx.nontrivial(&enc); }
    ctx.stat(if mutation { "mutations" } else { "queries" });
    ctx.stat_n("pending_polls", pendings as u64);
}

// ---------- extended requests (audit G5): non-null positions, null values, item-stream errors, nested lists,
// a stream that is pending before it ends.  The Lean plan language has none of these, so these cases are
// oracle-only: async response / error paths / call log = sync ones, every Pending has a wake-up, root
// fields of a mutation are serial. ----------
const SCHEMA_X: &str = "type Query { a: Int na: Int! b: T nb: T! c: [T] nc: [T!] ncn: [T!]! d: [Int] nd: [Int!] dd: [[Int!]] e: T }
type Mutation { a: Int na: Int! b: T nb: T! c: [T] nc: [T!] ncn: [T!]! d: [Int] nd: [Int!] dd: [[Int!]] e: T }
type T { a: Int na: Int! b: T nb: T! c: [T] nc: [T!] ncn: [T!]! d: [Int] nd: [Int!] dd: [[Int!]] e: T }";

fn gen_shape_x(r: &mut Rng, depth: usize, budget: &mut usize) -> Shape {
    let n = 1 + r.below(4);
    let mut fields = vec![];
    let mut used = vec![];
    for _ in 0..n {
        if *budget == 0 { break; }
        let fname = *r.pick(if depth >= 3 { &["a", "na", "d", "nd", "dd"][..] } else { &["a", "na", "b", "nb", "c", "nc", "ncn", "d", "nd", "dd", "e"][..] });
        let key = if r.chance(1, 4) { format!("k{}", r.below(3)) } else { fname.to_string() };
        if used.contains(&key) { continue; }
        used.push(key.clone());
        *budget -= 1;
        let sub = if matches!(fname, "b" | "nb" | "c" | "nc" | "ncn" | "e") { Some(gen_shape_x(r, depth + 1, budget)) } else { None };
        fields.push((key, fname.to_string(), sub));
    }
    if fields.is_empty() { fields.push(("a".into(), "a".into(), None)); }
    Shape { fields }
}

/// `bad`: per-mille rate of a null / an error at each position
fn gen_world_x(r: &mut Rng, s: &Shape, bad: u32, delay: &mut dyn FnMut(&mut Rng) -> usize) -> Vec<FieldPlan> {
    fn leaf(r: &mut Rng, bad: u32) -> Plan {
        if r.chance(bad, 1000) { Plan::Null } else if r.chance(bad, 1000) { Plan::Error } else { Plan::Leaf(r.below(100) as u64) }
    }
    s.fields.iter().map(|(key, fname, sub)| {
        let d = delay(r);
        let plan = match (fname.as_str(), sub) {
            ("a" | "na", _) => leaf(r, bad),
            ("d" | "nd", _) => if r.chance(bad, 2000) { Plan::Error } else if r.chance(bad, 2000) { Plan::Null } else {
                let n = r.below(4);
                Plan::ListTail((0..n).map(|_| (delay(r), leaf(r, bad))).collect(), delay(r))
            },
            ("dd", _) => {
                let n = r.below(3);
                Plan::ListTail((0..n).map(|_| {
                    let inner = if r.chance(bad, 2000) { Plan::Null } else { let m = r.below(3); Plan::ListTail((0..m).map(|_| (delay(r), leaf(r, bad))).collect(), delay(r)) };
                    (delay(r), inner)
                }).collect(), delay(r))
            }
            ("c" | "nc" | "ncn", Some(sub)) => if r.chance(bad, 2000) { Plan::Null } else {
                let n = r.below(3);
                Plan::ListTail((0..n).map(|_| {
                    let item = if r.chance(bad, 1000) { Plan::Null } else if r.chance(bad, 1000) { Plan::Error } else { Plan::Obj(gen_world_x(r, sub, bad, delay)) };
                    (delay(r), item)
                }).collect(), delay(r))
            },
            (_, Some(sub)) => if r.chance(bad, 1000) { Plan::Error } else if r.chance(bad, 1000) { Plan::Null } else { Plan::Obj(gen_world_x(r, sub, bad, delay)) },
            _ => Plan::Error,
        };
        FieldPlan { key: key.clone(), delay: d, plan }
    }).collect()
}

pub fn run(ctx: &mut Ctx) {
    let schema = Schema::parse_and_validate(SCHEMA, "s.graphql").expect("schema");
    // exhaustive: every assignment of 0/1/2 pending polls to the futures of small worlds
    let n_shapes = if ctx.thorough { 60 } else { 12 };
    for si in 0..n_shapes {
        let mut r = Rng(1000 + si as u64);
        let mut budget = 4usize;
        let shape = gen_shape(&mut r, 1, &mut budget);
        let base = { let mut r2 = Rng(77 + si as u64); gen_world(&mut r2, &shape, &mut |_| 0) };
        let n = count_futures(&base);
        if n > 6 { continue; }
        let total = 3usize.pow(n as u32);
        for code in 0..total {
            let mut c = code;
            let mut r2 = Rng(77 + si as u64);
            let world = gen_world(&mut r2, &shape, &mut |_| { let d = c % 3; c /= 3; d });
            one(ctx, &schema, si % 2 == 1, &shape, &world);
        }
        ctx.stat("exhaustive_shapes");
    }
    // extended requests (oracle-only): exhaustive 0/1 pending assignments on small worlds with a failure, then random
    let schema_x = Schema::parse_and_validate(SCHEMA_X, "sx.graphql").expect("schema x");
    let n_shapes_x = if ctx.thorough { 120 } else { 30 };
    for si in 0..n_shapes_x {
        let mut r = Rng(5000 + si as u64);
        let mut budget = 4usize;
        let shape = gen_shape_x(&mut r, 1, &mut budget);
        let mut n_delays = 0usize;
        { let mut r2 = Rng(99 + si as u64); let _ = gen_world_x(&mut r2, &shape, 250, &mut |_| { n_delays += 1; 0 }); }
        if n_delays > 8 { continue; }
        for code in 0..(1usize << n_delays) {
            let mut c = code;
            let mut r2 = Rng(99 + si as u64);
            let world = gen_world_x(&mut r2, &shape, 250, &mut |_| { let d = c % 2; c /= 2; d });
            one_m(ctx, &schema_x, si % 2 == 1, &shape, &world, false);
        }
        ctx.stat("extended_exhaustive_shapes");
    }
    let n = if ctx.thorough { 30_000 } else { 1_500 };
    for i in 0..n {
        let mut r = Rng(ctx.rng.next());
        let mut budget = 3 + r.below(8);
        let shape = gen_shape_x(&mut r, 0, &mut budget);
        let maxd = 1 + r.below(3);
        let bad = *r.pick(&[0u32, 60, 150, 300]);
        let world = gen_world_x(&mut r, &shape, bad, &mut |r| if r.chance(1, 2) { 0 } else { r.below(maxd + 1) });
        ctx.stat("extended_random");
        one_m(ctx, &schema_x, i % 3 == 0, &shape, &world, false);
    }
    // random beyond
    let n = if ctx.thorough { 30_000 } else { 2_500 };
    for i in 0..n {
        let mut r = Rng(ctx.rng.next());
        let mut budget = 3 + r.below(8);
        let shape = gen_shape(&mut r, 0, &mut budget);
        let maxd = 1 + r.below(4);
        let world = gen_world(&mut r, &shape, &mut |r| if r.chance(1, 2) { 0 } else { r.below(maxd + 1) });
        one(ctx, &schema, i % 3 == 0, &shape, &world);
    }
}
