//! C01 — parsing never panics / hangs / overflows the stack.
use crate::gen::{mutate, G};
use crate::pp::*;
use crate::util::*;

fn classify_panic(entry: &str, src: &str) -> &'static str {
    let sig = src.trim_matches(|c: char| c.is_whitespace() || c == ',' || c == '\u{feff}');
    match entry {
        "ty" => "parse-type-no-root-node",
        "sel" => { let _ = sig; "parse-selection-set-two-roots" }
        _ => "parse-document-panic",
    }
}

pub fn one(ctx: &mut Ctx, entry: &str, tl: Option<usize>, rl: usize, src: &str) {
    let r = case(ctx, entry, tl, rl, src);
    match r {
        Err(msg) => {
            ctx.stat("impl_panics");
            ctx.fail(classify_panic(entry, src), &format!("entry={entry} tl={tl:?} rl={rl} src={src:?}"), &msg);
        }
        Ok(p) => {
            ctx.nontrivial(&p.sexpr);
            let want_root: &[&str] = match entry { "doc" => &["DOCUMENT"], "sel" => &["SELECTION_SET"], _ => &["NAMED_TYPE", "LIST_TYPE", "NON_NULL_TYPE"] };
            if !want_root.contains(&p.root_kind.as_str()) { ctx.fail("root-kind", &format!("entry={entry} src={src:?}"), &p.root_kind); }
        }
    }
}

fn compiler_entry_points(ctx: &mut Ctx, src: &str) {
    use apollo_compiler::{ast, ExecutableDocument, Schema};
    let schema = Schema::parse_and_validate("type Query { a: Int b: Query }", "s.graphql").unwrap();
    let checks: Vec<(&str, Box<dyn Fn() + '_>)> = vec![
        ("ast::Document::parse", Box::new(|| { let _ = ast::Document::parse(src, "d.graphql"); })),
        ("Schema::parse", Box::new(|| { let _ = Schema::parse(src, "d.graphql"); })),
        ("ExecutableDocument::parse", Box::new(|| { let _ = ExecutableDocument::parse(&schema, src, "d.graphql"); })),
        ("ast::Type::parse", Box::new(|| { let _ = ast::Type::parse(src, "d.graphql"); })),
        ("FieldSet::parse", Box::new(|| { let _ = apollo_compiler::executable::FieldSet::parse(&schema, apollo_compiler::name!("Query"), src, "d.graphql"); })),
    ];
    for (name, f) in checks {
        ctx.stat("compiler_entry_calls");
        ctx.begin(&format!("{name}({src:?})"));
        if let Err(msg) = catch(f) {
            let key = match name { "ast::Type::parse" => "parse-type-no-root-node", "FieldSet::parse" => "parse-selection-set-two-roots", _ => "compiler-parse-panic" };
            ctx.fail(key, &format!("{name}({src:?})"), &msg);
        }
    }
}

/// (audit G1) the compiler's parse methods with a recursion limit and / or a token limit set on the compiler's `Parser`
fn compiler_with_limits(ctx: &mut Ctx, src: &str, tl: Option<usize>, rl: Option<usize>) {
    use apollo_compiler::parser::Parser;
    let schema = SCHEMA.with(|s| s.clone());
    let mk = || { let mut p = Parser::new(); if let Some(r) = rl { p = p.recursion_limit(r); } if let Some(t) = tl { p = p.token_limit(t); } p };
    let checks: Vec<(&str, Box<dyn Fn() + '_>)> = vec![
        ("Parser::parse_ast", Box::new(|| { let _ = mk().parse_ast(src, "d.graphql"); })),
        ("Parser::parse_schema", Box::new(|| { let _ = mk().parse_schema(src, "d.graphql"); })),
        ("Parser::parse_executable", Box::new(|| { let _ = mk().parse_executable(&schema, src, "d.graphql"); })),
        ("Parser::parse_mixed_validate", Box::new(|| { let _ = mk().parse_mixed_validate(src, "d.graphql"); })),
        ("Parser::parse_type", Box::new(|| { let _ = mk().parse_type(src, "d.graphql"); })),
        ("Parser::parse_field_set", Box::new(|| { let _ = mk().parse_field_set(&schema, apollo_compiler::name!("Query"), src, "d.graphql"); })),
    ];
    for (name, f) in checks {
        ctx.stat("compiler_entry_calls_with_limits");
        ctx.begin(&format!("{name}({src:?}) tl={tl:?} rl={rl:?}"));
        if let Err(msg) = catch(f) {
            let key = match name { "Parser::parse_type" => "parse-type-no-root-node", "Parser::parse_field_set" => "parse-selection-set-two-roots", _ => "compiler-parse-panic" };
            ctx.fail(key, &format!("{name}({src:?}) tl={tl:?} rl={rl:?}"), &msg);
        }
    }
}
thread_local! {
    static SCHEMA: apollo_compiler::validation::Valid<apollo_compiler::Schema> = apollo_compiler::Schema::parse_and_validate("type Query { a: Query b: Query f(x: Int): Query c: Int }", "s.graphql").unwrap();
}

/// (audit G1) the deterministic families of pfam.rs on all entry points and through the compiler
fn families(ctx: &mut Ctx) {
    use crate::pfam::*;
    let rls = [500usize, 0, 1, 2, 3];
    // lexical errors, an unterminated string, a stray backslash, a control character in every gap of one rich instance of every
    // definition kind, under cycling limits; every 3rd also through the compiler (with and without limits)
    let mut gaps = vec![];
    for d in RICH { fill_gaps(d, &["é", "\"", "..", "\u{1}", "1.", "\\"], |s| gaps.push(s)); }
    for (i, s) in gaps.iter().enumerate() {
        let rl = rls[i % 5];
        let tl = if i % 7 == 0 { Some(i % 23) } else { None };
        one(ctx, "doc", tl, rl, s);
        if i % 3 == 0 { compiler_entry_points(ctx, s); }
        if i % 3 == 1 { compiler_with_limits(ctx, s, tl, Some(rl)); }
    }
    ctx.stat_n("family:lexical-error-in-every-gap", gaps.len() as u64);
    // every combination of absent / empty / malformed optional parts of every definition kind, and every single-token deletion /
    // duplication / swap of the rich instances: the trees the compiler's CST→AST conversion sees with each required child missing
    let mut docs = definition_skeletons();
    docs.extend(fill(VALUE_POS_CONST, VALUE_FILLERS));
    docs.extend(fill(VALUE_POS_NOTCONST, VALUE_FILLERS));
    docs.extend(fill(DESC_POS, DESC_FILLERS));
    for d in RICH { docs.push(d.to_string()); token_edits(d, &["$", "\"s\"", "{"], |_, s| docs.push(s)); }
    for (i, s) in docs.iter().enumerate() {
        one(ctx, "doc", None, if i % 4 == 3 { i % 3 } else { 500 }, s);
        compiler_entry_points(ctx, s);
        if i % 4 == 0 { compiler_with_limits(ctx, s, if i % 8 == 0 { Some(i % 17) } else { None }, Some(i % 4)); }
    }
    ctx.stat_n("family:skeletons-and-token-edits", docs.len() as u64);
    // the selection skeletons and nesting trees through the selection-set entry point (braced and bare), types through the type entry
    let mut sels: Vec<String> = definition_skeletons().into_iter().filter(|s| s.starts_with('{')).collect();
    sels.extend(selection_trees(3, 3));
    let mut n = 0u64;
    for (i, s) in sels.iter().enumerate() {
        let bare = s.strip_prefix("{ ").and_then(|x| x.strip_suffix(" }")).unwrap_or(s).to_string();
        for v in [s.clone(), bare, format!("{s} }}"), format!(" {s}")] {
            let rl = rls[(i + n as usize) % 5];
            one(ctx, "sel", if n % 9 == 0 { Some((n % 11) as usize) } else { None }, rl, &v);
            if n % 2 == 0 { compiler_with_limits(ctx, &v, None, if n % 4 == 0 { Some(rl) } else { None }); }
            n += 1;
        }
    }
    ctx.stat_n("family:selection-entry", n);
    for (i, t) in types(4).iter().enumerate() {
        for v in [t.clone(), format!("{t} "), format!("{t} {t}"), format!("{t}]"), t.replace("Int", "é")] {
            for rl in [500usize, 0, 1, 2, 3, 4] { one(ctx, "ty", if i % 5 == 0 { Some(i % 7) } else { None }, rl, &v); compiler_with_limits(ctx, &v, None, Some(rl)); }
        }
    }
}

pub fn run(ctx: &mut Ctx) {
    let rls = [0usize, 1, 2, 3, 500];
    // corpus: known C01 witnesses
    for (e, s) in [("ty", ""), ("ty", "!"), ("sel", "é"), ("ty", " A"), ("ty", "A"), ("sel", "a"), ("sel", "{ a }"), ("doc", "")] {
        one(ctx, e, None, 500, s);
    }
    // exhaustive strings over the lexer class alphabet, three entry points
    let k = if ctx.thorough { 4 } else { 3 };
    let mut all = vec![];
    for_all_strings(&crate::p03::CLASS_ALPHABET, k, |s| all.push(s.to_string()));
    for s in &all { for e in ["doc", "sel", "ty"] { one(ctx, e, None, 500, s); } }
    // exhaustive token sequences
    let k = if ctx.thorough { 4 } else { 3 };
    let mut seqs = vec![];
    token_seqs(&TOKENS, k, |s| seqs.push(s.to_string()));
    ctx.stat_n("token_seqs", seqs.len() as u64);
    for (i, s) in seqs.iter().enumerate() {
        let rl = rls[i % rls.len()];
        let tl = match i % 7 { 0 => Some(i % 9), 1 => Some(1 + i % 4), _ => None };
        one(ctx, "doc", tl, rl, s);
        if i % 3 == 0 { one(ctx, "sel", tl, rl, s); }
        if i % 5 == 0 { one(ctx, "ty", tl, rl, s); }
    }
    // type entry: exhaustive over the type alphabet
    let mut tys = vec![];
    for_all_strings(&["A", "[", "]", "!", " ", ","], if ctx.thorough { 7 } else { 6 }, |s| tys.push(s.to_string()));
    for (i, s) in tys.iter().enumerate() { one(ctx, "ty", if i % 11 == 0 { Some(i % 5) } else { None }, rls[i % 5], s); }
    // generated documents + mutations, all limit settings
    let n = if ctx.thorough { 60_000 } else { 6_000 };
    let mut cov = std::collections::BTreeMap::new();
    for i in 0..n {
        let doc = { let mut g = G { r: &mut ctx.rng, depth: 0, cov: &mut cov }; g.document() };
        let src = if i % 2 == 0 { doc } else { mutate(&mut ctx.rng, &doc) };
        let rl = if i % 4 == 0 { ctx.rng.below(6) } else { 500 };
        let tl = if i % 5 == 0 { Some(ctx.rng.below(40)) } else { None };
        one(ctx, "doc", tl, rl, &src);
        if i % 50 == 0 { compiler_entry_points(ctx, &src); }
        if i % 10 == 3 { compiler_with_limits(ctx, &src, tl, Some(rl)); }
    }
    // (audit G1) inputs shaped like the other two entry points: generated selection sets (braced or bare) and types, mutated, with
    // lexical junk, under small limits; through the parser and through the compiler
    let n2 = if ctx.thorough { 30_000 } else { 3_000 };
    for i in 0..n2 {
        let (entry, base) = {
            let mut g = G { r: &mut ctx.rng, depth: 0, cov: &mut cov };
            if i % 3 != 2 {
                let s = g.selection_set(0);
                ("sel", if g.r.chance(1, 2) { s[1..s.len() - 1].to_string() } else { s })
            } else { let t = g.ty(0); ("ty", if g.r.chance(1, 3) { format!("[{t}]") } else { t }) }
        };
        let mut src = if i % 2 == 0 { base } else { mutate(&mut ctx.rng, &base) };
        if i % 4 == 1 {
            let pcs = crate::gen::pieces(&src);
            let at = ctx.rng.below(pcs.len() + 1);
            let ins = *ctx.rng.pick(&["é", "\"", "..", " ", ",", "#c\n", "\u{feff}", "1.", "}", "]", "!"]);
            src = pcs[..at].concat() + ins + &pcs[at..].concat();
        }
        let rl = if i % 3 == 0 { ctx.rng.below(5) } else { 500 };
        let tl = if i % 5 == 0 { Some(ctx.rng.below(16)) } else { None };
        one(ctx, entry, tl, rl, &src);
        ctx.stat(&format!("shaped_inputs:{entry}"));
        if i % 4 == 0 { compiler_with_limits(ctx, &src, tl, if i % 3 == 0 { Some(rl) } else { None }); }
    }
    families(ctx);
    for (k, v) in cov { ctx.stat_n(&format!("production:{k}"), v); }
    for s in repo_documents() { one(ctx, "doc", None, 500, &s); compiler_entry_points(ctx, &s); }
    for s in ["", "!", "é", " ", "[", "[[[", "a", "{", "\"", "..."] { compiler_entry_points(ctx, s); }
    // deep nesting at and around limits, on a small stack in a thread (stack clause; exploration)
    for depth in [10usize, 499, 500, 501, 2000] {
        for (open, close, pre, post) in [("{a", "}", "", ""), ("[", "]", "{a(x:", "1)}"), ("[", "]", "query($v:", "Int){a}")] {
            let src = format!("{pre}{}{}{post}", open.repeat(depth), close.repeat(depth));
            let src2 = src.clone();
            ctx.begin(&format!("deep nesting: entry=doc depth {depth} of {open:?} in {pre:?}"));
            let h = std::thread::Builder::new().stack_size(2 * 1024 * 1024).spawn(move || run_parser("doc", None, 500, &src2).is_ok()).unwrap();
            match h.join() { Ok(true) => ctx.stat("deep_nesting_ok"), _ => ctx.fail("deep-nesting-panic", &format!("depth {depth} of {open}"), "panic or stack overflow at the default recursion limit") }
        }
    }
    // (audit G1) every construct that nests (object values, mixed list/object values, inline fragments with and without type condition,
    // fields with arguments at every level, constant values in type-system positions), closed / unclosed / closers only, on all three
    // entry points and through the compiler, at the default recursion limit
    let deep: [(&str, &str, &str, &str, &str, &str); 14] = [
        ("doc", "{a(x:", "{k:", "1", "}", ")}"), ("doc", "{a(x:", "[{k:", "1", "}]", ")}"), ("doc", "{a(x:", "{k:[", "1", "]}", ")}"), ("doc", "", "{...", "{a}", "}", ""), ("doc", "", "{...on T", "{a}", "}", ""),
        ("doc", "", "{a(x:[1])@d(y:{k:1})", "", "}", ""), ("doc", "type T{f(a:T=", "[", "1", "]", "):T}"), ("doc", "input I{a:T=", "{k:", "1", "}", "}"), ("doc", "directive @d(a:", "[", "T", "]", ") on FIELD"),
        ("doc", "extend schema @d(x:", "[{k:", "1", "}]", ")"), ("sel", "", "a{", "b", "}", ""), ("sel", "a(x:", "[", "1", "]", ")"), ("ty", "", "[", "A", "]!", ""), ("ty", " ", "[", "é", "]", " x"),
    ];
    for depth in [499usize, 500, 501, 3000] {
        for (entry, pre, open, mid, close, post) in deep {
            for shape in 0..3 {
                let src = match shape { 0 => format!("{pre}{}{mid}{}{post}", open.repeat(depth), close.repeat(depth)), 1 => format!("{pre}{}", open.repeat(depth)), _ => format!("{pre}{mid}{}{post}", close.repeat(depth)) };
                let label = format!("deep nesting: entry={entry} depth {depth} of {open:?} in {pre:?} shape {shape}");
                ctx.begin(&label);
                let (src2, e2) = (src.clone(), entry.to_string());
                let h = std::thread::Builder::new().stack_size(2 * 1024 * 1024).spawn(move || {
                    let ok = run_parser(&e2, None, 500, &src2).is_ok();
                    let c = catch(|| { use apollo_compiler::parser::Parser; match e2.as_str() {
                        "doc" => { let _ = Parser::new().parse_ast(&src2, "d.graphql"); }
                        "sel" => { let s = SCHEMA.with(|s| s.clone()); let _ = Parser::new().parse_field_set(&s, apollo_compiler::name!("Query"), &src2, "d.graphql"); }
                        _ => { let _ = Parser::new().parse_type(&src2, "d.graphql"); } } });
                    ok && c.is_ok()
                }).unwrap();
                match h.join() { Ok(true) => ctx.stat("deep_nesting_ok"), _ => ctx.fail("deep-nesting-panic", &label, "panic or stack overflow at the default recursion limit") }
            }
        }
    }
    // long flat inputs (loops, not recursion): many siblings of every repeated construct
    for (entry, pre, item, post) in [("doc", "{", " a", "}"), ("doc", "{a", " @d", "}"), ("doc", "{a(", "x:1 ", ")}"), ("doc", "{a(x:[", "1 ", "])}"), ("doc", "{a(x:{", "k:1 ", "})}"), ("doc", "", "scalar S ", ""),
        ("doc", "type T{", "f:Int ", "}"), ("doc", "enum E{", "A ", "}"), ("doc", "union U=A", "|B", ""), ("doc", "type T implements I", "&J", ""), ("doc", "directive @d on FIELD", "|QUERY", ""),
        ("doc", "query(", "$v:Int ", "){a}"), ("doc", "", "} ", ""), ("doc", "", "é", ""), ("sel", "", "a ", ""), ("ty", "A", "!", ""), ("ty", "A", " ,", "")] {
        let src = format!("{pre}{}{post}", item.repeat(20_000));
        let label = format!("long flat input: entry={entry} 20000 × {item:?} in {pre:?}");
        ctx.begin(&label);
        // on the same small stack as the deep inputs: a loop turned into recursion shows here
        let e2 = entry.to_string();
        let h = std::thread::Builder::new().stack_size(2 * 1024 * 1024).spawn(move || {
            use apollo_parser::Parser;
            catch(|| match e2.as_str() {
                "doc" => { let t = Parser::new(&src).parse(); t.errors().len() + if e2.is_empty() { 0 } else { apollo_compiler::ast::Document::parse(src.as_str(), "d.graphql").is_ok() as usize } }
                "sel" => Parser::new(&src).parse_selection_set().errors().len(),
                _ => Parser::new(&src).parse_type().errors().len(),
            }).is_ok()
        }).unwrap();
        match h.join() { Ok(true) => ctx.stat("long_flat_ok"), _ => ctx.fail("deep-nesting-panic", &label, "panic or stack overflow on a long flat input") }
    }
}
