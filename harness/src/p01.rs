//! C01 — parsing never panics / hangs / overflows the stack.
use crate::gen::{mutate, G};
use crate::pp::*;
use crate::util::*;

fn classify_panic(entry: &str, src: &str) -> &'static str {
    let sig = src.trim_matches(|c: char| c.is_whitespace() || c == ',' || c == '\u{feff}');
    match entry {
        "ty" => "parse-type-no-root-node",
        "sel" => { let _ = sig; "parse-selection-set-two-roots" }
        _ => "parse-document-panic",
    }
}

pub fn one(ctx: &mut Ctx, entry: &str, tl: Option<usize>, rl: usize, src: &str) {
    let r = case(ctx, entry, tl, rl, src);
    match r {
        Err(msg) => {
            ctx.stat("impl_panics");
            ctx.fail(classify_panic(entry, src), &format!("entry={entry} tl={tl:?} rl={rl} src={src:?}"), &msg);
        }
        Ok(p) => {
            ctx.nontrivial(&p.sexpr);
            let want_root: &[&str] = match entry { "doc" => &["DOCUMENT"], "sel" => &["SELECTION_SET"], _ => &["NAMED_TYPE", "LIST_TYPE", "NON_NULL_TYPE"] };
            if !want_root.contains(&p.root_kind.as_str()) { ctx.fail("root-kind", &format!("entry={entry} src={src:?}"), &p.root_kind); }
        }
    }
}

fn compiler_entry_points(ctx: &mut Ctx, src: &str) {
    use apollo_compiler::{ast, ExecutableDocument, Schema};
    let schema = Schema::parse_and_validate("type Query { a: Int b: Query }", "s.graphql").unwrap();
    let checks: Vec<(&str, Box<dyn Fn() + '_>)> = vec![
        ("ast::Document::parse", Box::new(|| { let _ = ast::Document::parse(src, "d.graphql"); })),
        ("Schema::parse", Box::new(|| { let _ = Schema::parse(src, "d.graphql"); })),
        ("ExecutableDocument::parse", Box::new(|| { let _ = ExecutableDocument::parse(&schema, src, "d.graphql"); })),
        ("ast::Type::parse", Box::new(|| { let _ = ast::Type::parse(src, "d.graphql"); })),
        ("FieldSet::parse", Box::new(|| { let _ = apollo_compiler::executable::FieldSet::parse(&schema, apollo_compiler::name!("Query"), src, "d.graphql"); })),
    ];
    for (name, f) in checks {
        ctx.stat("compiler_entry_calls");
        if let Err(msg) = catch(f) {
            let key = match name { "ast::Type::parse" => "parse-type-no-root-node", "FieldSet::parse" => "parse-selection-set-two-roots", _ => "compiler-parse-panic" };
            ctx.fail(key, &format!("{name}({src:?})"), &msg);
        }
    }
}

pub fn run(ctx: &mut Ctx) {
    let rls = [0usize, 1, 2, 3, 500];
    // corpus: known C01 witnesses
    for (e, s) in [("ty", ""), ("ty", "!"), ("sel", "é"), ("ty", " A"), ("ty", "A"), ("sel", "a"), ("sel", "{ a }"), ("doc", "")] {
        one(ctx, e, None, 500, s);
    }
    // exhaustive strings over the lexer class alphabet, three entry points
    let k = if ctx.thorough { 4 } else { 3 };
    let mut all = vec![];
    for_all_strings(&crate::p03::CLASS_ALPHABET, k, |s| all.push(s.to_string()));
    for s in &all { for e in ["doc", "sel", "ty"] { one(ctx, e, None, 500, s); } }
    // exhaustive token sequences
    let k = if ctx.thorough { 4 } else { 3 };
    let mut seqs = vec![];
    token_seqs(&TOKENS, k, |s| seqs.push(s.to_string()));
    ctx.stat_n("token_seqs", seqs.len() as u64);
    for (i, s) in seqs.iter().enumerate() {
        let rl = rls[i % rls.len()];
        let tl = match i % 7 { 0 => Some(i % 9), 1 => Some(1 + i % 4), _ => None };
        one(ctx, "doc", tl, rl, s);
        if i % 3 == 0 { one(ctx, "sel", tl, rl, s); }
        if i % 5 == 0 { one(ctx, "ty", tl, rl, s); }
    }
    // type entry: exhaustive over the type alphabet
    let mut tys = vec![];
    for_all_strings(&["A", "[", "]", "!", " ", ","], if ctx.thorough { 7 } else { 6 }, |s| tys.push(s.to_string()));
    for (i, s) in tys.iter().enumerate() { one(ctx, "ty", if i % 11 == 0 { Some(i % 5) } else { None }, rls[i % 5], s); }
    // generated documents + mutations, all limit settings
    let n = if ctx.thorough { 60_000 } else { 6_000 };
    let mut cov = std::collections::BTreeMap::new();
    for i in 0..n {
        let doc = { let mut g = G { r: &mut ctx.rng, depth: 0, cov: &mut cov }; g.document() };
        let src = if i % 2 == 0 { doc } else { mutate(&mut ctx.rng, &doc) };
        let rl = if i % 4 == 0 { ctx.rng.below(6) } else { 500 };
        let tl = if i % 5 == 0 { Some(ctx.rng.below(40)) } else { None };
        one(ctx, "doc", tl, rl, &src);
        if i % 50 == 0 { compiler_entry_points(ctx, &src); }
    }
    for (k, v) in cov { ctx.stat_n(&format!("production:{k}"), v); }
    for s in repo_documents() { one(ctx, "doc", None, 500, &s); compiler_entry_points(ctx, &s); }
    for s in ["", "!", "é", " ", "[", "[[[", "a", "{", "\"", "..."] { compiler_entry_points(ctx, s); }
    // deep nesting at and around limits, on a small stack in a thread (stack clause; exploration)
    for depth in [10usize, 499, 500, 501, 2000] {
        for (open, close, pre, post) in [("{a", "}", "", ""), ("[", "]", "{a(x:", "1)}"), ("[", "]", "query($v:", "Int){a}")] {
            let src = format!("{pre}{}{}{post}", open.repeat(depth), close.repeat(depth));
            let src2 = src.clone();
            let h = std::thread::Builder::new().stack_size(2 * 1024 * 1024).spawn(move || run_parser("doc", None, 500, &src2).is_ok()).unwrap();
            match h.join() { Ok(true) => ctx.stat("deep_nesting_ok"), _ => ctx.fail("deep-nesting-panic", &format!("depth {depth} of {open}"), "panic or stack overflow at the default recursion limit") }
        }
    }
}
