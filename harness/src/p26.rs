//! C26 — execution follows the GraphQL execution algorithm.
//!
//! Stream `c26.exec`: (schema, operation+fragments, coerced variables, resolver world) ↦ response
//! (`data` with key order, sorted error paths).  The real code is `resolvers::Execution::execute_sync`
//! over `ObjectValue`s that serve a *world* table `(object id, field name) ↦ resolved value`.
//! The oracle is a reference executor written from the GraphQL specification (October 2021 §6.3, §6.4:
//! CollectFields, ExecuteSelectionSet, ExecuteField, CoerceArgumentValues, CompleteValue,
//! ResolveAbstractType, "Handling Field Errors") plus apollo-compiler's documented choices; it works on the
//! generator's own descriptions and never calls apollo's execution code.
//! The generators (schemas, operations, worlds) are `pub` for C27.
use crate::p28::{toks, Lit, Ty, JV};
use crate::util::*;
use apollo_compiler::resolvers::{Execution, FieldError, ObjectValue, ResolveInfo, ResolvedValue};
use apollo_compiler::validation::Valid;
use apollo_compiler::{ExecutableDocument, Schema};
use serde_json_bytes::Value as SJ;
use std::collections::{BTreeMap, BTreeSet, HashMap};

// ───────────────────────── schema description ─────────────────────────

#[derive(Clone, Debug)]
pub struct ArgDef { pub name: String, pub ty: Ty, pub default: Option<Lit> }
#[derive(Clone, Debug)]
pub struct FieldDef { pub name: String, pub args: Vec<ArgDef>, pub ty: Ty }
#[derive(Clone, Debug)]
pub struct ObjDef { pub name: String, pub implements: Vec<String>, pub fields: Vec<FieldDef> }
#[derive(Clone, Debug)]
pub struct SchemaD {
    pub scalars: Vec<String>,
    pub enums: Vec<(String, Vec<String>)>,
    pub inputs: Vec<(String, Vec<ArgDef>)>,
    pub interfaces: Vec<(String, Vec<FieldDef>)>,
    pub unions: Vec<(String, Vec<String>)>,
    pub objects: Vec<ObjDef>,
    pub query: String,
}

pub fn ty(s: &str) -> Ty {
    let s = s.trim();
    if let Some(inner) = s.strip_suffix('!') {
        return match ty(inner) { Ty::Named(n) => Ty::NonNullNamed(n), Ty::List(t) => Ty::NonNullList(t), t => t };
    }
    if let Some(inner) = s.strip_prefix('[') { return Ty::List(Box::new(ty(inner.strip_suffix(']').expect("]")))); }
    Ty::Named(s.to_string())
}

pub fn inner_name(t: &Ty) -> &str {
    match t { Ty::Named(n) | Ty::NonNullNamed(n) => n, Ty::List(t) | Ty::NonNullList(t) => inner_name(t) }
}

fn fd(name: &str, t: &str) -> FieldDef { FieldDef { name: name.into(), args: vec![], ty: ty(t) } }
fn fda(name: &str, args: Vec<ArgDef>, t: &str) -> FieldDef { FieldDef { name: name.into(), args, ty: ty(t) } }
fn ad(name: &str, t: &str, d: Option<Lit>) -> ArgDef { ArgDef { name: name.into(), ty: ty(t), default: d } }

impl SchemaD {
    pub fn object(&self, n: &str) -> Option<&ObjDef> { self.objects.iter().find(|o| o.name == n) }
    pub fn is_interface(&self, n: &str) -> bool { self.interfaces.iter().any(|(k, _)| k == n) }
    pub fn union(&self, n: &str) -> Option<&Vec<String>> { self.unions.iter().find(|(k, _)| k == n).map(|(_, m)| m) }
    pub fn is_composite(&self, n: &str) -> bool { self.object(n).is_some() || self.is_interface(n) || self.union(n).is_some() }
    /// the object types a value of composite type `n` can have
    pub fn possible(&self, n: &str) -> Vec<String> {
        if self.object(n).is_some() { return vec![n.to_string()]; }
        if let Some(m) = self.union(n) { return m.clone(); }
        self.objects.iter().filter(|o| o.implements.iter().any(|i| i == n)).map(|o| o.name.clone()).collect()
    }
    /// fields selectable on composite type `n` (without `__typename`)
    pub fn fields_of(&self, n: &str) -> Vec<FieldDef> {
        if let Some(o) = self.object(n) { return o.fields.clone(); }
        if let Some((_, f)) = self.interfaces.iter().find(|(k, _)| k == n) { return f.clone(); }
        vec![]
    }
    pub fn sdl(&self) -> String {
        let mut s = String::new();
        let fields = |fs: &Vec<FieldDef>| -> String {
            fs.iter().map(|f| {
                let args = if f.args.is_empty() { String::new() } else {
                    format!("({})", f.args.iter().map(|a| format!("{}: {}{}", a.name, a.ty.print(), a.default.as_ref().map(|d| format!(" = {}", d.print())).unwrap_or_default())).collect::<Vec<_>>().join(", "))
                };
                format!("  {}{}: {}\n", f.name, args, f.ty.print())
            }).collect()
        };
        for n in &self.scalars { s.push_str(&format!("scalar {n}\n")); }
        for (n, vs) in &self.enums { s.push_str(&format!("enum {n} {{ {} }}\n", vs.join(" "))); }
        for (n, fs) in &self.inputs {
            s.push_str(&format!("input {n} {{\n"));
            for f in fs { s.push_str(&format!("  {}: {}{}\n", f.name, f.ty.print(), f.default.as_ref().map(|d| format!(" = {}", d.print())).unwrap_or_default())); }
            s.push_str("}\n");
        }
        for (n, fs) in &self.interfaces { s.push_str(&format!("interface {n} {{\n{}}}\n", fields(fs))); }
        for (n, ms) in &self.unions { s.push_str(&format!("union {n} = {}\n", ms.join(" | "))); }
        for o in &self.objects {
            let imp = if o.implements.is_empty() { String::new() } else { format!(" implements {}", o.implements.join(" & ")) };
            s.push_str(&format!("type {}{} {{\n{}}}\n", o.name, imp, fields(&o.fields)));
        }
        s.push_str(&format!("schema {{ query: {} }}\n", self.query));
        s
    }
    pub fn enc(&self) -> String {
        let mut out = vec![format!("q{}", self.query)];
        let defs = |out: &mut Vec<String>, ds: &Vec<ArgDef>, tag: char| {
            out.push(ds.len().to_string());
            for a in ds {
                out.push(format!("{tag}{}", a.name));
                a.ty.enc(out);
                match &a.default { None => out.push("-".into()), Some(d) => { out.push("=".into()); d.enc(out) } }
            }
        };
        out.push((self.scalars.len() + self.enums.len() + self.inputs.len() + self.interfaces.len() + self.unions.len() + self.objects.len()).to_string());
        for n in &self.scalars { out.push(format!("S{n}")); }
        for (n, vs) in &self.enums { out.push(format!("E{n}")); out.push(vs.len().to_string()); for v in vs { out.push(format!("v{v}")) } }
        for (n, fs) in &self.inputs { out.push(format!("I{n}")); defs(&mut out, fs, 'f'); }
        for (n, _) in &self.interfaces { out.push(format!("F{n}")); }
        for (n, ms) in &self.unions { out.push(format!("U{n}")); out.push(ms.len().to_string()); for m in ms { out.push(format!("m{m}")) } }
        for o in &self.objects {
            out.push(format!("O{}", o.name));
            out.push(o.implements.len().to_string());
            for i in &o.implements { out.push(format!("m{i}")) }
            out.push(o.fields.len().to_string());
            for f in &o.fields {
                out.push(format!("f{}", f.name));
                defs(&mut out, &f.args, 'a');
                f.ty.enc(&mut out);
            }
        }
        toks(out)
    }
}

pub fn schema_a() -> SchemaD {
    SchemaD {
        scalars: vec!["Any".into()],
        enums: vec![("Color".into(), vec!["RED".into(), "GREEN".into()])],
        inputs: vec![("Pt".into(), vec![ad("x", "Int!", None), ad("y", "Int", Some(Lit::Int(7))), ad("l", "[Int!]", None)])],
        interfaces: vec![("Node".into(), vec![fd("id", "ID!")]), ("Named".into(), vec![fd("name", "String")])],
        unions: vec![("Pet".into(), vec!["Dog".into(), "Cat".into()])],
        objects: vec![
            ObjDef { name: "Query".into(), implements: vec![], fields: vec![
                fd("i", "Int"), fd("ni", "Int!"), fd("f", "Float"), fd("s", "String"), fd("b", "Boolean"), fd("id", "ID"), fd("c", "Color"), fd("nc", "Color!"), fd("any", "Any"),
                fd("li", "[Int]"), fd("lni", "[Int!]"), fd("nlni", "[Int!]!"), fd("lli", "[[Int!]]"), fd("llni", "[[Int]!]"),
                fd("dog", "Dog"), fd("ndog", "Dog!"), fd("node", "Node"), fd("nnode", "Node!"), fd("named", "Named"), fd("pet", "Pet"), fd("pets", "[Pet]"), fd("npets", "[Pet!]"), fd("nodes", "[Node!]!"),
                fd("self", "Query"), fd("nself", "Query!"),
                fda("echo", vec![ad("a", "Int", Some(Lit::Int(5))), ad("b", "[Int!]", None), ad("p", "Pt", None), ad("c", "Color", None)], "Any"),
                fda("echoR", vec![ad("r", "String!", None), ad("n", "Int!", Some(Lit::Int(5)))], "Any!"),
                fda("echoN", vec![ad("n", "Int!", Some(Lit::Int(5))), ad("p", "Pt", None)], "Any"),
            ] },
            ObjDef { name: "Dog".into(), implements: vec!["Node".into(), "Named".into()], fields: vec![
                fd("id", "ID!"), fd("name", "String"), fd("bark", "Int!"), fd("owner", "Human"), fd("friends", "[Pet!]"), fd("mate", "Dog"),
                fda("echo", vec![ad("a", "Int", Some(Lit::Int(5))), ad("n", "Int!", Some(Lit::Int(1)))], "Any"),
            ] },
            ObjDef { name: "Cat".into(), implements: vec!["Node".into()], fields: vec![fd("id", "ID!"), fd("name", "String"), fd("lives", "Int"), fd("nlives", "Int!")] },
            ObjDef { name: "Human".into(), implements: vec!["Named".into()], fields: vec![fd("name", "String"), fd("pets", "[Pet]"), fd("age", "Int!")] },
        ],
        query: "Query".into(),
    }
}

/// a second, smaller schema with other nesting (root type not called Query, union of one member, deep non-null chain)
pub fn schema_b() -> SchemaD {
    SchemaD {
        scalars: vec![],
        enums: vec![],
        inputs: vec![],
        interfaces: vec![("Box".into(), vec![fd("v", "Int!")])],
        unions: vec![("One".into(), vec!["A".into()])],
        objects: vec![
            ObjDef { name: "Root".into(), implements: vec![], fields: vec![fd("a", "A!"), fd("oa", "A"), fd("bx", "Box"), fd("boxes", "[Box!]"), fd("one", "One!"), fd("grid", "[[A!]!]"), fd("v", "Int")] },
            ObjDef { name: "A".into(), implements: vec!["Box".into()], fields: vec![fd("v", "Int!"), fd("next", "A!"), fd("on", "A"), fd("w", "String!")] },
            ObjDef { name: "B".into(), implements: vec!["Box".into()], fields: vec![fd("v", "Int!"), fd("a", "A!"), fd("z", "Float")] },
        ],
        query: "Root".into(),
    }
}

// ───────────────────────── operations ─────────────────────────

/// argument value: a constant literal that may contain variables
#[derive(Clone, Debug, PartialEq)]
pub enum AV { Var(String), Null, Bool(bool), Int(i128), Float(String), Str(String), Enum(String), List(Vec<AV>), Obj(Vec<(String, AV)>) }

#[derive(Clone, Debug, PartialEq)]
pub enum Cond { Const(bool), Var(String) }

#[derive(Clone, Debug, Default, PartialEq)]
pub struct Dirs { pub skip: Option<Cond>, pub include: Option<Cond> }

#[derive(Clone, Debug)]
pub enum Sel {
    Field { alias: Option<String>, name: String, args: Vec<(String, AV)>, dirs: Dirs, sub: Vec<Sel> },
    Spread { name: String, dirs: Dirs },
    Inline { cond: Option<String>, dirs: Dirs, sub: Vec<Sel> },
}

#[derive(Clone, Debug)]
pub struct Frag { pub name: String, pub cond: String, pub sub: Vec<Sel> }

#[derive(Clone, Debug)]
pub struct VarDecl { pub name: String, pub ty: Ty, pub default: Option<Lit> }

#[derive(Clone, Debug)]
pub struct Op { pub vars: Vec<VarDecl>, pub sels: Vec<Sel>, pub frags: Vec<Frag> }

impl AV {
    fn print(&self) -> String {
        match self {
            AV::Var(n) => format!("${n}"), AV::Null => "null".into(), AV::Bool(b) => b.to_string(), AV::Int(i) => i.to_string(), AV::Float(t) => t.clone(),
            AV::Str(s) => format!("\"{s}\""), AV::Enum(e) => e.clone(),
            AV::List(xs) => format!("[{}]", xs.iter().map(|x| x.print()).collect::<Vec<_>>().join(", ")),
            AV::Obj(kvs) => format!("{{{}}}", kvs.iter().map(|(k, v)| format!("{k}: {}", v.print())).collect::<Vec<_>>().join(", ")),
        }
    }
    fn enc(&self, out: &mut Vec<String>) {
        match self {
            AV::Var(n) => out.push(format!("q{n}")), AV::Null => out.push("z".into()), AV::Bool(b) => out.push(if *b { "t" } else { "f" }.into()),
            AV::Int(i) => out.push(format!("i{i}")), AV::Float(t) => out.push(format!("d{t}")), AV::Str(s) => out.push(format!("s{s}")), AV::Enum(e) => out.push(format!("e{e}")),
            AV::List(xs) => { out.push(format!("a{}", xs.len())); for x in xs { x.enc(out) } }
            AV::Obj(kvs) => { out.push(format!("o{}", kvs.len())); for (k, v) in kvs { out.push(format!("k{k}")); v.enc(out) } }
        }
    }
    fn vars(&self, out: &mut BTreeSet<String>) {
        match self { AV::Var(n) => { out.insert(n.clone()); } AV::List(xs) => xs.iter().for_each(|x| x.vars(out)), AV::Obj(kvs) => kvs.iter().for_each(|(_, x)| x.vars(out)), _ => {} }
    }
}

impl Dirs {
    fn print(&self) -> String {
        let c = |c: &Cond| match c { Cond::Const(b) => b.to_string(), Cond::Var(n) => format!("${n}") };
        let mut s = String::new();
        if let Some(x) = &self.skip { s.push_str(&format!(" @skip(if: {})", c(x))); }
        if let Some(x) = &self.include { s.push_str(&format!(" @include(if: {})", c(x))); }
        s
    }
    fn enc(&self, out: &mut Vec<String>) {
        for c in [&self.skip, &self.include] {
            out.push(match c { None => "-".into(), Some(Cond::Const(true)) => "t".into(), Some(Cond::Const(false)) => "f".into(), Some(Cond::Var(n)) => format!("v{n}") });
        }
    }
    fn vars(&self, out: &mut BTreeSet<String>) {
        for c in [&self.skip, &self.include] { if let Some(Cond::Var(n)) = c { out.insert(n.clone()); } }
    }
}

fn print_sels(sels: &[Sel], out: &mut String) {
    out.push_str("{ ");
    for s in sels {
        match s {
            Sel::Field { alias, name, args, dirs, sub } => {
                if let Some(a) = alias { out.push_str(&format!("{a}: ")); }
                out.push_str(name);
                if !args.is_empty() { out.push_str(&format!("({})", args.iter().map(|(k, v)| format!("{k}: {}", v.print())).collect::<Vec<_>>().join(", "))); }
                out.push_str(&dirs.print());
                out.push(' ');
                if !sub.is_empty() { print_sels(sub, out); }
            }
            Sel::Spread { name, dirs } => out.push_str(&format!("...{name}{} ", dirs.print())),
            Sel::Inline { cond, dirs, sub } => {
                out.push_str("... ");
                if let Some(c) = cond { out.push_str(&format!("on {c}")); }
                out.push_str(&dirs.print());
                out.push(' ');
                print_sels(sub, out);
            }
        }
    }
    out.push_str("} ");
}

fn enc_sels(sels: &[Sel], out: &mut Vec<String>) {
    out.push(sels.len().to_string());
    for s in sels {
        match s {
            Sel::Field { alias, name, args, dirs, sub } => {
                out.push("F".into());
                out.push(match alias { Some(a) => format!("a{a}"), None => "-".into() });
                out.push(format!("f{name}"));
                out.push(args.len().to_string());
                for (k, v) in args { out.push(format!("k{k}")); v.enc(out); }
                dirs.enc(out);
                enc_sels(sub, out);
            }
            Sel::Spread { name, dirs } => { out.push(format!("P{name}")); dirs.enc(out); }
            Sel::Inline { cond, dirs, sub } => {
                out.push("N".into());
                out.push(match cond { Some(c) => format!("c{c}"), None => "-".into() });
                dirs.enc(out);
                enc_sels(sub, out);
            }
        }
    }
}

fn sel_vars(sels: &[Sel], out: &mut BTreeSet<String>) {
    for s in sels {
        match s {
            Sel::Field { args, dirs, sub, .. } => { args.iter().for_each(|(_, v)| v.vars(out)); dirs.vars(out); sel_vars(sub, out); }
            Sel::Spread { dirs, .. } => dirs.vars(out),
            Sel::Inline { dirs, sub, .. } => { dirs.vars(out); sel_vars(sub, out); }
        }
    }
}

impl Op {
    pub fn text(&self) -> String {
        let mut s = String::from("query");
        if !self.vars.is_empty() {
            s.push('(');
            for v in &self.vars {
                s.push_str(&format!("${}: {}{} ", v.name, v.ty.print(), v.default.as_ref().map(|d| format!(" = {}", d.print())).unwrap_or_default()));
            }
            s.push(')');
        }
        s.push(' ');
        print_sels(&self.sels, &mut s);
        for f in &self.frags {
            s.push_str(&format!("fragment {} on {} ", f.name, f.cond));
            print_sels(&f.sub, &mut s);
        }
        s
    }
    pub fn enc(&self) -> String {
        let mut out = vec![self.frags.len().to_string()];
        for f in &self.frags { out.push(format!("g{}", f.name)); out.push(format!("c{}", f.cond)); enc_sels(&f.sub, &mut out); }
        enc_sels(&self.sels, &mut out);
        toks(out)
    }
}

/// the variables every generated operation may use: (declaration, raw value provided in the request)
pub fn var_pool() -> Vec<(VarDecl, Option<JV>)> {
    let v = |n: &str, t: &str, d: Option<Lit>, val: Option<JV>| (VarDecl { name: n.into(), ty: ty(t), default: d }, val);
    vec![
        v("t", "Boolean!", None, Some(JV::Bool(true))),
        v("f", "Boolean!", None, Some(JV::Bool(false))),
        v("d", "Boolean", Some(Lit::Bool(true)), None),
        // explicit null for a nullable variable with a default: `if: $dn` is then neither true nor false
        v("dn", "Boolean", Some(Lit::Bool(false)), Some(JV::Null)),
        v("vi", "Int", None, Some(JV::Int(3))),
        v("vn", "Int", None, Some(JV::Null)),
        v("va", "Int", None, None),
        v("vs", "String!", None, Some(JV::Str("hi".into()))),
        v("vp", "Pt", None, Some(JV::Obj(vec![("x".into(), JV::Int(4))]))),
        v("vb", "[Int!]", None, Some(JV::Int(2))),
        v("vc", "Color", None, Some(JV::Str("GREEN".into()))),
    ]
}

// ───────────────────────── worlds ─────────────────────────

/// what a resolver returns for one field of one object
#[derive(Clone, Debug, PartialEq)]
pub enum RV {
    Leaf(JV),
    /// `Err(FieldError)`: of the resolver, or (inside a list) of the item stream
    Error,
    List(Vec<RV>),
    /// object of the named type with a fresh identity
    Object(String, usize),
    /// `ResolvedValue::SkipForPartialExecution`
    Skip,
    /// leaf: the coerced arguments as a JSON object
    Echo,
}

#[derive(Clone, Debug, Default)]
pub struct World { pub table: BTreeMap<(usize, String), RV>, pub next_id: usize }

impl RV {
    fn enc(&self, out: &mut Vec<String>) {
        match self {
            RV::Leaf(j) => { out.push("l".into()); j.enc(out) }
            RV::Error => out.push("x".into()),
            RV::Skip => out.push("s".into()),
            RV::Echo => out.push("e".into()),
            RV::List(xs) => { out.push(format!("L{}", xs.len())); for x in xs { x.enc(out) } }
            RV::Object(t, id) => { out.push(format!("o{t}")); out.push(id.to_string()) }
        }
    }
}

impl World {
    pub fn enc(&self) -> String {
        let mut out = vec![self.table.len().to_string()];
        for ((id, f), rv) in &self.table { out.push(id.to_string()); out.push(format!("w{f}")); rv.enc(&mut out); }
        toks(out)
    }
}

/// how resolver values are generated on demand (the first time the reference executor asks)
pub struct WorldGen<'r> { pub rng: &'r mut Rng, pub deviate_pct: u32, pub forced: HashMap<String, RV> }

const LEAF_ATOMS: [&str; 0] = [];

fn leaf_atoms() -> Vec<JV> {
    let _ = LEAF_ATOMS;
    vec![
        JV::Int(0), JV::Int(7), JV::Int(-1), JV::Int((1 << 31) - 1), JV::Int(1 << 31), JV::Int(-(1 << 31) - 1), JV::Int(i64::MAX as i128), JV::Int(i64::MAX as i128 + 1),
        JV::Float("1.5".into()), JV::Float("3.0".into()), JV::Str("abc".into()), JV::Str("RED".into()), JV::Str("red".into()), JV::Str("7".into()), JV::Str("".into()),
        JV::Bool(true), JV::Bool(false), JV::Arr(vec![JV::Int(1)]), JV::Obj(vec![("k".into(), JV::Int(1))]),
    ]
}

impl<'r> WorldGen<'r> {
    fn correct(&mut self, sd: &SchemaD, w: &mut World, t: &Ty, depth: usize) -> RV {
        let nullable = !t.is_non_null();
        if nullable && self.rng.chance(1, 7) { return RV::Leaf(JV::Null); }
        match t {
            Ty::List(inner) | Ty::NonNullList(inner) => {
                let n = self.rng.below(4);
                RV::List((0..n).map(|_| self.any(sd, w, inner, depth + 1, true)).collect())
            }
            Ty::Named(n) | Ty::NonNullNamed(n) => match n.as_str() {
                "Int" => RV::Leaf(JV::Int(*self.rng.pick(&[0, 7, -1, (1i128 << 31) - 1, -(1i128 << 31)]))),
                "Float" => RV::Leaf(JV::Float(self.rng.pick(&["1.5", "3.0", "-0.25"]).to_string())),
                "String" => RV::Leaf(JV::Str(self.rng.pick(&["abc", "", "7"]).to_string())),
                "Boolean" => RV::Leaf(JV::Bool(self.rng.chance(1, 2))),
                "ID" => if self.rng.chance(1, 2) { RV::Leaf(JV::Str("id1".into())) } else { RV::Leaf(JV::Int(*self.rng.pick(&[5, -5, i64::MAX as i128]))) },
                _ => {
                    if let Some((_, vs)) = sd.enums.iter().find(|(k, _)| k == n) { return RV::Leaf(JV::Str(self.rng.pick(vs).clone())); }
                    if sd.scalars.contains(n) { return RV::Leaf(self.rng.pick(&leaf_atoms()).clone()); }
                    let poss = sd.possible(n);
                    let tn = self.rng.pick(&poss).clone();
                    w.next_id += 1;
                    RV::Object(tn, w.next_id)
                }
            },
        }
    }
    fn deviant(&mut self, sd: &SchemaD, w: &mut World, t: &Ty, in_list: bool) -> RV {
        match self.rng.below(if in_list { 9 } else { 10 }) {
            0 => RV::Leaf(JV::Null),
            1 => RV::Error,
            2 | 3 => RV::Leaf(self.rng.pick(&leaf_atoms()).clone()),
            4 => RV::List(vec![RV::Leaf(JV::Int(1))]),
            5 => { w.next_id += 1; RV::Object(self.rng.pick(&["Ghost", "Query", "Root", "Node", "Pt"]).to_string(), w.next_id) }
            6 => { w.next_id += 1; let all: Vec<String> = sd.objects.iter().map(|o| o.name.clone()).collect(); RV::Object(self.rng.pick(&all).clone(), w.next_id) }
            7 => RV::List(vec![]),
            8 => { let x = self.correct(sd, w, t, 3); RV::List(vec![x, RV::Error]) }
            _ => RV::Skip,
        }
    }
    fn any(&mut self, sd: &SchemaD, w: &mut World, t: &Ty, depth: usize, in_list: bool) -> RV {
        if self.rng.below(100) < self.deviate_pct as usize { self.deviant(sd, w, t, in_list) } else { self.correct(sd, w, t, depth) }
    }
    pub fn resolve(&mut self, sd: &SchemaD, w: &mut World, id: usize, field: &FieldDef) -> RV {
        if let Some(rv) = w.table.get(&(id, field.name.clone())) { return rv.clone(); }
        let rv = if let Some(rv) = self.forced.get(&field.name) {
            // forced values are templates: object identities are made fresh
            fn fresh(rv: &RV, w: &mut World) -> RV {
                match rv { RV::Object(t, _) => { w.next_id += 1; RV::Object(t.clone(), w.next_id) } RV::List(xs) => RV::List(xs.iter().map(|x| fresh(x, w)).collect()), x => x.clone() }
            }
            fresh(rv, w)
        } else if field.name.starts_with("echo") { RV::Echo } else { self.any(sd, w, &field.ty, 0, false) };
        w.table.insert((id, field.name.clone()), rv.clone());
        rv
    }
}

// ───────────────────────── the reference executor (from the specification) ─────────────────────────

#[derive(Clone, Debug, PartialEq, Eq, PartialOrd, Ord)]
pub enum Seg { Key(String), Index(usize) }

pub fn path_text(p: &[Seg]) -> String {
    p.iter().map(|s| match s { Seg::Key(k) => format!("k{k}"), Seg::Index(i) => format!("#{i}") }).collect::<Vec<_>>().join("/")
}

pub struct Reference<'a, 'r> {
    pub sd: &'a SchemaD,
    pub op: &'a Op,
    pub vars: &'a [(String, JV)],
    pub world: World,
    pub gen: WorldGen<'r>,
    pub errors: Vec<Vec<Seg>>,
    /// response positions whose declared type is non-null and that received a value
    pub non_null_positions: Vec<Vec<Seg>>,
    pub path: Vec<Seg>,
    pub stats: BTreeMap<&'static str, u64>,
}

/// a field error was raised and is travelling to the nearest nullable position
pub struct Raised;

fn typename_field() -> FieldDef { fd("__typename", "String!") }

impl<'a, 'r> Reference<'a, 'r> {
    fn raise(&mut self, why: &'static str) -> Raised {
        self.errors.push(self.path.clone());
        *self.stats.entry(why).or_insert(0) += 1;
        Raised
    }

    fn cond(&self, c: &Option<Cond>) -> Option<bool> {
        match c { None => None, Some(Cond::Const(b)) => Some(*b), Some(Cond::Var(n)) => match self.vars.iter().find(|(k, _)| k == n) { Some((_, JV::Bool(b))) => Some(*b), _ => None } }
    }

    /// DoesFragmentTypeApply(objectType, fragmentType)
    fn applies(&self, object_type: &str, fragment_type: &str) -> bool {
        if self.sd.object(fragment_type).is_some() { return object_type == fragment_type; }
        if self.sd.is_interface(fragment_type) { return self.sd.object(object_type).is_some_and(|o| o.implements.iter().any(|i| i == fragment_type)); }
        if let Some(m) = self.sd.union(fragment_type) { return m.iter().any(|x| x == object_type); }
        false
    }

    /// CollectFields(objectType, selectionSet, variableValues, visitedFragments)
    fn collect_fields(&self, object_type: &str, sels: &[&'a Sel], visited: &mut Vec<String>, groups: &mut Vec<(String, Vec<&'a Sel>)>) {
        for sel in sels {
            let dirs = match sel { Sel::Field { dirs, .. } | Sel::Spread { dirs, .. } | Sel::Inline { dirs, .. } => dirs };
            if self.cond(&dirs.skip) == Some(true) { continue; }
            if self.cond(&dirs.include) == Some(false) { continue; }
            match sel {
                Sel::Field { alias, name, .. } => {
                    let key = alias.clone().unwrap_or_else(|| name.clone());
                    match groups.iter_mut().find(|(k, _)| *k == key) { Some((_, g)) => g.push(sel), None => groups.push((key, vec![sel])) }
                }
                Sel::Spread { name, .. } => {
                    if visited.contains(name) { continue; }
                    visited.push(name.clone());
                    let Some(frag) = self.op.frags.iter().find(|f| f.name == *name) else { continue };
                    if !self.applies(object_type, &frag.cond) { continue; }
                    let sub: Vec<&Sel> = frag.sub.iter().collect();
                    self.collect_fields(object_type, &sub, visited, groups);
                }
                Sel::Inline { cond, sub, .. } => {
                    if let Some(c) = cond { if !self.applies(object_type, c) { continue; } }
                    let sub: Vec<&Sel> = sub.iter().collect();
                    self.collect_fields(object_type, &sub, visited, groups);
                }
            }
        }
    }

    /// ExecuteSelectionSet: `Err(Raised)` = the selection set's result is null because a non-null field failed
    pub fn execute_selection_set(&mut self, object_type: &str, id: usize, sels: &[&'a Sel]) -> Result<JV, Raised> {
        let mut groups = vec![];
        self.collect_fields(object_type, sels, &mut vec![], &mut groups);
        let mut out = vec![];
        for (key, fields) in groups {
            let Sel::Field { name, .. } = fields[0] else { unreachable!() };
            let def = if name == "__typename" { Some(typename_field()) } else { self.sd.object(object_type).and_then(|o| o.fields.iter().find(|f| f.name == *name).cloned()) };
            let Some(def) = def else { continue };
            self.path.push(Seg::Key(key.clone()));
            let r = self.execute_field(object_type, id, &def, &fields);
            let r = match r {
                Ok(v) => Ok(v),
                // Handling Field Errors: a nullable field becomes null, a non-null field passes the error to its parent
                Err(Raised) => if def.ty.is_non_null() { Err(Raised) } else { Ok(Some(JV::Null)) },
            };
            if let Ok(Some(v)) = &r { if def.ty.is_non_null() && *v != JV::Null { self.non_null_positions.push(self.path.clone()); } }
            self.path.pop();
            match r { Ok(Some(v)) => out.push((key, v)), Ok(None) => {} Err(Raised) => return Err(Raised) }
        }
        Ok(JV::Obj(out))
    }

    /// ExecuteField = CoerceArgumentValues, ResolveFieldValue, CompleteValue
    fn execute_field(&mut self, object_type: &str, id: usize, def: &FieldDef, fields: &[&'a Sel]) -> Result<Option<JV>, Raised> {
        let Sel::Field { args, .. } = fields[0] else { unreachable!() };
        let arg_values = self.coerce_argument_values(def, args)?;
        let resolved = if def.name == "__typename" { RV::Leaf(JV::Str(object_type.to_string())) } else {
            let sd = self.sd;
            let mut w = std::mem::take(&mut self.world);
            let rv = self.gen.resolve(sd, &mut w, id, def);
            self.world = w;
            rv
        };
        let resolved = match resolved { RV::Echo => RV::Leaf(JV::Obj(arg_values)), RV::Error => return Err(self.raise("resolver-error")), x => x };
        self.complete_value(&def.ty, &resolved, fields)
    }

    /// CoerceArgumentValues(objectType, field, variableValues)
    fn coerce_argument_values(&mut self, def: &FieldDef, args: &[(String, AV)]) -> Result<Vec<(String, JV)>, Raised> {
        let mut out = vec![];
        for a in &def.args {
            let given = args.iter().find(|(k, _)| *k == a.name).map(|(_, v)| v);
            // hasValue / value
            let value: Option<Result<JV, AV>> = match given {
                None => None,
                Some(AV::Var(n)) => self.vars.iter().find(|(k, _)| k == n).map(|(_, v)| Ok(v.clone())),
                Some(lit) => Some(Err(lit.clone())),
            };
            match value {
                None => {
                    if let Some(d) = &a.default { out.push((a.name.clone(), d.to_jv())); }
                    else if a.ty.is_non_null() { return Err(self.raise("arg-missing")); }
                }
                Some(Ok(v)) => {
                    if v == JV::Null && a.ty.is_non_null() { return Err(self.raise("arg-null-variable")); }
                    out.push((a.name.clone(), v));
                }
                Some(Err(lit)) => {
                    if lit == AV::Null && a.ty.is_non_null() { return Err(self.raise("arg-null")); }
                    match self.coerce_literal(&a.ty, &lit) { Ok(v) => out.push((a.name.clone(), v)), Err(()) => return Err(self.raise("arg-coercion")) }
                }
            }
        }
        Ok(out)
    }

    /// input coercion of a literal (§3.5–§3.12), variables inside it replaced by their runtime values
    fn coerce_literal(&self, t: &Ty, v: &AV) -> Result<JV, ()> {
        if *v == AV::Null { return if t.is_non_null() { Err(()) } else { Ok(JV::Null) }; }
        if let AV::Var(n) = v {
            return match self.vars.iter().find(|(k, _)| k == n) {
                Some((_, JV::Null)) if t.is_non_null() => Err(()),
                Some((_, x)) => Ok(x.clone()),
                None => if t.is_non_null() { Err(()) } else { Ok(JV::Null) },
            };
        }
        match t {
            Ty::List(inner) | Ty::NonNullList(inner) => match v {
                AV::List(xs) => Ok(JV::Arr(xs.iter().map(|x| self.coerce_literal(inner, x)).collect::<Result<_, _>>()?)),
                x => Ok(JV::Arr(vec![self.coerce_literal(inner, x)?])),
            },
            Ty::Named(n) | Ty::NonNullNamed(n) => {
                if let Some((_, fields)) = self.sd.inputs.iter().find(|(k, _)| k == n) {
                    let AV::Obj(kvs) = v else { return Err(()) };
                    if kvs.iter().any(|(k, _)| !fields.iter().any(|f| f.name == *k)) { return Err(()); }
                    let mut out = vec![];
                    for f in fields {
                        match kvs.iter().find(|(k, _)| *k == f.name) {
                            Some((_, fv)) => out.push((f.name.clone(), self.coerce_literal(&f.ty, fv)?)),
                            None => if let Some(d) = &f.default { out.push((f.name.clone(), d.to_jv())) } else if f.ty.is_non_null() { return Err(()) },
                        }
                    }
                    return Ok(JV::Obj(out));
                }
                // scalars and enums: validation already checked the literal's kind
                Ok(match v {
                    AV::Bool(b) => JV::Bool(*b), AV::Int(i) => JV::Int(*i), AV::Float(t) => JV::Float(t.clone()), AV::Str(s) | AV::Enum(s) => JV::Str(s.clone()),
                    AV::List(xs) => JV::Arr(xs.iter().map(|x| self.coerce_literal(t, x)).collect::<Result<_, _>>()?),
                    AV::Obj(kvs) => JV::Obj(kvs.iter().map(|(k, x)| Ok((k.clone(), self.coerce_literal(t, x)?))).collect::<Result<_, ()>>()?),
                    AV::Null | AV::Var(_) => unreachable!(),
                })
            }
        }
    }

    /// result coercion of a leaf (§3.5 "Result Coercion") under apollo-compiler's documented choices:
    /// no conversion between kinds (an integer is not a Float, a float is not an Int), ID from string or integer,
    /// custom scalars pass through, enums by name
    fn coerce_result(&self, name: &str, j: &JV) -> bool {
        match name {
            "Int" => matches!(j, JV::Int(i) if (-(1i128 << 31)..(1i128 << 31)).contains(i)),
            "Float" => matches!(j, JV::Float(_)),
            "String" => matches!(j, JV::Str(_)),
            "Boolean" => matches!(j, JV::Bool(_)),
            "ID" => matches!(j, JV::Str(_) | JV::Int(_)),
            _ => match self.sd.enums.iter().find(|(k, _)| k == name) { Some((_, vs)) => matches!(j, JV::Str(s) if vs.contains(s)), None => true },
        }
    }

    /// CompleteValue(fieldType, fields, result, variableValues).  `Ok(None)`: the position is left out
    /// (`SkipForPartialExecution`).  `Err(Raised)`: this position failed.
    fn complete_value(&mut self, t: &Ty, rv: &RV, fields: &[&'a Sel]) -> Result<Option<JV>, Raised> {
        match rv {
            RV::Skip => return Ok(None),
            RV::Leaf(JV::Null) => return if t.is_non_null() { Err(self.raise("null-at-non-null")) } else { Ok(Some(JV::Null)) },
            _ => {}
        }
        match t {
            Ty::List(inner) | Ty::NonNullList(inner) => {
                let RV::List(items) = rv else { return Err(self.raise("not-a-list")) };
                let mut out = vec![];
                for (i, item) in items.iter().enumerate() {
                    self.path.push(Seg::Index(i));
                    // documented choice (unit test `test_error_path`): an error of the item stream fails the list itself
                    if *item == RV::Error { let r = self.raise("item-stream-error"); self.path.pop(); return Err(r); }
                    let r = self.complete_value(inner, item, fields);
                    if let Ok(Some(v)) = &r { if inner.is_non_null() && *v != JV::Null { self.non_null_positions.push(self.path.clone()); } }
                    self.path.pop();
                    match r {
                        Ok(Some(v)) => out.push(v),
                        Ok(None) => {}
                        Err(Raised) => if inner.is_non_null() { return Err(Raised) } else { out.push(JV::Null) },
                    }
                }
                Ok(Some(JV::Arr(out)))
            }
            Ty::Named(n) | Ty::NonNullNamed(n) => {
                if let RV::List(_) = rv { return Err(self.raise("list-for-non-list")); }
                if self.sd.is_composite(n) {
                    let RV::Object(tn, id) = rv else { return Err(self.raise("leaf-for-composite")) };
                    // ResolveAbstractType: the object's own type; it must be an object type of the schema and possible here
                    if self.sd.object(tn).is_none() { return Err(self.raise("unknown-object-type")); }
                    if !self.sd.possible(n).contains(tn) { return Err(self.raise("impossible-object-type")); }
                    let mut sub: Vec<&Sel> = vec![];
                    for f in fields { if let Sel::Field { sub: s, .. } = f { sub.extend(s.iter()); } }
                    self.execute_selection_set(tn, *id, &sub).map(Some)
                } else {
                    let RV::Leaf(j) = rv else { return Err(self.raise("object-for-leaf")) };
                    if self.coerce_result(n, j) { Ok(Some(j.clone())) } else { Err(self.raise("leaf-coercion")) }
                }
            }
        }
    }
}

pub struct RefResponse { pub data: Option<JV>, pub errors: Vec<Vec<Seg>>, pub non_null_positions: Vec<Vec<Seg>>, pub world: World, pub stats: BTreeMap<&'static str, u64> }

pub fn run_reference(sd: &SchemaD, op: &Op, vars: &[(String, JV)], gen: WorldGen<'_>, world: World) -> RefResponse {
    let mut r = Reference { sd, op, vars, world, gen, errors: vec![], non_null_positions: vec![], path: vec![], stats: BTreeMap::new() };
    let sels: Vec<&Sel> = op.sels.iter().collect();
    let data = r.execute_selection_set(&sd.query, 0, &sels).ok();
    RefResponse { data, errors: r.errors, non_null_positions: r.non_null_positions, world: r.world, stats: r.stats }
}

// ───────────────────────── serving a world to the real executor ─────────────────────────

pub struct WObj<'w> { pub world: &'w World, pub ty: String, pub id: usize }

pub fn to_resolved<'w>(world: &'w World, rv: &RV, args: &serde_json_bytes::Map<serde_json_bytes::ByteString, SJ>) -> Result<ResolvedValue<'w>, FieldError> {
    Ok(match rv {
        RV::Leaf(j) => ResolvedValue::leaf(j.to_sj()),
        RV::Error => return Err(FieldError { message: "world: error".into() }),
        RV::Skip => ResolvedValue::SkipForPartialExecution,
        RV::Echo => ResolvedValue::leaf(SJ::Object(args.clone())),
        RV::Object(t, id) => ResolvedValue::object(WObj { world, ty: t.clone(), id: *id }),
        RV::List(items) => {
            let v: Vec<Result<ResolvedValue<'w>, FieldError>> = items.iter().map(|x| to_resolved(world, x, args)).collect();
            ResolvedValue::List(Box::new(v.into_iter()))
        }
    })
}

impl<'w> ObjectValue for WObj<'w> {
    fn type_name(&self) -> &str { &self.ty }
    fn resolve_field<'a>(&'a self, info: &'a ResolveInfo<'a>) -> Result<ResolvedValue<'a>, FieldError> {
        match self.world.table.get(&(self.id, info.field_name().to_string())) {
            Some(rv) => to_resolved(self.world, rv, info.arguments()),
            None => Err(self.unknown_field_error(info)),
        }
    }
}

pub struct Compiled { pub schema: Valid<Schema>, pub sd: SchemaD, pub enc: String }

pub fn compile_schema(sd: SchemaD) -> Compiled {
    let schema = Schema::parse_and_validate(sd.sdl(), "s.graphql").unwrap_or_else(|e| panic!("fixed schema is valid: {}", e.errors));
    let enc = sd.enc();
    Compiled { schema, sd, enc }
}

pub fn canon(data: &Option<JV>, errors: &[Vec<Seg>]) -> String {
    let mut t = vec!["data".to_string()];
    match data { Some(d) => d.enc(&mut t), None => t.push("N".into()) }
    let mut e: Vec<String> = errors.iter().map(|p| path_text(p)).collect();
    e.sort();
    format!("{} | errs {}", t.join(" "), e.join(";"))
}

fn lookup<'j>(data: &'j JV, path: &[Seg]) -> Option<&'j JV> {
    let mut cur = data;
    for s in path {
        cur = match (s, cur) {
            (Seg::Key(k), JV::Obj(kvs)) => &kvs.iter().find(|(kk, _)| kk == k)?.1,
            (Seg::Index(i), JV::Arr(xs)) => xs.get(*i)?,
            _ => return None,
        };
    }
    Some(cur)
}

/// an error path must lead to a null in `data`: at the position itself or at an ancestor (where it was caught)
fn error_path_ok(data: &JV, path: &[Seg]) -> bool {
    let mut cur = data;
    for s in path {
        if *cur == JV::Null { return true; }
        let next = match (s, cur) {
            (Seg::Key(k), JV::Obj(kvs)) => kvs.iter().find(|(kk, _)| kk == k).map(|x| &x.1),
            (Seg::Index(i), JV::Arr(xs)) => xs.get(*i),
            _ => None,
        };
        match next { Some(n) => cur = n, None => return false }
    }
    *cur == JV::Null
}

fn has_skip(rv: &RV) -> bool { match rv { RV::Skip => true, RV::List(xs) => xs.iter().any(has_skip), _ => false } }

/// one case: reference run (creating the world), real run, comparison, invariants, correspondence line
pub fn one(ctx: &mut Ctx, c: &Compiled, op: &Op, deviate_pct: u32, forced: HashMap<String, RV>, label: &str) {
    one_w(ctx, c, op, deviate_pct, forced, World::default(), label)
}

/// like `one`, starting from a world whose table already fixes some `(object id, field)` entries
/// (`pre.next_id` must lie above every identity used in `pre`)
pub fn one_w(ctx: &mut Ctx, c: &Compiled, op: &Op, deviate_pct: u32, forced: HashMap<String, RV>, pre: World, label: &str) {
    let text = op.text();
    let doc = match ExecutableDocument::parse_and_validate(&c.schema, &text, "q.graphql") {
        Ok(d) => d,
        Err(e) => {
            ctx.stat("generated_invalid");
            if ctx.stats.get("generated_invalid").copied().unwrap_or(0) <= 3 { ctx.fail("generator-invalid", &text, &e.errors.to_string().replace('\n', " ")); }
            return;
        }
    };
    let operation = doc.operations.get(None).expect("one operation");
    // variables: raw request values of the declared variables, coerced by the real CoerceVariableValues (the subject of C28)
    let pool = var_pool();
    let raw: Vec<(String, JV)> = op.vars.iter().filter_map(|v| pool.iter().find(|(d, _)| d.name == v.name).and_then(|(_, val)| val.clone().map(|x| (v.name.clone(), x)))).collect();
    let SJ::Object(raw_map) = JV::Obj(raw).to_sj() else { unreachable!() };
    let coerced = match apollo_compiler::request::coerce_variable_values(&c.schema, operation, &raw_map) {
        Ok(m) => m,
        Err(e) => { ctx.fail("generator-variables", &text, &format!("{}", e.message())); return; }
    };
    let JV::Obj(vars) = JV::from_sj(&SJ::Object(coerced.clone().into_inner())) else { unreachable!() };

    // reference run; it asks the world generator for every resolver value it needs
    let seed = ctx.rng.next();
    let mut wrng = Rng(seed);
    let reference = run_reference(&c.sd, op, &vars, WorldGen { rng: &mut wrng, deviate_pct, forced }, pre);
    let world = reference.world;
    for (k, n) in &reference.stats { ctx.stat_n(&format!("raise:{k}"), *n); }
    let input = format!("{} || {} || vars {} || world {}", c.sd.sdl().replace('\n', " "), text, JV::Obj(vars.clone()).json_text(), world.enc());

    // real run
    let root = WObj { world: &world, ty: c.sd.query.clone(), id: 0 };
    let resp = match catch(|| Execution::new(&c.schema, &doc).operation(operation).coerced_variable_values(&coerced).execute_sync(&root)) {
        Ok(Ok(r)) => r,
        Ok(Err(e)) => { ctx.fail("request-error", &input, &format!("{}", e.message())); return; }
        Err(p) => { ctx.fail("execution-panics", &input, &p); return; }
    };
    let got_data = resp.data.as_ref().map(|m| JV::from_sj(&SJ::Object(m.clone())));
    let got_errors: Vec<Vec<Seg>> = resp.errors.iter().map(|e| e.path.iter().map(|s| match s {
        apollo_compiler::response::ResponseDataPathSegment::Field(n) => Seg::Key(n.to_string()),
        apollo_compiler::response::ResponseDataPathSegment::ListIndex(i) => Seg::Index(*i),
    }).collect()).collect();
    let got = canon(&got_data, &got_errors);
    let want = canon(&reference.data, &reference.errors);
    ctx.stat(label);
    ctx.stat(&format!("errors_{}", got_errors.len().min(4)));
    if got_data.is_none() { ctx.stat("data_null"); }
    let skips = world.table.values().any(has_skip);
    if got != want {
        let key = if got_data.is_none() != reference.data.is_none() { "exec-data-null-differs" }
            else if got_data != reference.data { "exec-data-differs" } else { "exec-errors-differ" };
        ctx.fail(key, &input, &format!("execute_sync = {got}; reference executor = {want}"));
    } else {
        // the three invariants, stated directly on the real response
        if let Some(d) = &got_data {
            for p in &reference.non_null_positions {
                if let Some(JV::Null) = lookup(d, p) { ctx.fail("exec-null-at-non-null", &input, &format!("null at non-null position {}", path_text(p))); }
            }
            if !skips {
                for p in &got_errors {
                    if p.is_empty() || !error_path_ok(d, p) { ctx.fail("exec-error-path", &input, &format!("error path {} does not lead to a null in data {}", path_text(p), d.json_text())); }
                }
            }
        } else if got_errors.is_empty() {
            ctx.fail("exec-data-null-without-error", &input, "data is null but no field error was reported");
        }
        if !got_errors.is_empty() || text.contains("...") { ctx.nontrivial(&format!("{text}|{got}")); }
    }
    let mut vt = vec![];
    JV::Obj(vars).enc(&mut vt);
    ctx.case("c26.exec", &[c.enc.clone(), op.enc(), toks(vt), world.enc()], &got);
}

// ───────────────────────── operation generator ─────────────────────────

pub struct OpGen<'a> {
    pub sd: &'a SchemaD,
    pub frags: Vec<Frag>,
    keymap: HashMap<String, String>,
    alias_ctr: usize,
    pub max_depth: usize,
}

impl<'a> OpGen<'a> {
    pub fn new(sd: &'a SchemaD, max_depth: usize) -> Self { OpGen { sd, frags: vec![], keymap: HashMap::new(), alias_ctr: 0, max_depth } }

    fn applicable(&self, parent: &str) -> Vec<String> {
        let pp = self.sd.possible(parent);
        let mut all: Vec<String> = self.sd.objects.iter().map(|o| o.name.clone()).collect();
        all.extend(self.sd.interfaces.iter().map(|(n, _)| n.clone()));
        all.extend(self.sd.unions.iter().map(|(n, _)| n.clone()));
        all.into_iter().filter(|t| self.sd.possible(t).iter().any(|x| pp.contains(x))).collect()
    }

    fn gen_dirs(&mut self, rng: &mut Rng) -> Dirs {
        let mut d = Dirs::default();
        if rng.chance(1, 6) {
            let c = match rng.below(6) { 0 => Cond::Const(true), 1 => Cond::Const(false), 2 => Cond::Var("t".into()), 3 => Cond::Var("f".into()), _ => Cond::Var("d".into()) };
            if rng.chance(1, 2) { d.skip = Some(c) } else { d.include = Some(c) }
            if rng.chance(1, 5) { let c2 = if rng.chance(1, 2) { Cond::Var("f".into()) } else { Cond::Const(true) }; if d.skip.is_none() { d.skip = Some(c2) } else { d.include = Some(c2) } }
        }
        d
    }

    fn gen_arg(&mut self, rng: &mut Rng, a: &ArgDef) -> AV {
        let base = inner_name(&a.ty).to_string();
        let use_var = rng.chance(2, 5);
        match (base.as_str(), &a.ty) {
            ("Int", Ty::Named(_)) => if use_var { AV::Var(rng.pick(&["vi", "vn", "va"]).to_string()) } else if rng.chance(1, 6) { AV::Null } else { AV::Int(rng.below(9) as i128 - 2) },
            ("Int", Ty::NonNullNamed(_)) => if use_var { AV::Var(rng.pick(&["vi", "vn", "va"]).to_string()) } else { AV::Int(rng.below(9) as i128) },
            ("Int", _) => if use_var { AV::Var("vb".into()) } else { match rng.below(5) { 0 => AV::Int(1), 1 => AV::List(vec![]), 2 => AV::List(vec![AV::Int(1), AV::Var("vi".into())]), 3 => AV::List(vec![AV::Var(rng.pick(&["vi", "vn", "va"]).to_string()), AV::Int(2)]), _ => AV::Null } },
            ("String", _) => if use_var { AV::Var("vs".into()) } else { AV::Str("lit".into()) },
            ("Color", _) => if use_var { AV::Var("vc".into()) } else if rng.chance(1, 5) { AV::Null } else { AV::Enum("RED".into()) },
            ("Pt", _) => if use_var { AV::Var("vp".into()) } else {
                let mut kvs = vec![("x".to_string(), if rng.chance(1, 3) { AV::Var(rng.pick(&["vi", "vi", "vn", "va"]).to_string()) } else { AV::Int(1) })];
                if rng.chance(1, 2) { kvs.push(("y".into(), match rng.below(3) { 0 => AV::Null, 1 => AV::Var("vn".into()), _ => AV::Int(2) })); }
                if rng.chance(1, 3) { kvs.push(("l".into(), match rng.below(3) { 0 => AV::Int(3), 1 => AV::Var("vb".into()), _ => AV::List(vec![AV::Int(1), AV::Int(2)]) })); }
                if rng.chance(1, 2) { kvs.reverse(); }
                AV::Obj(kvs)
            },
            _ => AV::Null,
        }
    }

    fn gen_field(&mut self, rng: &mut Rng, parent: &str, depth: usize) -> Option<Sel> {
        let mut fields = self.sd.fields_of(parent);
        if fields.is_empty() || rng.chance(1, 10) { fields = vec![typename_field()]; }
        let f = rng.pick(&fields).clone();
        let composite = self.sd.is_composite(inner_name(&f.ty));
        if composite && depth == 0 { return Some(Sel::Field { alias: None, name: "__typename".into(), args: vec![], dirs: Dirs::default(), sub: vec![] }); }
        let mut args = vec![];
        for a in &f.args {
            let required = a.ty.is_non_null() && a.default.is_none();
            if required || rng.chance(1, 2) { args.push((a.name.clone(), self.gen_arg(rng, a))); }
        }
        let sig = format!("{parent}.{}({})", f.name, args.iter().map(|(k, v)| format!("{k}:{}", v.print())).collect::<Vec<_>>().join(","));
        // response keys: one field signature per key in the whole document (keeps "fields can merge" satisfied)
        let mut alias = if rng.chance(1, 4) { Some(format!("k{}", rng.below(4))) } else { None };
        loop {
            let key = alias.clone().unwrap_or_else(|| f.name.clone());
            match self.keymap.get(&key) {
                Some(s) if *s != sig => { self.alias_ctr += 1; alias = Some(format!("x{}", self.alias_ctr)); }
                _ => { self.keymap.insert(key, sig.clone()); break; }
            }
        }
        let dirs = self.gen_dirs(rng);
        let sub = if composite { self.gen_selset(rng, inner_name(&f.ty), depth - 1) } else { vec![] };
        Some(Sel::Field { alias, name: f.name.clone(), args, dirs, sub })
    }

    pub fn gen_selset(&mut self, rng: &mut Rng, parent: &str, depth: usize) -> Vec<Sel> {
        let n = 1 + rng.below(4);
        let mut out = vec![];
        for _ in 0..n {
            let k = rng.below(100);
            if k < 68 || depth == 0 {
                if let Some(f) = self.gen_field(rng, parent, depth) { out.push(f); }
            } else if k < 86 {
                let cond = if rng.chance(1, 3) { None } else { Some(rng.pick(&self.applicable(parent)).clone()) };
                let dirs = self.gen_dirs(rng);
                let body_ty = cond.clone().unwrap_or_else(|| parent.to_string());
                let sub = self.gen_selset(rng, &body_ty, depth - 1);
                out.push(Sel::Inline { cond, dirs, sub });
            } else {
                let app = self.applicable(parent);
                let existing: Vec<String> = self.frags.iter().filter(|f| app.contains(&f.cond)).map(|f| f.name.clone()).collect();
                let name = if !existing.is_empty() && rng.chance(1, 2) { rng.pick(&existing).clone() } else {
                    let cond = rng.pick(&app).clone();
                    let sub = self.gen_selset(rng, &cond, depth - 1);
                    let name = format!("F{}", self.frags.len());
                    self.frags.push(Frag { name: name.clone(), cond, sub });
                    name
                };
                let dirs = self.gen_dirs(rng);
                out.push(Sel::Spread { name, dirs });
            }
        }
        out
    }

    pub fn finish(self, sels: Vec<Sel>) -> Op {
        let mut used = BTreeSet::new();
        sel_vars(&sels, &mut used);
        for f in &self.frags { sel_vars(&f.sub, &mut used); }
        let vars = var_pool().into_iter().filter(|(d, _)| used.contains(&d.name)).map(|(d, _)| d).collect();
        Op { vars, sels, frags: self.frags }
    }
}

pub fn gen_op(rng: &mut Rng, sd: &SchemaD, max_depth: usize) -> Op {
    let mut g = OpGen::new(sd, max_depth);
    let sels = g.gen_selset(rng, &sd.query.clone(), max_depth);
    g.finish(sels)
}

fn field_sel(name: &str, sub: Vec<Sel>) -> Sel { Sel::Field { alias: None, name: name.into(), args: vec![], dirs: Dirs::default(), sub } }
fn alias_sel(alias: &str, name: &str, sub: Vec<Sel>) -> Sel { Sel::Field { alias: Some(alias.into()), name: name.into(), args: vec![], dirs: Dirs::default(), sub } }

/// the catalogue of resolver values tried exhaustively for every field
fn catalogue(sd: &SchemaD) -> Vec<RV> {
    let mut v: Vec<RV> = vec![RV::Leaf(JV::Null), RV::Error, RV::Skip];
    v.extend(leaf_atoms().into_iter().map(RV::Leaf));
    for o in &sd.objects { v.push(RV::Object(o.name.clone(), 0)); }
    v.push(RV::Object("Ghost".into(), 0));
    v.push(RV::Object("Node".into(), 0));
    let items = vec![RV::Leaf(JV::Int(1)), RV::Leaf(JV::Null), RV::Error, RV::Leaf(JV::Str("x".into())), RV::Skip, RV::Object(sd.objects.last().unwrap().name.clone(), 0), RV::Object(sd.objects[1].name.clone(), 0), RV::List(vec![RV::Leaf(JV::Int(2))]), RV::List(vec![RV::Leaf(JV::Null)]), RV::List(vec![RV::Error]), RV::List(vec![])];
    v.push(RV::List(vec![]));
    for a in &items { v.push(RV::List(vec![a.clone()])); }
    for a in &items { for b in &items { v.push(RV::List(vec![a.clone(), b.clone()])); } }
    v.push(RV::List(vec![RV::Leaf(JV::Int(1)), RV::Leaf(JV::Int(2)), RV::Leaf(JV::Null), RV::Leaf(JV::Int(4))]));
    v
}

fn leaf_subsel(sd: &SchemaD, tyname: &str) -> Vec<Sel> {
    if !sd.is_composite(tyname) { return vec![]; }
    let mut sub = vec![field_sel("__typename", vec![])];
    for f in sd.fields_of(tyname) { if !sd.is_composite(inner_name(&f.ty)) && f.args.is_empty() { sub.push(field_sel(&f.name, vec![])); } }
    // fields of the possible object types, under type conditions
    if sd.object(tyname).is_none() {
        for p in sd.possible(tyname) {
            let fs: Vec<Sel> = sd.fields_of(&p).iter().filter(|f| !sd.is_composite(inner_name(&f.ty)) && f.args.is_empty()).map(|f| alias_sel(&format!("{}_{}", p, f.name), &f.name, vec![])).collect();
            if !fs.is_empty() { sub.push(Sel::Inline { cond: Some(p), dirs: Dirs::default(), sub: fs }); }
        }
    }
    sub
}

// ───────────────────────── systematic families (audit G5) ─────────────────────────

/// every wrapping of `name` with at most two list layers (2 + 4 + 8 = 14), as type text
fn all_wrappings(name: &str) -> Vec<String> {
    let mut out = vec![];
    for layers in 0..3usize {
        for bits in 0..(1u32 << (layers + 1)) {
            let mut t = if bits & 1 == 0 { name.to_string() } else { format!("{name}!") };
            for k in 1..=layers { t = if bits >> k & 1 == 0 { format!("[{t}]") } else { format!("[{t}]!") }; }
            out.push(t);
        }
    }
    out
}

fn list_layers(t: &Ty) -> usize { match t { Ty::List(i) | Ty::NonNullList(i) => 1 + list_layers(i), _ => 0 } }

/// a schema whose root has one field per wrapping (≤ 2 list layers) of an object type and of `Int`
pub fn schema_c() -> SchemaD {
    let mut q = vec![fd("self", "Q"), fd("nself", "Q!")];
    for (k, w) in all_wrappings("N").iter().enumerate() { q.push(fd(&format!("o{k}"), w)); }
    for (k, w) in all_wrappings("Int").iter().enumerate() { q.push(fd(&format!("i{k}"), w)); }
    SchemaD {
        scalars: vec![], enums: vec![], inputs: vec![], interfaces: vec![], unions: vec![],
        objects: vec![
            ObjDef { name: "Q".into(), implements: vec![], fields: q },
            ObjDef { name: "N".into(), implements: vec![], fields: vec![fd("v", "Int!"), fd("o", "Int"), fd("n", "N!"), fd("m", "N")] },
        ],
        query: "Q".into(),
    }
}

/// the three places a selection is tried at: the root, under a non-null parent, under a nullable parent.
/// Returns the operation and the identity of the object the selection is made on.
fn at_position(pos: usize, sel: Vec<Sel>, pre: &mut World) -> Op {
    let sels = match pos {
        0 => { let mut v = vec![alias_sel("first", "__typename", vec![])]; v.extend(sel); v.push(alias_sel("last", "__typename", vec![])); v }
        _ => {
            let parent = if pos == 1 { "nself" } else { "self" };
            pre.table.insert((0, parent.to_string()), RV::Object("Q".into(), 1));
            let mut inner = sel; inner.push(alias_sel("after", "__typename", vec![]));
            vec![field_sel(parent, inner), alias_sel("last", "__typename", vec![])]
        }
    };
    Op { vars: vec![], sels, frags: vec![] }
}
fn holder(pos: usize) -> usize { if pos == 0 { 0 } else { 1 } }

/// Family "propagation": a field error inside ONE object of a (nested) list of objects, for every wrapping of the
/// list, every failing object, a non-null and a nullable failing field, four kinds of failure, three positions.
/// Family "item-failure": one ITEM of the (nested) list is itself null / an error / of a wrong kind.
fn family_propagation(ctx: &mut Ctx, c: &Compiled) {
    let root = c.sd.object("Q").unwrap().clone();
    let failures = [RV::Leaf(JV::Null), RV::Error, RV::Leaf(JV::Str("x".into())), RV::List(vec![RV::Leaf(JV::Int(1))])];
    let bad_items = [RV::Leaf(JV::Null), RV::Error, RV::Object("Ghost".into(), 90), RV::Leaf(JV::Int(1)), RV::Skip];
    let sub = vec![alias_sel("a", "__typename", vec![]), field_sel("o", vec![]), field_sel("v", vec![]), alias_sel("z", "__typename", vec![])];
    for f in root.fields.iter().filter(|f| f.name.starts_with('o')) {
        let layers = list_layers(&f.ty);
        // object identities 10, 11, 12
        let obj = |k: usize| RV::Object("N".into(), 10 + k);
        let (value, n_obj) = match layers {
            0 => (obj(0), 1),
            1 => (RV::List(vec![obj(0), obj(1)]), 2),
            _ => (RV::List(vec![RV::List(vec![obj(0), obj(1)]), RV::List(vec![obj(2)])]), 3),
        };
        for pos in 0..3 {
            // (a) failure inside one object (or in none)
            for target in 0..=n_obj {
                for field in ["v", "o"] {
                    for fail in &failures {
                        if target == n_obj && (field != "v" || *fail != failures[0]) { continue; } // "no failure" once
                        let mut pre = World { table: BTreeMap::new(), next_id: 100 };
                        let op = at_position(pos, vec![field_sel(&f.name, sub.clone())], &mut pre);
                        pre.table.insert((holder(pos), f.name.clone()), value.clone());
                        if target < n_obj { pre.table.insert((10 + target, field.to_string()), fail.clone()); }
                        ctx.stat("family:propagation");
                        one_w(ctx, c, &op, 0, HashMap::new(), pre, "family");
                    }
                }
            }
            // (b) one item is bad: every index of the innermost lists, and every index of the outer list
            if layers == 0 { continue; }
            let mut variants: Vec<RV> = vec![];
            for bad in &bad_items {
                match layers {
                    1 => for i in 0..2 { let mut xs = vec![obj(0), obj(1)]; xs[i] = bad.clone(); variants.push(RV::List(xs)); },
                    _ => {
                        for i in 0..3 {
                            let mut inner0 = vec![obj(0), obj(1)]; let mut inner1 = vec![obj(2)];
                            if i < 2 { inner0[i] = bad.clone() } else { inner1[0] = bad.clone() }
                            variants.push(RV::List(vec![RV::List(inner0), RV::List(inner1)]));
                        }
                        for i in 0..2 {
                            let mut outer = vec![RV::List(vec![obj(0), obj(1)]), RV::List(vec![obj(2)])];
                            outer[i] = bad.clone();
                            variants.push(RV::List(outer));
                        }
                    }
                }
            }
            for v in variants {
                let mut pre = World { table: BTreeMap::new(), next_id: 100 };
                let op = at_position(pos, vec![field_sel(&f.name, sub.clone())], &mut pre);
                pre.table.insert((holder(pos), f.name.clone()), v);
                ctx.stat("family:item-failure");
                one_w(ctx, c, &op, 0, HashMap::new(), pre, "family");
            }
        }
    }
}

/// Family "int-wrappings": every wrapping of `Int` × the catalogue of resolver values (list-shaped ones in the
/// quick tier), under a non-null parent (all three positions in the thorough tier).
fn family_int_wrappings(ctx: &mut Ctx, c: &Compiled) {
    let root = c.sd.object("Q").unwrap().clone();
    let cat: Vec<RV> = catalogue(&c.sd).into_iter().filter(|rv| ctx.thorough || matches!(rv, RV::List(_) | RV::Error | RV::Skip | RV::Leaf(JV::Null) | RV::Leaf(JV::Int(7)) | RV::Object(..))).collect();
    let positions: &[usize] = if ctx.thorough { &[0, 1, 2] } else { &[1] };
    for f in root.fields.iter().filter(|f| f.name.starts_with('i')) {
        for rv in &cat {
            for &pos in positions {
                let mut pre = World { table: BTreeMap::new(), next_id: 100 };
                let op = at_position(pos, vec![field_sel(&f.name, vec![])], &mut pre);
                pre.table.insert((holder(pos), f.name.clone()), rv.clone());
                ctx.stat("family:int-wrappings");
                one_w(ctx, c, &op, 0, HashMap::new(), pre, "family");
            }
        }
    }
}

/// Family "directives": two selections in a row, each one of five kinds (field, spread, inline with / without a
/// type condition, spread inside an inline fragment), each with one of nine `@skip` / `@include` combinations
/// (constants, variables true / false / defaulted / explicitly null, both directives at once).  The spreads name
/// the same fragment, so "visited" and "excluded" interact in every order.
fn family_directives(ctx: &mut Ctx, c: &Compiled) {
    let v = |n: &str| Cond::Var(n.to_string());
    let combos: Vec<Dirs> = vec![
        Dirs::default(),
        Dirs { skip: Some(Cond::Const(true)), include: None },
        Dirs { skip: Some(Cond::Const(false)), include: None },
        Dirs { skip: None, include: Some(Cond::Const(false)) },
        Dirs { skip: Some(v("t")), include: None },
        Dirs { skip: None, include: Some(v("f")) },
        Dirs { skip: Some(Cond::Const(true)), include: Some(Cond::Const(true)) },
        Dirs { skip: Some(v("dn")), include: None },
        Dirs { skip: None, include: Some(v("dn")) },
        Dirs { skip: Some(v("d")), include: Some(v("t")) },
        Dirs { skip: Some(v("f")), include: Some(v("d")) },
    ];
    let n_combos = if ctx.thorough { combos.len() } else { 9 };
    let kind = |k: usize, d: &Dirs| -> Sel {
        match k {
            0 => Sel::Field { alias: None, name: "i".into(), args: vec![], dirs: d.clone(), sub: vec![] },
            1 => Sel::Spread { name: "F".into(), dirs: d.clone() },
            2 => Sel::Inline { cond: Some("Query".into()), dirs: d.clone(), sub: vec![field_sel("i", vec![])] },
            3 => Sel::Inline { cond: None, dirs: d.clone(), sub: vec![field_sel("s", vec![])] },
            _ => Sel::Inline { cond: None, dirs: d.clone(), sub: vec![Sel::Spread { name: "F".into(), dirs: Dirs::default() }] },
        }
    };
    let frag = Frag { name: "F".into(), cond: "Query".into(), sub: vec![field_sel("i", vec![]), field_sel("b", vec![])] };
    for k1 in 0..5 { for d1 in &combos[..n_combos] { for k2 in 0..5 { for d2 in &combos[..n_combos] {
        let sels = vec![alias_sel("first", "__typename", vec![]), kind(k1, d1), kind(k2, d2), alias_sel("last", "__typename", vec![])];
        let uses_f = [k1, k2].iter().any(|k| *k == 1 || *k == 4);
        let mut used = BTreeSet::new();
        sel_vars(&sels, &mut used);
        let vars = var_pool().into_iter().filter(|(d, _)| used.contains(&d.name)).map(|(d, _)| d).collect();
        let op = Op { vars, sels, frags: if uses_f { vec![frag.clone()] } else { vec![] } };
        ctx.stat("family:directives");
        one(ctx, c, &op, 0, HashMap::new(), "family");
    } } } }
}

/// Family "fragment-reuse": the same named fragment spread again — in a sibling field's selection set, one level
/// down, in every item of a list, in both of two merged fields, before / after a fragment that spreads it.
fn family_fragment_reuse(ctx: &mut Ctx, c: &Compiled) {
    let sp = |n: &str| Sel::Spread { name: n.into(), dirs: Dirs::default() };
    let on = |t: &str, sub: Vec<Sel>| Sel::Inline { cond: Some(t.into()), dirs: Dirs::default(), sub };
    let fq = Frag { name: "FQ".into(), cond: "Query".into(), sub: vec![field_sel("i", vec![]), field_sel("s", vec![])] };
    let fq2 = Frag { name: "FQ2".into(), cond: "Query".into(), sub: vec![sp("FQ"), field_sel("b", vec![])] };
    let fnode = Frag { name: "FN".into(), cond: "Node".into(), sub: vec![field_sel("id", vec![])] };
    let fdog = Frag { name: "FD".into(), cond: "Dog".into(), sub: vec![field_sel("bark", vec![]), sp("FN")] };
    let fpet = Frag { name: "FP".into(), cond: "Pet".into(), sub: vec![field_sel("__typename", vec![]), sp("FD")] };
    let templates: Vec<(Vec<Sel>, Vec<Frag>)> = vec![
        (vec![alias_sel("a", "self", vec![sp("FQ")]), alias_sel("b", "self", vec![sp("FQ")])], vec![fq.clone()]),
        (vec![sp("FQ"), field_sel("self", vec![sp("FQ")])], vec![fq.clone()]),
        (vec![field_sel("nself", vec![sp("FQ"), field_sel("self", vec![sp("FQ")])]), sp("FQ")], vec![fq.clone()]),
        (vec![sp("FQ"), sp("FQ2")], vec![fq.clone(), fq2.clone()]),
        (vec![sp("FQ2"), sp("FQ")], vec![fq.clone(), fq2.clone()]),
        (vec![sp("FQ2"), sp("FQ2"), field_sel("self", vec![sp("FQ2"), sp("FQ")])], vec![fq.clone(), fq2.clone()]),
        (vec![field_sel("pets", vec![sp("FN")]), field_sel("npets", vec![sp("FN")])], vec![fnode.clone()]),
        (vec![field_sel("pets", vec![sp("FP"), sp("FN")])], vec![fpet.clone(), fdog.clone(), fnode.clone()]),
        (vec![field_sel("pets", vec![sp("FN"), sp("FP")])], vec![fpet.clone(), fdog.clone(), fnode.clone()]),
        (vec![field_sel("pets", vec![sp("FD"), on("Cat", vec![sp("FN")])]), field_sel("pets", vec![on("Dog", vec![sp("FN")]), sp("FD")])], vec![fdog.clone(), fnode.clone()]),
        (vec![field_sel("nodes", vec![sp("FN"), on("Dog", vec![sp("FD")]), sp("FN")]), field_sel("dog", vec![sp("FD"), field_sel("mate", vec![sp("FD")])])], vec![fdog.clone(), fnode.clone()]),
        (vec![field_sel("pet", vec![sp("FN")]), field_sel("pet", vec![sp("FN"), sp("FD")]), alias_sel("p2", "pet", vec![sp("FD")])], vec![fdog.clone(), fnode.clone()]),
    ];
    let obj = |t: &str| RV::Object(t.into(), 0);
    let lists = [
        vec![obj("Dog"), obj("Cat"), obj("Dog")],
        vec![obj("Cat"), obj("Dog")],
        vec![obj("Dog"), obj("Dog"), obj("Dog")],
    ];
    for (sels, frags) in &templates {
        for l in &lists {
            for single in ["Dog", "Cat"] {
                let mut forced = HashMap::new();
                for f in ["pets", "npets", "nodes"] { forced.insert(f.to_string(), RV::List(l.clone())); }
                forced.insert("pet".to_string(), obj(single));
                let op = Op { vars: vec![], sels: sels.clone(), frags: frags.clone() };
                ctx.stat("family:fragment-reuse");
                one(ctx, c, &op, 0, forced, "family");
            }
        }
    }
}

pub fn run(ctx: &mut Ctx) {
    let a = compile_schema(schema_a());
    let b = compile_schema(schema_b());

    // ── regression inputs: the repo's unit test, and one witness per mechanism ──
    {
        let op = Op { vars: vec![], sels: vec![field_sel("li", vec![])], frags: vec![] };
        let mut forced = HashMap::new();
        forced.insert("li".to_string(), RV::List(vec![RV::Leaf(JV::Int(42)), RV::Error]));
        one(ctx, &a, &op, 0, forced, "fixed");
        // non-null item fails inside a nullable list inside a non-null field chain
        let op = Op { vars: vec![], sels: vec![field_sel("nself", vec![field_sel("lni", vec![]), field_sel("i", vec![])]), field_sel("s", vec![])], frags: vec![] };
        let mut forced = HashMap::new();
        forced.insert("lni".to_string(), RV::List(vec![RV::Leaf(JV::Int(1)), RV::Leaf(JV::Null)]));
        one(ctx, &a, &op, 0, forced, "fixed");
        // merged sub-selections, fragment applicability on interface and union
        let op = Op { vars: vec![], sels: vec![
            field_sel("pet", vec![field_sel("__typename", vec![]), Sel::Inline { cond: Some("Dog".into()), dirs: Dirs::default(), sub: vec![field_sel("bark", vec![])] }, Sel::Spread { name: "N".into(), dirs: Dirs::default() }]),
            field_sel("pet", vec![Sel::Inline { cond: Some("Cat".into()), dirs: Dirs::default(), sub: vec![field_sel("lives", vec![])] }, Sel::Inline { cond: Some("Named".into()), dirs: Dirs::default(), sub: vec![field_sel("name", vec![])] }]),
        ], frags: vec![Frag { name: "N".into(), cond: "Node".into(), sub: vec![field_sel("id", vec![])] }] };
        for t in ["Dog", "Cat", "Human", "Ghost"] {
            let mut forced = HashMap::new();
            forced.insert("pet".to_string(), RV::Object(t.into(), 0));
            one(ctx, &a, &op, 0, forced, "fixed");
        }
    }

    // ── exhaustive: every field of the root types × every catalogued resolver value, at three positions ──
    for c in [&a, &b] {
        let cat = catalogue(&c.sd);
        ctx.stat_n("catalogue_size", cat.len() as u64);
        let root = c.sd.object(&c.sd.query).unwrap().clone();
        let nonnull_self = root.fields.iter().find(|f| f.ty == ty(&format!("{}!", c.sd.query))).map(|f| f.name.clone());
        let nullable_self = root.fields.iter().find(|f| f.ty == ty(&c.sd.query)).map(|f| f.name.clone());
        for f in &root.fields {
            if !f.args.is_empty() { continue; }
            let sub = leaf_subsel(&c.sd, inner_name(&f.ty));
            for rv in &cat {
                let mut forced = HashMap::new();
                forced.insert(f.name.clone(), rv.clone());
                // 1. at the root, with a sibling after it
                let op = Op { vars: vec![], sels: vec![alias_sel("first", "__typename", vec![]), field_sel(&f.name, sub.clone()), alias_sel("last", "__typename", vec![])], frags: vec![] };
                one(ctx, c, &op, 0, forced.clone(), "exhaustive");
                // 2. under a non-null parent, 3. under a nullable parent
                for parent in [&nonnull_self, &nullable_self].into_iter().flatten() {
                    if *parent == f.name { continue; }
                    let op = Op { vars: vec![], sels: vec![field_sel(parent, vec![field_sel(&f.name, sub.clone()), alias_sel("after", "__typename", vec![])]), alias_sel("last", "__typename", vec![])], frags: vec![] };
                    one(ctx, c, &op, 0, forced.clone(), "exhaustive");
                }
            }
        }
    }

    // ── systematic families (audit G5) ──
    let cc = compile_schema(schema_c());
    family_directives(ctx, &a);
    family_fragment_reuse(ctx, &a);
    family_propagation(ctx, &cc);
    family_int_wrappings(ctx, &cc);

    // ── random operations × random worlds ──
    let n = if ctx.thorough { 150_000 } else { 12_000 };
    for i in 0..n {
        let c = if i % 4 == 3 { &b } else { &a };
        let depth = 1 + ctx.rng.below(4);
        let op = gen_op(&mut ctx.rng, &c.sd, depth);
        let dev = *ctx.rng.pick(&[0u32, 8, 8, 20, 45]);
        one(ctx, c, &op, dev, HashMap::new(), "random");
    }
}
