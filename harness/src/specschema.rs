//! Independent type-system validator written from the text of the GraphQL specification
//! (October 2021: §3.3 Schema, §3.4 Types, §3.5–§3.10 the "Type Validation" paragraphs, §3.13
//! Directives, §3.4.3 / §3.3.2 extensions, §3.11 input coercion for directive argument values) with
//! graphql-js' reading where the text is silent (reserved `__` prefix on enum values, `@deprecated`
//! locations).  It works on the parsed AST only (`apollo_compiler::ast::Document`), merges extensions
//! itself and never calls apollo-compiler's schema builder or validation.
//!
//! apollo-compiler's documented deliberate differences are explicit parameters (`Params`).
use apollo_compiler::ast;
use std::collections::{BTreeMap, BTreeSet};

#[derive(Clone, Debug)]
pub struct Params {
    /// graphql-js validates default values of arguments / input fields; apollo-compiler does not
    /// (validation/input_object.rs: "TODO: Validate default values in apollo-compiler 2.0").
    pub validate_default_values: bool,
    /// a built-in directive (`@skip`, `@include`, `@deprecated`, `@specifiedBy`) may be redefined
    /// once (schema/from_ast.rs, issue 656); a second redefinition collides.
    pub builtin_directive_redefinable_once: bool,
    /// redefining a built-in scalar or an introspection type is an error unless the builder's
    /// `ignore_builtin_redefinitions` is set (CHANGELOG 1.28): with the default builder → false.
    pub builtin_type_redefinable: bool,
    /// graphql-js' SDL rules do not check argument *values* of directives used in a schema;
    /// apollo-compiler does (validation/directive.rs → value.rs).
    pub typecheck_schema_directive_arguments: bool,
    /// implementation limit of the cycle searches (RecursionStack, DEFAULT_RECURSION_LIMIT):
    /// more than this many names on the search stack is reported as "too deeply nested".
    pub recursion_limit: Option<usize>,
}

impl Params {
    pub fn apollo() -> Self {
        Params {
            validate_default_values: false,
            builtin_directive_redefinable_once: true,
            builtin_type_redefinable: false,
            typecheck_schema_directive_arguments: true,
            recursion_limit: Some(32),
        }
    }
}

#[derive(Clone, Debug, PartialEq, Eq, Hash)]
pub enum Ty {
    Named(String),
    List(Box<Ty>),
    NonNull(Box<Ty>),
}

impl Ty {
    pub fn from_ast(t: &ast::Type) -> Ty {
        match t {
            ast::Type::Named(n) => Ty::Named(n.to_string()),
            ast::Type::NonNullNamed(n) => Ty::NonNull(Box::new(Ty::Named(n.to_string()))),
            ast::Type::List(t) => Ty::List(Box::new(Ty::from_ast(t))),
            ast::Type::NonNullList(t) => Ty::NonNull(Box::new(Ty::List(Box::new(Ty::from_ast(t))))),
        }
    }
    pub fn named(&self) -> &str {
        match self {
            Ty::Named(n) => n,
            Ty::List(t) | Ty::NonNull(t) => t.named(),
        }
    }
    pub fn is_non_null(&self) -> bool {
        matches!(self, Ty::NonNull(_))
    }
}

#[derive(Clone, Copy, Debug, PartialEq, Eq)]
pub enum Kind {
    Scalar,
    Object,
    Interface,
    Union,
    Enum,
    InputObject,
}

#[derive(Clone, Debug)]
pub struct Dir {
    pub name: String,
    pub args: Vec<(String, ast::Value)>,
}

#[derive(Clone, Debug)]
pub struct InputVal {
    pub name: String,
    pub ty: Ty,
    pub default: Option<ast::Value>,
    pub dirs: Vec<Dir>,
}

impl InputVal {
    /// §3.6 / §3.10: required = non-null type without a default value
    pub fn required(&self) -> bool {
        self.ty.is_non_null() && self.default.is_none()
    }
}

#[derive(Clone, Debug)]
pub struct FieldDef {
    pub name: String,
    pub args: Vec<InputVal>,
    pub ty: Ty,
    pub dirs: Vec<Dir>,
}

#[derive(Clone, Debug)]
pub struct TypeDef {
    pub name: String,
    pub kind: Kind,
    pub builtin: bool,
    pub interfaces: Vec<String>,
    pub fields: Vec<FieldDef>,
    pub members: Vec<String>,
    pub values: Vec<(String, Vec<Dir>)>,
    pub input_fields: Vec<InputVal>,
    pub dirs: Vec<Dir>,
}

#[derive(Clone, Debug)]
pub struct DirDef {
    pub name: String,
    pub args: Vec<InputVal>,
    pub repeatable: bool,
    pub locations: Vec<&'static str>,
    pub builtin: bool,
}

#[derive(Clone, Debug, Default)]
pub struct SpecSchema {
    pub types: BTreeMap<String, TypeDef>,
    pub directives: BTreeMap<String, DirDef>,
    pub explicit_schema: bool,
    pub query: Option<String>,
    pub mutation: Option<String>,
    pub subscription: Option<String>,
    pub schema_dirs: Vec<Dir>,
    pub violations: BTreeSet<String>,
}

/// The built-in definitions, written from spec §3.5 (scalars), §3.13 (directives) and §4 (schema
/// introspection).  `@deprecated` carries graphql-js' four locations.
const BUILTINS: &str = r#"
scalar Int scalar Float scalar String scalar Boolean scalar ID
directive @skip(if: Boolean!) on FIELD | FRAGMENT_SPREAD | INLINE_FRAGMENT
directive @include(if: Boolean!) on FIELD | FRAGMENT_SPREAD | INLINE_FRAGMENT
directive @deprecated(reason: String = "No longer supported") on FIELD_DEFINITION | ARGUMENT_DEFINITION | INPUT_FIELD_DEFINITION | ENUM_VALUE
directive @specifiedBy(url: String!) on SCALAR
type __Schema { description: String types: [__Type!]! queryType: __Type! mutationType: __Type subscriptionType: __Type directives: [__Directive!]! }
type __Type { kind: __TypeKind! name: String description: String fields(includeDeprecated: Boolean = false): [__Field!] interfaces: [__Type!] possibleTypes: [__Type!] enumValues(includeDeprecated: Boolean = false): [__EnumValue!] inputFields(includeDeprecated: Boolean = false): [__InputValue!] ofType: __Type specifiedByURL: String }
enum __TypeKind { SCALAR OBJECT INTERFACE UNION ENUM INPUT_OBJECT LIST NON_NULL }
type __Field { name: String! description: String args(includeDeprecated: Boolean = false): [__InputValue!]! type: __Type! isDeprecated: Boolean! deprecationReason: String }
type __InputValue { name: String! description: String type: __Type! defaultValue: String isDeprecated: Boolean! deprecationReason: String }
type __EnumValue { name: String! description: String isDeprecated: Boolean! deprecationReason: String }
type __Directive { name: String! description: String locations: [__DirectiveLocation!]! args(includeDeprecated: Boolean = false): [__InputValue!]! isRepeatable: Boolean! }
enum __DirectiveLocation { QUERY MUTATION SUBSCRIPTION FIELD FRAGMENT_DEFINITION FRAGMENT_SPREAD INLINE_FRAGMENT VARIABLE_DEFINITION SCHEMA SCALAR OBJECT FIELD_DEFINITION ARGUMENT_DEFINITION INTERFACE UNION ENUM ENUM_VALUE INPUT_OBJECT INPUT_FIELD_DEFINITION }
"#;

pub const BUILTIN_SCALARS: [&str; 5] = ["Int", "Float", "String", "Boolean", "ID"];

fn dirs_of(l: &ast::DirectiveList) -> Vec<Dir> {
    l.iter()
        .map(|d| Dir {
            name: d.name.to_string(),
            args: d.arguments.iter().map(|a| (a.name.to_string(), (*a.value).clone())).collect(),
        })
        .collect()
}

fn input_of(v: &ast::InputValueDefinition) -> InputVal {
    InputVal {
        name: v.name.to_string(),
        ty: Ty::from_ast(&v.ty),
        default: v.default_value.as_ref().map(|d| (**d).clone()),
        dirs: dirs_of(&v.directives),
    }
}

fn field_of(f: &ast::FieldDefinition) -> FieldDef {
    FieldDef {
        name: f.name.to_string(),
        args: f.arguments.iter().map(|a| input_of(a)).collect(),
        ty: Ty::from_ast(&f.ty),
        dirs: dirs_of(&f.directives),
    }
}

fn empty_type(name: &str, kind: Kind, builtin: bool) -> TypeDef {
    TypeDef {
        name: name.to_string(),
        kind,
        builtin,
        interfaces: vec![],
        fields: vec![],
        members: vec![],
        values: vec![],
        input_fields: vec![],
        dirs: vec![],
    }
}

struct V {
    s: SpecSchema,
    p: Params,
}

impl V {
    fn bad(&mut self, rule: &str) {
        self.s.violations.insert(rule.to_string());
    }

    fn reserved(&mut self, user: bool, name: &str, what: &str) {
        if user && name.starts_with("__") {
            self.bad(&format!("reserved-name-{what}"));
        }
    }

    /// names introduced by field / argument / input-value definitions of a user document
    fn reserved_in_fields(&mut self, user: bool, fields: &[FieldDef]) {
        for f in fields {
            self.reserved(user, &f.name, "field");
            for a in &f.args {
                self.reserved(user, &a.name, "argument");
            }
        }
    }

    fn add_parts(
        &mut self,
        user: bool,
        name: &str,
        interfaces: Vec<String>,
        fields: Vec<FieldDef>,
        members: Vec<String>,
        values: Vec<(String, Vec<Dir>)>,
        input_fields: Vec<InputVal>,
        dirs: Vec<Dir>,
    ) {
        self.reserved_in_fields(user, &fields);
        for (v, _) in &values {
            self.reserved(user, v, "enum-value");
        }
        for f in &input_fields {
            self.reserved(user, &f.name, "input-field");
        }
        let mut bad: Vec<&str> = vec![];
        {
            let t = self.s.types.get_mut(name).unwrap();
            for i in interfaces {
                if t.interfaces.contains(&i) { bad.push("unique-implemented-interfaces"); } else { t.interfaces.push(i); }
            }
            for f in fields {
                if t.fields.iter().any(|g| g.name == f.name) { bad.push("unique-field-names"); } else { t.fields.push(f); }
            }
            for m in members {
                if t.members.contains(&m) { bad.push("unique-union-members"); } else { t.members.push(m); }
            }
            for v in values {
                if t.values.iter().any(|w| w.0 == v.0) { bad.push("unique-enum-values"); } else { t.values.push(v); }
            }
            for f in input_fields {
                if t.input_fields.iter().any(|g| g.name == f.name) { bad.push("unique-input-fields"); } else { t.input_fields.push(f); }
            }
            t.dirs.extend(dirs);
        }
        for b in bad { self.bad(b); }
    }

    fn ingest(&mut self, doc: &ast::Document, user: bool) {
        use ast::Definition as D;
        // pass 1: definitions
        let mut seen_schema = false;
        let mut user_directives: BTreeSet<String> = BTreeSet::new();
        let mut roots: Vec<(ast::OperationType, String)> = vec![];
        for def in &doc.definitions {
            let (name, kind) = match def {
                D::ScalarTypeDefinition(d) => (d.name.to_string(), Kind::Scalar),
                D::ObjectTypeDefinition(d) => (d.name.to_string(), Kind::Object),
                D::InterfaceTypeDefinition(d) => (d.name.to_string(), Kind::Interface),
                D::UnionTypeDefinition(d) => (d.name.to_string(), Kind::Union),
                D::EnumTypeDefinition(d) => (d.name.to_string(), Kind::Enum),
                D::InputObjectTypeDefinition(d) => (d.name.to_string(), Kind::InputObject),
                D::SchemaDefinition(d) => {
                    if seen_schema { self.bad("lone-schema-definition"); continue; }
                    seen_schema = true;
                    self.s.explicit_schema = true;
                    self.s.schema_dirs.extend(dirs_of(&d.directives));
                    for op in &d.root_operations { roots.push((op.0, op.1.to_string())); }
                    continue;
                }
                D::DirectiveDefinition(d) => {
                    let n = d.name.to_string();
                    self.reserved(user, &n, "directive");
                    for a in &d.arguments { self.reserved(user, &a.name, "directive-argument"); }
                    let dd = DirDef {
                        name: n.clone(),
                        args: d.arguments.iter().map(|a| input_of(a)).collect(),
                        repeatable: d.repeatable,
                        locations: d.locations.iter().map(|l| l.name()).collect(),
                        builtin: !user,
                    };
                    let replace = match self.s.directives.get(&n) {
                        None => true,
                        Some(prev) => {
                            if user_directives.contains(&n) { self.bad("unique-directive-names"); false }
                            else if prev.builtin && self.p.builtin_directive_redefinable_once { true }
                            else { self.bad("unique-directive-names"); false }
                        }
                    };
                    if user { user_directives.insert(n.clone()); }
                    if replace { self.s.directives.insert(n, dd); }
                    continue;
                }
                D::OperationDefinition(_) | D::FragmentDefinition(_) => { self.bad("executable-definition"); continue; }
                _ => continue,
            };
            self.reserved(user, &name, "type");
            if let Some(prev) = self.s.types.get(&name) {
                if prev.builtin && user && self.p.builtin_type_redefinable {
                    // ignored: the built-in definition stays
                } else {
                    self.bad("unique-type-names");
                }
                continue;
            }
            self.s.types.insert(name.clone(), empty_type(&name, kind, !user));
            match def {
                D::ScalarTypeDefinition(d) => self.add_parts(user, &name, vec![], vec![], vec![], vec![], vec![], dirs_of(&d.directives)),
                D::ObjectTypeDefinition(d) => self.add_parts(user, &name, d.implements_interfaces.iter().map(|n| n.to_string()).collect(), d.fields.iter().map(|f| field_of(f)).collect(), vec![], vec![], vec![], dirs_of(&d.directives)),
                D::InterfaceTypeDefinition(d) => self.add_parts(user, &name, d.implements_interfaces.iter().map(|n| n.to_string()).collect(), d.fields.iter().map(|f| field_of(f)).collect(), vec![], vec![], vec![], dirs_of(&d.directives)),
                D::UnionTypeDefinition(d) => self.add_parts(user, &name, vec![], vec![], d.members.iter().map(|n| n.to_string()).collect(), vec![], vec![], dirs_of(&d.directives)),
                D::EnumTypeDefinition(d) => self.add_parts(user, &name, vec![], vec![], vec![], d.values.iter().map(|v| (v.value.to_string(), dirs_of(&v.directives))).collect(), vec![], dirs_of(&d.directives)),
                D::InputObjectTypeDefinition(d) => self.add_parts(user, &name, vec![], vec![], vec![], vec![], d.fields.iter().map(|f| input_of(f)).collect(), dirs_of(&d.directives)),
                _ => {}
            }
        }
        // pass 2: extensions (§3.4.3: the named type must already be defined and be of the same kind;
        // the order of definitions in a document carries no meaning)
        let mut schema_exts: Vec<&ast::SchemaExtension> = vec![];
        for def in &doc.definitions {
            let (name, kind) = match def {
                D::ScalarTypeExtension(d) => (d.name.to_string(), Kind::Scalar),
                D::ObjectTypeExtension(d) => (d.name.to_string(), Kind::Object),
                D::InterfaceTypeExtension(d) => (d.name.to_string(), Kind::Interface),
                D::UnionTypeExtension(d) => (d.name.to_string(), Kind::Union),
                D::EnumTypeExtension(d) => (d.name.to_string(), Kind::Enum),
                D::InputObjectTypeExtension(d) => (d.name.to_string(), Kind::InputObject),
                D::SchemaExtension(d) => { schema_exts.push(d); continue; }
                _ => continue,
            };
            match self.s.types.get(&name) {
                None => { self.bad("extension-type-exists"); continue; }
                Some(t) if t.kind != kind => { self.bad("extension-kind-match"); continue; }
                _ => {}
            }
            match def {
                D::ScalarTypeExtension(d) => self.add_parts(user, &name, vec![], vec![], vec![], vec![], vec![], dirs_of(&d.directives)),
                D::ObjectTypeExtension(d) => self.add_parts(user, &name, d.implements_interfaces.iter().map(|n| n.to_string()).collect(), d.fields.iter().map(|f| field_of(f)).collect(), vec![], vec![], vec![], dirs_of(&d.directives)),
                D::InterfaceTypeExtension(d) => self.add_parts(user, &name, d.implements_interfaces.iter().map(|n| n.to_string()).collect(), d.fields.iter().map(|f| field_of(f)).collect(), vec![], vec![], vec![], dirs_of(&d.directives)),
                D::UnionTypeExtension(d) => self.add_parts(user, &name, vec![], vec![], d.members.iter().map(|n| n.to_string()).collect(), vec![], vec![], dirs_of(&d.directives)),
                D::EnumTypeExtension(d) => self.add_parts(user, &name, vec![], vec![], vec![], d.values.iter().map(|v| (v.value.to_string(), dirs_of(&v.directives))).collect(), vec![], dirs_of(&d.directives)),
                D::InputObjectTypeExtension(d) => self.add_parts(user, &name, vec![], vec![], vec![], vec![], d.fields.iter().map(|f| input_of(f)).collect(), dirs_of(&d.directives)),
                _ => {}
            }
        }
        if !user { return; }
        // §3.3 root operation types.  Without a schema definition the default names apply when they
        // name object types ("a GraphQL schema ... can omit the schema definition").
        if !self.s.explicit_schema {
            let mut implicit = false;
            for (op, n) in [(ast::OperationType::Query, "Query"), (ast::OperationType::Mutation, "Mutation"), (ast::OperationType::Subscription, "Subscription")] {
                if self.s.types.get(n).is_some_and(|t| t.kind == Kind::Object) {
                    roots.push((op, n.to_string()));
                    implicit = true;
                }
            }
            // §3.3.2 Schema extension: "The Schema must already be defined."
            if !schema_exts.is_empty() && !implicit { self.bad("schema-extension-without-schema"); }
        }
        for e in schema_exts {
            self.s.schema_dirs.extend(dirs_of(&e.directives));
            for op in &e.root_operations { roots.push((op.0, op.1.to_string())); }
        }
        for (op, n) in roots {
            let slot = match op {
                ast::OperationType::Query => &mut self.s.query,
                ast::OperationType::Mutation => &mut self.s.mutation,
                ast::OperationType::Subscription => &mut self.s.subscription,
            };
            if slot.is_some() { self.s.violations.insert("unique-operation-types".to_string()); } else { *slot = Some(n); }
        }
    }

    // ---- rules over the merged schema -------------------------------------------------------

    fn kind_of(&self, n: &str) -> Option<Kind> {
        self.s.types.get(n).map(|t| t.kind)
    }

    fn is_input_kind(k: Kind) -> bool { matches!(k, Kind::Scalar | Kind::Enum | Kind::InputObject) }
    fn is_output_kind(k: Kind) -> bool { !matches!(k, Kind::InputObject) }

    fn check_roots(&mut self) {
        // §3.3.1: "The query root operation type must be provided and must be an Object type."
        if self.s.query.is_none() { self.bad("query-root-required"); }
        let roots: Vec<String> = [&self.s.query, &self.s.mutation, &self.s.subscription].iter().filter_map(|r| (*r).clone()).collect();
        for r in &roots {
            match self.kind_of(r) {
                None => self.bad("root-type-exists"),
                Some(Kind::Object) => {}
                Some(_) => self.bad("root-type-object"),
            }
        }
        // "… must all be different types if provided."
        for i in 0..roots.len() {
            for j in 0..i {
                if roots[i] == roots[j] { self.bad("root-types-distinct"); }
            }
        }
    }

    fn check_args(&mut self, args: &[InputVal], unique_rule: &str, what: &str) {
        let mut seen: BTreeSet<&str> = BTreeSet::new();
        for a in args {
            if !seen.insert(&a.name) { self.bad(unique_rule); }
            match self.kind_of(a.ty.named()) {
                None => self.bad(&format!("{what}-type-exists")),
                Some(k) if !Self::is_input_kind(k) => self.bad(&format!("{what}-type-input")),
                _ => {}
            }
            let loc = if what == "input-field" { "INPUT_FIELD_DEFINITION" } else { "ARGUMENT_DEFINITION" };
            self.check_dirs(&a.dirs, loc);
            if self.p.validate_default_values {
                if let Some(d) = &a.default {
                    if !self.value_ok(&a.ty, d) { self.bad("default-value-type"); }
                }
            }
        }
    }

    fn check_fields(&mut self, fields: &[FieldDef]) {
        for f in fields {
            match self.kind_of(f.ty.named()) {
                None => self.bad("field-type-exists"),
                Some(k) if !Self::is_output_kind(k) => self.bad("field-type-output"),
                _ => {}
            }
            self.check_dirs(&f.dirs, "FIELD_DEFINITION");
            self.check_args(&f.args, "unique-argument-names", "argument");
        }
    }

    /// "declares it implements" / "is a possible type of"
    fn is_sub(&self, abstract_ty: &str, t: &str) -> bool {
        match self.s.types.get(abstract_ty) {
            Some(a) if a.kind == Kind::Interface => self.s.types.get(t).is_some_and(|d| {
                matches!(d.kind, Kind::Object | Kind::Interface) && d.interfaces.iter().any(|i| i == abstract_ty)
            }),
            Some(a) if a.kind == Kind::Union => {
                self.s.types.get(t).is_some_and(|d| d.kind == Kind::Object) && a.members.iter().any(|m| m == t)
            }
            _ => false,
        }
    }

    /// IsValidImplementationFieldType(fieldType, implementedFieldType), §3.6.1
    fn valid_impl_field_type(&self, field: &Ty, implemented: &Ty) -> bool {
        if let Ty::NonNull(f) = field {
            let i = if let Ty::NonNull(i) = implemented { i } else { implemented };
            return self.valid_impl_field_type(f, i);
        }
        if let (Ty::List(f), Ty::List(i)) = (field, implemented) {
            return self.valid_impl_field_type(f, i);
        }
        if field == implemented { return true; }
        if let (Ty::Named(f), Ty::Named(i)) = (field, implemented) {
            return self.is_sub(i, f);
        }
        false
    }

    fn check_implements(&mut self, t: &TypeDef) {
        for i in &t.interfaces {
            if t.kind == Kind::Interface && *i == t.name { self.bad("interface-self-implementation"); }
            let idef = match self.s.types.get(i) {
                Some(d) if d.kind == Kind::Interface => d.clone(),
                _ => { self.bad("implements-exists-interface"); continue; }
            };
            // transitively implemented interfaces must also be declared
            for j in &idef.interfaces {
                if !t.interfaces.contains(j) { self.bad("transitive-interfaces-declared"); }
            }
            // IsValidImplementation(type, implementedType)
            for ifield in &idef.fields {
                let Some(f) = t.fields.iter().find(|f| f.name == ifield.name) else {
                    self.bad("impl-field-present");
                    continue;
                };
                for ia in &ifield.args {
                    match f.args.iter().find(|a| a.name == ia.name) {
                        None => self.bad("impl-arg-present"),
                        Some(a) => if a.ty != ia.ty { self.bad("impl-arg-type") },
                    }
                }
                for a in &f.args {
                    if !ifield.args.iter().any(|ia| ia.name == a.name) && a.required() { self.bad("impl-extra-arg-optional"); }
                }
                if !self.valid_impl_field_type(&f.ty, &ifield.ty) { self.bad("impl-field-type"); }
            }
        }
    }

    /// §3.10 Circular References: a chain of non-null singular (not list) input-object fields
    /// leading back to the same input object.
    fn input_cycle(&self, start: &str) -> bool {
        let mut stack = vec![start.to_string()];
        let mut seen: BTreeSet<String> = BTreeSet::new();
        while let Some(n) = stack.pop() {
            let Some(t) = self.s.types.get(&n) else { continue };
            if t.kind != Kind::InputObject { continue; }
            for f in &t.input_fields {
                if let Ty::NonNull(inner) = &f.ty {
                    if let Ty::Named(m) = &**inner {
                        if m == start && self.kind_of(m) == Some(Kind::InputObject) { return true; }
                        if seen.insert(m.clone()) { stack.push(m.clone()); }
                    }
                }
            }
        }
        false
    }

    /// length (in names) of the longest simple chain of non-null singular input-object references
    /// starting at `path`'s last element — only used for the implementation-limit parameter
    fn longest_chain(&self, path: &mut Vec<String>, limit: usize) -> usize {
        let mut best = path.len();
        if best > limit { return best; }
        let cur = path.last().unwrap().clone();
        let Some(t) = self.s.types.get(&cur) else { return best };
        for f in t.input_fields.clone() {
            if let Ty::NonNull(inner) = &f.ty {
                if let Ty::Named(m) = &**inner {
                    if self.kind_of(m) == Some(Kind::InputObject) && !path.contains(m) {
                        path.push(m.clone());
                        best = best.max(self.longest_chain(path, limit));
                        path.pop();
                        if best > limit { return best; }
                    }
                }
            }
        }
        best
    }

    /// directives a directive definition refers to in one step: directives applied to its arguments,
    /// and directives applied anywhere inside the definitions of its arguments' (input) types
    fn directive_refs(&self, d: &DirDef) -> BTreeSet<String> {
        let mut out = BTreeSet::new();
        let mut types_seen: BTreeSet<String> = BTreeSet::new();
        let mut todo: Vec<String> = vec![];
        for a in &d.args {
            for x in &a.dirs { out.insert(x.name.clone()); }
            todo.push(a.ty.named().to_string());
        }
        while let Some(tn) = todo.pop() {
            if !types_seen.insert(tn.clone()) { continue; }
            let Some(t) = self.s.types.get(&tn) else { continue };
            for x in &t.dirs { out.insert(x.name.clone()); }
            match t.kind {
                Kind::Enum => for (_, ds) in &t.values { for x in ds { out.insert(x.name.clone()); } },
                Kind::InputObject => for f in &t.input_fields {
                    for x in &f.dirs { out.insert(x.name.clone()); }
                    todo.push(f.ty.named().to_string());
                },
                _ => {}
            }
        }
        out
    }

    /// §3.13: "A directive definition must not contain the use of a directive which references
    /// itself directly" / "… indirectly by referencing a Type or Directive which transitively
    /// includes a reference to this directive."
    fn directive_self_reference(&self, name: &str) -> bool {
        let mut seen: BTreeSet<String> = BTreeSet::new();
        let mut todo = vec![name.to_string()];
        while let Some(n) = todo.pop() {
            let Some(d) = self.s.directives.get(&n) else { continue };
            for r in self.directive_refs(d) {
                if r == name { return true; }
                if seen.insert(r.clone()) { todo.push(r); }
            }
        }
        false
    }

    fn longest_directive_chain(&self, path: &mut Vec<String>, limit: usize) -> usize {
        let mut best = path.len();
        if best > limit { return best; }
        let Some(d) = self.s.directives.get(path.last().unwrap()) else { return best };
        for r in self.directive_refs(d) {
            if self.s.directives.contains_key(&r) && !path.contains(&r) {
                path.push(r);
                best = best.max(self.longest_directive_chain(path, limit));
                path.pop();
                if best > limit { return best; }
            }
        }
        best
    }

    /// Input coercion of a constant literal (§3.5 scalars, §3.9 enums, §3.10 input objects, §3.11
    /// lists, §3.12 non-null).
    fn value_ok(&self, ty: &Ty, v: &ast::Value) -> bool { self.value_err(ty, v).is_none() }

    /// an object literal, at any depth, that names a field twice (§5.6.3)
    fn literal_has_dup(v: &ast::Value) -> bool {
        use ast::Value as Val;
        match v {
            Val::List(items) => items.iter().any(|x| Self::literal_has_dup(x)),
            Val::Object(fields) => {
                let mut names: BTreeSet<&str> = BTreeSet::new();
                fields.iter().any(|(k, x)| !names.insert(k.as_str()) || Self::literal_has_dup(x))
            }
            _ => false,
        }
    }

    /// a variable anywhere in the literal (constants only in a type-system document)
    fn literal_has_variable(v: &ast::Value) -> bool {
        use ast::Value as Val;
        match v {
            Val::Variable(_) => true,
            Val::List(items) => items.iter().any(|x| Self::literal_has_variable(x)),
            Val::Object(fields) => fields.iter().any(|(_, x)| Self::literal_has_variable(x)),
            _ => false,
        }
    }

    /// None = the literal is accepted; Some(rule) = why not
    fn value_err(&self, ty: &Ty, v: &ast::Value) -> Option<&'static str> {
        if Self::literal_has_variable(v) { return Some("directive-argument-type"); }
        if Self::literal_has_dup(v) { return Some("directive-argument-input-field-unique"); }
        self.value_err2(ty, v)
    }

    fn value_err2(&self, ty: &Ty, v: &ast::Value) -> Option<&'static str> {
        use ast::Value as Val;
        const BAD: Option<&'static str> = Some("directive-argument-type");
        match ty {
            Ty::NonNull(inner) => if matches!(v, Val::Null) { BAD } else { self.value_err2(inner, v) },
            _ if matches!(v, Val::Null) => None,
            Ty::List(item) => match v {
                Val::List(items) => items.iter().find_map(|x| self.value_err2(item, x)),
                // a single value is coerced to a list of one item
                _ => self.value_err2(item, v),
            },
            Ty::Named(n) => {
                let Some(t) = self.s.types.get(n) else { return None }; // reported by another rule
                let ok = match t.kind {
                    // custom scalar: coercion is implementation-defined; as in the reference implementation
                    // (parseLiteral = valueFromASTUntyped) every constant is accepted, lists with nulls included
                    // (§5.6.3 inside the literal is checked by `literal_has_dup` above)
                    Kind::Scalar if !t.builtin => true,
                    Kind::Scalar => match (n.as_str(), v) {
                        ("Int", Val::Int(i)) => i.as_str().parse::<i32>().is_ok(),
                        ("Float", Val::Int(i)) => i.as_str().parse::<f64>().is_ok_and(|f| f.is_finite()),
                        ("Float", Val::Float(f)) => f.as_str().parse::<f64>().is_ok_and(|f| f.is_finite()),
                        ("String", Val::String(_)) => true,
                        ("Boolean", Val::Boolean(_)) => true,
                        ("ID", Val::String(_)) | ("ID", Val::Int(_)) => true,
                        _ => false,
                    },
                    Kind::Enum => match v {
                        Val::Enum(e) => t.values.iter().any(|(x, _)| x == e.as_str()),
                        _ => false,
                    },
                    Kind::InputObject => match v {
                        Val::Object(fields) => {
                            let mut names: BTreeSet<&str> = BTreeSet::new();
                            for (k, x) in fields {
                                names.insert(k.as_str());
                                match t.input_fields.iter().find(|f| f.name == k.as_str()) {
                                    None => return BAD,
                                    Some(f) => if let Some(e) = self.value_err2(&f.ty, x) { return Some(e); },
                                }
                            }
                            t.input_fields.iter().all(|f| !f.required() || names.contains(f.name.as_str()))
                        }
                        _ => false,
                    },
                    // not an input type: reported by another rule
                    _ => true,
                };
                if ok { None } else { BAD }
            }
        }
    }

    fn check_dirs(&mut self, dirs: &[Dir], location: &str) {
        let mut seen: BTreeSet<&str> = BTreeSet::new();
        for d in dirs {
            let mut argn: BTreeSet<&str> = BTreeSet::new();
            for (a, _) in &d.args {
                if !argn.insert(a) { self.bad("directive-argument-unique"); }
            }
            let Some(def) = self.s.directives.get(&d.name).cloned() else {
                self.bad("directive-known");
                continue;
            };
            if !seen.insert(&d.name) && !def.repeatable { self.bad("directive-unique"); }
            if !def.locations.contains(&location) { self.bad("directive-location"); }
            for (a, v) in &d.args {
                match def.args.iter().find(|x| x.name == *a) {
                    None => self.bad("directive-argument-known"),
                    Some(x) => {
                        if self.p.typecheck_schema_directive_arguments {
                            if let Some(e) = self.value_err(&x.ty, v) { self.bad(e); }
                        }
                    }
                }
            }
            for x in &def.args {
                let given = d.args.iter().find(|(a, _)| *a == x.name);
                let null_or_missing = match given { None => true, Some((_, v)) => matches!(v, ast::Value::Null) };
                if x.required() && null_or_missing { self.bad("directive-argument-required"); }
            }
        }
    }

    fn check_all(&mut self) {
        self.check_roots();
        let sd = self.s.schema_dirs.clone();
        self.check_dirs(&sd, "SCHEMA");
        let ddefs: Vec<DirDef> = self.s.directives.values().cloned().collect();
        for d in &ddefs {
            // (a built-in definition can only become self-referential through a user's extension of a
            // built-in type, e.g. `extend scalar String @specifiedBy(url: "u")`)
            if !d.builtin { self.check_args(&d.args, "unique-directive-argument-definitions", "directive-argument"); }
            if self.directive_self_reference(&d.name) { self.bad("directive-self-reference"); }
            else if let Some(l) = self.p.recursion_limit {
                if self.longest_directive_chain(&mut vec![d.name.clone()], l) > l { self.bad("directive-nesting-limit"); }
            }
        }
        let tdefs: Vec<TypeDef> = self.s.types.values().cloned().collect();
        for t in &tdefs {
            match t.kind {
                Kind::Scalar => self.check_dirs(&t.dirs, "SCALAR"),
                Kind::Object | Kind::Interface => {
                    let obj = t.kind == Kind::Object;
                    self.check_dirs(&t.dirs, if obj { "OBJECT" } else { "INTERFACE" });
                    if t.fields.is_empty() { self.bad(if obj { "object-has-fields" } else { "interface-has-fields" }); }
                    self.check_fields(&t.fields);
                    self.check_implements(t);
                }
                Kind::Union => {
                    self.check_dirs(&t.dirs, "UNION");
                    if t.members.is_empty() { self.bad("union-has-members"); }
                    for m in &t.members {
                        match self.kind_of(m) {
                            None => self.bad("union-member-exists"),
                            Some(Kind::Object) => {}
                            Some(_) => self.bad("union-member-object"),
                        }
                    }
                }
                Kind::Enum => {
                    self.check_dirs(&t.dirs, "ENUM");
                    if t.values.is_empty() { self.bad("enum-has-values"); }
                    for (_, ds) in &t.values { self.check_dirs(ds, "ENUM_VALUE"); }
                }
                Kind::InputObject => {
                    self.check_dirs(&t.dirs, "INPUT_OBJECT");
                    if t.input_fields.is_empty() { self.bad("input-has-fields"); }
                    self.check_args(&t.input_fields, "unique-input-fields", "input-field");
                    if self.input_cycle(&t.name) { self.bad("input-object-cycle"); }
                    else if let Some(l) = self.p.recursion_limit {
                        if self.longest_chain(&mut vec![t.name.clone()], l) > l { self.bad("input-object-nesting-limit"); }
                    }
                }
            }
        }
    }
}

/// Validate a type-system document.  Returns the merged schema with `violations` = names of the
/// violated rules (empty = the specification accepts the schema).
pub fn validate(doc: &ast::Document, p: &Params) -> SpecSchema {
    let builtins = ast::Document::parse(BUILTINS, "spec_builtins.graphql").expect("built-in SDL parses");
    let mut v = V { s: SpecSchema::default(), p: p.clone() };
    v.ingest(&builtins, false);
    v.ingest(doc, true);
    v.check_all();
    v.s
}
