//! C08 — AST serialization round-trips.
//! Streams: `c08.ast` (source ↦ AST dump: real parser + from_cst.rs vs the Lean reference parser),
//! `c08.print` (source, config ↦ serialized text, byte for byte), `c08.toks` (the model's printed text
//! re-lexes to the model's token stream).  Oracle on the implementation: for every error-free document
//! and every configuration, the printed text re-parses without errors to an equal AST, and printing
//! that AST again gives identical text.
use crate::gen::G;
use crate::util::*;
use apollo_compiler::ast;
use std::fmt::Write;

fn q(s: &str, out: &mut String) {
    for c in s.chars() {
        if c.is_ascii_alphanumeric() || c == '_' || c == '-' || c == '.' || c == '+' { out.push(c); } else { write!(out, "\\{:x};", c as u32).unwrap(); }
    }
}
fn qs(s: &str) -> String { let mut o = String::new(); q(s, &mut o); o }
fn d_opt(o: Option<&str>) -> String { match o { None => "-".into(), Some(s) => format!("?{}", qs(s)) } }
fn d_list<T>(l: &[T], f: impl Fn(&T) -> String) -> String { format!("[{}]", l.iter().map(f).collect::<Vec<_>>().join(" ")) }

fn d_value(v: &ast::Value) -> String {
    match v {
        ast::Value::Null => "N".into(),
        ast::Value::Boolean(true) => "T".into(),
        ast::Value::Boolean(false) => "F".into(),
        ast::Value::Enum(n) => format!("E{}", qs(n)),
        ast::Value::String(s) => format!("S{}", qs(s)),
        ast::Value::Variable(n) => format!("V{}", qs(n)),
        ast::Value::Float(f) => format!("D{}", qs(f.as_str())),
        ast::Value::Int(i) => format!("I{}", qs(i.as_str())),
        ast::Value::List(vs) => format!("(L{})", vs.iter().map(|v| format!(" {}", d_value(v))).collect::<String>()),
        ast::Value::Object(fs) => format!("(O{})", fs.iter().map(|(n, v)| format!(" {}:{}", qs(n), d_value(v))).collect::<String>()),
    }
}
fn d_ty(t: &ast::Type) -> String {
    match t {
        ast::Type::Named(n) => qs(n),
        ast::Type::NonNullNamed(n) => format!("{}!", qs(n)),
        ast::Type::List(t) => format!("[{}]", d_ty(t)),
        ast::Type::NonNullList(t) => format!("[{}]!", d_ty(t)),
    }
}
fn d_arg(a: &apollo_compiler::Node<ast::Argument>) -> String { format!("{}:{}", qs(&a.name), d_value(&a.value)) }
fn d_dirs(ds: &ast::DirectiveList) -> String { d_list(&ds.0, |d| format!("@{}{}", qs(&d.name), d_list(&d.arguments, d_arg))) }
fn d_sels(ss: &[ast::Selection]) -> String { ss.iter().map(|s| format!(" {}", d_sel(s))).collect() }
fn d_sel(s: &ast::Selection) -> String {
    match s {
        ast::Selection::Field(f) => format!("(f {} {} {} {} {{{}}})", d_opt(f.alias.as_ref().map(|a| a.as_str())), qs(&f.name), d_list(&f.arguments, d_arg), d_dirs(&f.directives), d_sels(&f.selection_set)),
        ast::Selection::FragmentSpread(f) => format!("(s {} {})", qs(&f.fragment_name), d_dirs(&f.directives)),
        ast::Selection::InlineFragment(f) => format!("(i {} {} {{{}}})", d_opt(f.type_condition.as_ref().map(|a| a.as_str())), d_dirs(&f.directives), d_sels(&f.selection_set)),
    }
}
fn d_optv(v: &Option<apollo_compiler::Node<ast::Value>>) -> String { match v { None => "-".into(), Some(v) => format!("?{}", d_value(v)) } }
fn d_desc(d: &Option<apollo_compiler::Node<str>>) -> String { d_opt(d.as_ref().map(|d| &**d)) }
fn d_ivd(v: &apollo_compiler::Node<ast::InputValueDefinition>) -> String {
    format!("(iv {} {} {} {} {})", d_desc(&v.description), qs(&v.name), d_ty(&v.ty), d_optv(&v.default_value), d_dirs(&v.directives))
}
fn d_fd(v: &apollo_compiler::Node<ast::FieldDefinition>) -> String {
    format!("(fd {} {} {} {} {})", d_desc(&v.description), qs(&v.name), d_list(&v.arguments, d_ivd), d_ty(&v.ty), d_dirs(&v.directives))
}
fn d_evd(v: &apollo_compiler::Node<ast::EnumValueDefinition>) -> String { format!("(ev {} {} {})", d_desc(&v.description), qs(&v.value), d_dirs(&v.directives)) }
fn d_root(r: &apollo_compiler::Node<(ast::OperationType, ast::NamedType)>) -> String { format!("{}:{}", r.0.name(), qs(&r.1)) }
fn d_names(l: &[apollo_compiler::Name]) -> String { d_list(l, |n| qs(n)) }

pub fn dump(doc: &ast::Document) -> String {
    use ast::Definition as D;
    doc.definitions.iter().map(|def| match def {
        D::OperationDefinition(o) => format!("(op {} {} {} {} {{{}}})", o.operation_type.name(), d_opt(o.name.as_ref().map(|n| n.as_str())),
            d_list(&o.variables, |v| format!("(v {} {} {} {})", qs(&v.name), d_ty(&v.ty), d_optv(&v.default_value), d_dirs(&v.directives))), d_dirs(&o.directives), d_sels(&o.selection_set)),
        D::FragmentDefinition(f) => format!("(frag {} {} {} {{{}}})", qs(&f.name), qs(&f.type_condition), d_dirs(&f.directives), d_sels(&f.selection_set)),
        D::DirectiveDefinition(d) => format!("(dirdef {} {} {} {} {})", d_desc(&d.description), qs(&d.name), d_list(&d.arguments, d_ivd), if d.repeatable { "R" } else { "-" }, d_list(&d.locations, |l| qs(l.name()))),
        D::SchemaDefinition(s) => format!("(schema {} {} {})", d_desc(&s.description), d_dirs(&s.directives), d_list(&s.root_operations, d_root)),
        D::ScalarTypeDefinition(s) => format!("(scalar {} {} {})", d_desc(&s.description), qs(&s.name), d_dirs(&s.directives)),
        D::ObjectTypeDefinition(t) => format!("(type {} {} {} {} {})", d_desc(&t.description), qs(&t.name), d_names(&t.implements_interfaces), d_dirs(&t.directives), d_list(&t.fields, d_fd)),
        D::InterfaceTypeDefinition(t) => format!("(interface {} {} {} {} {})", d_desc(&t.description), qs(&t.name), d_names(&t.implements_interfaces), d_dirs(&t.directives), d_list(&t.fields, d_fd)),
        D::UnionTypeDefinition(t) => format!("(union {} {} {} {})", d_desc(&t.description), qs(&t.name), d_dirs(&t.directives), d_names(&t.members)),
        D::EnumTypeDefinition(t) => format!("(enum {} {} {} {})", d_desc(&t.description), qs(&t.name), d_dirs(&t.directives), d_list(&t.values, d_evd)),
        D::InputObjectTypeDefinition(t) => format!("(input {} {} {} {})", d_desc(&t.description), qs(&t.name), d_dirs(&t.directives), d_list(&t.fields, d_ivd)),
        D::SchemaExtension(s) => format!("(xschema {} {})", d_dirs(&s.directives), d_list(&s.root_operations, d_root)),
        D::ScalarTypeExtension(s) => format!("(xscalar {} {})", qs(&s.name), d_dirs(&s.directives)),
        D::ObjectTypeExtension(t) => format!("(xtype {} {} {} {})", qs(&t.name), d_names(&t.implements_interfaces), d_dirs(&t.directives), d_list(&t.fields, d_fd)),
        D::InterfaceTypeExtension(t) => format!("(xinterface {} {} {} {})", qs(&t.name), d_names(&t.implements_interfaces), d_dirs(&t.directives), d_list(&t.fields, d_fd)),
        D::UnionTypeExtension(t) => format!("(xunion {} {} {})", qs(&t.name), d_dirs(&t.directives), d_names(&t.members)),
        D::EnumTypeExtension(t) => format!("(xenum {} {} {})", qs(&t.name), d_dirs(&t.directives), d_list(&t.values, d_evd)),
        D::InputObjectTypeExtension(t) => format!("(xinput {} {} {})", qs(&t.name), d_dirs(&t.directives), d_list(&t.fields, d_ivd)),
    }).collect::<Vec<_>>().join(" ")
}

pub fn print_with(doc: &ast::Document, prefix: Option<&str>, level: usize) -> String {
    let ser = doc.serialize().initial_indent_level(level);
    match prefix { Some(p) => ser.indent_prefix(p).to_string(), None => ser.no_indent().to_string() }
}

pub const CFGS: [(Option<&str>, usize); 10] = [(Some("  "), 0), (None, 0), (Some(""), 0), (Some(""), 2), (Some(" "), 1), (Some("\t"), 1),
    (Some("    "), 3), (Some("  "), 2), (Some("\t "), 1), (None, 2)];

/// a random string *value*, written as a quoted literal (always lexes)
fn random_string_literal(r: &mut Rng) -> String {
    let pieces = ["\"", "\"\"\"", "\\", "\n", "\n\n", "  ", "\t", "a", "word ", "é", "😀", "\u{1}", "\u{7f}", "\r", " \n x",
        "long long long long long long long long long long long long long long long text", "end\""];
    let n = r.below(6);
    let mut lit = String::from("\"");
    for _ in 0..n {
        for c in r.pick(&pieces).chars() {
            match c { '"' => lit.push_str("\\\""), '\\' => lit.push_str("\\\\"), '\n' => lit.push_str("\\n"), '\r' => lit.push_str("\\r"), '\t' => lit.push_str("\\t"),
                c if (c as u32) < 0x20 || c as u32 == 0x7f => write!(lit, "\\u{:04x}", c as u32).unwrap(), c => lit.push(c) }
        }
    }
    lit.push('"');
    lit
}

fn one_doc(ctx: &mut Ctx, src: &str, all_cfgs: bool) {
    // CST → AST conversion against its Lean model (stream c08.fromcst), valid or not, and broken variants
    crate::pfromcst::case(ctx, src);
    if ctx.rng.chance(1, 2) { crate::pfromcst::broken_variants(ctx, src); }
    let doc = match catch(|| ast::Document::parse(src.to_string(), "d.graphql")) {
        Ok(Ok(d)) => d,
        Ok(Err(_)) => { ctx.stat("skipped_syntax_error"); return }
        Err(m) => { ctx.fail("parse-panic", src, &m); return }
    };
    if doc.definitions.is_empty() { ctx.stat("skipped_empty"); return }
    ctx.stat("documents");
    ctx.stat_n("definitions", doc.definitions.len() as u64);
    for d in &doc.definitions { ctx.stat(&format!("def:{}", def_kind(d))); }
    ctx.case("c08.ast", &[enc(src)], &dump(&doc));
    let n = CFGS.len();
    let picks: Vec<usize> = if all_cfgs { (0..n).collect() } else { vec![0, 1, 2 + ctx.rng.below(n - 2)] };
    for i in picks {
        let (p, l) = CFGS[i];
        let text = match catch(|| print_with(&doc, p, l)) { Ok(t) => t, Err(m) => { ctx.fail("serialize-panic", src, &m); continue } };
        let pf = p.map(enc).unwrap_or_else(|| "-".into());
        ctx.case("c08.print", &[pf.clone(), l.to_string(), enc(src)], &enc(&text));
        ctx.case("c08.toks", &[pf, l.to_string(), enc(src)], "true");
        // oracle on the implementation
        let input = format!("prefix={p:?} level={l} src={src:?}");
        match catch(|| ast::Document::parse(text.clone(), "r.graphql")) {
            Ok(Ok(back)) => {
                if back != doc || dump(&back) != dump(&doc) {
                    ctx.fail("reparse-differs", &input, &format!("printed {text:?}; AST before {} ; after {}", dump(&doc), dump(&back)));
                } else {
                    let again = print_with(&back, p, l);
                    if again != text { ctx.fail("reprint-differs", &input, &format!("first {text:?} second {again:?}")); }
                }
            }
            Ok(Err(e)) => {
                // the recorded C05 defect (a root operation type without its named type is accepted, `schema { query: }`)
                // seen through this property: from_cst drops the incomplete root, and a schema definition / extension left
                // without anything prints as `schema` / `extend schema`, which does not parse
                let nameless_root = {
                    let t: Vec<&str> = src.split(|c: char| c.is_whitespace() || c == ',').filter(|x| !x.is_empty()).collect();
                    t.windows(2).any(|w| ["query:", "mutation:", "subscription:"].contains(&w[0]) && (w[1] == "}" || w[1].ends_with(':')))
                        || ["query:}", "mutation:}", "subscription:}"].iter().any(|k| src.replace(' ', "").contains(k))
                };
                let key = if nameless_root { "reparse-error-after-nameless-root-operation" } else { "reparse-error" };
                ctx.fail(key, &input, &format!("printed text has syntax errors: {text:?}: {}", e.errors.to_string().lines().next().unwrap_or("")))
            }
            Err(m) => ctx.fail("reparse-panic", &input, &m),
        }
        ctx.nontrivial(&text);
    }
}

fn def_kind(d: &ast::Definition) -> &'static str {
    use ast::Definition as D;
    match d { D::OperationDefinition(_) => "operation", D::FragmentDefinition(_) => "fragment", D::DirectiveDefinition(_) => "directive", D::SchemaDefinition(_) => "schema",
        D::ScalarTypeDefinition(_) => "scalar", D::ObjectTypeDefinition(_) => "object", D::InterfaceTypeDefinition(_) => "interface", D::UnionTypeDefinition(_) => "union",
        D::EnumTypeDefinition(_) => "enum", D::InputObjectTypeDefinition(_) => "input", D::SchemaExtension(_) => "xschema", D::ScalarTypeExtension(_) => "xscalar",
        D::ObjectTypeExtension(_) => "xobject", D::InterfaceTypeExtension(_) => "xinterface", D::UnionTypeExtension(_) => "xunion", D::EnumTypeExtension(_) => "xenum", D::InputObjectTypeExtension(_) => "xinput" }
}

const FIXED: &[&str] = &[
    "{ a }", "query { a }", "type A @d { a }", "scalar S { a }", "type A { f: Int } { a }", "{ a } { b }", "extend schema @d { a }", "type A { a }",
    "query Q($a: Int = 1 @d, $b: [Int!]! = [1, 2]) @d { a: b(x: {y: [1.5e3, \"s\", null, true, E, $a]}) @d(a: 1) @e { ... on T @d { c } ... @d { d } ...F @d } }",
    "fragment F on T @d { a }", "subscription { a }", "mutation M { a }", "query { a } { b }",
    "\"d\" schema @d { query: Q mutation: M }", "extend schema @d", "extend schema { subscription: S }",
    "\"\"\"\nblock\n\"\"\" scalar S @d", "extend scalar S @d",
    "type T implements A & B @d { \"d\" f(\"d\" a: Int = 1 @d, b: [S]): T! @d g: Int }", "type T", "extend type T implements A", "extend type T { f: Int }",
    "interface I implements J { f: Int }", "extend interface I @d", "union U @d = A | B", "union U", "extend union U = | A", "union U = | A | B",
    "enum E @d { \"d\" A @d B }", "enum E", "extend enum E { C }", "input I @d { \"d\" a: Int = 1 @d b: S }", "input I", "extend input I { c: Int }",
    "directive @d(a: Int = 1, \"d\" b: S @x) repeatable on QUERY | FIELD", "directive @d on | QUERY", "\"d\" directive @d on FIELD_DEFINITION",
    "{ a(s: \"a\\nb\") b(s: \"  x\\n  y\") c(s: \"\\\"\") d(s: \"x\\\\\") e(s: \"\"\"q\\\"\"\"q\"\"\") }",
    "\"first\\nsecond\" type T { \"ends with quote\\\"\" f: Int \"   indented\" g: Int \"\" h: Int }",
    "type T { f(a: String = \"x\" \"d\" b: Int): Int }", "input I { a: String = \"x\" \"d\" b: Int }",
    "{ a(x: [[1, [2]], {a: {b: []}}, {}]) }", "query ($v: [[Int!]]! = [[1]]) { a }", "{ on: on(on: on) @on(on: on) { on } }",
    "query query { query } fragment fragment on on { on }", "type type { type: type } enum enum { enum }", "{ a(x: -0, y: -1.0E+5, z: 0.5e-3) }",
];

/// one snippet per definition kind and per optional-part shape (with and without the trailing `{…}` / list),
/// combined pairwise: what a definition may be followed by is where the shorthand rule and the
/// optional-braces rules interact
const SNIPPETS: &[&str] = &[
    "{ a }", "query { a }", "query Q { a }", "query @d { a }", "query ($v: Int) { a }", "mutation { a }", "subscription S { a }",
    "fragment F on T { a }", "schema { query: Q }", "schema @d { query: Q }", "extend schema @d", "extend schema { query: Q }", "extend schema @d { mutation: M }",
    "scalar S", "scalar S @d", "scalar S @d(a: 1)", "extend scalar S @d",
    "type T", "type T @d", "type T implements I", "type T implements I & J @d", "type T { f: Int }", "type T { f(a: Int = 1): [Int!]! @d }", "extend type T @d", "extend type T implements I", "extend type T { f: Int }",
    "interface I", "interface I implements J", "interface I { f: Int }", "extend interface I @d", "extend interface I { f: Int }",
    "union U", "union U @d", "union U = A", "union U = A | B", "extend union U @d", "extend union U = A",
    "enum E", "enum E @d", "enum E { A }", "extend enum E @d", "extend enum E { A }",
    "input I", "input I @d", "input I { a: Int }", "input I { a: Int = 1 }", "extend input I @d", "extend input I { a: Int }",
    "directive @d on FIELD", "directive @d(a: Int) repeatable on FIELD | QUERY", "\"d\" scalar S", "\"d\" type T", "\"d\" directive @d on FIELD",
];

/// The recorded C05 defect seen through this property (implementation only: the reference parser of the model is the
/// grammar's and rejects these sources, Properties/C08 `from_cst_agrees_with_reference_parser_refuted`): a source with a
/// root operation type that lacks its named type parses without error; from_cst drops that root; what is left is printed.
fn nameless_root_cases(ctx: &mut Ctx) {
    for src in ["schema { query: }", "extend schema { query: }", "schema { query: Q mutation: } type Q { a: Int }", "extend schema @d { query: }",
                "schema @d { query: Q subscription: } type Q { a: Int } directive @d on SCHEMA"] {
        let Ok(Ok(doc)) = catch(|| ast::Document::parse(src.to_string(), "d.graphql")) else { ctx.stat("nameless_root_source_rejected"); continue };
        for (p, l) in CFGS {
            let text = print_with(&doc, p, l);
            let input = format!("prefix={p:?} level={l} src={src:?}");
            match catch(|| ast::Document::parse(text.clone(), "r.graphql")) {
                Ok(Ok(back)) => if dump(&back) != dump(&doc) { ctx.fail("reparse-differs", &input, &format!("printed {text:?}")) } else { ctx.stat("nameless_root_roundtrip_ok") },
                Ok(Err(e)) => ctx.fail("reparse-error-after-nameless-root-operation", &input, &format!("printed text has syntax errors: {text:?}: {}", e.errors.to_string().lines().next().unwrap_or(""))),
                Err(m) => ctx.fail("reparse-panic", &input, &m),
            }
        }
    }
}

pub fn run(ctx: &mut Ctx) {
    nameless_root_cases(ctx);
    for s in FIXED { one_doc(ctx, s, true); }
    for a in SNIPPETS { for b in SNIPPETS { one_doc(ctx, &format!("{a} {b}"), false); } }
    if ctx.thorough { for a in SNIPPETS { for b in &SNIPPETS[..8] { for c in SNIPPETS.iter().step_by(3) { one_doc(ctx, &format!("{a} {b} {c}"), false); } } } }
    for s in crate::pp::repo_documents() { one_doc(ctx, &s, false); }
    let dir = "/repo/crates/apollo-compiler/test_data";
    for sub in ["ok", "diagnostics", "serializer"] {
        let Ok(rd) = std::fs::read_dir(format!("{dir}/{sub}")) else { continue };
        let mut files: Vec<_> = rd.filter_map(|e| e.ok()).map(|e| e.path()).filter(|p| p.extension().map(|x| x == "graphql").unwrap_or(false)).collect();
        files.sort();
        for p in files { if let Ok(s) = std::fs::read_to_string(&p) { if s.len() < 6000 { ctx.stat("repo_files"); one_doc(ctx, &s, false); } } }
    }
    let n = if ctx.thorough { 60_000 } else { 5_000 };
    let mut cov = std::collections::BTreeMap::new();
    for i in 0..n {
        let mut r = Rng(ctx.rng.next());
        let mut src = { let mut g = G { r: &mut r, depth: 0, cov: &mut cov }; g.document() };
        // richer string values than the grammar generator's fixed picks
        while let Some(at) = src.find("\"s\"") { let lit = random_string_literal(&mut r); src.replace_range(at..at + 3, &lit); }
        while let Some(at) = src.find("\"desc\"") { let lit = random_string_literal(&mut r); src.replace_range(at..at + 6, &lit); }
        one_doc(ctx, &src, i % 50 == 0);
    }
    for (k, v) in cov { ctx.stat_n(&format!("prod:{k}"), v); }
}
