//! C12 — schema serialization round-trips and preserves order.
//!
//! Stream `c12.roundtrip`: structured schema documents that build cleanly ↦ the definitions `Schema::to_ast`
//! emits (read back from the serialized text) and the order-sensitive dump of the re-parsed schema, against
//! the Lean model (Model/SchemaSerialize.lean on top of the SchemaBuilder model).
//! Oracle (from the property text, on the implementation): serialized text re-parses without build errors,
//! `==`, order-sensitive dump equal, second serialization byte-identical, valid stays valid.
use crate::p13::{assemble, build_schema, dump_schema, messages, show, Mode, Tag, D, KIND_CH};
use crate::util::*;
use apollo_compiler::ast;
use apollo_compiler::schema::{ExtendedType, ExtensionId};
use apollo_compiler::Schema;

/// order-sensitive dump of everything the property lists: types, fields (with arguments), enum values,
/// union members, implemented interfaces, directive applications — each component as its own serialization
fn order_dump(s: &Schema, regroup: bool) -> String {
    let mut out = vec![];
    for (name, ty) in &s.types {
        if ty.is_built_in() && ty.extensions().is_empty() { continue; }
        type Items<'a> = Vec<(Option<&'a ExtensionId>, String)>;
        let f = |n: &apollo_compiler::Name, s: String| format!("{n}={}", s.replace('\n', " "));
        let dirs_i: Items = ty.directives().iter().map(|c| (c.origin.extension_id(), c.node.to_string())).collect();
        let (k, ifs_i, ms_i): (usize, Items, Items) = match ty {
            ExtendedType::Scalar(_) => (0, vec![], vec![]),
            ExtendedType::Object(o) => (1, o.implements_interfaces.iter().map(|c| (c.origin.extension_id(), c.name.to_string())).collect(),
                o.fields.iter().map(|(n, c)| (c.origin.extension_id(), f(n, c.node.to_string()))).collect()),
            ExtendedType::Interface(o) => (2, o.implements_interfaces.iter().map(|c| (c.origin.extension_id(), c.name.to_string())).collect(),
                o.fields.iter().map(|(n, c)| (c.origin.extension_id(), f(n, c.node.to_string()))).collect()),
            ExtendedType::Union(o) => (3, vec![], o.members.iter().map(|c| (c.origin.extension_id(), c.name.to_string())).collect()),
            ExtendedType::Enum(o) => (4, vec![], o.values.iter().map(|(n, c)| (c.origin.extension_id(), f(n, c.node.to_string()))).collect()),
            ExtendedType::InputObject(o) => (5, vec![], o.fields.iter().map(|(n, c)| (c.origin.extension_id(), f(n, c.node.to_string()))).collect()),
        };
        // `regroup` (used only to classify a failure as the recorded finding): every list rearranged as
        // "definition components, then per extension", the extensions in the recorded discovery order:
        // first appearance over directives, then interfaces, then fields / values / members
        let mut exts: Vec<&ExtensionId> = vec![];
        for (o, _) in dirs_i.iter().chain(ifs_i.iter()).chain(ms_i.iter()) { if let Some(e) = o { if !exts.contains(e) { exts.push(e); } } }
        let arrange = |items: Items| -> Vec<String> {
            if !regroup { return items.into_iter().map(|x| x.1).collect(); }
            let mut v: Vec<String> = items.iter().filter(|x| x.0.is_none()).map(|x| x.1.clone()).collect();
            for e in &exts { v.extend(items.iter().filter(|x| x.0 == Some(*e)).map(|x| x.1.clone())); }
            v
        };
        let (dirs, ifs, ms) = (arrange(dirs_i), arrange(ifs_i), arrange(ms_i));
        out.push(format!("{name}/{}{{{}}}{{{}}}{{{}}}", KIND_CH[k], dirs.join(","), ifs.join(","), ms.join(" ; ")));
    }
    let sd = &s.schema_definition;
    let sdirs: Vec<String> = sd.directives.iter().map(|c| c.node.to_string()).collect();
    let r = |x: &Option<apollo_compiler::schema::ComponentName>| x.as_ref().map(|c| c.name.to_string()).unwrap_or("-".into());
    format!("{} || schema{{{}}} q={} m={} s={}", out.join(" | "), sdirs.join(","), r(&sd.query), r(&sd.mutation), r(&sd.subscription))
}

/// the definitions of a schema document, names only (the canonical form the model prints for `toAst`)
fn ast_line(text: &str) -> String {
    let doc = match ast::Document::parse(text, "ser.graphql") { Ok(d) => d, Err(e) => e.partial };
    let names = |v: Vec<String>| v.join(",");
    let mut out = vec![];
    for def in &doc.definitions {
        use ast::Definition as A;
        let dl = |d: &ast::DirectiveList| names(d.iter().map(|x| x.name.to_string()).collect());
        let fl = |f: &Vec<apollo_compiler::Node<ast::FieldDefinition>>| names(f.iter().map(|x| x.name.to_string()).collect());
        let il = |f: &Vec<apollo_compiler::Node<ast::InputValueDefinition>>| names(f.iter().map(|x| x.name.to_string()).collect());
        let nl = |f: &Vec<apollo_compiler::Name>| names(f.iter().map(|x| x.to_string()).collect());
        let ro = |f: &Vec<apollo_compiler::Node<(ast::OperationType, apollo_compiler::Name)>>| names(f.iter().map(|x| format!("{}={}", x.0.name(), x.1)).collect());
        let line = match def {
            A::SchemaDefinition(d) => format!("S {{d:{}}}{{i:}}{{m:{}}}", dl(&d.directives), ro(&d.root_operations)),
            A::SchemaExtension(d) => format!("X {{d:{}}}{{i:}}{{m:{}}}", dl(&d.directives), ro(&d.root_operations)),
            A::DirectiveDefinition(d) => format!("D {}{{d:}}{{i:}}{{m:}}", d.name),
            A::ScalarTypeDefinition(d) => format!("Ts {}{{d:{}}}{{i:}}{{m:}}", d.name, dl(&d.directives)),
            A::ScalarTypeExtension(d) => format!("Es {}{{d:{}}}{{i:}}{{m:}}", d.name, dl(&d.directives)),
            A::ObjectTypeDefinition(d) => format!("To {}{{d:{}}}{{i:{}}}{{m:{}}}", d.name, dl(&d.directives), nl(&d.implements_interfaces), fl(&d.fields)),
            A::ObjectTypeExtension(d) => format!("Eo {}{{d:{}}}{{i:{}}}{{m:{}}}", d.name, dl(&d.directives), nl(&d.implements_interfaces), fl(&d.fields)),
            A::InterfaceTypeDefinition(d) => format!("Ti {}{{d:{}}}{{i:{}}}{{m:{}}}", d.name, dl(&d.directives), nl(&d.implements_interfaces), fl(&d.fields)),
            A::InterfaceTypeExtension(d) => format!("Ei {}{{d:{}}}{{i:{}}}{{m:{}}}", d.name, dl(&d.directives), nl(&d.implements_interfaces), fl(&d.fields)),
            A::UnionTypeDefinition(d) => format!("Tu {}{{d:{}}}{{i:}}{{m:{}}}", d.name, dl(&d.directives), nl(&d.members)),
            A::UnionTypeExtension(d) => format!("Eu {}{{d:{}}}{{i:}}{{m:{}}}", d.name, dl(&d.directives), nl(&d.members)),
            A::EnumTypeDefinition(d) => format!("Te {}{{d:{}}}{{i:}}{{m:{}}}", d.name, dl(&d.directives), names(d.values.iter().map(|v| v.value.to_string()).collect())),
            A::EnumTypeExtension(d) => format!("Ee {}{{d:{}}}{{i:}}{{m:{}}}", d.name, dl(&d.directives), names(d.values.iter().map(|v| v.value.to_string()).collect())),
            A::InputObjectTypeDefinition(d) => format!("Tn {}{{d:{}}}{{i:}}{{m:{}}}", d.name, dl(&d.directives), il(&d.fields)),
            A::InputObjectTypeExtension(d) => format!("En {}{{d:{}}}{{i:}}{{m:{}}}", d.name, dl(&d.directives), il(&d.fields)),
            A::OperationDefinition(_) => "O".to_string(),
            A::FragmentDefinition(_) => "F".to_string(),
        };
        out.push(line);
    }
    out.join(";")
}

struct Rt { text: String, re: Schema, re_errors: Vec<String> }

fn roundtrip(orig: &Schema) -> Rt {
    let text = orig.to_string();
    let b = build_schema(&[text.clone()], false, false);
    Rt { text, re_errors: messages(&b.errors), re: b.schema }
}

/// the property, evaluated on the implementation; `orig` was built without errors
fn oracle(ctx: &mut Ctx, inp: &str, orig: &Schema, rt: &Rt) {
    let short = |s: &str| s.replace('\n', " ");
    if !rt.re_errors.is_empty() {
        ctx.fail("reparse-has-build-errors", inp, &format!("serialized `{}` re-parses with {:?}", short(&rt.text), rt.re_errors));
        return;
    }
    if rt.re != *orig { ctx.fail("reparse-not-equal", inp, &format!("serialized `{}` re-parses to a schema that is != the original", short(&rt.text))); }
    let (a, b) = (order_dump(orig, false), order_dump(&rt.re, false));
    if a != b {
        // classification only: is the difference exactly "lists regrouped by extensions() order"?
        if b == order_dump(orig, true) {
            ctx.fail("extension-discovery-order-reorders-components", inp, &format!("serialized `{}`: original order {a} / re-parsed order {b}", short(&rt.text)));
        } else {
            ctx.fail("reparse-order-differs", inp, &format!("serialized `{}`: original order {a} / re-parsed order {b}", short(&rt.text)));
        }
    }
    let text2 = rt.re.to_string();
    if text2 != rt.text { ctx.fail("reserialization-not-identical", inp, &format!("first `{}` second `{}`", short(&rt.text), short(&text2))); }
    let v = orig.clone().validate();
    if let Err(e) = &v { if std::env::var("C12_DEBUG").is_ok() { eprintln!("INVALID {inp}: {:?}", e.errors.iter().map(|d| d.error.to_string()).take(2).collect::<Vec<_>>()); } }
    if v.is_ok() {
        ctx.stat("valid_schemas");
        if let Err(e) = rt.re.clone().validate() {
            ctx.fail("valid-becomes-invalid", inp, &format!("serialized `{}`: {:?}", short(&rt.text), e.errors.iter().map(|d| d.error.to_string()).collect::<Vec<_>>()));
        }
    }
}

fn structured_case(ctx: &mut Ctx, srcs: &[Vec<D>]) {
    let (texts, _bases, enc_srcs) = assemble(srcs);
    let b = build_schema(&texts, false, false);
    if b.errors.is_some() { ctx.stat("generated_document_has_build_errors"); return; }
    let inp = show(&texts);
    let rt = roundtrip(&b.schema);
    let line = format!("AST[{}]RT:{}E[{}]", ast_line(&rt.text), dump_schema(&rt.re, &Mode::Ordinal(Default::default())), rt.re_errors.len());
    ctx.case("c12.roundtrip", &[enc(&enc_srcs)], &line);
    ctx.stat("clean_structured_documents");
    let n_ext: usize = b.schema.types.values().map(|t| t.extensions().len()).sum::<usize>() + b.schema.schema_definition.extensions().len();
    if n_ext > 0 { ctx.stat("documents_with_extensions"); }
    if n_ext > 1 { ctx.stat("documents_with_two_or_more_extensions"); }
    if order_dump(&b.schema, true) != order_dump(&b.schema, false) { ctx.stat("documents_with_inconsistent_extension_discovery_order"); }
    if rt.text.contains("schema") { ctx.stat("explicit_schema_definition_or_extension_serialized"); } else { ctx.stat("implicit_schema_definition"); }
    oracle(ctx, &inp, &b.schema, &rt);
    ctx.nontrivial(&inp);
}

// ---------------------------------------------------------------- generator: clean by construction

fn shuffle<T>(ctx: &mut Ctx, v: &mut Vec<T>) { for i in (1..v.len()).rev() { let j = ctx.rng.below(i + 1); v.swap(i, j); } }

fn take(ctx: &mut Ctx, pool: &mut Vec<String>, max: usize) -> Vec<String> {
    let n = ctx.rng.below(max + 1).min(pool.len());
    pool.drain(..n).collect()
}

/// `valid`: keep the document valid (defined directives, implemented interface fields, non-empty types)
fn gen_clean(ctx: &mut Ctx, valid: bool) -> Vec<D> {
    let mut defs: Vec<D> = vec![];
    let mut names: Vec<&str> = vec!["Query", "T0", "T1", "T2", "Mutation", "Subscription", "T3"];
    if !ctx.rng.chance(2, 3) { names.remove(0); }
    let nt = 1 + ctx.rng.below(4);
    let mut picked: Vec<&str> = vec![];
    for n in names.iter().take(6) { if picked.len() < nt && (picked.is_empty() && *n == "Query" || ctx.rng.chance(1, 2)) { picked.push(n); } }
    if picked.is_empty() { picked.push("T0"); }
    let mut objects: Vec<String> = vec![];
    let dir_pool: &[&str] = if valid { &["d0", "d1"] } else { &["d0", "d1", "deprecated", "zz"] };
    let dirs = |ctx: &mut Ctx, max: usize| -> Vec<String> { (0..ctx.rng.below(max + 1)).map(|_| ctx.rng.pick(dir_pool).to_string()).collect() };
    for n in &picked {
        let root_name = matches!(*n, "Query" | "Mutation" | "Subscription");
        let kind = if root_name { if valid || ctx.rng.chance(5, 6) { 1 } else { ctx.rng.below(6) } } else { ctx.rng.below(6) };
        if kind == 1 { objects.push(n.to_string()); }
        let mut pool: Vec<String> = match kind { 3 => vec![], 4 => (0..7).map(|i| format!("V{i}")).collect(), _ => (0..7).map(|i| format!("f{i}")).collect() };
        if kind == 3 { pool = vec!["U0".into(), "U1".into(), "U2".into(), "U3".into()]; }
        shuffle(ctx, &mut pool);
        let mut ipool: Vec<String> = if kind == 1 || kind == 2 { if valid { vec!["I0".into()] } else { vec!["I0".into(), "I1".into(), "I2".into()] } } else { vec![] };
        shuffle(ctx, &mut ipool);
        let n_ext = if ctx.rng.chance(1, 3) { 0 } else { 1 + ctx.rng.below(3) };
        for j in 0..=n_ext {
            let tag = if j == 0 { Tag::TypeDef } else { Tag::TypeExt };
            let mut d = D { tag, kind, name: n.to_string(), dirs: dirs(ctx, 2), ifaces: take(ctx, &mut ipool, 2), members: vec![] };
            if kind != 0 { d.members = take(ctx, &mut pool, 3).into_iter().map(|m| (m, String::new())).collect(); }
            if valid && j == 0 && kind != 0 && d.members.is_empty() { if let Some(m) = pool.pop() { d.members.push((m, String::new())); } }
            if valid && (kind == 1 || kind == 2) && !d.ifaces.is_empty() && !d.members.iter().any(|m| m.0 == "i0") { d.members.push(("i0".into(), String::new())); }
            if tag == Tag::TypeExt && d.dirs.is_empty() && d.ifaces.is_empty() && d.members.is_empty() { d.dirs.push("d0".into()); }
            defs.push(d);
        }
    }
    if valid {
        // what the generated types refer to
        defs.push(D { tag: Tag::TypeDef, kind: 2, name: "I0".into(), dirs: vec![], ifaces: vec![], members: vec![("i0".into(), String::new())] });
        for u in ["U0", "U1", "U2", "U3"] { defs.push(D { tag: Tag::TypeDef, kind: 1, name: u.into(), dirs: vec![], ifaces: vec![], members: vec![("u".into(), String::new())] }); }
        defs.push(D { tag: Tag::DirDef, kind: 0, name: "d0".into(), dirs: vec![], ifaces: vec![], members: vec![] });
        defs.push(D { tag: Tag::DirDef, kind: 0, name: "d1".into(), dirs: vec![], ifaces: vec![], members: vec![] });
    } else {
        if ctx.rng.chance(1, 3) { defs.push(D { tag: Tag::DirDef, kind: 0, name: "d0".into(), dirs: vec![], ifaces: vec![], members: vec![] }); }
        if ctx.rng.chance(1, 4) { defs.push(D { tag: Tag::DirDef, kind: 0, name: ctx.rng.pick(&["skip", "include", "deprecated", "specifiedBy"]).to_string(), dirs: vec![], ifaces: vec![], members: vec![] }); }
        if ctx.rng.chance(1, 5) { defs.push(D { tag: Tag::TypeExt, kind: 0, name: ctx.rng.pick(&["Int", "ID", "String"]).to_string(), dirs: vec!["d0".into(), "d1".into()], ifaces: vec![], members: vec![] }); }
        if ctx.rng.chance(1, 8) { defs.push(D { tag: Tag::TypeExt, kind: 1, name: "__Type".into(), dirs: dirs(ctx, 1), ifaces: vec![], members: vec![("zq0".into(), String::new())] }); }
    }
    // schema definition / extensions
    let mode = ctx.rng.below(4);
    let mut ops: Vec<&str> = vec!["query", "mutation", "subscription"];
    shuffle(ctx, &mut ops);
    let target = |ctx: &mut Ctx, op: &str| -> String {
        if valid || ctx.rng.chance(2, 3) {
            let dflt = match op { "query" => "Query", "mutation" => "Mutation", _ => "Subscription" };
            if objects.iter().any(|o| o == dflt) && ctx.rng.chance(2, 3) { return dflt.to_string(); }
            if !objects.is_empty() { return objects[ctx.rng.below(objects.len())].clone(); }
            if valid { return "U0".into(); }
        }
        ctx.rng.pick(&["T0", "Query", "Nope"]).to_string()
    };
    if mode >= 2 {
        let n0 = 1 + ctx.rng.below(2);
        let roots: Vec<(String, String)> = ops.drain(..n0).map(|op| (op.to_string(), target(ctx, op))).collect();
        defs.push(D { tag: Tag::SchemaDef, kind: 0, name: String::new(), dirs: dirs(ctx, 2), ifaces: vec![], members: roots });
    }
    if mode >= 1 {
        for _ in 0..ctx.rng.below(3) {
            let mut d = D { tag: Tag::SchemaExt, kind: 0, name: String::new(), dirs: dirs(ctx, 2), ifaces: vec![], members: vec![] };
            if mode >= 2 && !ops.is_empty() && ctx.rng.chance(1, 2) { let op = ops.remove(0); d.members.push((op.to_string(), target(ctx, op))); }
            if d.dirs.is_empty() && d.members.is_empty() { d.dirs.push("d1".into()); }
            defs.push(d);
        }
    }
    shuffle(ctx, &mut defs);
    if valid {
        // a root `query` must exist for validity: keep documents that have it, otherwise add `Query`
        if !defs.iter().any(|d| d.tag == Tag::TypeDef && d.name == "Query") && !defs.iter().any(|d| d.tag == Tag::SchemaDef && d.members.iter().any(|m| m.0 == "query")) {
            defs.push(D { tag: Tag::TypeDef, kind: 1, name: "Query".into(), dirs: vec![], ifaces: vec![], members: vec![("q".into(), String::new())] });
        }
    }
    defs
}

fn t(kind: usize, name: &str, dirs: &[&str], members: &[&str]) -> D { D { tag: Tag::TypeDef, kind, name: name.into(), dirs: dirs.iter().map(|s| s.to_string()).collect(), ifaces: vec![], members: members.iter().map(|m| (m.to_string(), String::new())).collect() } }
fn e(kind: usize, name: &str, dirs: &[&str], members: &[&str]) -> D { D { tag: Tag::TypeExt, ..t(kind, name, dirs, members) } }
fn ifs(mut d: D, i: &[&str]) -> D { d.ifaces = i.iter().map(|s| s.to_string()).collect(); d }
fn sch(tag: Tag, dirs: &[&str], roots: &[(&str, &str)]) -> D { D { tag, kind: 0, name: String::new(), dirs: dirs.iter().map(|s| s.to_string()).collect(), ifaces: vec![], members: roots.iter().map(|(a, b)| (a.to_string(), b.to_string())).collect() } }

fn regressions() -> Vec<Vec<D>> {
    vec![
        // the probe of the property: extension order is the discovery order (directives first)
        vec![t(1, "Q", &[], &["f"]), e(1, "Q", &[], &["a"]), e(1, "Q", &["d"], &["b"])],
        vec![t(1, "Q", &[], &["f"]), e(1, "Q", &["d"], &["a"]), e(1, "Q", &[], &["b"])],
        vec![t(1, "Q", &[], &["f"]), ifs(e(1, "Q", &[], &["a"]), &[]), ifs(e(1, "Q", &[], &["b"]), &["I"]), ],
        vec![t(4, "E", &[], &["A"]), e(4, "E", &[], &["B"]), e(4, "E", &["d"], &["C"]), e(4, "E", &["d"], &[])],
        vec![t(3, "U", &["d"], &["A"]), e(3, "U", &[], &["B"]), e(3, "U", &["d"], &["C"])],
        vec![t(5, "N", &[], &[]), e(5, "N", &[], &["a"]), e(5, "N", &["d"], &["b"]), e(5, "N", &[], &["c"])],
        // extensions in front of the definition, empty definition
        vec![e(1, "Q", &["d"], &["a"]), e(1, "Q", &[], &["b"]), t(1, "Q", &[], &[])],
        // built-ins
        vec![e(0, "Int", &["d"], &[]), t(1, "Query", &[], &["a"]), e(1, "__Type", &["d"], &["zq"]), D { tag: Tag::DirDef, kind: 0, name: "skip".into(), dirs: vec![], ifaces: vec![], members: vec![] }],
        // schema definition: explicit, implicit, implicit + extension, non-default roots, default names that are not objects
        vec![t(1, "Query", &[], &["a"]), t(1, "Mutation", &[], &["a"])],
        vec![t(1, "Query", &[], &["a"]), sch(Tag::SchemaExt, &["d"], &[])],
        vec![t(1, "Query", &[], &["a"]), t(1, "Mutation", &[], &["a"]), sch(Tag::SchemaDef, &[], &[("query", "Query")])],
        vec![t(1, "Query", &[], &["a"]), t(1, "Mutation", &[], &["a"]), sch(Tag::SchemaDef, &[], &[("query", "Query"), ("mutation", "Mutation")])],
        vec![t(1, "Query", &[], &["a"]), t(3, "Mutation", &[], &["Query"]), sch(Tag::SchemaDef, &[], &[("query", "Query")])],
        vec![t(1, "Query", &[], &["a"]), t(1, "T0", &[], &["a"]), sch(Tag::SchemaDef, &[], &[("query", "T0")]), sch(Tag::SchemaExt, &[], &[("mutation", "Query")]), sch(Tag::SchemaExt, &["d"], &[("subscription", "T0")])],
        vec![sch(Tag::SchemaExt, &["d"], &[("mutation", "T0")]), sch(Tag::SchemaDef, &["e"], &[("query", "T0")]), t(1, "T0", &[], &["a"])],
        vec![t(0, "S", &[], &[])],
    ]
}

// ---------------------------------------------------------------- free text (oracle only)

const RICH: [&str; 30] = [
    "\"\"\"the query\"\"\" type Query { \"field a\" a(x: Int = 1 @d0, y: [String!]! = [\"s\"], z: In = {a: 1}): Int @deprecated(reason: \"r\") b: [T0!]! }",
    "type Query { q: Int }",
    "extend type Query @d0(x: 1) { c(b: Boolean, a: Float): T0 }",
    "extend type Query { d: String }",
    "extend type Query @d1 { e: ID }",
    "type T0 implements I0 { i: Int t(last: Int, first: Int): T0 }",
    "extend type T0 implements I1 { j(a: [Int] = [1, 2]): ID }",
    "extend type T0 @d1 { k: Int }",
    "\"iface\" interface I0 { i: Int }",
    "interface I1 { j(a: [Int]): ID }",
    "extend interface I0 @d0 { k: Int }",
    "extend interface I1 implements I0 { i: Int }",
    "\"u\" union U @d0 = Query | T0",
    "extend union U = T1",
    "extend union U @d1 = T2",
    "type T1 { a: Int } type T2 { a: Int }",
    "enum E { \"first\" A @deprecated B }",
    "extend enum E { C }",
    "extend enum E @d0 { D }",
    "input In { a: Int = 3 b: In c: [E] = [A] }",
    "extend input In { d: String = \"x\\ny\" }",
    "extend input In @d1 { e: Float = 1.5e3 }",
    "scalar Sc @specifiedBy(url: \"https://example.com\")",
    "extend scalar Sc @d0",
    "extend scalar Int @d1",
    "directive @d0(x: Int) repeatable on OBJECT | SCHEMA | UNION | ENUM | SCALAR | INTERFACE | ARGUMENT_DEFINITION | INPUT_OBJECT",
    "directive @d1 repeatable on OBJECT | SCHEMA | UNION | ENUM | SCALAR | INTERFACE | INPUT_OBJECT",
    "\"desc\" schema @d0 { query: Query }",
    "extend schema @d0(x: 2) { subscription: T0 }",
    "extend schema @d1 { mutation: T1 }",
];

fn rich_case(ctx: &mut Ctx, picks: &[usize]) {
    let text: String = picks.iter().map(|i| format!("{}\n", RICH[*i])).collect();
    let b = build_schema(&[text.clone()], false, false);
    if b.errors.is_some() { ctx.stat("rich_document_has_build_errors"); return; }
    ctx.stat("clean_rich_documents");
    let rt = roundtrip(&b.schema);
    oracle(ctx, &text.replace('\n', " "), &b.schema, &rt);
}

// ---------------------------------------------------------------- systematic families (generator audit G3)

fn dirdef(name: &str) -> D { D { tag: Tag::DirDef, kind: 0, name: name.into(), dirs: vec![], ifaces: vec![], members: vec![] } }

/// Root-operation matrix for the "can the `schema` definition stay implicit" decision of `Schema::to_ast`:
/// per operation type, the root is unset / set by the definition / set by an extension, to the default name or to
/// another object, while the default-named type is absent / an object / not an object.
/// Quick: every triple in which at least one operation is (unset, absent) — all pairs; thorough: all triples,
/// schema directives on and off, one extension per extension-set root or a single one.
fn root_matrix(ctx: &mut Ctx) {
    const DEFAULT: [&str; 3] = ["Query", "Mutation", "Subscription"];
    const OPS: [&str; 3] = ["query", "mutation", "subscription"];
    let variants: &[(bool, bool)] = if ctx.thorough { &[(false, false), (true, false), (false, true)] } else { &[(false, false)] };
    for code in 0..15usize * 15 * 15 {
        let cell = [code % 15, (code / 15) % 15, code / 225];
        if !ctx.thorough && !cell.iter().any(|c| *c == 0) { continue; }
        for &(with_dir, split_ext) in variants {
            let mut defs = vec![t(1, "T0", &[], &["a"])];
            let (mut in_def, mut in_ext): (Vec<(&str, &str)>, Vec<(&str, &str)>) = (vec![], vec![]);
            for i in 0..3 {
                let (state, exists) = (cell[i] % 5, cell[i] / 5);
                match exists { 1 => defs.push(t(1, DEFAULT[i], &[], &["a"])), 2 => defs.push(t(3, DEFAULT[i], &[], &["T0"])), _ => {} }
                match state { 1 => in_def.push((OPS[i], DEFAULT[i])), 2 => in_def.push((OPS[i], "T0")), 3 => in_ext.push((OPS[i], DEFAULT[i])), 4 => in_ext.push((OPS[i], "T0")), _ => {} }
            }
            let sdirs: &[&str] = if with_dir { &["d"] } else { &[] };
            if !in_def.is_empty() { defs.push(sch(Tag::SchemaDef, sdirs, &in_def)); }
            else if with_dir && in_ext.is_empty() { continue; }
            if split_ext { for r in &in_ext { defs.push(sch(Tag::SchemaExt, &[], &[*r])); } }
            else if !in_ext.is_empty() { defs.push(sch(Tag::SchemaExt, if in_def.is_empty() { sdirs } else { &[] }, &in_ext)); }
            if with_dir { defs.push(dirdef("d")); }
            ctx.stat("family_root_matrix");
            if !in_ext.is_empty() { ctx.stat("family_root_matrix_root_set_by_extension"); }
            structured_case(ctx, &[defs.clone()]);
            // all roots come from extensions: the only way to build that is `adopt_orphan_extensions` (or implicit roots)
            if in_def.is_empty() && !in_ext.is_empty() { adopt_case(ctx, &defs); }
        }
    }
}

/// oracle only: the schema is built AND re-parsed with `adopt_orphan_extensions` (the model of `c12.roundtrip` has no such flag)
fn adopt_case(ctx: &mut Ctx, defs: &[D]) {
    let (texts, _, _) = assemble(&[defs.to_vec()]);
    let b = build_schema(&texts, true, false);
    if b.errors.is_some() { ctx.stat("adopt_document_has_build_errors"); return; }
    ctx.stat("clean_adopt_documents");
    let text = b.schema.to_string();
    let b2 = build_schema(&[text.clone()], true, false);
    let rt = Rt { text, re_errors: messages(&b2.errors), re: b2.schema };
    oracle(ctx, &format!("adopt_orphan_extensions: {}", show(&texts)), &b.schema, &rt);
}

/// Every non-empty subset of {directives, interfaces, members} as the content of one extension and of each of two
/// extensions, for every kind; definition first / between / last (thorough: all three places for the pairs).
fn extension_subsets(ctx: &mut Ctx) {
    let member_pool: [&[&str]; 6] = [&[], &["f0", "f1", "f2"], &["f0", "f1", "f2"], &["U0", "U1", "U2"], &["V0", "V1", "V2"], &["f0", "f1", "f2"]];
    for kind in 0..6usize {
        let classes: Vec<usize> = match kind { 0 => vec![1], 1 | 2 => (1..8).collect(), _ => vec![1, 4, 5] }; // bit 0 directives, bit 1 interfaces, bit 2 members
        let mk = |tag: Tag, bits: usize, n: usize| -> D {
            let mut d = D { tag, kind, name: "X".into(), dirs: vec![], ifaces: vec![], members: vec![] };
            if bits & 1 != 0 { d.dirs.push(format!("d{}", n % 2)); }
            if bits & 2 != 0 { d.ifaces.push(format!("I{n}")); }
            if bits & 4 != 0 { d.members.push((member_pool[kind][n].to_string(), String::new())); }
            d
        };
        let def_bits = if kind == 0 { 0 } else { 4 };
        for &a in &classes {
            for place in 0..2 {
                let (dd, e1) = (mk(Tag::TypeDef, def_bits, 0), mk(Tag::TypeExt, a, 1));
                ctx.stat("family_extension_subsets");
                structured_case(ctx, &[if place == 0 { vec![dd, e1] } else { vec![e1, dd] }]);
            }
            if !ctx.thorough { continue; }
            // no definition at all: adopted
            adopt_case(ctx, &[mk(Tag::TypeExt, a, 1)]);
        }
        for &a in &classes { for &b in &classes {
            let places: &[usize] = if ctx.thorough { &[0, 1, 2] } else { &[0] };
            for &place in places {
                let (dd, e1, e2) = (mk(Tag::TypeDef, def_bits, 0), mk(Tag::TypeExt, a, 1), mk(Tag::TypeExt, b, 2));
                let ds = match place { 0 => vec![dd, e1, e2], 1 => vec![e1, dd, e2], _ => vec![e1, e2, dd] };
                ctx.stat("family_extension_subsets");
                structured_case(ctx, &[ds.clone()]);
                if ctx.thorough { structured_case(ctx, &[ds[..1].to_vec(), ds[1..].to_vec()]); }
            }
        } }
    }
}

/// Extensions of every built-in type, redefinitions of every built-in directive.
fn builtin_family(ctx: &mut Ctx) {
    let builtins: [(&str, usize); 13] = [("Int", 0), ("Float", 0), ("String", 0), ("Boolean", 0), ("ID", 0), ("__Schema", 1), ("__Type", 1), ("__Field", 1),
        ("__InputValue", 1), ("__EnumValue", 1), ("__Directive", 1), ("__TypeKind", 4), ("__DirectiveLocation", 4)];
    for (name, kind) in builtins {
        let member: &[&str] = match kind { 1 => &["zq"], 4 => &["ZV"], _ => &[] };
        let q = t(1, "Query", &[], &["a"]);
        ctx.stat("family_builtin_extension");
        structured_case(ctx, &[vec![e(kind, name, &["d"], member), q.clone(), dirdef("d")]]);
        ctx.stat("family_builtin_extension");
        structured_case(ctx, &[vec![q.clone(), e(kind, name, &["d"], member), e(kind, name, &["d", "d"], &[]), dirdef("d")]]);
    }
    let bd = ["skip", "include", "deprecated", "specifiedBy"];
    for i in 0..bd.len() {
        ctx.stat("family_builtin_directive_redefined");
        structured_case(ctx, &[vec![t(1, "Query", &[], &["a"]), dirdef(bd[i])]]);
        structured_case(ctx, &[vec![dirdef(bd[i]), dirdef("d"), dirdef(bd[(i + 1) % 4]), t(1, "Query", &["d"], &["a"])]]);
    }
    structured_case(ctx, &[bd.iter().rev().map(|n| dirdef(n)).chain(std::iter::once(t(1, "Query", &[], &["a"]))).collect()]);
}

/// Free text (oracle only): every kind of definition with every kind of decoration the serializer copies from the
/// definition / extension nodes — descriptions (none, empty, one line, block), directive applications with arguments,
/// member descriptions / arguments / default values — with 0–2 extensions before or after the definition.
fn decorated_family(ctx: &mut Ctx) {
    const SUPPORT: &str = "directive @d0(x: Int) repeatable on SCHEMA | SCALAR | OBJECT | FIELD_DEFINITION | ARGUMENT_DEFINITION | INTERFACE | UNION | ENUM | ENUM_VALUE | INPUT_OBJECT | INPUT_FIELD_DEFINITION\n\
        directive @d1(x: Int) repeatable on SCHEMA | SCALAR | OBJECT | FIELD_DEFINITION | ARGUMENT_DEFINITION | INTERFACE | UNION | ENUM | ENUM_VALUE | INPUT_OBJECT | INPUT_FIELD_DEFINITION\n\
        type Query { q: Int }\ntype P { p: Int }\ntype Q2 { p: Int }\ninterface I { i: Int }\ninterface J { j: Int }\n";
    let descs = ["", "\"\" ", "\"one line\" ", "\"\"\"\n  block \\\"\"\" with \"quotes\"\n    indented\n\n  and a blank line\n\"\"\"\n"];
    let dirs = ["", " @d0", " @d0(x: 1) @d1 @d0(x: 2)"];
    // (definition head, definition body, [extension head, extension body] × 2); `{D}` = description, `{A}` = directives
    let subjects: [(&str, [&str; 3]); 8] = [
        ("scalar", ["{D}scalar S{A}", "extend scalar S @d1(x: 7)", "extend scalar S @d0 @d1"]),
        ("object", ["{D}type O implements I{A} { {D}i(\n{D}a: Int = 1 @d0, b: [String!]! = [\"x\"]): Int @d0 g: [O!]! }", "extend type O implements J @d1 { {D}j(b: String = \"s\\n\"): ID @deprecated(reason: \"no\") }", "extend type O @d0(x: 3) { k: Float }"]),
        ("interface", ["{D}interface N implements I{A} { {D}i(a: Int = 1 @d0): Int n: N }", "extend interface N implements J @d1 { {D}j: ID }", "extend interface N @d0 { k(x: [Int] = [1, 2]): Float }"]),
        ("union", ["{D}union U{A} = P | Query", "extend union U @d1 = Q2", "extend union U @d0(x: 1)"]),
        ("enum", ["{D}enum E{A} { {D}A @d0 B }", "extend enum E @d1 { {D}C @deprecated(reason: \"x\") }", "extend enum E { D2 @d1(x: 4) }"]),
        ("input", ["{D}input In{A} { {D}a: Int = 3 @d0 b: [In!] }", "extend input In @d1 { {D}c: String = \"q\" }", "extend input In { d: In = {a: 1, b: [{a: 2}]} }"]),
        ("schema", ["{D}schema{A} { query: Query }", "extend schema @d1 { mutation: P }", "extend schema @d0(x: 9)"]),
        ("directive", ["{D}directive @dd({D}x: Int = 1 @d0, y: [In2] = [{z: 1.5}]) repeatable on FIELD | OBJECT\ninput In2 { z: Float }", "", ""]),
    ];
    for (what, parts) in subjects {
        for (di, desc) in descs.iter().enumerate() {
            for a in dirs {
                let fill = |s: &str| s.replace("{D}", desc).replace("{A}", a);
                let n_ext_max = if parts[1].is_empty() { 0 } else { 2 };
                for n_ext in 0..=n_ext_max {
                    for before in [false, true] {
                        if before && n_ext == 0 { continue; }
                        let mut pieces: Vec<String> = vec![];
                        let exts: Vec<String> = (1..=n_ext).map(|k| fill(parts[k])).collect();
                        if before { pieces.extend(exts.clone()); }
                        pieces.push(fill(parts[0]));
                        if !before { pieces.extend(exts); }
                        let text = format!("{SUPPORT}{}\n", pieces.join("\n"));
                        let b = build_schema(&[text.clone()], false, false);
                        if b.errors.is_some() { ctx.stat("decorated_document_has_build_errors"); continue; }
                        ctx.stat("family_decorated");
                        ctx.stat(&format!("family_decorated_{what}"));
                        if di > 0 { ctx.stat("family_decorated_with_description"); }
                        let rt = roundtrip(&b.schema);
                        // the decoration must be there after the round trip (the oracle compares schemas, this guards the generator)
                        if di > 1 && !rt.text.contains(if di == 2 { "one line" } else { "indented" }) { ctx.fail("description-lost-in-serialization", &text.replace('\n', " "), &rt.text.replace('\n', " ")); }
                        oracle(ctx, &text.replace('\n', " "), &b.schema, &rt);
                    }
                }
            }
        }
    }
}

pub fn run(ctx: &mut Ctx) {
    for ds in regressions() {
        structured_case(ctx, &[ds.clone()]);
        if ds.len() > 1 { structured_case(ctx, &[ds[..1].to_vec(), ds[1..].to_vec()]); }
    }
    root_matrix(ctx);
    extension_subsets(ctx);
    builtin_family(ctx);
    decorated_family(ctx);
    let n = if ctx.thorough { 40_000 } else { 4_000 };
    for i in 0..n {
        let ds = gen_clean(ctx, i % 3 == 0);
        if ds.len() > 2 && ctx.rng.chance(1, 4) { let c = 1 + ctx.rng.below(ds.len() - 1); structured_case(ctx, &[ds[..c].to_vec(), ds[c..].to_vec()]); }
        else { structured_case(ctx, &[ds]); }
    }
    let n_r = if ctx.thorough { 30_000 } else { 3_000 };
    for _ in 0..n_r {
        // every snippet at most once (no collisions), random order, random subset
        let mut idx: Vec<usize> = (0..RICH.len()).filter(|i| *i != 1).collect();
        shuffle(ctx, &mut idx);
        let k = 2 + ctx.rng.below(idx.len() - 2);
        let mut picks: Vec<usize> = idx[..k].to_vec();
        if !picks.contains(&0) { picks.push(1); }
        // what a snippet needs in order to build (and mostly validate): its definition, the types it names
        let deps: [(usize, &[usize]); 18] = [(0, &[19, 16, 5, 25]), (5, &[8]), (6, &[5, 9]), (7, &[5]), (10, &[8]), (11, &[9, 8]), (12, &[5]), (13, &[12, 15]), (14, &[12, 15]),
            (17, &[16]), (18, &[16]), (19, &[16]), (20, &[19]), (21, &[19]), (23, &[22]), (28, &[5]), (29, &[15]), (2, &[5])];
        loop {
            let mut add = vec![];
            for (i, need) in deps.iter() { if picks.contains(i) { for n in need.iter() { if !picks.contains(n) && !add.contains(n) { add.push(*n); } } } }
            if add.is_empty() { break; }
            // dependencies go to random places: definitions may follow their extensions
            for n in add { let at = ctx.rng.below(picks.len() + 1); picks.insert(at, n); }
        }
        if ctx.rng.chance(3, 4) { for n in [25usize, 26] { if !picks.contains(&n) { picks.push(n); } } }
        rich_case(ctx, &picks);
    }
}
