//! Grammar-directed generator of GraphQL documents (text), covering every production of the
//! October-2021 document grammar, plus token-level mutations.  All choices come from `Rng`.
use crate::util::Rng;

pub struct G<'a> { pub r: &'a mut Rng, pub depth: usize, pub cov: &'a mut std::collections::BTreeMap<String, u64> }

const NAMES: [&str; 10] = ["a", "b", "Foo", "Bar_1", "_x", "on", "query", "type", "true", "null"];
const TYPES: [&str; 5] = ["Int", "String", "Foo", "Bar_1", "ID"];

impl<'a> G<'a> {
    fn hit(&mut self, p: &str) { *self.cov.entry(p.to_string()).or_insert(0) += 1; }
    fn sp(&mut self) -> &'static str { *self.r.pick(&[" ", " ", " ", "\n", "  ", ", ", " # c\n", "\t"]) }
    pub fn name(&mut self) -> String { self.r.pick(&NAMES[..5]).to_string() }
    fn any_name(&mut self) -> String { self.r.pick(&NAMES).to_string() }
    pub fn ty(&mut self, d: usize) -> String {
        self.hit("Type");
        let base = if d < 3 && self.r.chance(1, 3) { format!("[{}]", self.ty(d + 1)) } else { self.r.pick(&TYPES).to_string() };
        if self.r.chance(1, 3) { format!("{base}!") } else { base }
    }
    pub fn value(&mut self, d: usize, is_const: bool) -> String {
        self.hit("Value");
        let k = self.r.below(if d >= 3 { 8 } else { 10 });
        match k {
            0 => { self.hit("IntValue"); self.r.pick(&["0", "1", "-7", "123"]).to_string() }
            1 => { self.hit("FloatValue"); self.r.pick(&["1.5", "-0.0", "2e10", "1.0E-3"]).to_string() }
            2 => { self.hit("StringValue"); self.r.pick(&["\"\"", "\"s\"", "\"a\\nb\"", "\"\\u00e9\"", "\"\"\"block\n  text\"\"\"", "\"é\""]).to_string() }
            3 => { self.hit("BooleanValue"); self.r.pick(&["true", "false"]).to_string() }
            4 => { self.hit("NullValue"); "null".to_string() }
            5 => { self.hit("EnumValue"); self.r.pick(&["RED", "on", "a"]).to_string() }
            6 | 7 => { if is_const { "1".to_string() } else { self.hit("Variable"); format!("${}", self.name()) } }
            8 => { self.hit("ListValue"); let n = self.r.below(3); let mut s = String::from("["); for i in 0..n { if i > 0 { s.push_str(self.sp()); } s.push_str(&self.value(d + 1, is_const)); } s.push(']'); s }
            _ => { self.hit("ObjectValue"); let n = self.r.below(3); let mut s = String::from("{"); for i in 0..n { if i > 0 { s.push_str(self.sp()); } s.push_str(&format!("{}: {}", self.name(), self.value(d + 1, is_const))); } s.push('}'); s }
        }
    }
    fn arguments(&mut self, is_const: bool) -> String {
        if !self.r.chance(1, 3) { return String::new(); }
        self.hit("Arguments");
        let n = 1 + self.r.below(2);
        let args: Vec<String> = (0..n).map(|_| format!("{}: {}", self.name(), self.value(0, is_const))).collect();
        format!("({})", args.join(self.sp()))
    }
    pub fn directives(&mut self, is_const: bool) -> String {
        let n = if self.r.chance(1, 4) { 1 + self.r.below(2) } else { 0 };
        let mut s = String::new();
        for _ in 0..n { self.hit("Directive"); s.push_str(&format!(" @{}{}", self.name(), self.arguments(is_const))); }
        s
    }
    pub fn selection_set(&mut self, d: usize) -> String {
        self.hit("SelectionSet");
        let n = 1 + self.r.below(3);
        let mut s = String::from("{");
        for _ in 0..n {
            s.push_str(self.sp());
            match self.r.below(if d >= 4 { 2 } else { 6 }) {
                0 | 1 | 2 => {
                    self.hit("Field");
                    if self.r.chance(1, 4) { self.hit("Alias"); s.push_str(&format!("{}: ", self.name())); }
                    s.push_str(&self.any_name());
                    s.push_str(&self.arguments(false));
                    s.push_str(&self.directives(false));
                    if d < 4 && self.r.chance(1, 3) { s.push(' '); s.push_str(&self.selection_set(d + 1)); }
                }
                3 => { self.hit("FragmentSpread"); s.push_str(&format!("...{}{}", self.name(), self.directives(false))); }
                _ => {
                    self.hit("InlineFragment");
                    s.push_str("...");
                    if self.r.chance(2, 3) { s.push_str(&format!(" on {}", self.r.pick(&TYPES))); }
                    s.push_str(&self.directives(false));
                    s.push(' ');
                    s.push_str(&self.selection_set(d + 1));
                }
            }
        }
        s.push_str(self.sp());
        s.push('}');
        s
    }
    fn description(&mut self) -> String {
        if self.r.chance(1, 4) { self.hit("Description"); format!("{}{}", self.r.pick(&["\"desc\"", "\"\"\"\n  block\n  \"\"\""]), self.sp()) } else { String::new() }
    }
    fn input_value_def(&mut self) -> String {
        self.hit("InputValueDefinition");
        let mut s = format!("{}{}: {}", self.description(), self.name(), self.ty(0));
        if self.r.chance(1, 3) { self.hit("DefaultValue"); s.push_str(&format!(" = {}", self.value(0, true))); }
        s.push_str(&self.directives(true));
        s
    }
    fn args_def(&mut self) -> String {
        if !self.r.chance(1, 3) { return String::new(); }
        self.hit("ArgumentsDefinition");
        let n = 1 + self.r.below(2);
        let v: Vec<String> = (0..n).map(|_| self.input_value_def()).collect();
        format!("({})", v.join(self.sp()))
    }
    fn fields_def(&mut self) -> String {
        self.hit("FieldsDefinition");
        let n = 1 + self.r.below(3);
        let v: Vec<String> = (0..n).map(|_| { self.hit("FieldDefinition"); format!("{}{}{}: {}{}", self.description(), self.name(), self.args_def(), self.ty(0), self.directives(true)) }).collect();
        format!("{{ {} }}", v.join(self.sp()))
    }
    fn implements(&mut self) -> String {
        if !self.r.chance(1, 3) { return String::new(); }
        self.hit("ImplementsInterfaces");
        let n = 1 + self.r.below(2);
        let v: Vec<String> = (0..n).map(|_| self.r.pick(&TYPES).to_string()).collect();
        format!(" implements {}{}", if self.r.chance(1, 4) { "& " } else { "" }, v.join(" & "))
    }
    pub fn definition(&mut self) -> String {
        let k = self.r.below(21);
        match k {
            0 => { self.hit("OperationDefinition(shorthand)"); self.selection_set(0) }
            1 | 2 => {
                self.hit("OperationDefinition");
                let op = *self.r.pick(&["query", "mutation", "subscription"]);
                let mut s = op.to_string();
                if self.r.chance(2, 3) { s.push(' '); s.push_str(&self.name()); }
                if self.r.chance(1, 2) {
                    self.hit("VariableDefinitions");
                    let n = 1 + self.r.below(2);
                    let v: Vec<String> = (0..n).map(|_| {
                        let mut d = format!("${}: {}", self.name(), self.ty(0));
                        if self.r.chance(1, 3) { d.push_str(&format!(" = {}", self.value(0, true))); }
                        d.push_str(&self.directives(true));
                        d
                    }).collect();
                    s.push_str(&format!("({})", v.join(self.sp())));
                }
                s.push_str(&self.directives(false));
                s.push(' ');
                s.push_str(&self.selection_set(0));
                s
            }
            3 => { self.hit("FragmentDefinition"); format!("fragment {} on {}{} {}", self.name(), self.r.pick(&TYPES), self.directives(false), self.selection_set(0)) }
            4 => {
                self.hit("SchemaDefinition");
                let n = 1 + self.r.below(3);
                let v: Vec<String> = (0..n).map(|i| format!("{}: {}", ["query", "mutation", "subscription"][i], self.r.pick(&TYPES))).collect();
                format!("{}schema{} {{ {} }}", self.description(), self.directives(true), v.join(self.sp()))
            }
            5 => { self.hit("SchemaExtension"); if self.r.chance(1, 2) { format!("extend schema @{} {{ query: Foo }}", self.name()) } else { format!("extend schema @{}", self.name()) } }
            6 => { self.hit("ScalarTypeDefinition"); format!("{}scalar {}{}", self.description(), self.name(), self.directives(true)) }
            7 => { self.hit("ScalarTypeExtension"); format!("extend scalar {} @{}", self.name(), self.name()) }
            8 => { self.hit("ObjectTypeDefinition"); let f = if self.r.chance(4, 5) { format!(" {}", self.fields_def()) } else { String::new() }; format!("{}type {}{}{}{}", self.description(), self.name(), self.implements(), self.directives(true), f) }
            9 => { self.hit("ObjectTypeExtension"); format!("extend type {}{}{} {}", self.name(), self.implements(), self.directives(true), self.fields_def()) }
            10 => { self.hit("InterfaceTypeDefinition"); format!("{}interface {}{}{} {}", self.description(), self.name(), self.implements(), self.directives(true), self.fields_def()) }
            11 => { self.hit("InterfaceTypeExtension"); format!("extend interface {}{} {}", self.name(), self.directives(true), self.fields_def()) }
            12 => { self.hit("UnionTypeDefinition"); let lead = if self.r.chance(1, 4) { "| " } else { "" }; format!("{}union {}{} = {}{} | {}", self.description(), self.name(), self.directives(true), lead, self.r.pick(&TYPES), self.r.pick(&TYPES)) }
            13 => { self.hit("UnionTypeExtension"); format!("extend union {} = {}", self.name(), self.r.pick(&TYPES)) }
            14 => {
                self.hit("EnumTypeDefinition");
                let n = 1 + self.r.below(3);
                let v: Vec<String> = (0..n).map(|_| format!("{}{}{}", self.description(), self.r.pick(&["RED", "GREEN", "a", "on"]), self.directives(true))).collect();
                format!("{}enum {}{} {{ {} }}", self.description(), self.name(), self.directives(true), v.join(self.sp()))
            }
            15 => { self.hit("EnumTypeExtension"); format!("extend enum {} {{ BLUE }}", self.name()) }
            16 => {
                self.hit("InputObjectTypeDefinition");
                let n = 1 + self.r.below(3);
                let v: Vec<String> = (0..n).map(|_| self.input_value_def()).collect();
                format!("{}input {}{} {{ {} }}", self.description(), self.name(), self.directives(true), v.join(self.sp()))
            }
            17 => { self.hit("InputObjectTypeExtension"); format!("extend input {} {{ {} }}", self.name(), self.input_value_def()) }
            _ => {
                self.hit("DirectiveDefinition");
                let locs = ["QUERY", "MUTATION", "SUBSCRIPTION", "FIELD", "FRAGMENT_DEFINITION", "FRAGMENT_SPREAD", "INLINE_FRAGMENT", "VARIABLE_DEFINITION", "SCHEMA", "SCALAR", "OBJECT", "FIELD_DEFINITION", "ARGUMENT_DEFINITION", "INTERFACE", "UNION", "ENUM", "ENUM_VALUE", "INPUT_OBJECT", "INPUT_FIELD_DEFINITION"];
                let n = 1 + self.r.below(3);
                let v: Vec<String> = (0..n).map(|_| self.r.pick(&locs).to_string()).collect();
                format!("{}directive @{}{}{} on {}{}", self.description(), self.name(), self.args_def(), if self.r.chance(1, 3) { " repeatable" } else { "" }, if self.r.chance(1, 4) { "| " } else { "" }, v.join(" | "))
            }
        }
    }
    pub fn document(&mut self) -> String {
        let n = 1 + self.r.below(3);
        let v: Vec<String> = (0..n).map(|_| self.definition()).collect();
        v.join(self.sp())
    }
}

/// split into lexer items (text pieces) using the real lexer, for token-level mutation
pub fn pieces(src: &str) -> Vec<String> {
    let mut out = vec![];
    for item in apollo_parser::Lexer::new(src) {
        match item { Ok(t) => { if !t.data().is_empty() { out.push(t.data().to_string()); } } Err(e) => { if !e.data().is_empty() { out.push(e.data().to_string()); } } }
    }
    out
}

const INSERTS: [&str; 22] = ["{", "}", "(", ")", "[", "]", ":", "!", "$", "@", "=", "|", "&", "...", "a", "on", "1", "\"s\"", ",", "é", "..", "\""];

pub fn mutate(r: &mut Rng, src: &str) -> String {
    let mut p = pieces(src);
    let n = 1 + r.below(2);
    for _ in 0..n {
        if p.is_empty() { break; }
        let sig: Vec<usize> = (0..p.len()).filter(|&i| !p[i].trim().is_empty()).collect();
        let at = if sig.is_empty() { 0 } else { *r.pick(&sig) };
        match r.below(4) {
            0 => { p.remove(at); }
            1 => { p.insert(at, format!(" {} ", r.pick(&INSERTS))); }
            2 => { if sig.len() >= 2 { let b = *r.pick(&sig); p.swap(at, b); } }
            _ => { let x = p[at].clone(); p.insert(at, format!("{x} ")); }
        }
    }
    p.concat()
}
