//! C03 — lexer vs Lean model (stream L) and vs the reference lexical grammar (lexspec.rs).
use crate::lexspec::{spec_lex, SK};
use crate::util::*;
use apollo_parser::{Lexer, TokenKind};

pub fn kind_name(k: TokenKind) -> &'static str {
    match k {
        TokenKind::Whitespace => "whitespace", TokenKind::Comment => "comment", TokenKind::Bang => "bang",
        TokenKind::Dollar => "dollar", TokenKind::Amp => "amp", TokenKind::Spread => "spread", TokenKind::Comma => "comma",
        TokenKind::Colon => "colon", TokenKind::Eq => "eq", TokenKind::At => "at", TokenKind::LParen => "lParen",
        TokenKind::RParen => "rParen", TokenKind::LBracket => "lBracket", TokenKind::RBracket => "rBracket",
        TokenKind::LCurly => "lCurly", TokenKind::RCurly => "rCurly", TokenKind::Pipe => "pipe", TokenKind::Eof => "eof",
        TokenKind::Name => "name", TokenKind::StringValue => "stringValue", TokenKind::Int => "int", TokenKind::Float => "float",
    }
}

/// (kind or "E"/"L", byte index, byte len)
pub fn lex_items(src: &str, limit: Option<usize>) -> Result<Vec<(String, usize, usize)>, String> {
    catch(|| {
        let mut lexer = Lexer::new(src);
        if let Some(l) = limit { lexer = lexer.with_limit(l); }
        let mut out = vec![];
        for item in lexer {
            match item {
                Ok(t) => out.push((kind_name(t.kind()).to_string(), t.index(), t.data().len())),
                Err(e) => { if e.is_limit() { out.push(("L".into(), 0, 0)); } else { out.push(("E".into(), e.index(), e.data().len())); } }
            }
        }
        out
    })
}

pub fn show_items(items: &[(String, usize, usize)]) -> String {
    items.iter().map(|(k, i, l)| format!("{k},{i},{l}")).collect::<Vec<_>>().join(";")
}

fn spec_kind_matches(sk: &SK, text: &str, k: &str) -> bool {
    match sk {
        SK::Comment => k == "comment", SK::Comma => k == "comma", SK::Name => k == "name", SK::Int => k == "int",
        SK::Float => k == "float", SK::Str => k == "stringValue", SK::Ws => k == "whitespace",
        SK::Punct(p) => { let _ = text; matches!((*p, k), ("!", "bang") | ("$", "dollar") | ("&", "amp") | ("(", "lParen") | (")", "rParen")
            | (":", "colon") | ("=", "eq") | ("@", "at") | ("[", "lBracket") | ("]", "rBracket") | ("{", "lCurly") | ("|", "pipe")
            | ("}", "rCurly") | ("...", "spread")) }
    }
}

pub fn lex_case(ctx: &mut Ctx, src: &str) {
    let items = match lex_items(src, None) {
        Ok(i) => i,
        Err(p) => { ctx.fail("lexer-panic", src, &p); ctx.case("lex", &[enc(src)], "PANIC"); return; }
    };
    // clause 1: concatenation reproduces the input; indices contiguous
    let mut pos = 0;
    let mut contiguous = true;
    for (k, i, l) in &items { if k != "L" { if *i != pos { contiguous = false; } pos += l; } }
    if !contiguous || pos != src.len() { ctx.fail("lexer-not-lossless", src, &format!("items {}", show_items(&items))); }
    if items.last().map(|x| x.0.as_str()) != Some("eof") { ctx.fail("lexer-no-eof", src, "last item is not EOF"); }
    // clauses 2/3 against the reference grammar
    let has_err = items.iter().any(|x| x.0 == "E");
    let lenient = spec_lex(src, false);
    let strict = spec_lex(src, true);
    if has_err != lenient.is_none() {
        let key = if has_err { "lexer-rejects-valid" } else if src.contains("\"\n") || src.contains("\"\r") { "lexer-accepts-line-terminator-after-opening-quote" } else { "lexer-accepts-invalid" };
        ctx.fail(key, src, &format!("lexer error={has_err}, reference grammar valid={}", lenient.is_some()));
    } else if !has_err && strict.is_none() {
        ctx.fail("lexer-accepts-control-char", src, "raw control character inside a string/comment is not an October-2021 SourceCharacter");
    }
    if let (false, Some(spec)) = (has_err, &lenient) {
        // same tokens: merge the spec's consecutive white space into one token, byte offsets
        let chars: Vec<(usize, char)> = src.char_indices().collect();
        let byte_at = |ci: usize| chars.get(ci).map(|x| x.0).unwrap_or(src.len());
        let mut merged: Vec<(SK, usize, usize)> = vec![];
        for (k, s, n) in spec {
            let (b, e) = (byte_at(*s), byte_at(s + n));
            if *k == SK::Ws { if let Some(last) = merged.last_mut() { if last.0 == SK::Ws && last.1 + last.2 == b { last.2 += e - b; continue; } } }
            merged.push((k.clone(), b, e - b));
        }
        let toks: Vec<_> = items.iter().filter(|x| x.0 != "eof").collect();
        let same = toks.len() == merged.len() && toks.iter().zip(&merged).all(|(t, m)| t.1 == m.1 && t.2 == m.2 && spec_kind_matches(&m.0, &src[m.1..m.1 + m.2], &t.0));
        if !same { ctx.fail("lexer-token-differs-from-grammar", src, &format!("lexer {} vs grammar {:?}", show_items(&items), merged)); }
    }
    if has_err { ctx.stat("with_lex_error"); } else { ctx.stat("lex_clean"); }
    ctx.nontrivial(&show_items(&items));
    ctx.case("lex", &[enc(src)], &show_items(&items));
}

/// token-limit behaviour of the lexer alone (shared with C04)
pub fn lexlim_case(ctx: &mut Ctx, src: &str) {
    let Ok(unl) = lex_items(src, None) else { return };
    for n in 0..=unl.len() + 1 {
        let got = match lex_items(src, Some(n)) { Ok(g) => g, Err(p) => { ctx.fail("lexer-panic", src, &p); continue } };
        let mut want: Vec<(String, usize, usize)> = unl.iter().take(n).cloned().collect();
        if unl.len() > n { want.push(("L".into(), 0, 0)); }
        if got != want {
            ctx.fail("lexer-token-limit-inexact", &format!("limit {n}: {src}"), &format!("got {} want {}", show_items(&got), show_items(&want)));
        }
        ctx.case("lexlim", &[n.to_string(), enc(src)], &show_items(&got));
    }
}

/// Characters that matter one by one (audit G2): every ASCII code, U+0080..U+017F (every ASCII character shifted by
/// 0x80 and by 0x100 — what an unguarded 256-entry table lookup or a `as u8` cast would alias to), and scalar values
/// at the UTF-8 length boundaries, look-alikes of digits/letters/punctuators, Unicode spaces and separators.
pub fn sweep_chars() -> Vec<char> {
    let mut v: Vec<char> = (0u32..=0x17F).filter_map(char::from_u32).collect();
    for cp in [0x391u32, 0x660, 0x7FF, 0x800, 0x1680, 0x2003, 0x200B, 0x2028, 0x2029, 0x212A, 0x3000, 0xD7FF, 0xE000, 0xFEFF, 0xFF01, 0xFF10, 0xFF21, 0xFF3F,
        0xFF41, 0xFF5B, 0xFFFD, 0xFFFE, 0xFFFF, 0x10000, 0x1F600, 0x10FFFF] { v.push(char::from_u32(cp).unwrap()); }
    v
}

/// (prefix, suffix) contexts: one swept character is placed between them, so that it meets every lexer state
pub const SWEEP_CONTEXTS: [(&str, &str); 66] = [
    ("", ""), ("", "a"), ("", "1"), ("", "\""), ("", "."), ("a", ""), ("a", "a"), ("_", ""), ("A1", ""), (" ", ""), ("\t", ""), ("\n", ""), ("\r", ""), (",", ""), ("\u{feff}", ""),
    ("0", ""), ("-", ""), ("-0", ""), ("1", ""), ("19", ""), ("1", "1"), ("1.", ""), ("0.", ""), ("1.", "5"), ("1.5", ""), ("1.5", "5"), ("1e", ""), ("1E", ""), ("1e", "5"), ("1e+", ""), ("1e-", ""), ("1e+", "5"),
    ("1e5", ""), ("1.5e5", ""), ("0e", ""), ("0.0e-0", ""),
    (".", ""), ("..", ""), ("...", ""), (".", "."),
    ("\"", "\""), ("\"a", "b\""), ("\"\\", "\""), ("\"\\u", "000\""), ("\"\\u0", "00\""), ("\"\\u00", "0\""), ("\"\\u000", "\""), ("\"\\u0000", "\""), ("\"", ""), ("\"\\", ""), ("\"\"", ""),
    ("\"\"\"", "\"\"\""), ("\"\"\"\\", "\"\"\""), ("\"\"\"\\\"\"\"", "\"\"\""), ("\"\"\"\"", "\"\"\""), ("\"\"\"\"\"", "\"\"\""), ("\"\"\"", ""), ("\"\"\"\"\"\"", ""), ("\"\"\"a\"\"", "\"\"\""),
    ("#", ""), ("#", "\na"), ("#a", "b\n"), ("{", "}"), ("$", ""), ("@", "("), ("a:", "!"),
];

/// Systematic number-like texts: sign × integer part × fraction × exponent × what follows (audit G2)
pub fn number_family(suffixes: &[&str]) -> Vec<String> {
    let mut out = vec![];
    for sign in ["", "-", "+", "--"] { for int in ["", "0", "1", "9", "10", "12", "01", "00", "007"] { for frac in ["", ".", ".0", ".5", ".05", ".50", "..5", ".5.5"] {
        for exp in ["", "e", "E", "e5", "E5", "e+", "E-", "e+5", "E-5", "e-05", "e+-5", "e5e5", "e5.5", "e1234567890"] { for suf in suffixes {
            out.push(format!("{sign}{int}{frac}{exp}{suf}"));
    } } } } }
    out
}

fn audit_families(ctx: &mut Ctx) {
    // 1. every swept character in every context
    let chars = sweep_chars();
    let mut n = 0u64;
    for (pre, suf) in SWEEP_CONTEXTS { for &c in &chars { lex_case(ctx, &format!("{pre}{c}{suf}")); n += 1; } }
    ctx.stat_n("sweep_char_in_context", n);
    // 2. every ordered pair of ASCII characters: bare, and as the content of a quoted string
    let mut n = 0u64;
    for a in 0u8..128 { for b in 0u8..128 {
        let (a, b) = (a as char, b as char);
        lex_case(ctx, &format!("{a}{b}")); lex_case(ctx, &format!("\"{a}{b}\"")); n += 2;
    } }
    ctx.stat_n("ascii_pairs", n);
    // 3. numbers
    let nums = number_family(&["", " ", "a", "e", "E", "_", ".", "..", "...", "0", "-", "+", "é", "\"", "{", ",", "\n", "x1", "e5", "\u{feff}"]);
    ctx.stat_n("number_family", nums.len() as u64);
    for s in &nums { lex_case(ctx, s); }
    // 4. block strings from atoms (escaped triple quote, shorter look-alikes, backslashes, quotes) × what follows the closing quotes
    let mut v = vec![];
    for_all_strings(&["\\\"\"\"", "\\\"\"", "\\\"", "\\", "\\\\", "\"", "\"\"", "x", "\n", "é", " "], if ctx.thorough { 5 } else { 4 }, |s| v.push(s.to_string()));
    ctx.stat_n("block_string_atom_family", (v.len() * 6) as u64);
    for body in &v { for tail in ["", "\"", "\"\"", "\"\"\"", " x", "\\"] { lex_case(ctx, &format!("\"\"\"{body}\"\"\"{tail}")); } }
    // 5. quoted strings from atoms: every escape, broken escapes, raw line terminators, multi-byte text
    let mut v = vec![];
    for_all_strings(&["\\\"", "\\\\", "\\/", "\\b", "\\f", "\\n", "\\r", "\\t", "\\u0041", "\\u00e9", "\\uD800", "\\u12", "\\u", "\\x", "\\", "\"", "a", "é", "😀", "\n", "\r", "\t", " "],
        if ctx.thorough { 4 } else { 3 }, |s| v.push(s.to_string()));
    ctx.stat_n("quoted_string_atom_family", (v.len() * 2) as u64);
    for body in &v { lex_case(ctx, &format!("\"{body}\"")); lex_case(ctx, &format!("\"{body}\"a")); }
    // 6. unicode escapes behind multi-byte text (byte offsets ≠ char offsets), mixed case
    let mut n = 0u64;
    for cp in (0..=0xFFFFu32).filter(|cp| cp % 0x101 == 0 || [0x7F, 0x80, 0x7FF, 0x800, 0xD7FF, 0xD800, 0xDBFF, 0xDC00, 0xDFFF, 0xE000, 0xFFFE, 0xFFFF, 0xABCD, 0xFEDC].contains(cp)) {
        let up = format!("{cp:04X}"); let lo = format!("{cp:04x}");
        let mixed: String = up.chars().enumerate().map(|(i, c)| if i % 2 == 0 { c.to_ascii_lowercase() } else { c }).collect();
        for h in [&up, &lo, &mixed] { lex_case(ctx, &format!("\"é\\u{h}😀\"")); lex_case(ctx, &format!("\"😀\\u{h}\\u{h}\" é")); n += 2; }
    }
    ctx.stat_n("unicode_escape_multibyte_context", n);
}

pub const CLASS_ALPHABET: [&str; 24] =["{", "!", ",", "a", "e", "u", "E", "_", "0", "1", "\"", "\\", "#", ".", "-", "+", " ", "\n", "\r", "é", "\u{feff}", "f", "D", "\u{1}"];

pub fn run(ctx: &mut Ctx) {
    // corpus first
    for s in ["\"\n\"", "\"\\u00e9\"", "\"\\uD83D\\uDE00\"", "\"\\u{1F600}\"", "\"\"\"a\\\"\"\"b\"\"\"", "1.e3", "0x", "-", "..", ".a", "1e", "\"\u{1}\"", "#\u{1}", "\"", "\"\"\"", "\"\"\"\"", "é", "\u{feff}a", "a\r\nb"] {
        lex_case(ctx, s);
    }
    let k = if ctx.thorough { 5 } else { 4 };
    let mut all = vec![];
    for_all_strings(&CLASS_ALPHABET, k, |s| all.push(s.to_string()));
    ctx.stat_n("exhaustive_class_alphabet", all.len() as u64);
    for s in &all { lex_case(ctx, s); }
    // targeted deeper: escapes, block strings, numbers
    let targeted: [(&[&str], usize); 3] = [
        (&["\"", "\\", "u", "0", "a", "g", "D", "8", "\n", "x"], if ctx.thorough { 8 } else { 6 }),
        (&["\"", "\\", "\n", "x", " "], if ctx.thorough { 10 } else { 8 }),
        (&["0", "1", ".", "e", "-", "+", "a", " "], if ctx.thorough { 8 } else { 6 }),
    ];
    for (alpha, len) in targeted {
        let mut v = vec![];
        for_all_strings(alpha, len, |s| v.push(s.to_string()));
        ctx.stat_n("exhaustive_targeted", v.len() as u64);
        for s in &v { lex_case(ctx, s); }
    }
    // unicode escapes: EVERY four-digit escape (all 65536 values; the surrogate range and its neighbours also in
    // lower case and inside text), surrogate pairs at every boundary combination, braced escapes at the boundaries
    let mut esc = 0u64;
    for cp in 0..=0xFFFFu32 {
        lex_case(ctx, &format!("\"\\u{:04X}\"", cp)); esc += 1;
        if (0xD7F0..=0xE010).contains(&cp) || cp % 0x101 == 0 {
            lex_case(ctx, &format!("\"\\u{:04x}\"", cp));
            lex_case(ctx, &format!("\"a\\u{:04X} b\" x", cp)); esc += 2;
        }
    }
    let bounds = [0xD7FFu32, 0xD800, 0xD801, 0xDBFE, 0xDBFF, 0xDC00, 0xDC01, 0xDFFE, 0xDFFF, 0xE000, 0x0041, 0xFFFF];
    for a in bounds { for b in bounds {
        lex_case(ctx, &format!("\"\\u{:04X}\\u{:04X}\"", a, b));
        lex_case(ctx, &format!("\"\\u{:04x}x\\u{:04x}\"", a, b)); esc += 2;
    } }
    for v in ["0", "41", "D7FF", "D800", "DBFF", "DC00", "DFFF", "dfff", "E000", "FFFF", "10000", "10FFFF", "110000", "FFFFFF", "0000041", "", "G", "D800}\\u{DC00"] {
        lex_case(ctx, &format!("\"\\u{{{}}}\"", v)); esc += 1;
    }
    ctx.stat_n("unicode_escape_cases", esc);
    audit_families(ctx);
    // token limits on all short strings
    let mut short = vec![];
    for_all_strings(&CLASS_ALPHABET, if ctx.thorough { 3 } else { 2 }, |s| short.push(s.to_string()));
    for s in &short { lexlim_case(ctx, s); }
    for s in ["{ a(b: 1) @c }", "\"x\" 1.5 ... $v", "type A { f: [Int!]! }"] { lexlim_case(ctx, s); }
    // random weighted strings
    let pieces = ["{", "}", "(", ")", "[", "]", ":", "!", "$", "&", "=", "@", "|", "...", "..", ".", ",", "query", "a1", "_x", "0", "-0", "12", "-7", "1.5", "1e9", "2.0E-3", "1.", "01", "1a", "\"\"", "\"s\"", "\"\\n\"", "\"\\u00e9\"", "\"\\uD800\"", "\"\\q\"", "\"\"\"", "\"\"\"b\"\"\"", "\\\"\"\"", "\"", "\\", "#c", "# é\n", " ", "\n", "\r\n", "\r", "\t", "\u{feff}", "é", "😀", "\u{1}", "\u{7f}", "\u{2028}", "%", "?"];
    let n = if ctx.thorough { 400_000 } else { 40_000 };
    for _ in 0..n {
        let len = 1 + ctx.rng.below(10);
        let s: String = (0..len).map(|_| *ctx.rng.pick(&pieces)).collect();
        lex_case(ctx, &s);
    }
    // repo test data
    for dir in ["lexer/ok", "lexer/err", "parser/ok", "parser/err"] {
        let Ok(rd) = std::fs::read_dir(format!("/repo/crates/apollo-parser/test_data/{dir}")) else { continue };
        let mut files: Vec<_> = rd.filter_map(|e| e.ok()).map(|e| e.path()).filter(|p| p.extension().is_some_and(|e| e == "graphql")).collect();
        files.sort();
        for f in files {
            if let Ok(s) = std::fs::read_to_string(&f) { if s.len() < 6000 && !s.contains('\t') || true { if s.len() < 6000 { ctx.stat("repo_test_data_files"); lex_case(ctx, &s); } } }
        }
    }
}
