//! C06 — string literals decode to their spec-defined values.
use crate::strspec::spec_string_value;
use crate::util::*;
use apollo_parser::cst::{self, CstNode};

fn lexes_as_one_string(lit: &str) -> bool {
    let mut items = apollo_parser::Lexer::new(lit);
    matches!(items.next(), Some(Ok(t)) if t.kind() == apollo_parser::TokenKind::StringValue && t.data().len() == lit.len())
}

fn decode_via_cst(lit: &str) -> Result<Option<String>, String> {
    catch(|| {
        let src = format!("{{a(x:{lit})}}");
        let tree = apollo_parser::Parser::new(&src).parse();
        let doc = tree.document();
        for n in doc.syntax().descendants() {
            if let Some(sv) = cst::StringValue::cast(n) { return Some(String::from(&sv)); }
        }
        None
    })
}

fn decode_via_compiler(lit: &str) -> (Option<String>, Option<String>, Option<String>) {
    use apollo_compiler::ast;
    let arg = catch(|| {
        let d = ast::Document::parse(format!("{{a(x:{lit})}}"), "d.graphql").ok()?;
        for def in &d.definitions { if let ast::Definition::OperationDefinition(op) = def { if let Some(ast::Selection::Field(f)) = op.selection_set.first() {
            return f.arguments.first().and_then(|a| a.value.as_str().map(|s| s.to_string())); } } }
        None
    }).ok().flatten();
    let dflt = catch(|| {
        let d = ast::Document::parse(format!("query($v:String={lit}){{a}}"), "d.graphql").ok()?;
        for def in &d.definitions { if let ast::Definition::OperationDefinition(op) = def {
            return op.variables.first().and_then(|v| v.default_value.as_ref()).and_then(|v| v.as_str().map(|s| s.to_string())); } }
        None
    }).ok().flatten();
    let desc = catch(|| {
        let d = ast::Document::parse(format!("{lit} scalar S"), "d.graphql").ok()?;
        for def in &d.definitions { if let ast::Definition::ScalarTypeDefinition(s) = def { return s.description.as_ref().map(|x| x.to_string()); } }
        None
    }).ok().flatten();
    (arg, dflt, desc)
}

pub fn lit_case(ctx: &mut Ctx, lit: &str) {
    if !lexes_as_one_string(lit) { ctx.stat("not_a_string_token"); return; }
    let got = decode_via_cst(lit);
    let out = match &got { Err(_) => "PANIC".to_string(), Ok(None) => "NONE".to_string(), Ok(Some(s)) => enc(s) };
    ctx.case("strdecode", &[enc(lit)], &out);
    let want = spec_string_value(lit);
    match (&got, &want) {
        (Err(m), _) => ctx.fail("string-decode-panic", lit, m),
        (Ok(Some(g)), Some(w)) if g == w => { ctx.nontrivial(lit); }
        (Ok(g), w) => {
            let key = if lit.starts_with("\"\"\"") { "block-string-value-differs" } else { "string-value-differs" };
            ctx.fail(key, lit, &format!("decoded {g:?}, spec says {w:?}"));
        }
    }
    if ctx.n_cases % 23 == 0 {
        let (a, d, desc) = decode_via_compiler(lit);
        ctx.stat("compiler_paths_checked");
        for (name, v) in [("argument", a), ("default", d), ("description", desc)] {
            if v != want { ctx.fail("compiler-stores-other-string", &format!("{name}: {lit}"), &format!("stored {v:?}, spec {want:?}")); }
        }
    }
}

pub fn run(ctx: &mut Ctx) {
    for lit in ["\"\"", "\"a\\n\\u00e9\\\"\"", "\"\"\"\"\"\"", "\"\"\"\n  a\n   b\n  \"\"\"", "\"\"\"a\\\"\"\"b\"\"\"", "\"\"\" \t\n\r\n x\r y \"\"\"", "\"\u{feff}\"", "\"\"\"\n\té\n\t\tz\"\"\""] {
        lit_case(ctx, lit);
    }
    let q_alpha = ["\\", "\"", "n", "u", "0", "D", "8", "é", " ", "t", "x", "/"];
    let mut v = vec![];
    for_all_strings(&q_alpha, if ctx.thorough { 6 } else { 5 }, |s| v.push(format!("\"{s}\"")));
    for l in &v { lit_case(ctx, l); }
    // U+3000 is Unicode White_Space but not GraphQL WhiteSpace: it is content, never indentation
    let b_alpha = ["\"", "\\", "\n", "\r", " ", "\t", "x", "é", "\u{3000}"];
    let mut v = vec![];
    for_all_strings(&b_alpha, if ctx.thorough { 7 } else { 6 }, |s| v.push(format!("\"\"\"{s}\"\"\"")));
    for l in &v { lit_case(ctx, l); }
    // random longer block strings with indentation structure
    let pieces = ["  ", "\t", " ", "a", "é", "\n", "\r\n", "\r", "\\\"\"\"", "\"", "\"\"", "\\", "x y", "\u{feff}", "\u{a0}", "\u{3000}", "\u{2003}", "\u{2028}", "\u{85}", "\u{1680}"];
    let n = if ctx.thorough { 300_000 } else { 40_000 };
    for _ in 0..n {
        let len = 1 + ctx.rng.below(12);
        let body: String = (0..len).map(|_| *ctx.rng.pick(&pieces)).collect();
        lit_case(ctx, &format!("\"\"\"{body}\"\"\""));
    }
    let qpieces = ["a", "é", "😀", " ", "\\n", "\\t", "\\\"", "\\\\", "\\/", "\\b", "\\f", "\\r", "\\u0041", "\\u00e9", "\\uFFFF", "\\u0000", "\\uD7FF", "\t", "\u{feff}"];
    for _ in 0..n / 2 {
        let len = ctx.rng.below(10);
        let body: String = (0..len).map(|_| *ctx.rng.pick(&qpieces)).collect();
        lit_case(ctx, &format!("\"{body}\""));
    }
}
