//! C06 — string literals decode to their spec-defined values.
use crate::strspec::spec_string_value;
use crate::util::*;
use apollo_parser::cst::{self, CstNode};

fn lexes_as_one_string(lit: &str) -> bool {
    let mut items = apollo_parser::Lexer::new(lit);
    matches!(items.next(), Some(Ok(t)) if t.kind() == apollo_parser::TokenKind::StringValue && t.data().len() == lit.len())
}

fn decode_via_cst(lit: &str) -> Result<Option<String>, String> {
    catch(|| {
        let src = format!("{{a(x:{lit})}}");
        let tree = apollo_parser::Parser::new(&src).parse();
        let doc = tree.document();
        for n in doc.syntax().descendants() {
            if let Some(sv) = cst::StringValue::cast(n) { return Some(String::from(&sv)); }
        }
        None
    })
}

fn decode_via_compiler(lit: &str) -> (Option<String>, Option<String>, Option<String>) {
    use apollo_compiler::ast;
    let arg = catch(|| {
        let d = ast::Document::parse(format!("{{a(x:{lit})}}"), "d.graphql").ok()?;
        for def in &d.definitions { if let ast::Definition::OperationDefinition(op) = def { if let Some(ast::Selection::Field(f)) = op.selection_set.first() {
            return f.arguments.first().and_then(|a| a.value.as_str().map(|s| s.to_string())); } } }
        None
    }).ok().flatten();
    let dflt = catch(|| {
        let d = ast::Document::parse(format!("query($v:String={lit}){{a}}"), "d.graphql").ok()?;
        for def in &d.definitions { if let ast::Definition::OperationDefinition(op) = def {
            return op.variables.first().and_then(|v| v.default_value.as_ref()).and_then(|v| v.as_str().map(|s| s.to_string())); } }
        None
    }).ok().flatten();
    let desc = catch(|| {
        let d = ast::Document::parse(format!("{lit} scalar S"), "d.graphql").ok()?;
        for def in &d.definitions { if let ast::Definition::ScalarTypeDefinition(s) = def { return s.description.as_ref().map(|x| x.to_string()); } }
        None
    }).ok().flatten();
    (arg, dflt, desc)
}

/// audit G2: the literal at every place of a document that stores a string (p09::STRING_SITES: descriptions of every
/// definition kind, default values, directive and field arguments, nested in lists / input objects / selection sets)
fn all_sites_case(ctx: &mut Ctx, lit: &str, want: &Option<String>) {
    use apollo_compiler::ast;
    let src = crate::p09::STRING_SITES.replace("{L}", &format!(" {lit} "));
    let sites = crate::p09::STRING_SITES.matches("{L}").count();
    match catch(|| ast::Document::parse(src.clone(), "sites.graphql")) {
        Err(m) => ctx.fail("string-decode-panic", lit, &format!("at the string sites of a document: {m}")),
        Ok(Err(e)) => ctx.fail("compiler-stores-other-string", lit, &format!("a document with this literal at every string site does not parse: {}", e.errors.to_string().lines().next().unwrap_or(""))),
        Ok(Ok(mut doc)) => {
            let mut got: Vec<Option<String>> = vec![];
            crate::p09::walk_strings(&mut doc, &mut |slot| match slot {
                crate::p09::Slot::Desc(d) => got.push(d.as_ref().map(|x| x.to_string())),
                crate::p09::Slot::Val(v) => got.push(v.as_str().map(|x| x.to_string())),
            });
            let wrong: Vec<usize> = (0..got.len()).filter(|&i| &got[i] != want).collect();
            if got.len() != sites || !wrong.is_empty() {
                ctx.fail("compiler-stores-other-string", lit, &format!("{sites} string sites, {} stored, sites {:?} differ from the spec value {want:?}: {:?}", got.len(), wrong.iter().take(5).collect::<Vec<_>>(), wrong.first().map(|&i| &got[i])));
            }
            ctx.stat("all_sites_checked");
        }
    }
    // the same document through the Lean model of ast/from_cst.rs (existing stream `c08.fromcst`: AST dump with every
    // description and string value + name locations) — the model side of "stored by the compiler"
    if ctx.n_cases % 4 == 0 { crate::pfromcst::case(ctx, &src); ctx.stat("all_sites_fromcst_model_cases"); }
}

pub fn lit_case(ctx: &mut Ctx, lit: &str) {
    if !lexes_as_one_string(lit) { ctx.stat("not_a_string_token"); return; }
    let got = decode_via_cst(lit);
    let out = match &got { Err(_) => "PANIC".to_string(), Ok(None) => "NONE".to_string(), Ok(Some(s)) => enc(s) };
    ctx.case("strdecode", &[enc(lit)], &out);
    let want = spec_string_value(lit);
    match (&got, &want) {
        (Err(m), _) => ctx.fail("string-decode-panic", lit, m),
        (Ok(Some(g)), Some(w)) if g == w => { ctx.nontrivial(lit); }
        (Ok(g), w) => {
            let key = if lit.starts_with("\"\"\"") { "block-string-value-differs" } else { "string-value-differs" };
            ctx.fail(key, lit, &format!("decoded {g:?}, spec says {w:?}"));
        }
    }
    if ctx.n_cases % 23 == 0 {
        let (a, d, desc) = decode_via_compiler(lit);
        ctx.stat("compiler_paths_checked");
        for (name, v) in [("argument", a), ("default", d), ("description", desc)] {
            if v != want { ctx.fail("compiler-stores-other-string", &format!("{name}: {lit}"), &format!("stored {v:?}, spec {want:?}")); }
        }
    }
    if ctx.n_cases % 199 == 0 && lit.len() < 200 { all_sites_case(ctx, lit, &want); }
}

/// audit G2: systematic families (every escape value, every character in every role, line structure × terminators)
fn audit_families(ctx: &mut Ctx) {
    // 1. EVERY four-digit escape (upper case); lower/mixed case and multi-byte neighbours at the UTF-8 length boundaries
    let mut n = 0u64;
    for cp in 0..=0xFFFFu32 {
        lit_case(ctx, &format!("\"\\u{cp:04X}\"")); n += 1;
        if cp % 0x101 == 0 || [0, 1, 0x7F, 0x80, 0x7FF, 0x800, 0xD7FF, 0xE000, 0xFFFD, 0xFFFE, 0xFFFF, 0xABCD, 0xFEDC].contains(&cp) {
            let up = format!("{cp:04X}");
            let mixed: String = up.chars().enumerate().map(|(i, c)| if i % 2 == 0 { c.to_ascii_lowercase() } else { c }).collect();
            for s in [format!("\"\\u{cp:04x}\""), format!("\"\\u{mixed}\""), format!("\"é\\u{up}😀\""), format!("\"\\u{up}\\u{up}\""), format!("\"\\\\u{up}\""), format!("\"\\u{up}0\"")] { lit_case(ctx, &s); n += 1; }
        }
    }
    ctx.stat_n("unicode_escape_literals", n);
    // 2. every swept character: raw and after a backslash in a quoted string; in a block string as content, as possible
    //    indentation, as a possibly blank line, next to each kind of line terminator
    let mut n = 0u64;
    for c in crate::p03::sweep_chars() {
        for s in [format!("\"{c}\""), format!("\"a{c}b\""), format!("\"\\{c}\""), format!("\"\\{c}{c}\""), format!("\"\"\"{c}\"\"\""), format!("\"\"\"\n {c}\n  x\"\"\""), format!("\"\"\"\n  x\n {c}\"\"\""),
            format!("\"\"\"{c}\n x\"\"\""), format!("\"\"\" x\n{c}\"\"\""), format!("\"\"\"\n  x\n  {c}\n\"\"\""), format!("\"\"\"\n{c}\n  x\"\"\""), format!("\"\"\"\n {c}x\n {c}y\"\"\""), format!("\"\"\"a{c} b{c}  c\"\"\""),
            format!("\"\"\"a\r{c} b\r\n{c}  c\"\"\""), format!("\"\"\"\\{c}\"\"\""), format!("\"\"\"\n  \\\"\"\"{c}\n  {c}\\\"\"\"\"\"\"")] { lit_case(ctx, &s); n += 1; }
    }
    ctx.stat_n("sweep_char_literals", n);
    // 3. line-structured block strings: every combination of lines × every combination of the three line terminators
    let lines = ["", " ", "  ", "\t", "x", " x", "  x", "\tx", " \tx", "   x", "x ", "é", " é", "\\\"\"\"", " \\\"\"\"x\\\"\"\"", "\u{3000}x"];
    let terms = ["\n", "\r", "\r\n"];
    let mut n = 0u64;
    let max_mixed = if ctx.thorough { 4 } else { 3 };
    for k in 1..=max_mixed {
        let mut idx = vec![0usize; k];
        'outer: loop {
            for tc in 0..3usize.pow(k as u32 - 1) {
                let mut s = String::from(lines[idx[0]]);
                let mut t = tc;
                for i in 1..k { s.push_str(terms[t % 3]); t /= 3; s.push_str(lines[idx[i]]); }
                lit_case(ctx, &format!("\"\"\"{s}\"\"\"")); n += 1;
            }
            let mut p = k;
            loop { if p == 0 { break 'outer; } p -= 1; if idx[p] + 1 < lines.len() { idx[p] += 1; for j in p + 1..k { idx[j] = 0; } break; } }
        }
    }
    // longer: four and five lines over fewer lines, one terminator kind per string
    let few = ["", " ", "  ", "x", " x", "  x", "\tx", "   "];
    for (k, m) in [(4usize, 8usize), (5, 6)] {
        if ctx.thorough && k == 4 { continue; }
        let mut idx = vec![0usize; k];
        'outer2: loop {
            for t in terms { let s = idx.iter().map(|&i| few[i]).collect::<Vec<_>>().join(t); lit_case(ctx, &format!("\"\"\"{s}\"\"\"")); n += 1; }
            let mut p = k;
            loop { if p == 0 { break 'outer2; } p -= 1; if idx[p] + 1 < m { idx[p] += 1; for j in p + 1..k { idx[j] = 0; } break; } }
        }
    }
    ctx.stat_n("line_structured_block_literals", n);
}

pub fn run(ctx: &mut Ctx) {
    for lit in ["\"\"", "\"a\\n\\u00e9\\\"\"", "\"\"\"\"\"\"", "\"\"\"\n  a\n   b\n  \"\"\"", "\"\"\"a\\\"\"\"b\"\"\"", "\"\"\" \t\n\r\n x\r y \"\"\"", "\"\u{feff}\"", "\"\"\"\n\té\n\t\tz\"\"\""] {
        lit_case(ctx, lit);
        let want = spec_string_value(lit);
        all_sites_case(ctx, lit, &want);
    }
    audit_families(ctx);
    let q_alpha =["\\", "\"", "n", "u", "0", "D", "8", "é", " ", "t", "x", "/"];
    let mut v = vec![];
    for_all_strings(&q_alpha, if ctx.thorough { 6 } else { 5 }, |s| v.push(format!("\"{s}\"")));
    for l in &v { lit_case(ctx, l); }
    // U+3000 is Unicode White_Space but not GraphQL WhiteSpace: it is content, never indentation
    let b_alpha = ["\"", "\\", "\n", "\r", " ", "\t", "x", "é", "\u{3000}"];
    let mut v = vec![];
    for_all_strings(&b_alpha, if ctx.thorough { 7 } else { 6 }, |s| v.push(format!("\"\"\"{s}\"\"\"")));
    for l in &v { lit_case(ctx, l); }
    // random longer block strings with indentation structure
    let pieces = ["  ", "\t", " ", "a", "é", "\n", "\r\n", "\r", "\\\"\"\"", "\"", "\"\"", "\\", "x y", "\u{feff}", "\u{a0}", "\u{3000}", "\u{2003}", "\u{2028}", "\u{85}", "\u{1680}"];
    let n = if ctx.thorough { 300_000 } else { 40_000 };
    for _ in 0..n {
        let len = 1 + ctx.rng.below(12);
        let body: String = (0..len).map(|_| *ctx.rng.pick(&pieces)).collect();
        lit_case(ctx, &format!("\"\"\"{body}\"\"\""));
    }
    let qpieces = ["a", "é", "😀", " ", "\\n", "\\t", "\\\"", "\\\\", "\\/", "\\b", "\\f", "\\r", "\\u0041", "\\u00e9", "\\uFFFF", "\\u0000", "\\uD7FF", "\t", "\u{feff}"];
    for _ in 0..n / 2 {
        let len = ctx.rng.below(10);
        let body: String = (0..len).map(|_| *ctx.rng.pick(&qpieces)).collect();
        lit_case(ctx, &format!("\"{body}\""));
    }
}
