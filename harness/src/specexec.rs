//! Independent validator for executable documents, written from the text of the GraphQL
//! specification (October 2021, §5 Validation) with graphql-js's reading where the text is silent
//! (a fragment whose type condition equals the parent type always "overlaps"; object-field order is
//! irrelevant when comparing argument values).  It reads type information off the real `Schema`
//! (types, fields, arguments, interface implementations, union members, directive definitions) and
//! the syntax off `ast::Document`; it never calls apollo-compiler's validation.
//!
//! `validate` returns the set of violated rule names.  Rules named `Apollo…` are NOT specification
//! rules: they are apollo-compiler's deliberate differences named by property C17, encoded here from
//! its documentation (undefined root operation type, subscription `@skip`/`@include`, `@defer`).
//!
//! `Quirks` switch on an emulation of one *known, still open defect* of apollo-compiler each; they are used only
//! to classify a disagreement (does it disappear under exactly that quirk?), never to excuse it.
use apollo_compiler::ast::{self, Definition, OperationType, Selection, Type, Value};
use apollo_compiler::schema::ExtendedType;
use apollo_compiler::Schema;
use std::collections::{BTreeMap, BTreeSet, HashMap, HashSet};

#[derive(Clone, Copy, Default, Debug, PartialEq, Eq)]
pub struct Quirks {
    /// a variable nested in a list/object literal only needs the same named type as its location
    pub nested_var_named_only: bool,
}

pub type Violations = BTreeSet<&'static str>;

#[derive(Clone, Copy, PartialEq, Eq, Debug)]
pub enum Kind { Scalar, CustomScalar, Object, Interface, Union, Enum, InputObject }
impl Kind {
    pub fn composite(self) -> bool { matches!(self, Kind::Object | Kind::Interface | Kind::Union) }
    pub fn leaf(self) -> bool { matches!(self, Kind::Scalar | Kind::CustomScalar | Kind::Enum) }
    pub fn input(self) -> bool { matches!(self, Kind::Scalar | Kind::CustomScalar | Kind::Enum | Kind::InputObject) }
}

#[derive(Clone, Debug)]
pub struct ArgSig { pub name: String, pub ty: Type, pub has_default: bool }
#[derive(Clone, Debug)]
pub struct FieldSig { pub ty: Type, pub args: Vec<ArgSig> }

pub fn kind_of(schema: &Schema, name: &str) -> Option<Kind> {
    Some(match schema.types.get(name)? {
        ExtendedType::Scalar(_) => if matches!(name, "Int" | "Float" | "String" | "Boolean" | "ID") { Kind::Scalar } else { Kind::CustomScalar },
        ExtendedType::Object(_) => Kind::Object,
        ExtendedType::Interface(_) => Kind::Interface,
        ExtendedType::Union(_) => Kind::Union,
        ExtendedType::Enum(_) => Kind::Enum,
        ExtendedType::InputObject(_) => Kind::InputObject,
    })
}

pub fn rkey(f: &ast::Field) -> &str { f.alias.as_ref().unwrap_or(&f.name).as_str() }

pub fn named(t: &Type) -> &str {
    match t { Type::Named(n) | Type::NonNullNamed(n) => n.as_str(), Type::List(i) | Type::NonNullList(i) => named(i) }
}
pub fn is_non_null(t: &Type) -> bool { matches!(t, Type::NonNullNamed(_) | Type::NonNullList(_)) }
fn nullable(t: &Type) -> Type {
    match t { Type::NonNullNamed(n) => Type::Named(n.clone()), Type::NonNullList(i) => Type::List(i.clone()), t => t.clone() }
}
fn item(t: &Type) -> Option<&Type> { match t { Type::List(i) | Type::NonNullList(i) => Some(i), _ => None } }

fn sigs(args: &[apollo_compiler::Node<ast::InputValueDefinition>]) -> Vec<ArgSig> {
    args.iter().map(|a| ArgSig { name: a.name.to_string(), ty: (*a.ty).clone(), has_default: a.default_value.is_some() }).collect()
}

fn root_type<'a>(schema: &'a Schema, op: OperationType) -> Option<&'a str> {
    let d = &schema.schema_definition;
    match op { OperationType::Query => d.query.as_ref(), OperationType::Mutation => d.mutation.as_ref(), OperationType::Subscription => d.subscription.as_ref() }
        .map(|c| c.name.as_str())
}

/// §5.3.1: the field must be defined on the selection set's type; `__typename` on every composite
/// type, `__schema` / `__type` on the query root (spec §4.1, §4.2).
pub fn field_sig(schema: &Schema, parent: &str, field: &str) -> Option<FieldSig> {
    let nm = |s: &str| apollo_compiler::Name::new(s).unwrap();
    let explicit = match schema.types.get(parent)? {
        ExtendedType::Object(o) => o.fields.get(field).map(|f| FieldSig { ty: f.ty.clone(), args: sigs(&f.arguments) }),
        ExtendedType::Interface(o) => o.fields.get(field).map(|f| FieldSig { ty: f.ty.clone(), args: sigs(&f.arguments) }),
        ExtendedType::Union(_) => None,
        _ => return None,
    };
    if explicit.is_some() { return explicit; }
    if field == "__typename" { return Some(FieldSig { ty: Type::NonNullNamed(nm("String")), args: vec![] }); }
    if root_type(schema, OperationType::Query) == Some(parent) {
        if field == "__schema" { return Some(FieldSig { ty: Type::NonNullNamed(nm("__Schema")), args: vec![] }); }
        if field == "__type" {
            return Some(FieldSig { ty: Type::Named(nm("__Type")), args: vec![ArgSig { name: "name".into(), ty: Type::NonNullNamed(nm("String")), has_default: false }] });
        }
    }
    None
}

/// GetPossibleTypes (§5.5.2.3)
pub fn possible_types(schema: &Schema, name: &str) -> BTreeSet<String> {
    let mut out = BTreeSet::new();
    match schema.types.get(name) {
        Some(ExtendedType::Object(_)) => { out.insert(name.to_string()); }
        Some(ExtendedType::Interface(_)) => {
            for (n, t) in &schema.types {
                if let ExtendedType::Object(o) = t {
                    if o.implements_interfaces.iter().any(|i| i.name.as_str() == name) { out.insert(n.to_string()); }
                }
            }
        }
        Some(ExtendedType::Union(u)) => { for m in &u.members { out.insert(m.name.to_string()); } }
        _ => {}
    }
    out
}

/// structural equality of two input values; object fields are an unordered set of (name, value)
pub fn same_value(a: &Value, b: &Value, q: &Quirks) -> bool {
    match (a, b) {
        (Value::Null, Value::Null) => true,
        (Value::Enum(x), Value::Enum(y)) => x == y,
        (Value::Variable(x), Value::Variable(y)) => x == y,
        (Value::String(x), Value::String(y)) => x == y,
        (Value::Float(x), Value::Float(y)) => x.as_str() == y.as_str(),
        (Value::Int(x), Value::Int(y)) => x.as_str() == y.as_str(),
        (Value::Boolean(x), Value::Boolean(y)) => x == y,
        (Value::List(x), Value::List(y)) => x.len() == y.len() && x.iter().zip(y.iter()).all(|(p, r)| same_value(p, r, q)),
        (Value::Object(x), Value::Object(y)) => {
            let sub = |l: &Vec<(apollo_compiler::Name, apollo_compiler::Node<Value>)>, r: &Vec<(apollo_compiler::Name, apollo_compiler::Node<Value>)>| {
                l.iter().all(|(k, v)| r.iter().any(|(k2, v2)| k == k2 && same_value(v, v2, q)))
            };
            sub(x, y) && sub(y, x)
        }
        _ => false,
    }
}

#[derive(Clone, Debug)]
struct Usage { name: String, loc: Option<(Type, bool)>, nested: bool, in_scalar_object: bool }

#[derive(Default)]
struct DefInfo { usages: Vec<Usage>, spreads: Vec<String> }

struct V<'a> {
    schema: &'a Schema,
    q: Quirks,
    frags: HashMap<String, &'a ast::FragmentDefinition>,
    viol: Violations,
    cur: DefInfo,
    budget: u64,
    pub exhausted: bool,
}

type FieldRef<'a> = (Option<String>, &'a ast::Field); // (parent type of the enclosing selection set, field)

impl<'a> V<'a> {
    fn v(&mut self, rule: &'static str) { self.viol.insert(rule); }

    // ---------- §5.6 values ----------
    /// §5.6.3 applies to every object literal of the document, whatever its expected type
    fn unique_fields(&mut self, o: &[(apollo_compiler::Name, apollo_compiler::Node<Value>)], _in_scalar: bool) {
        let mut seen: HashSet<&str> = HashSet::new();
        for (k, _) in o { if !seen.insert(k.as_str()) { self.v("InputObjectFieldUniqueness"); } }
    }

    /// a value whose expected type is unknown: variables in it are uses, object literals have unique fields
    fn use_only(&mut self, v: &Value) { self.use_only_in(v, false) }
    fn use_only_in(&mut self, v: &Value, in_scalar_object: bool) {
        match v {
            Value::Variable(n) => self.cur.usages.push(Usage { name: n.to_string(), loc: None, nested: true, in_scalar_object }),
            Value::List(l) => for x in l { self.use_only_in(x, in_scalar_object) },
            Value::Object(o) => { self.unique_fields(o, in_scalar_object); for (_, x) in o { self.use_only_in(x, in_scalar_object) } }
            _ => {}
        }
    }

    /// a literal at a custom scalar position: any literal is accepted; only a variable given DIRECTLY as the value
    /// is located at the scalar type, the items of a list literal and the fields of an object literal nowhere
    fn custom_scalar_literal(&mut self, scalar: &Type, v: &Value) {
        match v {
            Value::Variable(n) => self.cur.usages.push(Usage { name: n.to_string(), loc: Some((nullable(scalar), false)), nested: true, in_scalar_object: false }),
            // a list literal is as opaque as an object literal: any item is accepted (`[null]`, `[$v]` with `$v` of any
            // declared type); variables inside must be defined, object literals inside have unique fields
            Value::List(l) => for x in l { self.use_only_in(x, false) },
            Value::Object(o) => { self.unique_fields(o, true); for (_, x) in o { self.use_only_in(x, true) } }
            _ => {}
        }
    }

    fn value(&mut self, ty: &Type, has_default: bool, v: &Value, nested: bool) {
        if let Value::Variable(n) = v {
            self.cur.usages.push(Usage { name: n.to_string(), loc: Some((ty.clone(), has_default)), nested, in_scalar_object: false });
            return;
        }
        if is_non_null(ty) {
            if matches!(v, Value::Null) { self.v("ValuesOfCorrectType"); return; }
            return self.value(&nullable(ty), false, v, nested);
        }
        if matches!(v, Value::Null) { return; }
        if let Some(it) = item(ty) {
            // §3.11 input coercion of lists: a non-list value is coerced as a list of one item
            match v {
                Value::List(l) => for x in l { self.value(it, false, x, true) },
                _ => self.value(it, false, v, nested),
            }
            return;
        }
        let tn = named(ty);
        match kind_of(self.schema, tn) {
            None => {}
            Some(Kind::CustomScalar) => self.custom_scalar_literal(ty, v),
            Some(Kind::Scalar) => {
                let ok = match (tn, v) {
                    ("Int", Value::Int(i)) => i.as_str().parse::<i32>().is_ok(),
                    ("Float", Value::Int(i)) => i.as_str().parse::<f64>().map(|f| f.is_finite()).unwrap_or(false),
                    ("Float", Value::Float(f)) => f.as_str().parse::<f64>().map(|f| f.is_finite()).unwrap_or(false),
                    ("String", Value::String(_)) => true,
                    ("Boolean", Value::Boolean(_)) => true,
                    ("ID", Value::String(_)) | ("ID", Value::Int(_)) => true,
                    _ => false,
                };
                if !ok { self.v("ValuesOfCorrectType"); self.use_only(v); }
            }
            Some(Kind::Enum) => {
                let ok = match (self.schema.types.get(tn), v) {
                    (Some(ExtendedType::Enum(e)), Value::Enum(x)) => e.values.contains_key(x.as_str()),
                    _ => false,
                };
                if !ok { self.v("ValuesOfCorrectType"); self.use_only(v); }
            }
            Some(Kind::InputObject) => {
                let Some(ExtendedType::InputObject(def)) = self.schema.types.get(tn) else { return };
                let Value::Object(fields) = v else { self.v("ValuesOfCorrectType"); self.use_only(v); return };
                self.unique_fields(fields, false);
                for (k, x) in fields {
                    match def.fields.get(k.as_str()) {
                        None => { self.v("InputObjectFieldNames"); self.use_only(x); }
                        Some(fd) => self.value(&fd.ty, fd.default_value.is_some(), x, true),
                    }
                }
                for (fname, fd) in &def.fields {
                    if is_non_null(&fd.ty) && fd.default_value.is_none() {
                        let provided: Vec<&Value> = fields.iter().filter(|(k, _)| k == fname).map(|(_, x)| &**x).collect();
                        if provided.is_empty() || provided.iter().any(|x| matches!(x, Value::Null)) { self.v("InputObjectRequiredFields"); }
                    }
                }
            }
            Some(_) => { self.v("ValuesOfCorrectType"); self.use_only(v); }
        }
    }

    // ---------- §5.4 arguments ----------
    fn arguments(&mut self, args: &[apollo_compiler::Node<ast::Argument>], defs: Option<&[ArgSig]>) {
        let mut seen: HashSet<&str> = HashSet::new();
        for a in args {
            if !seen.insert(a.name.as_str()) { self.v("ArgumentUniqueness"); }
            match defs {
                None => self.use_only(&a.value),
                Some(defs) => match defs.iter().find(|d| d.name == a.name.as_str()) {
                    None => { self.v("ArgumentNames"); self.use_only(&a.value); }
                    Some(d) => self.value(&d.ty, d.has_default, &a.value, false),
                },
            }
        }
        if let Some(defs) = defs {
            for d in defs {
                if is_non_null(&d.ty) && !d.has_default {
                    let given = args.iter().find(|a| a.name.as_str() == d.name);
                    if given.map_or(true, |a| matches!(&*a.value, Value::Null)) { self.v("RequiredArguments"); }
                }
            }
        }
    }

    // ---------- §5.7 directives ----------
    fn directives(&mut self, dirs: &ast::DirectiveList, loc: ast::DirectiveLocation) {
        let mut seen: HashSet<&str> = HashSet::new();
        for d in dirs.iter() {
            match self.schema.directive_definitions.get(d.name.as_str()) {
                None => { self.v("DirectivesAreDefined"); self.arguments(&d.arguments, None); }
                Some(def) => {
                    if !def.locations.contains(&loc) { self.v("DirectivesAreInValidLocations"); }
                    if !seen.insert(d.name.as_str()) && !def.repeatable { self.v("DirectivesAreUniquePerLocation"); }
                    let s = sigs(&def.arguments);
                    self.arguments(&d.arguments, Some(&s));
                }
            }
        }
    }

    // ---------- §5.3, §5.5 selections ----------
    fn selection_set(&mut self, parent: Option<&str>, sels: &'a [Selection]) {
        for s in sels {
            match s {
                Selection::Field(f) => {
                    self.directives(&f.directives, ast::DirectiveLocation::Field);
                    let sig = parent.and_then(|p| field_sig(self.schema, p, f.name.as_str()));
                    match (&sig, parent) {
                        (None, Some(_)) => { self.v("FieldSelections"); self.arguments(&f.arguments, None); self.selection_set(None, &f.selection_set); }
                        (None, None) => { self.arguments(&f.arguments, None); self.selection_set(None, &f.selection_set); }
                        (Some(sig), _) => {
                            self.arguments(&f.arguments, Some(&sig.args));
                            let inner = named(&sig.ty).to_string();
                            match kind_of(self.schema, &inner) {
                                Some(k) if k.leaf() => {
                                    if !f.selection_set.is_empty() { self.v("LeafFieldSelections"); self.selection_set(None, &f.selection_set); }
                                }
                                Some(k) if k.composite() => {
                                    if f.selection_set.is_empty() { self.v("LeafFieldSelections"); }
                                    self.selection_set(Some(&inner), &f.selection_set);
                                }
                                _ => self.selection_set(None, &f.selection_set),
                            }
                        }
                    }
                }
                Selection::FragmentSpread(sp) => {
                    self.directives(&sp.directives, ast::DirectiveLocation::FragmentSpread);
                    self.cur.spreads.push(sp.fragment_name.to_string());
                    match self.frags.get(sp.fragment_name.as_str()) {
                        None => self.v("FragmentSpreadTargetDefined"),
                        Some(fd) => if let Some(p) = parent { self.spread_possible(p, fd.type_condition.as_str()) },
                    }
                }
                Selection::InlineFragment(inl) => {
                    self.directives(&inl.directives, ast::DirectiveLocation::InlineFragment);
                    match &inl.type_condition {
                        None => self.selection_set(parent, &inl.selection_set),
                        Some(tc) => match kind_of(self.schema, tc.as_str()) {
                            None => { self.v("FragmentSpreadTypeExistence"); self.selection_set(None, &inl.selection_set); }
                            Some(k) if !k.composite() => { self.v("FragmentsOnCompositeTypes"); self.selection_set(None, &inl.selection_set); }
                            Some(_) => {
                                if let Some(p) = parent { self.spread_possible(p, tc.as_str()); }
                                self.selection_set(Some(tc.as_str()), &inl.selection_set);
                            }
                        },
                    }
                }
            }
        }
    }

    /// §5.5.2.3 (graphql-js: identical types always overlap)
    fn spread_possible(&mut self, parent: &str, cond: &str) {
        if parent == cond { return; }
        let (Some(pk), Some(ck)) = (kind_of(self.schema, parent), kind_of(self.schema, cond)) else { return };
        if !pk.composite() || !ck.composite() { return; }
        let a = possible_types(self.schema, parent);
        let b = possible_types(self.schema, cond);
        if a.intersection(&b).next().is_none() { self.v("FragmentSpreadIsPossible"); }
    }

    // ---------- §5.3.2 field selection merging ----------
    fn collect(&self, parent: Option<&str>, sels: &'a [Selection], visited: &mut HashSet<String>, out: &mut Vec<FieldRef<'a>>) {
        for s in sels {
            match s {
                Selection::Field(f) => out.push((parent.map(str::to_string), f)),
                Selection::InlineFragment(i) => {
                    let p = match &i.type_condition { Some(t) => Some(t.as_str()), None => parent };
                    self.collect(p, &i.selection_set, visited, out);
                }
                Selection::FragmentSpread(sp) => {
                    if visited.insert(sp.fragment_name.to_string()) {
                        if let Some(fd) = self.frags.get(sp.fragment_name.as_str()) {
                            self.collect(Some(fd.type_condition.as_str()), &fd.selection_set, visited, out);
                        }
                    }
                }
            }
        }
    }

    fn sub_type(&self, fr: &FieldRef<'a>) -> Option<String> {
        let sig = field_sig(self.schema, fr.0.as_deref()?, fr.1.name.as_str())?;
        Some(named(&sig.ty).to_string())
    }

    fn merged_subfields(&self, a: &FieldRef<'a>, b: &FieldRef<'a>) -> Vec<FieldRef<'a>> {
        let mut visited = HashSet::new();
        let mut out = vec![];
        let ta = self.sub_type(a);
        self.collect(ta.as_deref(), &a.1.selection_set, &mut visited, &mut out);
        if !std::ptr::eq(a.1, b.1) {
            let tb = self.sub_type(b);
            self.collect(tb.as_deref(), &b.1.selection_set, &mut visited, &mut out);
        }
        out
    }

    fn tick(&mut self) -> bool {
        if self.budget == 0 { self.exhausted = true; return false; }
        self.budget -= 1;
        true
    }

    /// SameResponseShape(fieldA, fieldB)
    fn same_response_shape(&mut self, a: &FieldRef<'a>, b: &FieldRef<'a>) -> bool {
        if !self.tick() { return true; }
        let (Some(pa), Some(pb)) = (a.0.as_deref(), b.0.as_deref()) else { return true };
        let (Some(sa), Some(sb)) = (field_sig(self.schema, pa, a.1.name.as_str()), field_sig(self.schema, pb, b.1.name.as_str())) else { return true };
        let (mut ta, mut tb) = (sa.ty.clone(), sb.ty.clone());
        loop {
            // 3. non-null
            if is_non_null(&ta) || is_non_null(&tb) {
                if !is_non_null(&ta) || !is_non_null(&tb) { return false; }
                ta = nullable(&ta); tb = nullable(&tb);
            }
            // 4. list
            if item(&ta).is_some() || item(&tb).is_some() {
                let (Some(ia), Some(ib)) = (item(&ta), item(&tb)) else { return false };
                let (ia, ib) = (ia.clone(), ib.clone());
                ta = ia; tb = ib;
                continue;
            }
            break;
        }
        let (na, nb) = (named(&ta).to_string(), named(&tb).to_string());
        let (Some(ka), Some(kb)) = (kind_of(self.schema, &na), kind_of(self.schema, &nb)) else { return true };
        // 5. scalar or enum
        if ka.leaf() || kb.leaf() { return na == nb; }
        // 6. composite
        if !ka.composite() || !kb.composite() { return false; }
        let merged = self.merged_subfields(a, b);
        for i in 0..merged.len() {
            for j in i + 1..merged.len() {
                if rkey(merged[i].1) == rkey(merged[j].1) && !self.same_response_shape(&merged[i], &merged[j]) { return false; }
            }
        }
        true
    }

    fn identical_arguments(&self, a: &ast::Field, b: &ast::Field) -> bool {
        let sub = |x: &ast::Field, y: &ast::Field| x.arguments.iter().all(|p| y.arguments.iter().any(|r| p.name == r.name && same_value(&p.value, &r.value, &self.q)));
        sub(a, b) && sub(b, a)
    }

    /// FieldsInSetCanMerge over an already collected field list
    fn fields_can_merge(&mut self, fields: &[FieldRef<'a>]) -> bool {
        for i in 0..fields.len() {
            for j in i + 1..fields.len() {
                let (a, b) = (&fields[i], &fields[j]);
                if rkey(a.1) != rkey(b.1) { continue; }
                if !self.tick() { return true; }
                if !self.same_response_shape(a, b) { return false; }
                let obj = |p: &Option<String>| p.as_deref().and_then(|p| kind_of(self.schema, p)) == Some(Kind::Object);
                if a.0 == b.0 || !obj(&a.0) || !obj(&b.0) {
                    if a.1.name != b.1.name { return false; }
                    if !self.identical_arguments(a.1, b.1) { return false; }
                    let merged = self.merged_subfields(a, b);
                    if !self.fields_can_merge(&merged) { return false; }
                }
            }
        }
        true
    }

    /// "Let set be any selection set defined in the GraphQL document": every selection set, with its type
    fn merge_everywhere(&mut self, parent: Option<&str>, sels: &'a [Selection]) {
        if sels.is_empty() { return; }
        let mut visited = HashSet::new();
        let mut fields = vec![];
        self.collect(parent, sels, &mut visited, &mut fields);
        if !self.fields_can_merge(&fields) { self.v("FieldSelectionMerging"); }
        for s in sels {
            match s {
                Selection::Field(f) => {
                    let t = parent.and_then(|p| field_sig(self.schema, p, f.name.as_str())).map(|s| named(&s.ty).to_string());
                    self.merge_everywhere(t.as_deref(), &f.selection_set);
                }
                Selection::InlineFragment(i) => {
                    let p = match &i.type_condition { Some(t) => Some(t.as_str()), None => parent };
                    self.merge_everywhere(p, &i.selection_set);
                }
                Selection::FragmentSpread(_) => {}
            }
        }
    }

    // ---------- §5.2.3.1 subscriptions ----------
    fn fragment_applies(&self, object: &str, cond: &str) -> bool {
        possible_types(self.schema, cond).contains(object)
    }

    fn collect_root(&self, object: &str, sels: &'a [Selection], visited: &mut HashSet<String>, keys: &mut Vec<(String, String)>, selections: &mut usize, conditional: &mut bool) {
        let cond = |d: &ast::DirectiveList| d.iter().any(|d| d.name == "skip" || d.name == "include");
        for s in sels {
            match s {
                Selection::Field(f) => {
                    if cond(&f.directives) { *conditional = true; }
                    *selections += 1;
                    let k = rkey(f).to_string();
                    if !keys.iter().any(|(k2, _)| *k2 == k) { keys.push((k, f.name.to_string())); }
                }
                Selection::FragmentSpread(sp) => {
                    if cond(&sp.directives) { *conditional = true; }
                    if !visited.insert(sp.fragment_name.to_string()) { continue; }
                    let Some(fd) = self.frags.get(sp.fragment_name.as_str()) else { continue };
                    if !self.fragment_applies(object, fd.type_condition.as_str()) { continue; }
                    self.collect_root(object, &fd.selection_set, visited, keys, selections, conditional);
                }
                Selection::InlineFragment(i) => {
                    if cond(&i.directives) { *conditional = true; }
                    if let Some(t) = &i.type_condition { if !self.fragment_applies(object, t.as_str()) { continue; } }
                    self.collect_root(object, &i.selection_set, visited, keys, selections, conditional);
                }
            }
        }
    }

    fn subscription(&mut self, root: &str, op: &'a ast::OperationDefinition) {
        let (mut keys, mut n, mut conditional) = (vec![], 0usize, false);
        self.collect_root(root, &op.selection_set, &mut HashSet::new(), &mut keys, &mut n, &mut conditional);
        if conditional { self.v("ApolloSubscriptionConditionalSelection"); }
        let _ = n;
        if keys.len() != 1 || keys.iter().any(|(_, name)| name.starts_with("__")) { self.v("SingleRootField"); }
    }

    // ---------- apollo's @defer rules (encoded from the documentation of validate_defer) ----------
    fn defer_labels(&mut self, sels: &'a [Selection], seen: &mut HashSet<String>) {
        for s in sels {
            let (dirs, sub): (&ast::DirectiveList, &'a [Selection]) = match s {
                Selection::Field(f) => (&f.directives, &f.selection_set),
                Selection::InlineFragment(i) => (&i.directives, &i.selection_set),
                Selection::FragmentSpread(sp) => (&sp.directives, &[]),
            };
            for d in dirs.iter().filter(|d| d.name == "defer") {
                if let Some(a) = d.arguments.iter().find(|a| a.name == "label") {
                    match &*a.value {
                        Value::Variable(_) => self.v("ApolloDeferLabelVariable"),
                        Value::String(l) => if !seen.insert(l.to_string()) { self.v("ApolloDeferDuplicateLabel") },
                        _ => {}
                    }
                }
            }
            self.defer_labels(sub, seen);
        }
    }
    fn defer_on_root(&mut self, sels: &'a [Selection], visited: &mut HashSet<String>) {
        for s in sels {
            match s {
                Selection::Field(_) => {}
                Selection::InlineFragment(i) => {
                    if i.directives.iter().any(|d| d.name == "defer") { self.v("ApolloDeferOnRoot"); }
                    self.defer_on_root(&i.selection_set, visited);
                }
                Selection::FragmentSpread(sp) => {
                    if sp.directives.iter().any(|d| d.name == "defer") { self.v("ApolloDeferOnRoot"); }
                    if visited.insert(sp.fragment_name.to_string()) {
                        if let Some(fd) = self.frags.get(sp.fragment_name.as_str()) { self.defer_on_root(&fd.selection_set, visited); }
                    }
                }
            }
        }
    }
    fn defer_unconditional(&mut self, sels: &'a [Selection], visited: &mut HashSet<String>) {
        let arg = |d: &'a ast::Directive, n: &str| d.arguments.iter().find(|a| a.name == n).map(|a| &*a.value);
        for s in sels {
            let dirs: &'a ast::DirectiveList = match s {
                Selection::Field(f) => &f.directives, Selection::InlineFragment(i) => &i.directives, Selection::FragmentSpread(sp) => &sp.directives,
            };
            let may_be_excluded = dirs.iter().any(|d| {
                (d.name == "skip" && !matches!(arg(d, "if"), Some(Value::Boolean(false)))) || (d.name == "include" && !matches!(arg(d, "if"), Some(Value::Boolean(true))))
            });
            if may_be_excluded { continue; }
            for d in dirs.iter().filter(|d| d.name == "defer") {
                if !matches!(arg(d, "if"), Some(Value::Boolean(false)) | Some(Value::Variable(_))) { self.v("ApolloDeferUnconditionalInSubscription"); }
            }
            match s {
                Selection::Field(f) => self.defer_unconditional(&f.selection_set, visited),
                Selection::InlineFragment(i) => self.defer_unconditional(&i.selection_set, visited),
                Selection::FragmentSpread(sp) => {
                    if visited.insert(sp.fragment_name.to_string()) {
                        if let Some(fd) = self.frags.get(sp.fragment_name.as_str()) { self.defer_unconditional(&fd.selection_set, visited); }
                    }
                }
            }
        }
    }
}

/// AreTypesCompatible / IsVariableUsageAllowed (§5.8.5), on the spec's wrapper view of types
#[derive(Clone, PartialEq, Debug)]
enum S { Named(String), List(Box<S>), NonNull(Box<S>) }
fn embed(t: &Type) -> S {
    match t {
        Type::Named(n) => S::Named(n.to_string()),
        Type::NonNullNamed(n) => S::NonNull(Box::new(S::Named(n.to_string()))),
        Type::List(i) => S::List(Box::new(embed(i))),
        Type::NonNullList(i) => S::NonNull(Box::new(S::List(Box::new(embed(i))))),
    }
}
fn compat(v: &S, l: &S) -> bool {
    if let S::NonNull(li) = l { return match v { S::NonNull(vi) => compat(vi, li), _ => false }; }
    if let S::NonNull(vi) = v { return compat(vi, l); }
    if let S::List(li) = l { return match v { S::List(vi) => compat(vi, li), _ => false }; }
    if let S::List(_) = v { return false; }
    v == l
}
fn usage_allowed(var_ty: &Type, var_default: Option<&Value>, loc_ty: &Type, loc_default: bool) -> bool {
    let (v, l) = (embed(var_ty), embed(loc_ty));
    if let S::NonNull(nl) = &l {
        if !matches!(v, S::NonNull(_)) {
            let has_non_null_default = var_default.map_or(false, |d| !matches!(d, Value::Null));
            if !has_non_null_default && !loc_default { return false; }
            return compat(&v, nl);
        }
    }
    compat(&v, &l)
}

pub struct Outcome { pub violations: Violations, pub exhausted: bool }

pub fn validate(schema: &Schema, doc: &'_ ast::Document, q: Quirks) -> Outcome {
    let mut v = V { schema, q, frags: HashMap::new(), viol: Violations::new(), cur: DefInfo::default(), budget: 200_000, exhausted: false };
    // §5.1.1, §5.2.1.1, §5.2.2.1, §5.5.1.1
    let mut op_names: HashSet<&str> = HashSet::new();
    let (mut n_ops, mut n_anon) = (0, 0);
    let mut frag_order: Vec<&ast::FragmentDefinition> = vec![];
    for d in &doc.definitions {
        match d {
            Definition::OperationDefinition(op) => {
                n_ops += 1;
                match &op.name { None => n_anon += 1, Some(n) => if !op_names.insert(n.as_str()) { v.v("OperationNameUniqueness") } }
            }
            Definition::FragmentDefinition(f) => {
                if v.frags.contains_key(f.name.as_str()) { v.v("FragmentNameUniqueness"); } else { v.frags.insert(f.name.to_string(), f); frag_order.push(f); }
            }
            _ => v.v("ExecutableDefinitions"),
        }
    }
    if n_anon > 0 && n_ops > 1 { v.v("LoneAnonymousOperation"); }

    // fragments: type condition, selections, usages
    let mut frag_info: BTreeMap<String, DefInfo> = BTreeMap::new();
    for f in &frag_order {
        v.cur = DefInfo::default();
        v.directives(&f.directives, ast::DirectiveLocation::FragmentDefinition);
        let tc = f.type_condition.as_str();
        let parent = match kind_of(schema, tc) {
            None => { v.v("FragmentSpreadTypeExistence"); None }
            Some(k) if !k.composite() => { v.v("FragmentsOnCompositeTypes"); None }
            Some(_) => Some(tc),
        };
        v.selection_set(parent, &f.selection_set);
        v.merge_everywhere(parent, &f.selection_set);
        frag_info.insert(f.name.to_string(), std::mem::take(&mut v.cur));
    }
    // §5.5.2.2 cycles
    for f in &frag_order {
        let mut stack: Vec<&str> = frag_info[f.name.as_str()].spreads.iter().map(String::as_str).collect();
        let mut seen: HashSet<&str> = HashSet::new();
        while let Some(n) = stack.pop() {
            if n == f.name.as_str() { v.v("FragmentSpreadsMustNotFormCycles"); break; }
            if !seen.insert(n) { continue; }
            if let Some(i) = frag_info.get(n) { stack.extend(i.spreads.iter().map(String::as_str)); }
        }
    }
    // operations
    let mut used_frags: HashSet<String> = HashSet::new();
    let mut defer_seen = HashSet::new();
    for d in &doc.definitions {
        let Definition::OperationDefinition(op) = d else { continue };
        v.cur = DefInfo::default();
        let loc = match op.operation_type {
            OperationType::Query => ast::DirectiveLocation::Query,
            OperationType::Mutation => ast::DirectiveLocation::Mutation,
            OperationType::Subscription => ast::DirectiveLocation::Subscription,
        };
        v.directives(&op.directives, loc);
        // §5.8.1, §5.8.2, default values
        let mut vars: HashMap<&str, &ast::VariableDefinition> = HashMap::new();
        for var in &op.variables {
            if vars.contains_key(var.name.as_str()) { v.v("VariableUniqueness"); } else { vars.insert(var.name.as_str(), var); }
            let saved = std::mem::take(&mut v.cur);
            v.directives(&var.directives, ast::DirectiveLocation::VariableDefinition);
            match kind_of(schema, named(&var.ty)) {
                Some(k) if k.input() => if let Some(dv) = &var.default_value { v.value(&var.ty, false, dv, false) },
                _ => v.v("VariablesAreInputTypes"),
            }
            // a variable inside a (const) default value or a variable definition's directive is never defined
            if !v.cur.usages.is_empty() { v.v("AllVariableUsesDefined"); }
            v.cur = saved;
        }
        let root = root_type(schema, op.operation_type);
        if root.is_none() { v.v("ApolloUndefinedRootOperationType"); }
        v.selection_set(root, &op.selection_set);
        v.merge_everywhere(root, &op.selection_set);
        if op.operation_type == OperationType::Subscription {
            if let Some(r) = root { v.subscription(r, op); }
        }
        if op.operation_type != OperationType::Query {
            v.defer_on_root(&op.selection_set, &mut HashSet::new());
            if op.operation_type == OperationType::Subscription { v.defer_unconditional(&op.selection_set, &mut HashSet::new()); }
        }
        v.defer_labels(&op.selection_set, &mut defer_seen);
        let info = std::mem::take(&mut v.cur);
        // transitive closure over fragment spreads
        let mut reach: Vec<String> = vec![];
        let mut stack: Vec<String> = info.spreads.clone();
        while let Some(n) = stack.pop() {
            if reach.contains(&n) { continue; }
            if let Some(i) = frag_info.get(&n) { stack.extend(i.spreads.iter().cloned()); }
            reach.push(n);
        }
        let mut usages: Vec<&Usage> = info.usages.iter().collect();
        for n in &reach {
            used_frags.insert(n.clone());
            if let Some(i) = frag_info.get(n) { usages.extend(i.usages.iter()); }
        }
        let mut used: HashSet<&str> = HashSet::new();
        for u in &usages {
            used.insert(u.name.as_str());
            match vars.get(u.name.as_str()) {
                None => v.v("AllVariableUsesDefined"),
                Some(def) => if let Some((lt, ld)) = &u.loc {
                    let ok = if u.nested && q.nested_var_named_only { named(&def.ty) == named(lt) } else { usage_allowed(&def.ty, def.default_value.as_deref(), lt, *ld) };
                    if !ok { v.v("AllVariableUsagesAllowed"); }
                },
            }
        }
        for var in &op.variables { if !used.contains(var.name.as_str()) { v.v("AllVariablesUsed"); } }
    }
    for f in &frag_order { v.defer_labels(&f.selection_set, &mut defer_seen); }
    // §5.5.1.4
    for f in &frag_order { if !used_frags.contains(f.name.as_str()) { v.v("FragmentsMustBeUsed"); } }
    Outcome { violations: v.viol, exhausted: v.exhausted }
}

/// FieldsInSetCanMerge for the root selection set of the (single) operation — used by the merge stream
pub fn root_fields_can_merge(schema: &Schema, doc: &ast::Document) -> bool {
    let mut v = V { schema, q: Quirks::default(), frags: HashMap::new(), viol: Violations::new(), cur: DefInfo::default(), budget: 2_000_000, exhausted: false };
    for d in &doc.definitions { if let Definition::FragmentDefinition(f) = d { v.frags.entry(f.name.to_string()).or_insert(f); } }
    for d in &doc.definitions {
        if let Definition::OperationDefinition(op) = d {
            let root = root_type(schema, op.operation_type);
            v.merge_everywhere(root, &op.selection_set);
        }
    }
    v.viol.is_empty()
}
