//! Systematic input families for the parser properties (C01 C02 C04 C05 C07): exhaustive small products,
//! template × filler products and edit sweeps.  Nothing in this file draws from the PRNG: every family is the
//! same on every seed, so a shape that distinguishes a change cannot be missed by bad luck.

/// cartesian product of the parts, joined by one space, empty parts skipped
pub fn product(parts: &[&[&str]]) -> Vec<String> {
    let mut out = vec![String::new()];
    for p in parts {
        let mut next = Vec::with_capacity(out.len() * p.len());
        for pre in &out {
            for x in *p {
                let mut s = pre.clone();
                if !x.is_empty() { if !s.is_empty() { s.push(' '); } s.push_str(x); }
                next.push(s);
            }
        }
        out = next;
    }
    out
}

/// every template with every filler in place of each `§`
pub fn fill(templates: &[&str], fillers: &[&str]) -> Vec<String> {
    let mut out = vec![];
    for t in templates { for f in fillers { out.push(t.replace('§', f)); } }
    out
}

/// One rich, valid instance of every definition kind of the document grammar: every optional part present,
/// every list with a leading separator and ≥ 2 items, every value kind, every selection kind.
pub const RICH: &[&str] = &[
    "query Q($v: [Int!]! = [1, 2] @d(x: 1), $w: T) @a @b(y: {k: $v}) { r: f(x: $v, y: [1.5, \"s\", true, null, E, {k: [$w], l: -0}]) @c { g ... on T @i { h } ... @s { i } ...F @t } j }",
    "{ a }",
    "mutation { a(x: \"\"\"b\"\"\") }",
    "subscription S @d { a { b } }",
    "fragment F on T @d(x: $v) { a ...G ... { b } }",
    "\"d\" schema @d(x: 1) { query: Q mutation: M subscription: S }",
    "extend schema @d { query: Q }",
    "extend schema @d(x: [1]) @e",
    "\"\"\"d\"\"\" scalar S @d(x: \"s\")",
    "extend scalar S @d @e",
    "\"d\" type T implements & I & J @d(x: [1]) { \"fd\" f(\"ad\" x: [Int!]! = [1] @a, y: E = V): [T!]! @b g: Int }",
    "type T",
    "extend type T implements I @d { f: Int }",
    "extend type T implements I & J",
    "\"d\" interface I implements J & K @d { f(x: Int): T! @b \"\"\"gd\"\"\" g: [[Int]] }",
    "extend interface I implements J @d { f: Int }",
    "\"d\" union U @d = | A | B",
    "union U = A",
    "extend union U @d = A | B",
    "\"d\" enum E @d { \"vd\" A @a(x: 1) B }",
    "extend enum E @d { C }",
    "\"d\" input I @d { \"fd\" x: Int = 1 @a y: [I!] z: T = {k: [null]} }",
    "extend input I @d { z: Int }",
    "\"d\" directive @d(\"ad\" x: Int = 1 @a, y: [T!]) repeatable on | QUERY | FIELD_DEFINITION",
    "directive @d on FIELD",
    "query ($v: Int) { a } fragment F on T { a } type T { f: Int } { b }",
];

pub const EDIT_INSERTS: &[&str] = &["{", "}", "(", ")", "[", "]", ":", "!", "$", "@", "=", "|", "&", "...", "a", "on", "1", "\"s\"", "extend", "type", "query", "implements", "repeatable", "true"];

/// lexer pieces of `src` and the indices of the significant ones
fn sig_pieces(src: &str) -> (Vec<String>, Vec<usize>) {
    let p = crate::gen::pieces(src);
    let sig = (0..p.len()).filter(|&i| !p[i].trim().is_empty() && p[i] != ",").collect();
    (p, sig)
}

/// every single-token deletion, duplication, adjacent swap of `src`, and (with `inserts`) every insertion of
/// every insert token at every token boundary
pub fn token_edits(src: &str, inserts: &[&str], mut f: impl FnMut(&str, String)) {
    let (p, sig) = sig_pieces(src);
    for &i in &sig {
        let mut q = p.clone(); q.remove(i); f("delete", q.concat());
        let mut q = p.clone(); q.insert(i, format!("{} ", p[i])); f("duplicate", q.concat());
    }
    for w in sig.windows(2) { let mut q = p.clone(); q.swap(w[0], w[1]); f("swap", q.concat()); }
    for ins in inserts {
        for &i in &sig { let mut q = p.clone(); q.insert(i, format!("{ins} ")); f("insert", q.concat()); }
        f("insert", format!("{src} {ins}"));
    }
}

/// `filler` put into every gap between two lexer pieces of `src` (start and end included)
pub fn fill_gaps(src: &str, fillers: &[&str], mut f: impl FnMut(String)) {
    let p = crate::gen::pieces(src);
    for g in 0..=p.len() {
        for fl in fillers { f(format!("{}{}{}", p[..g].concat(), fl, p[g..].concat())); }
    }
}

// ---------------------------------------------------------------------------------------------------------
// definition skeletons: every combination of present / absent / empty / malformed optional parts

const DESC: &[&str] = &["", "\"d\"", "\"\"\"d\"\"\""];
const DESC2: &[&str] = &["", "\"d\""];
const DIRS: &[&str] = &["", "@d", "@d(x: 1) @e"];
const IMPL: &[&str] = &["", "implements I", "implements & I & J", "implements", "implements I &", "implements I J"];
const FIELDS: &[&str] = &["", "{ }", "{ f: Int }", "{ f: Int g(x: Int): [T] }"];
const MEMBERS: &[&str] = &["", "=", "= A", "= | A", "= A | B", "= | A | B", "= A |", "= A | | B", "= | | A", "= A B"];
const EVALUES: &[&str] = &["", "{ }", "{ A }", "{ A B }", "{ \"d\" A @x B }", "{ A, }"];
const IFIELDS: &[&str] = &["", "{ }", "{ x: Int }", "{ x: Int y: T = 1 @d }"];
const ROOTS: &[&str] = &["", "{ }", "{ query: Q }", "{ query: Q mutation: M }", "{ query: Q query: R }", "{ foo: Q }", "{ query Q }", "{ query: Q, }"];

pub fn definition_skeletons() -> Vec<String> {
    let mut out = vec![];
    for kw in ["type", "interface"] {
        out.extend(product(&[DESC, &[kw], &["T"], IMPL, DIRS, FIELDS]));
        out.extend(product(&[DESC2, &["extend"], &[kw], &["T"], IMPL, DIRS, FIELDS]));
    }
    out.extend(product(&[DESC, &["union"], &["U"], DIRS, MEMBERS]));
    out.extend(product(&[DESC2, &["extend union"], &["U"], DIRS, MEMBERS]));
    out.extend(product(&[DESC, &["enum"], &["E"], DIRS, EVALUES]));
    out.extend(product(&[DESC2, &["extend enum"], &["E"], DIRS, EVALUES]));
    out.extend(product(&[DESC, &["input"], &["I"], DIRS, IFIELDS]));
    out.extend(product(&[DESC2, &["extend input"], &["I"], DIRS, IFIELDS]));
    out.extend(product(&[DESC, &["scalar"], &["S", ""], DIRS]));
    out.extend(product(&[DESC2, &["extend scalar"], &["S", ""], DIRS]));
    out.extend(product(&[DESC, &["schema"], DIRS, ROOTS]));
    out.extend(product(&[DESC2, &["extend schema"], DIRS, ROOTS]));
    out.extend(product(&[DESC2, &["directive"], &["@d", "d", "@"], &["", "()", "(x: Int)", "(x: Int = 1 @a, \"d\" y: T)"], &["", "repeatable"], &["on", ""],
        &["", "FIELD", "| FIELD", "FIELD | QUERY", "FIELD |", "FIELD QUERY", "field"]]));
    // executable definitions
    out.extend(product(&[DESC2, &["", "query", "mutation", "subscription"], &["", "Q"], &["", "()", "($v: Int)", "($v: Int = 1 @d, $w: [A!]!)", "($v)", "(v: Int)"],
        &["", "@d", "@d(x: $v)"], &["", "{ }", "{ a }"]]));
    out.extend(product(&[DESC2, &["fragment"], &["", "F", "on"], &["", "on T", "on", "T", "on on"], &["", "@d"], &["", "{ }", "{ a }"]]));
    // selections (inside a selection set)
    for s in product(&[&["", "r:", "r :", ":"], &["f", ""], &["", "()", "(x: 1)", "(x: 1, y: $v)", "(x:)", "(: 1)", "(x 1)"], DIRS, &["", "{ }", "{ g }"]]) { out.push(format!("{{ {s} }}")); }
    for s in product(&[&["..."], &["", "F", "on T", "on", "on on", "F on T"], &["", "@d"], &["", "{ }", "{ g }"]]) { out.push(format!("{{ {s} }}")); out.push(format!("{{ a {s} b }}")); }
    out
}

/// every position that takes a value, filled with constant and variable-carrying values: variables are allowed
/// in the first group and must be rejected everywhere in the second
pub const VALUE_POS_NOTCONST: &[&str] = &["{ a(x: §) }", "{ a @d(x: §) }", "{ ...F @d(x: §) }", "{ ... on T @d(x: §) { a } }", "{ ... @d(x: §) { a } }", "query Q @d(x: §) { a }",
    "mutation @d(x: §) { a }", "subscription S($v: Int) @d(x: §) { a }", "fragment F on T @d(x: §) { a }", "{ a { b(x: §, y: §) } }", "query($v: Int) { a(x: §) @d(y: §) }"];
pub const VALUE_POS_CONST: &[&str] = &["query($a: T = §) { a }", "query($a: T @d(x: §)) { a }", "query($a: T = 1 @d(x: §)) { a }", "query($a: T = § @d(x: 1), $b: T) { a }",
    "schema @d(x: §) { query: Q }", "extend schema @d(x: §)", "extend schema @d(x: §) { query: Q }", "scalar S @d(x: §)", "extend scalar S @d(x: §)",
    "type T @d(x: §) { f: Int }", "extend type T @d(x: §)", "type T { f: Int @d(x: §) }", "type T { f(a: Int @d(x: §)): Int }", "type T { f(a: T = §): Int }", "extend type T { f(a: T = §): Int }",
    "interface I @d(x: §) { f: Int }", "extend interface I @d(x: §)", "interface I { f(a: T = §): Int @e(y: §) }", "extend interface I { f: Int @d(x: §) }",
    "union U @d(x: §) = A", "extend union U @d(x: §)", "enum E @d(x: §) { A }", "extend enum E @d(x: §)", "enum E { A @d(x: §) }", "extend enum E { A @d(x: §) }",
    "input I @d(x: §) { a: Int }", "extend input I @d(x: §)", "input I { a: T = § }", "input I { a: T @d(x: §) }", "extend input I { a: T = § @d(x: §) }",
    "directive @d(a: T = §) on FIELD", "directive @d(a: T @e(x: §)) on FIELD", "directive @d(a: T = 1, b: T = § @e(x: §)) repeatable on FIELD",
    "type T implements I @a(x: §) @b(y: §) { f: Int }", "\"d\" input I { \"d\" a: T = § }", "type T { \"d\" f(\"d\" a: T = §): Int }"];
pub const VALUE_FILLERS: &[&str] = &["1", "$v", "[$v]", "{k: $v}", "[1, [2, $v]]", "{k: {l: [$v]}}", "[]", "{}", "E", "\"s\"", "$", "$1", "[[1], {k: 1}]", "[$v, 1]"];

/// positions where a description may or may not stand
pub const DESC_POS: &[&str] = &["§ type T { f: Int }", "§ interface I { f: Int }", "§ union U = A", "§ enum E { A }", "§ input I { x: Int }", "§ scalar S", "§ schema { query: Q }", "§ directive @d on FIELD",
    "type T { § f: Int }", "type T { f(§ x: Int): Int }", "input I { § x: Int }", "enum E { § A }", "enum E { A § B }", "directive @d(§ x: Int) on FIELD", "interface I { f(x: Int § y: Int): Int }",
    "extend type T { § f: Int }", "extend input I { § x: Int }", "extend enum E { § A }",
    "§ { a }", "§ query { a }", "§ query Q { a }", "§ mutation { a }", "§ subscription { a }", "§ fragment F on T { a }", "§ extend type T @d", "§ extend schema @d", "§ extend scalar S @d",
    "§ extend union U = A", "§ extend enum E { A }", "§ extend input I { x: Int }", "§ extend interface I @d",
    "{ § a }", "{ a(§ x: 1) }", "query(§ $v: Int) { a }", "schema { § query: Q }", "union U = § A", "type T implements § I { f: Int }", "directive @d on § FIELD",
    "type § T { f: Int }", "type T § { f: Int }", "type T { f § : Int }", "type T { f: § Int }", "type T { f: Int § }", "type T { f: Int } §"];
pub const DESC_FILLERS: &[&str] = &["", "\"d\"", "\"\"\"d\"\"\"", "\"a\" \"b\""];

/// minimal forms of every definition kind; all ordered pairs test the boundary between two definitions
pub const MINIMAL_DEFS: &[&str] = &["{ a }", "query { a }", "query Q { a }", "mutation M @d { a }", "subscription { a }", "fragment F on T { a }", "schema { query: Q }", "schema @d { query: Q }",
    "extend schema @d", "extend schema { query: Q }", "scalar S", "scalar S @d", "\"d\" scalar S", "extend scalar S @d", "type T", "type T implements I", "type T implements I & J", "type T @d",
    "type T { f: Int }", "\"d\" type T", "extend type T implements I", "extend type T @d", "extend type T { f: Int }", "interface I", "interface I implements J", "extend interface I @d",
    "union U", "union U = A", "union U = A | B", "extend union U = A", "enum E", "enum E { A }", "extend enum E @d", "input I", "extend input I @d", "directive @d on FIELD | QUERY"];

// ---------------------------------------------------------------------------------------------------------
// nesting trees

/// all ordered forests whose trees have `n` internal nodes in total, each internal node labelled with one of `kinds`
/// labels; a tree is (label, children)
#[derive(Clone, Debug)]
pub struct Tree(pub usize, pub Vec<Tree>);

pub fn forests(n: usize, kinds: usize) -> Vec<Vec<Tree>> {
    if n == 0 { return vec![vec![]]; }
    let mut out = vec![];
    // first tree has k internal nodes (1..=n), the rest of the forest n-k
    for k in 1..=n {
        for children in forests(k - 1, kinds) {
            for rest in forests(n - k, kinds) {
                for label in 0..kinds {
                    let mut f = vec![Tree(label, children.clone())];
                    f.extend(rest.iter().cloned());
                    out.push(f);
                }
            }
        }
    }
    out
}

/// a value: label 0 = list, 1 = object; `leafy` adds a scalar after the nested children of every node (so that the
/// counter must have been restored after a nested sibling)
pub fn render_value(t: &Tree, leafy: bool) -> String {
    let mut items: Vec<String> = t.1.iter().map(|c| render_value(c, leafy)).collect();
    if leafy { items.push("1".to_string()); }
    if t.0 == 0 { format!("[{}]", items.join(", ")) }
    else { format!("{{{}}}", items.iter().enumerate().map(|(i, v)| format!("k{i}: {v}")).collect::<Vec<_>>().join(", ")) }
}

/// value trees with 1..=n internal nodes
pub fn value_trees(n: usize) -> Vec<String> {
    let mut out = vec![];
    for m in 1..=n { for f in forests(m, 2) { if f.len() == 1 { for leafy in [false, true] { out.push(render_value(&f[0], leafy)); } } } }
    out
}

/// a selection: label 0 = field with a sub-selection, 1 = inline fragment without type condition, 2 = with one
pub fn render_selection(t: &Tree, i: usize) -> String {
    let inner = render_selections(&t.1);
    match t.0 { 0 => format!("f{i} {{ {inner} }}"), 1 => format!("... {{ {inner} }}"), _ => format!("... on T {{ {inner} }}") }
}
pub fn render_selections(f: &[Tree]) -> String {
    let mut items: Vec<String> = f.iter().enumerate().map(|(i, c)| render_selection(c, i)).collect();
    items.push("x".to_string());
    items.join(" ")
}
/// selection-set documents `{ … }` whose nested selection sets form every forest with ≤ n internal nodes
pub fn selection_trees(n: usize, kinds: usize) -> Vec<String> {
    let mut out = vec![];
    for m in 0..=n { for f in forests(m, kinds) { out.push(format!("{{ {} }}", render_selections(&f))); } }
    out
}

/// all types of list depth ≤ d, every combination of `!`
pub fn types(d: usize) -> Vec<String> {
    let mut level: Vec<String> = vec!["Int".into(), "Int!".into()];
    let mut out = level.clone();
    for _ in 0..d {
        let mut next = vec![];
        for t in &level { next.push(format!("[{t}]")); next.push(format!("[{t}]!")); }
        out.extend(next.iter().cloned());
        level = next;
    }
    out
}

pub const TYPE_POS: &[&str] = &["type T { f: § }", "type T { f(a: §): Int }", "query($v: §) { a }", "input I { x: § = 1 }", "directive @d(a: § = null) on FIELD", "interface I { f(a: Int): § @d }"];
pub const VALUE_POS_ALL: &[&str] = &["{ a(x: §) }", "{ a { b @d(x: §) } }", "query($v: T = §) { a }", "type T { f(a: T = §): Int }", "input I { a: T = § @d(y: §) }", "directive @d(a: T = §) on FIELD",
    "enum E { A @d(x: §) }", "extend schema @d(x: §)", "{ ... on T @d(x: §) { a } }", "fragment F on T { a(x: §) }", "{ a(x: §) } { z }", "{ a(x: §, y: §) { b(z: §) } }"];

/// documents that make the parser look ahead (peek_n / peek_token_n / peek_data_n) with ignored tokens in between
pub const LOOKAHEAD_DOCS: &[&str] = &["\"d\" type A", "\"d\" , type A { f: Int }", "\"d\" # c\n scalar S", "\"\"\"d\"\"\"\n\ndirective @d on FIELD", "extend type A @d", "extend , union U = A", "extend # c\n schema @d",
    "{ ... on T { a } }", "{ ... , on T { a } }", "{ ...F }", "{ ... # c\n F }", "{ ... @d { a } }", "{ ... { a } }", "{ a: b }", "{ a , : b }", "{ a # c\n : b }", "{ a b: c }", "\"d\" \"e\" type A"];
