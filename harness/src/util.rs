//! Shared plumbing for the correspondence harness: one PRNG, the line protocol, oracle failures, stats.
use std::collections::BTreeMap;
use std::fs::File;
use std::io::{BufWriter, Write};
use std::path::PathBuf;

pub struct Rng(pub u64);
impl Rng {
    pub fn next(&mut self) -> u64 {
        self.0 = self.0.wrapping_add(0x9E3779B97F4A7C15);
        let mut z = self.0;
        z = (z ^ (z >> 30)).wrapping_mul(0xBF58476D1CE4E5B9);
        z = (z ^ (z >> 27)).wrapping_mul(0x94D049BB133111EB);
        z ^ (z >> 31)
    }
    pub fn below(&mut self, n: usize) -> usize {
        if n == 0 { 0 } else { (self.next() % n as u64) as usize }
    }
    pub fn chance(&mut self, num: u32, den: u32) -> bool {
        (self.next() % den as u64) < num as u64
    }
    pub fn pick<'a, T>(&mut self, xs: &'a [T]) -> &'a T {
        &xs[self.below(xs.len())]
    }
}

/// Field encoding of the line protocol: `=raw` when the text is plain printable ASCII (may contain
/// spaces), `#cp,cp,…` (decimal code points) otherwise, `#` for the empty string.
pub fn enc(s: &str) -> String {
    if !s.is_empty() && s.chars().all(|c| (' '..='~').contains(&c)) {
        format!("={s}")
    } else {
        let mut out = String::from("#");
        let mut first = true;
        for c in s.chars() {
            if !first { out.push(','); }
            first = false;
            out.push_str(&(c as u32).to_string());
        }
        out
    }
}

pub struct Ctx {
    pub prop: String,
    pub tier: String,
    pub thorough: bool,
    pub seed: u64,
    pub rng: Rng,
    pub out_dir: PathBuf,
    cases: BufWriter<File>,
    impl_out: BufWriter<File>,
    oracle: BufWriter<File>,
    pub n_cases: u64,
    pub n_fail: u64,
    pub stats: BTreeMap<String, u64>,
    pub samples: Vec<String>,
    pub distinct: std::collections::HashSet<u64>,
    pub known_seen: BTreeMap<String, String>,
    cur_file: Option<File>,
}

impl Ctx {
    pub fn new(prop: &str, tier: &str, seed: u64, out_dir: PathBuf) -> Self {
        std::fs::create_dir_all(&out_dir).unwrap();
        let f = |n: &str| BufWriter::new(File::create(out_dir.join(n)).unwrap());
        Ctx {
            prop: prop.to_string(),
            tier: tier.to_string(),
            thorough: tier == "thorough",
            seed,
            rng: Rng(seed ^ 0xA5A5_5A5A_1234_5678),
            cases: f("cases.txt"),
            impl_out: f("impl.out"),
            oracle: f("oracle.jsonl"),
            out_dir,
            n_cases: 0,
            n_fail: 0,
            stats: BTreeMap::new(),
            samples: Vec::new(),
            distinct: Default::default(),
            known_seen: BTreeMap::new(),
            cur_file: None,
        }
    }
    /// One correspondence case: the same `stream\tfields…` line goes to the Lean model driver;
    /// `out` is the implementation's canonical answer.
    pub fn case(&mut self, stream: &str, fields: &[String], out: &str) {
        let mut line = String::from(stream);
        for f in fields {
            line.push('\t');
            line.push_str(f);
        }
        debug_assert!(!line.contains('\n') && !out.contains('\n'));
        writeln!(self.cases, "{line}").unwrap();
        writeln!(self.impl_out, "{out}").unwrap();
        self.n_cases += 1;
        if self.samples.len() < 8 && (self.n_cases % 97 == 1) {
            self.samples.push(format!("{line} => {out}"));
        }
    }
    /// Record the input that is about to run in `<out>/current_input.txt`, for properties whose violation can
    /// kill the process (memory errors, stack overflow): if the harness dies, `./check` reports this input.
    pub fn begin(&mut self, input: &str) {
        use std::os::unix::fs::FileExt;
        if self.cur_file.is_none() {
            self.cur_file = File::create(self.out_dir.join("current_input.txt")).ok();
        }
        if let Some(f) = &self.cur_file {
            // one positioned write and one truncate per call: cheap enough to call before every step
            let _ = f.write_all_at(input.as_bytes(), 0);
            let _ = f.set_len(input.len() as u64);
        }
    }
    /// Mark a case as non-trivial and distinct (by hash of a caller-chosen key).
    pub fn nontrivial(&mut self, key: &str) {
        use std::hash::{Hash, Hasher};
        let mut h = std::collections::hash_map::DefaultHasher::new();
        key.hash(&mut h);
        self.distinct.insert(h.finish());
    }
    pub fn stat(&mut self, k: &str) {
        *self.stats.entry(k.to_string()).or_insert(0) += 1;
    }
    pub fn stat_n(&mut self, k: &str, n: u64) {
        *self.stats.entry(k.to_string()).or_insert(0) += n;
    }
    /// The property's oracle failed on the implementation for `input`.
    /// `key` is the finding key matched against KNOWN_FINDINGS.txt.
    pub fn fail(&mut self, key: &str, input: &str, what: &str) {
        self.n_fail += 1;
        // keep the output bounded: first 50 per key
        let c = self.stats.entry(format!("oracle_fail:{key}")).or_insert(0);
        *c += 1;
        if *c <= 20 {
            let v = serde_json::json!({"key": key, "input": input, "what": what});
            writeln!(self.oracle, "{v}").unwrap();
        }
    }
    pub fn finish(mut self) {
        self.cases.flush().unwrap();
        self.impl_out.flush().unwrap();
        self.oracle.flush().unwrap();
        let v = serde_json::json!({
            "property": self.prop, "tier": self.tier, "seed": self.seed,
            "cases": self.n_cases, "oracle_failures": self.n_fail,
            "distinct_nontrivial": self.distinct.len(),
            "stats": self.stats, "samples": self.samples,
        });
        std::fs::write(self.out_dir.join("stats.json"), serde_json::to_string_pretty(&v).unwrap()).unwrap();
    }
}

/// Run `f` catching panics; returns Err(message) on panic.
pub fn catch<T>(f: impl FnOnce() -> T) -> Result<T, String> {
    match std::panic::catch_unwind(std::panic::AssertUnwindSafe(f)) {
        Ok(v) => Ok(v),
        Err(e) => Err(if let Some(s) = e.downcast_ref::<&str>() {
            s.to_string()
        } else if let Some(s) = e.downcast_ref::<String>() {
            s.clone()
        } else {
            "panic".to_string()
        }),
    }
}

/// All strings over `alphabet` of length ≤ k (shortlex), calling `f` on each.
pub fn for_all_strings(alphabet: &[&str], k: usize, mut f: impl FnMut(&str)) {
    let mut idx: Vec<usize> = Vec::new();
    let mut buf = String::new();
    loop {
        buf.clear();
        for &i in &idx { buf.push_str(alphabet[i]); }
        f(&buf);
        // increment
        let mut pos = idx.len();
        loop {
            if pos == 0 {
                idx = vec![0; idx.len() + 1];
                break;
            }
            pos -= 1;
            if idx[pos] + 1 < alphabet.len() {
                idx[pos] += 1;
                for j in pos + 1..idx.len() { idx[j] = 0; }
                break;
            }
        }
        if idx.len() > k { return; }
    }
}
