//! C07 — standalone type / field-set parsing consumes the whole input.
use crate::pp::*;
use crate::util::*;
use apollo_parser::TokenKind as T;

fn sig_tokens(src: &str) -> Option<Vec<(T, String)>> {
    let mut out = vec![];
    for item in apollo_parser::Lexer::new(src) {
        match item {
            Ok(t) => if !matches!(t.kind(), T::Whitespace | T::Comment | T::Comma | T::Eof) { out.push((t.kind(), t.data().to_string())); },
            Err(_) => return None,
        }
    }
    Some(out)
}

/// Type :: Name | [ Type ] | Type !   — returns the rest
fn rec_type(t: &[(T, String)]) -> Option<&[(T, String)]> {
    let rest = match t.first()?.0 {
        T::Name => &t[1..],
        T::LBracket => { let r = rec_type(&t[1..])?; if r.first()?.0 != T::RBracket { return None; } &r[1..] }
        _ => return None,
    };
    if rest.first().map(|x| x.0) == Some(T::Bang) { Some(&rest[1..]) } else { Some(rest) }
}
fn is_one_type(src: &str) -> bool { sig_tokens(src).is_some_and(|t| rec_type(&t).is_some_and(|r| r.is_empty())) }

pub fn type_case(ctx: &mut Ctx, src: &str) {
    let r = case(ctx, "ty", None, 500, src);
    let Ok(p) = r else { ctx.fail("parse-type-panic", src, "panic"); return };
    let ok = p.errors.is_empty();
    if ok && !is_one_type(src) {
        let key = if sig_tokens(src).is_some_and(|t| rec_type(&t).is_some()) { "type-trailing-tokens-ignored" } else { "type-accepts-non-type" };
        ctx.fail(key, src, &format!("no error, tree {}", p.sexpr));
    }
    if ok { ctx.nontrivial(src); }
    // (audit G1) second, independent reference: the spec recogniser over the reference lexer's tokens
    let spec = crate::gramspec::spec_type(src);
    if ok && !spec { ctx.fail("type-accepts-non-type", src, &format!("no error, but the reference grammar does not read the whole input as one Type; tree {}", p.sexpr)); }
    if spec != is_one_type(src) { ctx.fail("reference-oracles-disagree", src, &format!("spec_type={spec} is_one_type={}", !spec)); }
    // compiler wrapper
    let c = crate::util::catch(|| apollo_compiler::ast::Type::parse(src, "t.graphql").is_ok());
    match c { Ok(cok) => if cok && !(is_one_type(src) && spec) { ctx.fail("type-trailing-tokens-ignored", &format!("ast::Type::parse({src:?})"), "Ok"); }, Err(m) => ctx.fail("parse-type-panic", src, &m) }
}

/// is the whole input one selection set (with or without braces)?  Uses the document parser as the
/// reference for a braced selection set: `{…}` is a valid anonymous query iff it is a selection set.
fn is_one_selection_set(src: &str) -> bool {
    let Some(t) = sig_tokens(src) else { return false };
    if t.is_empty() { return false; }
    // (the closing brace goes on a line of its own: the input may end in a comment)
    let braced = if t[0].0 == T::LCurly { src.to_string() } else { format!("{{{src}\n}}") };
    let Ok(p) = run_parser("doc", None, 500, &braced) else { return false };
    if !p.errors.is_empty() { return false; }
    // exactly one definition, which is an anonymous operation = the selection set
    p.sexpr.matches("(OPERATION_DEFINITION").count() == 1 && p.sexpr.matches("_DEFINITION").count() == 1 && !p.sexpr.contains("(OPERATION_TYPE")
        && if t[0].0 == T::LCurly { true } else { !t.iter().enumerate().any(|(i, x)| x.0 == T::RCurly && depth_before(&t, i) == 0) }
}
fn depth_before(t: &[(T, String)], i: usize) -> i32 { t[..i].iter().map(|x| match x.0 { T::LCurly => 1, T::RCurly => -1, _ => 0 }).sum() }

pub fn sel_case(ctx: &mut Ctx, src: &str) {
    let r = case(ctx, "sel", None, 500, src);
    let Ok(p) = r else { ctx.fail("parse-selection-set-panic", src, "panic"); return };
    let ok = p.errors.is_empty();
    let one = is_one_selection_set(src);
    if ok && !one { ctx.fail("field-set-trailing-tokens-ignored", src, &format!("no error, tree {}", p.sexpr)); }
    if ok { ctx.nontrivial(src); }
    // (audit G1) second, independent reference: the spec recogniser (does not run the parser under test)
    let spec = crate::gramspec::spec_field_set(src);
    if ok && !spec { ctx.fail("field-set-accepts-non-selection-set", src, &format!("no error, but the reference grammar does not read the whole input as one selection set; tree {}", p.sexpr)); }
    if spec != one { ctx.fail("reference-oracles-disagree", src, &format!("spec_field_set={spec} document-parser reference={one}")); }
    // (audit G1) the compiler wrapper: FieldSet::parse reports Ok only for one whole selection set (every field used here exists in the schema,
    // so a build error can only make it stricter)
    let c = crate::util::catch(|| SCHEMA.with(|s| apollo_compiler::executable::FieldSet::parse(s, apollo_compiler::name!("Query"), src, "f.graphql").is_ok()));
    match c {
        Ok(cok) => { if cok && !(one && spec) { ctx.fail("field-set-trailing-tokens-ignored", &format!("FieldSet::parse({src:?})"), "Ok"); } if cok { ctx.stat("fieldset_compiler_ok"); } else { ctx.stat("fieldset_compiler_err"); } }
        Err(m) => ctx.fail("parse-selection-set-panic", &format!("FieldSet::parse({src:?})"), &m),
    }
}
thread_local! {
    static SCHEMA: apollo_compiler::validation::Valid<apollo_compiler::Schema> = apollo_compiler::Schema::parse_and_validate(
        "directive @d(x: Int) repeatable on FIELD | INLINE_FRAGMENT | FRAGMENT_SPREAD type Query implements T { a(x: Int): Query b(x: Int): Query c: Int on: Query x: Int g: Int f0: Query f1: Query f2: Query } interface T { a(x: Int): Query b(x: Int): Query }", "s.graphql").unwrap();
}

pub fn run(ctx: &mut Ctx) {
    // characters that are white space for Unicode (or look harmless) but are NOT ignored tokens of GraphQL, and the
    // ignored ones for contrast — before, inside and after every construct, alone and mixed with ordinary white space
    {
        let odd = ["\u{a0}", "\u{b}", "\u{c}", "\u{85}", "\u{1680}", "\u{2000}", "\u{200a}", "\u{2028}", "\u{2029}", "\u{202f}", "\u{205f}", "\u{3000}", "\u{200b}", "\u{1}", "é", "\u{feff}", "\t", "\r", "\n", " ", ","];
        let tconstructs = ["Int", "[Foo!]!", "[[b]]"];
        let sconstructs = ["a", "{ a }", "a { b }", "a b { c }", "a: b(x: 1) @d"];
        let mut n = 0u64;
        for ch in odd {
            for pad in [String::new(), "\n".to_string(), " ".to_string()] {
                let x = format!("{pad}{ch}{pad}");
                for c in tconstructs {
                    for src in [format!("{c}{x}"), format!("{x}{c}"), format!("{c}{x}{x}"), c.replacen(|k: char| k == '!' || k == ']', &format!("{x}]"), 1)] { type_case(ctx, &src); n += 1; }
                }
                for c in sconstructs {
                    for src in [format!("{c}{x}"), format!("{x}{c}"), format!("{c}{x}{x}"), c.replacen(' ', &format!(" {x} "), 1)] { sel_case(ctx, &src); n += 1; }
                }
            }
        }
        ctx.stat_n("odd_character_cases", n);
    }
    for s in ["Int ]] x", "A B", "A", "[A!]!", " A", "A ", "", "!", "[A", "A!!", "A]"] { type_case(ctx, s); }
    for s in ["a } b", "a", "{ a }", "{ a } b", "a { b } }", "{ a } }", "a b { c }", ""] { sel_case(ctx, s); }
    let mut tys = vec![];
    for_all_strings(&["A", "b", "[", "]", "!", " ", ",", "1"], if ctx.thorough { 7 } else { 6 }, |s| tys.push(s.to_string()));
    for s in &tys { type_case(ctx, s); }
    // prefix + construct + suffix
    let constructs = ["A", "[A]", "[A!]!", "[[b]]"];
    let mut fixes = vec![];
    token_seqs(&["A", "[", "]", "!", "{", ":", "1", "$"], 2, |s| fixes.push(s.to_string()));
    for c in constructs { for pre in &fixes { for suf in &fixes { type_case(ctx, &format!("{pre} {c} {suf}")); } } }
    let mut sels = vec![];
    token_seqs(&["{", "}", "a", "b", ":", "...", "on", "@d", "(x:1)", "1"], if ctx.thorough { 5 } else { 4 }, |s| sels.push(s.to_string()));
    for s in &sels { sel_case(ctx, s); }
    let sconstructs = ["a", "{ a }", "a { b }", "{ a ... on T { b } }", "a: b(x: 1) @d"];
    let mut sfix = vec![];
    token_seqs(&["a", "{", "}", ":", "1", "..."], 2, |s| sfix.push(s.to_string()));
    for c in sconstructs { for pre in &sfix { for suf in &sfix { sel_case(ctx, &format!("{pre} {c} {suf}")); } } }

    // ---- (audit G1) ----
    // a token of EVERY kind (every punctuator, name, int, float, string, block string, lexer error) and every ignored token, before and after
    // every construct, glued and spaced
    let every_token = ["!", "$", "&", "(", ")", "...", ":", "=", "@", "[", "]", "{", "}", "|", "a", "on", "1", "-0", "1.5", "1e3", "\"s\"", "\"\"", "\"\"\"b\"\"\"", "é", "\"", "..", "1.", "\u{1}",
        " ", ",", "\n", "\r\n", "\t", "\u{feff}", "#c", "#c\n", "# é"];
    let mut n = 0u64;
    for c in ["A", "A!", "[A]", "[A!]!", "[[b]]", "[A", "A]"] { for t in every_token { for s in [format!("{c}{t}"), format!("{c} {t}"), format!("{t}{c}"), format!("{t} {c}"), format!("{c} {t} {c}")] { type_case(ctx, &s); n += 1; } } }
    for c in ["a", "{ a }", "a { b }", "{ a ... on T { b } }", "a: b(x: 1) @d", "...F", "{ a", "a }"] { for t in every_token { for s in [format!("{c}{t}"), format!("{c} {t}"), format!("{t}{c}"), format!("{t} {c}"), format!("{c} {t} {c}")] { sel_case(ctx, &s); n += 1; } } }
    ctx.stat_n("family:every-token-kind-around-construct", n);
    // short strings over alphabets with comments, strings, lexer errors and the BOM
    let mut xs = vec![];
    for_all_strings(&["A", "[", "]", "!", " ", "#c\n", "é", "\u{feff}", "\"s\""], if ctx.thorough { 5 } else { 4 }, |s| xs.push(s.to_string()));
    for s in &xs { type_case(ctx, s); }
    let mut ys = vec![];
    token_seqs(&["{", "}", "a", "#c\n", "é", "\"s\"", "$v", "[", "!"], if ctx.thorough { 5 } else { 4 }, |s| ys.push(s.to_string()));
    for s in &ys { sel_case(ctx, s); }
    ctx.stat_n("family:alphabets-with-ignored-and-invalid", (xs.len() + ys.len()) as u64);
    // generated constructs (deeper, with arguments, directives, fragments) × every short prefix / suffix
    let mut cov = std::collections::BTreeMap::new();
    let nc = if ctx.thorough { 400 } else { 50 };
    for i in 0..nc {
        let (sel, ty) = { let mut g = crate::gen::G { r: &mut ctx.rng, depth: 0, cov: &mut cov }; (g.selection_set(0), g.ty(0)) };
        let sel = if i % 2 == 0 { sel } else { sel[1..sel.len() - 1].to_string() };
        for f in &sfix { sel_case(ctx, &format!("{sel} {f}")); sel_case(ctx, &format!("{f} {sel}")); }
        for f in &fixes { type_case(ctx, &format!("{ty} {f}")); type_case(ctx, &format!("{f} {ty}")); }
    }
    ctx.stat_n("family:generated-construct-x-fix", (nc * 2 * (sfix.len() + fixes.len())) as u64);
}
