//! C07 — standalone type / field-set parsing consumes the whole input.
use crate::pp::*;
use crate::util::*;
use apollo_parser::TokenKind as T;

fn sig_tokens(src: &str) -> Option<Vec<(T, String)>> {
    let mut out = vec![];
    for item in apollo_parser::Lexer::new(src) {
        match item {
            Ok(t) => if !matches!(t.kind(), T::Whitespace | T::Comment | T::Comma | T::Eof) { out.push((t.kind(), t.data().to_string())); },
            Err(_) => return None,
        }
    }
    Some(out)
}

/// Type :: Name | [ Type ] | Type !   — returns the rest
fn rec_type(t: &[(T, String)]) -> Option<&[(T, String)]> {
    let rest = match t.first()?.0 {
        T::Name => &t[1..],
        T::LBracket => { let r = rec_type(&t[1..])?; if r.first()?.0 != T::RBracket { return None; } &r[1..] }
        _ => return None,
    };
    if rest.first().map(|x| x.0) == Some(T::Bang) { Some(&rest[1..]) } else { Some(rest) }
}
fn is_one_type(src: &str) -> bool { sig_tokens(src).is_some_and(|t| rec_type(&t).is_some_and(|r| r.is_empty())) }

pub fn type_case(ctx: &mut Ctx, src: &str) {
    let r = case(ctx, "ty", None, 500, src);
    let Ok(p) = r else { ctx.fail("parse-type-panic", src, "panic"); return };
    let ok = p.errors.is_empty();
    if ok && !is_one_type(src) {
        let key = if sig_tokens(src).is_some_and(|t| rec_type(&t).is_some()) { "type-trailing-tokens-ignored" } else { "type-accepts-non-type" };
        ctx.fail(key, src, &format!("no error, tree {}", p.sexpr));
    }
    if ok { ctx.nontrivial(src); }
    // compiler wrapper
    let c = crate::util::catch(|| apollo_compiler::ast::Type::parse(src, "t.graphql").is_ok());
    match c { Ok(cok) => if cok && !is_one_type(src) { ctx.fail("type-trailing-tokens-ignored", &format!("ast::Type::parse({src:?})"), "Ok"); }, Err(m) => ctx.fail("parse-type-panic", src, &m) }
}

/// is the whole input one selection set (with or without braces)?  Uses the document parser as the
/// reference for a braced selection set: `{…}` is a valid anonymous query iff it is a selection set.
fn is_one_selection_set(src: &str) -> bool {
    let Some(t) = sig_tokens(src) else { return false };
    if t.is_empty() { return false; }
    let braced = if t[0].0 == T::LCurly { src.to_string() } else { format!("{{{src}}}") };
    let Ok(p) = run_parser("doc", None, 500, &braced) else { return false };
    if !p.errors.is_empty() { return false; }
    // exactly one definition, which is an anonymous operation = the selection set
    p.sexpr.matches("(OPERATION_DEFINITION").count() == 1 && p.sexpr.matches("_DEFINITION").count() == 1 && !p.sexpr.contains("(OPERATION_TYPE")
        && if t[0].0 == T::LCurly { true } else { !t.iter().enumerate().any(|(i, x)| x.0 == T::RCurly && depth_before(&t, i) == 0) }
}
fn depth_before(t: &[(T, String)], i: usize) -> i32 { t[..i].iter().map(|x| match x.0 { T::LCurly => 1, T::RCurly => -1, _ => 0 }).sum() }

pub fn sel_case(ctx: &mut Ctx, src: &str) {
    let r = case(ctx, "sel", None, 500, src);
    let Ok(p) = r else { ctx.fail("parse-selection-set-panic", src, "panic"); return };
    let ok = p.errors.is_empty();
    if ok && !is_one_selection_set(src) { ctx.fail("field-set-trailing-tokens-ignored", src, &format!("no error, tree {}", p.sexpr)); }
    if ok { ctx.nontrivial(src); }
    // compiler wrapper: FieldSet::parse must not accept what is not exactly one selection set (whatever it does to the
    // text before handing it to the parser)
    thread_local! { static SCHEMA: apollo_compiler::validation::Valid<apollo_compiler::Schema> = apollo_compiler::Schema::parse_and_validate(
        "directive @d on FIELD | INLINE_FRAGMENT  interface T { a: Query b(x: Int): Query c: Query }  type Query implements T { a: Query b(x: Int): Query c: Query }", "s.graphql").unwrap(); }
    let c = crate::util::catch(|| SCHEMA.with(|sc| apollo_compiler::executable::FieldSet::parse(sc, apollo_compiler::name!("Query"), src, "f.graphql").is_ok()));
    match c {
        Ok(cok) => { if cok && !is_one_selection_set(src) { ctx.fail("field-set-trailing-tokens-ignored", &format!("FieldSet::parse({src:?})"), "Ok"); } if cok { ctx.stat("fieldset_compiler_ok"); } }
        Err(m) => ctx.fail("parse-selection-set-panic", &format!("FieldSet::parse({src:?})"), &m),
    }
}

pub fn run(ctx: &mut Ctx) {
    // characters that are white space for Unicode (or look harmless) but are NOT ignored tokens of GraphQL, and the
    // ignored ones for contrast — before, inside and after every construct, alone and mixed with ordinary white space
    {
        let odd = ["\u{a0}", "\u{b}", "\u{c}", "\u{85}", "\u{1680}", "\u{2000}", "\u{200a}", "\u{2028}", "\u{2029}", "\u{202f}", "\u{205f}", "\u{3000}", "\u{200b}", "\u{1}", "é", "\u{feff}", "\t", "\r", "\n", " ", ","];
        let tconstructs = ["Int", "[Foo!]!", "[[b]]"];
        let sconstructs = ["a", "{ a }", "a { b }", "a b { c }", "a: b(x: 1) @d"];
        let mut n = 0u64;
        for ch in odd {
            for pad in [String::new(), "\n".to_string(), " ".to_string()] {
                let x = format!("{pad}{ch}{pad}");
                for c in tconstructs {
                    for src in [format!("{c}{x}"), format!("{x}{c}"), format!("{c}{x}{x}"), c.replacen(|k: char| k == '!' || k == ']', &format!("{x}]"), 1)] { type_case(ctx, &src); n += 1; }
                }
                for c in sconstructs {
                    for src in [format!("{c}{x}"), format!("{x}{c}"), format!("{c}{x}{x}"), c.replacen(' ', &format!(" {x} "), 1)] { sel_case(ctx, &src); n += 1; }
                }
            }
        }
        ctx.stat_n("odd_character_cases", n);
    }
    for s in ["Int ]] x", "A B", "A", "[A!]!", " A", "A ", "", "!", "[A", "A!!", "A]"] { type_case(ctx, s); }
    for s in ["a } b", "a", "{ a }", "{ a } b", "a { b } }", "{ a } }", "a b { c }", ""] { sel_case(ctx, s); }
    let mut tys = vec![];
    for_all_strings(&["A", "b", "[", "]", "!", " ", ",", "1"], if ctx.thorough { 7 } else { 6 }, |s| tys.push(s.to_string()));
    for s in &tys { type_case(ctx, s); }
    // prefix + construct + suffix
    let constructs = ["A", "[A]", "[A!]!", "[[b]]"];
    let mut fixes = vec![];
    token_seqs(&["A", "[", "]", "!", "{", ":", "1", "$"], 2, |s| fixes.push(s.to_string()));
    for c in constructs { for pre in &fixes { for suf in &fixes { type_case(ctx, &format!("{pre} {c} {suf}")); } } }
    let mut sels = vec![];
    token_seqs(&["{", "}", "a", "b", ":", "...", "on", "@d", "(x:1)", "1"], if ctx.thorough { 5 } else { 4 }, |s| sels.push(s.to_string()));
    for s in &sels { sel_case(ctx, s); }
    let sconstructs = ["a", "{ a }", "a { b }", "{ a ... on T { b } }", "a: b(x: 1) @d"];
    let mut sfix = vec![];
    token_seqs(&["a", "{", "}", ":", "1", "..."], 2, |s| sfix.push(s.to_string()));
    for c in sconstructs { for pre in &sfix { for suf in &sfix { sel_case(ctx, &format!("{pre} {c} {suf}")); } } }
}
