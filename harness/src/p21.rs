//! C21 — no panic / stack overflow on adversarial input; recursion-limit diagnostics; sorted diagnostics.
//!
//! Three model streams (depth guard, diagnostics sort, fragment-cycle detector) plus implementation
//! oracles that run every adversarial family in a child process (a stack overflow kills a process,
//! it cannot be caught), on a thread with Rust's default 2 MiB thread stack.
use crate::util::*;
use apollo_compiler::diagnostic::{Color, ToCliReport};
use apollo_compiler::validation::DiagnosticList;
use apollo_compiler::{ast, ExecutableDocument, Schema};
use std::fmt::Write as _;

const STACK: usize = 2 * 1024 * 1024;
const LIMIT_MARKERS: [&str; 3] = ["too much recursion", "too much nesting", "recursion limit reached"];

// ---------------------------------------------------------------------------------------------
// what is done with every input
// ---------------------------------------------------------------------------------------------

struct Obs {
    lines: Vec<String>,
}

impl Obs {
    fn diags(&mut self, stage: &str, list: &DiagnosticList) {
        // sorted by (file, offset), `None` first
        let keys: Vec<Option<(u64, usize)>> = list.iter().map(|d| d.error.location().map(|l| (l.file_id().verif_raw(), l.offset()))).collect();
        let sorted = keys.windows(2).all(|w| w[0] <= w[1]);
        let mut limit = 0;
        let mut other = 0;
        let mut first_other = String::new();
        for d in list.iter() {
            // every way of rendering
            let plain = d.to_string();
            let _ = d.to_report(Color::Never).into_string();
            let _ = format!("{d:?}");
            let json = d.to_json();
            let _ = serde_json::to_string(&json).unwrap();
            let _ = d.line_column_range();
            let msg = d.error.to_string();
            if LIMIT_MARKERS.iter().any(|m| msg.contains(m)) { limit += 1 } else { other += 1; if first_other.is_empty() { first_other = msg.lines().next().unwrap_or("").chars().take(80).collect(); } }
            let _ = plain;
        }
        let _ = list.to_string();
        let _ = format!("{list:?}");
        self.lines.push(format!("D\t{stage}\t{}\t{}\t{}\t{}\t{}", list.len(), sorted as u8, limit, other, first_other.replace(['\t', '\n', '\r'], " ")));
    }
    fn ok(&mut self, stage: &str) {
        self.lines.push(format!("D\t{stage}\t0\t1\t0\t0\t"));
    }
}

fn exercise(schema_src: &str, doc_src: &str, obs: &mut Obs) {
    // schema: build, validate, serialize
    let (schema, built_ok) = match Schema::parse(schema_src, "schema.graphql") {
        Ok(s) => { obs.ok("schema-build"); (s, true) }
        Err(e) => { obs.diags("schema-build", &e.errors); (e.partial, false) }
    };
    let _ = schema.to_string();
    let _ = schema.serialize().no_indent().to_string();
    let valid = match schema.clone().validate() {
        Ok(v) => { obs.ok("schema-validate"); Some(v) }
        Err(e) => { obs.diags("schema-validate", &e.errors); let _ = e.partial.to_string(); None }
    };
    let _ = built_ok;
    // ast + standalone
    match ast::Document::parse(doc_src, "doc.graphql") {
        Ok(d) => {
            let _ = d.to_string();
            match d.validate_standalone_executable() { Ok(()) => obs.ok("standalone"), Err(e) => obs.diags("standalone", &e) }
            let _ = d.to_schema();
            let _ = d.to_mixed_validate();
        }
        Err(e) => { obs.diags("ast-parse", &e.errors); let _ = e.partial.to_string(); }
    }
    if let Some(valid) = &valid {
        let _ = valid.to_string();
        let doc = match ExecutableDocument::parse(valid, doc_src, "doc.graphql") {
            Ok(d) => { obs.ok("exec-build"); d }
            Err(e) => { obs.diags("exec-build", &e.errors); e.partial }
        };
        let _ = doc.to_string();
        match doc.validate(valid) {
            Ok(vd) => {
                obs.ok("exec-validate");
                // introspection
                let imap = valid.implementers_map();
                for op in vd.operations.iter() {
                    let depth_ok = apollo_compiler::introspection::check_max_depth(&vd, op).is_ok();
                    if depth_ok && op.operation_type == ast::OperationType::Query {
                        if let Ok(vars) = apollo_compiler::request::coerce_variable_values(valid, op, &Default::default()) {
                            match apollo_compiler::introspection::partial_execute(valid, &imap, &vd, op, &vars) {
                                Ok(resp) => { let _ = serde_json::to_string(&resp).map(|s| s.len()); }
                                Err(e) => { let _ = e.to_graphql_error(&vd.sources); }
                            }
                        }
                    }
                }
            }
            Err(e) => { obs.diags("exec-validate", &e.errors); let _ = e.partial.to_string(); }
        }
    }
    // both in one file
    let mixed = format!("{schema_src}\n{doc_src}");
    match apollo_compiler::parser::Parser::new().parse_mixed_validate(&mixed, "mixed.graphql") {
        Ok(_) => obs.ok("mixed"),
        Err(e) => obs.diags("mixed", &e),
    }
}

// ---------------------------------------------------------------------------------------------
// adversarial families: valid GraphQL whose only possible complaint is a limit
// ---------------------------------------------------------------------------------------------

pub const FAMILIES: [&str; 19] = [
    "frag-deep", "frag-deep-inline", "frag-flat", "frag-nested", "frag-inline", "sel-depth", "inline-depth", "directive-chain", "input-chain",
    "list-type", "object-value", "list-value", "merge-depth", "var-deep",
    "input-chain-wide", "input-nullable-cycle", "directive-type-chain", "directive-enum-chain", "default-value",
];

/// Operation-kind variants of the document-centred families (`family_variant`): the same nesting reached from a
/// subscription (its own root-level walker, `validate_subscription`), a mutation, a named query with a variable
/// (the unused-variable walker), and two operations sharing the fragments (per-operation caches).
pub const VARIANT_FAMILIES: [&str; 8] = ["frag-flat", "frag-deep", "frag-deep-inline", "frag-nested", "frag-inline", "sel-depth", "inline-depth", "merge-depth"];
pub const VARIANTS: [&str; 4] = ["subscription", "mutation", "named-with-variable", "two-operations"];
pub fn variant_sizes(thorough: bool) -> Vec<usize> {
    let mut v = vec![3usize, 99, 100, 101, 499, 500, 501, 3000];
    if thorough { v.extend([1, 2, 31, 32, 33, 49, 50, 51, 63, 64, 65, 98, 102, 127, 128, 129, 249, 250, 251, 255, 256, 257, 498, 502, 1000, 10000]); }
    v.sort(); v
}

pub fn family_variant(name: &str, n: usize, variant: &str) -> (String, String) {
    let (mut s, mut d) = family(name, n);
    let (op, rest) = match d.find("fragment F") { Some(i) => (d[..i].to_string(), d[i..].to_string()), None => (d.clone(), String::new()) };
    match variant {
        "subscription" | "mutation" => {
            // the nesting hangs off a root type of its own; a subscription has exactly one root response key in
            // every one of these families (`a`, `q`, or the spread fragments all selecting `a`)
            s = s.replace("type Query {", "type S {").replace("q: Query", "q: S");
            write!(s, "\ntype Query {{ z: Int }}\nschema {{ query: Query {variant}: S }}").unwrap();
            d = format!("{variant} {}", d.replace(" on Query", " on S"));
        }
        "named-with-variable" => {
            let body = op.trim_start().strip_prefix('{').unwrap_or(&op);
            d = format!("query Q($b: Boolean = true) {{ v: a @include(if: $b) {body}{rest}");
        }
        _ => { d = format!("query A {op}\nquery B {op}\n{rest}"); }
    }
    (s, d)
}

/// self-referential schemas: never valid, must be rejected (cycle or limit diagnostic), never crash
pub const CYCLE_FAMILIES: [&str; 4] = ["input-cycle", "input-cycle-mid", "directive-type-cycle", "directive-arg-cycle"];

pub fn cycle_sizes(thorough: bool) -> Vec<usize> {
    let mut v: Vec<usize> = vec![1, 2, 3, 16, 31, 32, 33, 34, 64, 100, 500, 3000];
    if thorough { v.extend(4..=70); v.extend([1000, 10000]); }
    v.sort(); v.dedup(); v
}

pub fn family(name: &str, n: usize) -> (String, String) {
    let mut s = String::new();
    let mut d = String::new();
    match name {
        "frag-flat" => {
            s.push_str("type Query { a: Int }");
            d.push_str("{ ...F1 }");
            for i in 1..n { write!(d, "\nfragment F{i} on Query {{ a ...F{} }}", i + 1).unwrap(); }
            write!(d, " fragment F{n} on Query {{ a }}").unwrap();
        }
        "frag-deep" => {
            // 99 fragments (below the chain limit of 100), each nesting its spread n levels deep:
            // the product of two individually bounded depths
            s.push_str("type Query { a: Int q: Query }");
            d.push_str("{ ...F1 }");
            for i in 1..99 { write!(d, "\nfragment F{i} on Query {{ {}...F{} {}}}", "q { ".repeat(n), i + 1, "} ".repeat(n)).unwrap(); }
            write!(d, "\nfragment F99 on Query {{ a }}").unwrap();
        }
        "frag-deep-inline" => {
            // the same product, nesting through inline fragments with and without type condition
            s.push_str("type Query { a: Int q: Query }");
            d.push_str("{ ...F1 }");
            for i in 1..99 { write!(d, "\nfragment F{i} on Query {{ {}...F{} {}}}", "... on Query { ... { ".repeat(n), i + 1, "} } ".repeat(n)).unwrap(); }
            write!(d, "\nfragment F99 on Query {{ a }}").unwrap();
        }
        "frag-nested" => {
            s.push_str("type Query { a: Int q: Query }");
            d.push_str("{ ...F1 }");
            for i in 1..n { write!(d, "\nfragment F{i} on Query {{ q {{ ...F{} }} }}", i + 1).unwrap(); }
            write!(d, " fragment F{n} on Query {{ a }}").unwrap();
        }
        "frag-inline" => {
            s.push_str("type Query { a: Int q: Query }");
            d.push_str("{ ...F1 }");
            for i in 1..n { write!(d, "\nfragment F{i} on Query {{ q {{ ... on Query {{ b: q {{ ...F{} }} }} }} }}", i + 1).unwrap(); }
            write!(d, " fragment F{n} on Query {{ a }}").unwrap();
        }
        "sel-depth" => {
            s.push_str("type Query { a: Int q: Query }");
            d.push_str(&"{ q\n".repeat(n)); d.push_str("{ a }"); d.push_str(&" }".repeat(n));
        }
        "inline-depth" => {
            s.push_str("type Query { a: Int q: Query }");
            d.push_str("{ "); d.push_str(&"... on Query { ".repeat(n)); d.push_str("a"); d.push_str(&" }".repeat(n)); d.push_str(" }");
        }
        "directive-chain" => {
            s.push_str("type Query { field: Int! @d(arg: true) } directive @d(arg: Boolean @a1) on FIELD_DEFINITION");
            for i in 1..n { write!(s, "\ndirective @a{i}(arg: Boolean @a{}) on ARGUMENT_DEFINITION", i + 1).unwrap(); }
            write!(s, " directive @a{n}(arg: Boolean) on ARGUMENT_DEFINITION").unwrap();
            d.push_str("{ field }");
        }
        "input-chain" => {
            s.push_str("type Query { field(arg: I0): Boolean } input I0 { nest: I1! }");
            for i in 1..n { write!(s, "\ninput I{i} {{ nest: I{}! }}", i + 1).unwrap(); }
            write!(s, " input I{n} {{ last: Boolean }}").unwrap();
            d.push_str("{ field }");
        }
        "input-chain-wide" => {
            // the chain of `input-chain`, every link also reachable through a list and a nullable field with a default
            s.push_str("type Query { field(arg: I0): Boolean }");
            for i in 0..n { write!(s, "\ninput I{i} {{ nest: I{}! side: [I{}!] = [] opt: I{} = null }}", i + 1, i + 1, i + 1).unwrap(); }
            write!(s, " input I{n} {{ last: Boolean }}").unwrap();
            d.push_str("{ field }");
        }
        "input-nullable-cycle" => {
            // a cycle of n input objects through nullable fields is valid; default values are checked against it
            s.push_str("type Query { field(arg: C0 = {next: {}}): Boolean }");
            for i in 0..n { write!(s, "\ninput C{i} {{ next: C{} = {{}} items: [C{}!]! = [{{}}] }}", (i + 1) % n, (i + 1) % n).unwrap(); }
            d.push_str("{ field(arg: {next: {next: null}}) }");
        }
        "directive-type-chain" => {
            // directive -> argument type -> field directive -> ... : both name stacks of the directive search grow
            s.push_str("type Query { field(x: T1): Int }");
            for i in 1..n { write!(s, "\ndirective @a{i}(arg: T{i}) on INPUT_FIELD_DEFINITION input T{i} {{ f: Int @a{} }}", i + 1).unwrap(); }
            write!(s, "\ndirective @a{n}(arg: T{n}) on INPUT_FIELD_DEFINITION input T{n} {{ f: Int }}").unwrap();
            d.push_str("{ field }");
        }
        "directive-enum-chain" => {
            s.push_str("type Query { field(x: E1): Int }");
            for i in 1..n { write!(s, "\ndirective @e{i}(arg: E{i}) on ENUM_VALUE enum E{i} {{ V @e{} W }}", i + 1).unwrap(); }
            write!(s, "\ndirective @e{n}(arg: E{n}) on ENUM_VALUE enum E{n} {{ V W }}").unwrap();
            d.push_str("{ field }");
        }
        "input-cycle" | "input-cycle-mid" => {
            // n input objects in a non-null chain that closes (at the start / in the middle)
            let back = if name == "input-cycle" { 0 } else { n / 2 };
            s.push_str("type Query { field(arg: I0): Boolean }");
            for i in 0..n { write!(s, "\ninput I{i} {{ pad: Int = 1 nest: I{}! }}", if i + 1 < n { i + 1 } else { back }).unwrap(); }
            d.push_str("{ field }");
        }
        "directive-type-cycle" => {
            s.push_str("type Query { field(x: T1): Int }");
            for i in 1..=n { write!(s, "\ndirective @a{i}(arg: T{i}) on INPUT_FIELD_DEFINITION input T{i} {{ f: Int @a{} }}", if i < n { i + 1 } else { 1 }).unwrap(); }
            d.push_str("{ field }");
        }
        "directive-arg-cycle" => {
            s.push_str("type Query { field: Int }");
            for i in 1..=n { write!(s, "\ndirective @a{i}(arg: Boolean @a{}) on ARGUMENT_DEFINITION", if i < n { i + 1 } else { 1 }).unwrap(); }
            d.push_str("{ field }");
        }
        "list-type" => {
            write!(s, "type Query {{ a(x: {}Int{}): {}Int{} }}", "[".repeat(n), "]".repeat(n), "[".repeat(n), "]".repeat(n)).unwrap();
            d.push_str("{ a }");
        }
        "object-value" => {
            s.push_str("type Query { f(x: I): Int } input I { a: I }");
            d.push_str("{ f(x: "); d.push_str(&"{a: ".repeat(n)); d.push_str("null"); d.push_str(&"}".repeat(n)); d.push_str(") }");
        }
        "list-value" => {
            write!(s, "type Query {{ f(x: {}Int{}): Int }}", "[".repeat(n), "]".repeat(n)).unwrap();
            d.push_str("{ f(x: "); d.push_str(&"[".repeat(n)); d.push('1'); d.push_str(&"]".repeat(n)); d.push_str(") }");
        }
        "merge-depth" => {
            s.push_str("type Query { a: Int q: Query }");
            let one = format!("{}a{}", "q {\n".repeat(n), " }".repeat(n));
            write!(d, "{{ {one} {one} }}").unwrap();
        }
        "default-value" => {
            // the same deep input-object literal as an argument default in the schema and a variable default in the document
            let v = format!("{}null{}", "{a: ".repeat(n), "}".repeat(n));
            write!(s, "type Query {{ f(x: I = {v}): Int }} input I {{ a: I }}").unwrap();
            write!(d, "query($v: I = {v}) {{ f(x: $v) }}").unwrap();
        }
        "var-deep" => {
            s.push_str("type Query { a(x: Int): Int q: Query }");
            d.push_str("query($v: Int) "); d.push_str(&"{ q\n".repeat(n)); d.push_str("{ a(x: $v) }"); d.push_str(&" }".repeat(n));
        }
        _ => unreachable!(),
    }
    (s, d)
}

pub fn sizes(thorough: bool) -> Vec<usize> {
    let mut v: Vec<usize> = vec![1, 2, 3, 15, 16, 17, 30, 31, 32, 33, 34, 49, 50, 51, 63, 64, 65, 98, 99, 100, 101, 102, 126, 127, 128, 129, 130, 249, 250, 251, 255, 256, 257, 498, 499, 500, 501, 502, 1000, 3000];
    if thorough { v.extend(4..=140); v.extend(480..=520); v.extend([2000, 5000, 10000, 20000]); }
    v.sort(); v.dedup(); v
}

// ---------------------------------------------------------------------------------------------
// random self-referential soup
// ---------------------------------------------------------------------------------------------

/// `wild` in 0..=8: the probability (in eighths) of each risky choice (undefined names, input types
/// in output position, cycles, mismatched values …). wild = 0 gives valid schemas and documents.
fn soup(rng: &mut Rng, wild: u32) -> (String, String) {
    let k = 2 + rng.below(4);
    let wrap = |rng: &mut Rng, base: String, nonnull_ok: bool| -> String {
        match rng.below(8) { 0 if nonnull_ok => format!("{base}!"), 1 => format!("[{base}]"), 2 if nonnull_ok => format!("[{base}!]!"), 3 => format!("[[{base}]]"), _ => base }
    };
    // a type for an output position / an input position
    let out_ty = |rng: &mut Rng| -> String {
        let base = if rng.chance(wild, 8) { match rng.below(3) { 0 => format!("I{}", rng.below(k)), 1 => "Undefined".into(), _ => "Query".into() } }
            else { match rng.below(7) { 0 => "Int".into(), 1 => "String".into(), 2 => format!("E{}", rng.below(2)), 3 => format!("T{}", rng.below(k)), 4 => format!("N{}", rng.below(k)), 5 => format!("U{}", rng.below(2)), _ => "Query".into() } };
        wrap(rng, base, true)
    };
    let in_ty = |rng: &mut Rng, nonnull_ok: bool| -> String {
        let base = if rng.chance(wild, 8) { match rng.below(3) { 0 => format!("T{}", rng.below(k)), 1 => "Undefined".into(), _ => format!("U{}", rng.below(2)) } }
            else { match rng.below(5) { 0 => "Int".into(), 1 => "String".into(), 2 => format!("E{}", rng.below(2)), 3 => "Boolean".into(), _ => format!("I{}", rng.below(k)) } };
        let nn = nonnull_ok || rng.chance(wild, 8);
        wrap(rng, base, nn)
    };
    // directive applications; `from`: only directives with a higher index are applied inside directive
    // definitions (no cycles) unless wild
    let dirs = |rng: &mut Rng, from: usize| -> String {
        let mut o = String::new();
        for _ in 0..rng.below(3) {
            let lo = if rng.chance(wild, 8) { 0 } else { from };
            if lo >= k { continue }
            let n = lo + rng.below(k - lo);
            if rng.chance(wild, 8) {
                match rng.below(4) { 0 => write!(o, " @d{n}").unwrap(), 1 => write!(o, " @d{n}(a: 1)").unwrap(), 2 => write!(o, " @d{n}(a: {{x: {{x: null}}}})").unwrap(), _ => write!(o, " @d{n}(a: E0V, b: 1)").unwrap() }
            } else if rng.chance(1, 2) { write!(o, " @d{n}").unwrap() } else { write!(o, " @d{n}(a: null)").unwrap() }
        }
        o
    };
    let mut s = String::new();
    let t_ty = if rng.chance(wild, 8) { out_ty(rng) } else { format!("T{}", rng.below(k)) };
    write!(s, "type Query{} {{ a(x: {}): {} q: Query t(x: I0): {t_ty} }}\n", dirs(rng, 0), in_ty(rng, false), out_ty(rng)).unwrap();
    for i in 0..k {
        // repeatable so that the same directive may be applied twice
        write!(s, "directive @d{i}(a: {}{}) repeatable on FIELD | FIELD_DEFINITION | ARGUMENT_DEFINITION | INPUT_FIELD_DEFINITION | ENUM_VALUE | OBJECT | INPUT_OBJECT | ENUM | FRAGMENT_SPREAD | INLINE_FRAGMENT | FRAGMENT_DEFINITION | QUERY | VARIABLE_DEFINITION | INTERFACE | UNION | SCALAR | SCHEMA\n", in_ty(rng, false), dirs(rng, i + 1)).unwrap();
        // input objects referenced from directive arguments must not apply directives themselves (cycle) unless wild
        let idirs = |rng: &mut Rng| if rng.chance(wild, 8) { dirs(rng, 0) } else { String::new() };
        let default = if rng.chance(wild, 8) { *rng.pick(&["1", "{x: null}", "[{x: {x: 1}}]", "E0V", "$v"]) } else { "null" };
        write!(s, "input I{i}{} {{ x: {}{} y: {} = {} }}\n", idirs(rng), in_ty(rng, false), idirs(rng), in_ty(rng, false), default).unwrap();
        // all interfaces and objects share the field `f(x: Int): Int` so that `implements` is satisfiable
        let imp = if rng.chance(1, 2) { format!(" implements N{}", rng.below(k)) } else { String::new() };
        let (fx, fr) = if rng.chance(wild, 8) { (in_ty(rng, true), out_ty(rng)) } else { ("Int".to_string(), "Int".to_string()) };
        write!(s, "type T{i}{imp}{} {{ f(x: {fx}{}): {fr}{} g: T{} h(y: {}): {} }}\n", dirs(rng, 0), dirs(rng, 0), dirs(rng, 0), rng.below(k), in_ty(rng, false), out_ty(rng)).unwrap();
        let imp = if rng.chance(wild, 8) { format!(" implements N{}", rng.below(k)) } else { String::new() };
        let (fx, fr) = if rng.chance(wild, 8) { (in_ty(rng, true), out_ty(rng)) } else { ("Int".to_string(), "Int".to_string()) };
        write!(s, "interface N{i}{imp}{} {{ f(x: {fx}): {fr} }}\n", dirs(rng, 0)).unwrap();
    }
    for i in 0..2 {
        write!(s, "enum E{i} {{ E{i}V{} W }}\n", if rng.chance(wild, 8) { dirs(rng, 0) } else { String::new() }).unwrap();
        let first = rng.below(k);
        let second = if rng.chance(wild, 8) { rng.pick(&["U0", "U1", "N0", "Int", "Undefined", "T0"]).to_string() } else { format!("T{}", (first + 1 + rng.below(k - 1)) % k) };
        write!(s, "union U{i}{} = T{first} | {second}\n", dirs(rng, 0)).unwrap();
    }
    if rng.chance(1, 4) { write!(s, "extend type T0{} {{ e: {} }}\n", dirs(rng, 0), out_ty(rng)).unwrap(); }
    if rng.chance(wild, 16) { write!(s, "schema{} {{ query: {} }}\n", dirs(rng, 0), rng.pick(&["Query", "T0", "I0", "Undefined"])).unwrap(); }
    // document: selections on type Query-like objects only use fields that exist unless wild
    fn sels(rng: &mut Rng, k: usize, wild: u32, depth: usize, o: &mut String, dirs: &dyn Fn(&mut Rng, usize) -> String) {
        o.push_str("{ ");
        for _ in 0..1 + rng.below(3) {
            match rng.below(if depth > 3 { 2 } else { 6 }) {
                0 => { write!(o, "__typename{} ", dirs(rng, 0)).unwrap(); }
                1 => { write!(o, "...F{}{} ", if rng.chance(wild, 8) { k } else { rng.below(k) }, dirs(rng, 0)).unwrap(); }
                2 => { write!(o, "q{} ", dirs(rng, 0)).unwrap(); sels(rng, k, wild, depth + 1, o, dirs); }
                3 => { write!(o, "... on {}{} ", if rng.chance(wild, 8) { *rng.pick(&["T0", "N0", "U0", "Int", "Undefined"]) } else { "Query" }, dirs(rng, 0)).unwrap(); sels(rng, k, wild, depth + 1, o, dirs); }
                4 => { write!(o, "...{} ", dirs(rng, 0)).unwrap(); sels(rng, k, wild, depth + 1, o, dirs); }
                _ => {
                    if rng.chance(wild, 8) { write!(o, "x: t(x: {}) ", rng.pick(&["$v", "1", "[$v]", "{x: $w}", "{zz: 1}"])).unwrap(); if rng.chance(1, 2) { sels(rng, k, wild, depth + 1, o, dirs); } }
                    else { write!(o, "q2: q {{ __typename al: __typename }} ").unwrap(); }
                }
            }
        }
        o.push_str("} ");
    }
    let mut d = String::new();
    let vars = if rng.chance(1, 2) { if rng.chance(wild, 8) { format!("($v: {} = {}{}, $w: I0)", in_ty(rng, true), rng.pick(&["1", "null", "$v", "{x: $w}"]), dirs(rng, 0)) } else { "($w: I0)".to_string() } } else { String::new() };
    let uses_w = vars.contains("$w");
    write!(d, "query{}{vars} ", if rng.chance(1, 2) { " Q" } else { "" }).unwrap();
    d.push_str("{ ");
    if uses_w { d.push_str("tw: t(x: $w) { __typename } "); }
    for i in 0..k { if !rng.chance(wild, 16) { write!(d, "...F{i} ").unwrap(); } }
    d.push_str("top: q "); sels(rng, k, wild, 0, &mut d, &dirs); d.push_str("} ");
    for i in 0..k {
        // fragments only spread higher-numbered fragments unless wild (no cycles)
        write!(d, "fragment F{i} on {}{} {{ __typename ", if rng.chance(wild, 8) { *rng.pick(&["T0", "N0", "U0", "Undefined", "Int"]) } else { "Query" }, dirs(rng, 0)).unwrap();
        if i + 1 < k && rng.chance(1, 2) { write!(d, "q {{ ...F{} }} ", i + 1 + rng.below(k - i - 1)).unwrap(); }
        if rng.chance(wild, 8) { write!(d, "... on Query {{ q {{ ...F{} }} }} ", rng.below(i + 1)).unwrap(); }
        d.push_str("} ");
    }
    if rng.chance(wild, 16) { d.push_str("{ a } "); }
    if rng.chance(wild, 16) { d.push_str("subscription { a q { a } } "); }
    // other root operation types, with their own operations: fragments at the subscription root (its walker looks
    // at the root level only), spread twice, cyclic or with several root fields when wild
    if rng.chance(1, 3) {
        write!(s, "type Mutation {{ m(x: I0): T0 q: Query }}\ntype Subscription {{ s(x: I0): T0 r: Int q: Query }}\n").unwrap();
        if rng.chance(wild, 8) { s.push_str("schema { query: Query mutation: Mutation subscription: Subscription }\n"); }
        write!(d, "mutation M{} {{ m(x: {{x: null}}) {{ __typename }} q {{ ...F0 }} }} ", dirs(rng, 0)).unwrap();
        let back = if rng.chance(wild, 4) { "...SF " } else { "" };
        let extra = if rng.chance(wild, 4) { *rng.pick(&["r ", "__typename ", "k: s { __typename } ", "s @skip(if: true) { __typename } ", "...Nope ", "... on Subscription { ...Nope } "]) } else { "" };
        write!(d, "subscription S {{ ...SF ...SF {extra}}} fragment SF on Subscription{} {{ s {{ __typename }} ... on Subscription {{ ...SF2 }} }} fragment SF2 on Subscription {{ s {{ __typename }} ... {{ {back}s {{ ...F0 }} }} }} ", dirs(rng, 0)).unwrap();
    }
    (s, d)
}

fn damage(rng: &mut Rng, text: &str) -> String {
    let mut chars: Vec<char> = text.chars().collect();
    for _ in 0..1 + rng.below(3) {
        if chars.is_empty() { break }
        let i = rng.below(chars.len());
        match rng.below(8) {
            0 => { chars.truncate(i); }
            1 => { chars.remove(i); }
            2 => { chars.insert(i, *rng.pick(&['{', '}', '(', ')', '[', ']', '"', '#', '@', '$', '!', ':', '=', '&', '|'])); }
            3 => { chars.insert(i, *rng.pick(&['é', '😀', '\u{feff}', '\u{2028}', '\r', '\n', '\t', '\u{0}', '\u{a0}'])); }
            4 => { let j = rng.below(chars.len()); chars.swap(i, j); }
            5 => { let piece: Vec<char> = "\"\"\"x\né\r\n\"\"\"".chars().collect(); for (o, c) in piece.into_iter().enumerate() { chars.insert(i + o, c); } }
            6 => {
                // a token the type grammar drops from the tree, followed by multi-byte text: every later
                // location is shifted and may end inside a character
                let spots: Vec<usize> = (0..chars.len()).filter(|&j| chars[j] == '[' || (chars[j] == ':' && j + 1 < chars.len())).collect();
                if !spots.is_empty() {
                    let at = *rng.pick(&spots) + 1;
                    let piece: Vec<char> = rng.pick(&[" \"é\" ", " \"\"\"x\né\r\n\"\"\" ", " 1.5 é", " \"😀\" "]).chars().collect();
                    for (o, c) in piece.into_iter().enumerate() { chars.insert(at + o, c); }
                }
            }
            _ => { chars[i] = '\r'; }
        }
    }
    chars.into_iter().collect()
}

// ---------------------------------------------------------------------------------------------
// child side
// ---------------------------------------------------------------------------------------------

fn run_instance(id: &str, schema: String, doc: String) {
    println!("BEGIN\t{id}");
    let handle = std::thread::Builder::new().stack_size(STACK).spawn(move || {
        let mut obs = Obs { lines: vec![] };
        let r = catch(|| exercise(&schema, &doc, &mut obs));
        (obs.lines, r.err())
    }).unwrap();
    match handle.join() {
        Ok((lines, panic)) => {
            for l in lines { println!("{l}"); }
            if let Some(p) = panic { println!("PANIC\t{}", p.replace(['\t', '\n'], " ")); }
        }
        Err(_) => println!("PANIC\tthread"),
    }
    println!("END\t{id}");
}

pub fn soup_instance(seed: u64, idx: u64) -> (String, String) {
    let mut rng = Rng(seed ^ idx.wrapping_mul(0x9E37_79B9_7F4A_7C15) ^ 0x21);
    let wild = *rng.pick(&[0u32, 0, 1, 1, 2, 4]);
    let (mut s, mut d) = soup(&mut rng, wild);
    match rng.below(6) { 0 => s = damage(&mut rng, &s), 1 => d = damage(&mut rng, &d), _ => {} }
    (s, d)
}

/// `VH_C21_CHILD=family:<name>:<n>` or `soup:<seed>:<from>:<to>`
pub fn child_main(spec: &str) {
    let parts: Vec<&str> = spec.split(':').collect();
    match parts[0] {
        "family" => {
            let n: usize = parts[2].parse().unwrap();
            let (s, d) = family(parts[1], n);
            run_instance(&format!("{}:{n}", parts[1]), s, d);
        }
        "variant" => {
            let n: usize = parts[3].parse().unwrap();
            let (s, d) = family_variant(parts[1], n, parts[2]);
            run_instance(&format!("{}:{}:{n}", parts[1], parts[2]), s, d);
        }
        "soup" => {
            let seed: u64 = parts[1].parse().unwrap();
            let (from, to): (u64, u64) = (parts[2].parse().unwrap(), parts[3].parse().unwrap());
            for idx in from..to {
                let (s, d) = soup_instance(seed, idx);
                run_instance(&format!("soup:{idx}"), s, d);
            }
        }
        "show" => {
            // developer aid: print every diagnostic of a family instance
            let (s, d) = family(parts[1], parts[2].parse().unwrap());
            let schema = Schema::parse_and_validate(&s, "schema.graphql").unwrap();
            match ExecutableDocument::parse_and_validate(&schema, &d, "doc.graphql") {
                Ok(_) => println!("valid"),
                Err(e) => for diag in e.errors.iter() { println!("{}", diag.error); }
            }
        }
        "dump" => {
            let (s, d) = soup_instance(parts[1].parse().unwrap(), parts[2].parse().unwrap());
            std::fs::write("/tmp/soup-schema.graphql", s).unwrap();
            std::fs::write("/tmp/soup-doc.graphql", d).unwrap();
        }
        _ => {}
    }
    println!("DONE");
}

// ---------------------------------------------------------------------------------------------
// parent side
// ---------------------------------------------------------------------------------------------

struct ChildResult { stdout: String, status: String, ok: bool }

fn spawn_child(spec: &str) -> std::process::Child {
    std::process::Command::new(std::env::current_exe().unwrap())
        .arg("C21").env("VH_C21_CHILD", spec)
        .stdout(std::process::Stdio::piped()).stderr(std::process::Stdio::null())
        .spawn().expect("spawn child")
}

fn wait_child(c: std::process::Child) -> ChildResult {
    let out = c.wait_with_output().expect("child");
    let stdout = String::from_utf8_lossy(&out.stdout).to_string();
    let ok = out.status.success() && stdout.trim_end().ends_with("DONE");
    ChildResult { stdout, status: format!("{:?}", out.status), ok }
}

/// Runs the specs on 16 children at a time (work queue); results in spec order.
fn run_children(specs: &[String]) -> Vec<ChildResult> {
    let next = std::sync::atomic::AtomicUsize::new(0);
    let slots: Vec<std::sync::Mutex<Option<ChildResult>>> = specs.iter().map(|_| std::sync::Mutex::new(None)).collect();
    std::thread::scope(|sc| {
        for _ in 0..16 {
            sc.spawn(|| loop {
                let i = next.fetch_add(1, std::sync::atomic::Ordering::SeqCst);
                if i >= specs.len() { break }
                *slots[i].lock().unwrap() = Some(wait_child(spawn_child(&specs[i])));
            });
        }
    });
    slots.into_iter().map(|m| m.into_inner().unwrap().unwrap()).collect()
}

fn digest(ctx: &mut Ctx, spec: &str, r: &ChildResult, describe: &dyn Fn(&str) -> String, valid_family: bool) { digest_x(ctx, spec, r, describe, valid_family, false) }

fn digest_x(ctx: &mut Ctx, spec: &str, r: &ChildResult, describe: &dyn Fn(&str) -> String, valid_family: bool, must_reject: bool) {
    let mut cur = String::new();
    let mut open = false;
    // per instance: (diagnostics, limit diagnostics, first stage with diagnostics, first other message)
    let mut agg: (u64, u64, String, String) = (0, 0, String::new(), String::new());
    for line in r.stdout.lines() {
        let f: Vec<&str> = line.split('\t').collect();
        match f[0] {
            "BEGIN" => { cur = f[1].to_string(); open = true; ctx.stat("instances"); agg = (0, 0, String::new(), String::new()); }
            "END" => {
                open = false;
                // an otherwise valid input may only be rejected because of a limit, and then says so
                if valid_family && agg.0 > 0 && agg.1 == 0 {
                    ctx.fail(&format!("depth-without-limit-diagnostic:{}", cur.split(':').next().unwrap_or("")), &describe(&cur), &format!("stage {}: diagnostics on an otherwise valid input, none of them (in any stage) a recursion-limit diagnostic; first: {}", agg.2, agg.3));
                }
                if valid_family { ctx.stat(if agg.0 == 0 { "family_instances_valid" } else { "family_instances_limit_diagnostic" }); }
                // a self-referential schema is rejected: by the cycle diagnostic, or by the limit diagnostic when it is long
                if must_reject {
                    if agg.0 == 0 { ctx.fail(&format!("cycle-accepted:{}", cur.split(':').next().unwrap_or("")), &describe(&cur), "a self-referential schema produced no diagnostic in any stage"); }
                    ctx.stat(if agg.1 > 0 { "cycle_instances_limit_diagnostic" } else { "cycle_instances_cycle_diagnostic" });
                }
            }
            "PANIC" => { ctx.fail(&format!("panic:{}", cur.split(':').next().unwrap_or("")), &describe(&cur), f.get(1).unwrap_or(&"")); }
            "D" if f.len() >= 6 => {
                let (stage, n, sorted, limit) = (f[1], f[2].parse::<u64>().unwrap_or(0), f[3] == "1", f[4].parse::<u64>().unwrap_or(0));
                ctx.stat(&format!("stage:{stage}:{}", if n == 0 { "ok" } else if limit > 0 { "limit-diagnostic" } else { "other-diagnostics" }));
                ctx.stat_n("diagnostics_rendered", n);
                if !sorted { ctx.fail("diagnostics-not-sorted", &describe(&cur), &format!("stage {stage}: {n} diagnostics out of source order")); }
                if n > 0 && agg.0 == 0 { agg.2 = stage.to_string(); agg.3 = f.get(6).unwrap_or(&"").to_string(); }
                agg.0 += n; agg.1 += limit;
            }
            _ => {}
        }
    }
    if !r.ok {
        let which = if open { cur.clone() } else { spec.to_string() };
        ctx.fail(&format!("crash:{}", which.split(':').next().unwrap_or("")), &describe(&which), &format!("child process died ({}) while handling this input on a {} KiB thread stack", r.status, STACK / 1024));
    }
}

// ---------------------------------------------------------------------------------------------
// model streams
// ---------------------------------------------------------------------------------------------

fn guard_stream(ctx: &mut Ctx) {
    // every balanced-or-not paren string up to a length, small limits
    let mut shapes = vec![];
    for_all_strings(&["(", ")"], if ctx.thorough { 12 } else { 10 }, |s| {
        // keep well-formed prefixes: never close more than opened
        let mut d = 0i32; let mut okay = true;
        for c in s.chars() { if c == '(' { d += 1 } else { d -= 1; if d < 0 { okay = false; break } } }
        if okay && d == 0 { shapes.push(s.to_string()); }
    });
    for s in &shapes {
        for limit in 0..6usize {
            // DepthCounter::new() always starts at 0
            for start in [0usize] {
                let (v, h, e) = apollo_compiler::verif_hooks::depth_walk(limit, start, s.as_bytes());
                ctx.case("guard", &[limit.to_string(), start.to_string(), s.clone()], &format!("{v},{h},{e}"));
            }
        }
        ctx.nontrivial(s);
    }
    let n = if ctx.thorough { 40_000 } else { 5_000 };
    for _ in 0..n {
        let mut s = String::new();
        let mut depth = 0;
        for _ in 0..ctx.rng.below(400) {
            if depth > 0 && ctx.rng.chance(9, 20) { s.push(')'); depth -= 1 } else { s.push('('); depth += 1 }
        }
        for _ in 0..depth { s.push(')'); }
        let limit = *ctx.rng.pick(&[0usize, 1, 2, 3, 5, 8, 13, 32, 100, 128, 500]);
        let (v, h, e) = apollo_compiler::verif_hooks::depth_walk(limit, 0, s.as_bytes());
        ctx.case("guard", &[limit.to_string(), "0".into(), s], &format!("{v},{h},{e}"));
    }
}

fn sort_stream(ctx: &mut Ctx) {
    let n = if ctx.thorough { 200_000 } else { 30_000 };
    for _ in 0..n {
        let len = ctx.rng.below(14);
        let keys: Vec<Option<(u64, u32)>> = (0..len).map(|_| if ctx.rng.chance(1, 5) { None } else { Some((1 + ctx.rng.below(3) as u64, ctx.rng.below(6) as u32)) }).collect();
        let order = apollo_compiler::verif_hooks::sort_diagnostics(&keys);
        let enc_keys: Vec<String> = keys.iter().map(|k| match k { None => "-".to_string(), Some((f, o)) => format!("{f}.{o}") }).collect();
        let out: Vec<String> = order.iter().map(|i| i.to_string()).collect();
        ctx.case("sort", &[enc_keys.join(";")], &out.join(","));
        if len > 3 { ctx.nontrivial(&enc_keys.join(";")); }
    }
}

/// selection list text for the model and the GraphQL text
#[derive(Clone)]
enum S { Spread(usize), Nested(Vec<S>, u8) }

fn gen_sels(rng: &mut Rng, k: usize, depth: usize) -> Vec<S> {
    let n = if depth == 0 { 1 + rng.below(3) } else { rng.below(3) };
    (0..n).map(|_| if depth < 3 && rng.chance(1, 3) { S::Nested(gen_sels(rng, k, depth + 1), rng.below(3) as u8) } else { S::Spread(rng.below(k + 1)) }).collect()
}
// every selection set starts with the leaf field `x` (see `sels_text`): a nested, empty selection set
fn sels_model(v: &[S], o: &mut String) { o.push_str("()"); for s in v { match s { S::Spread(n) => { write!(o, "{n}.").unwrap() } S::Nested(i, _) => { o.push('('); sels_model(i, o); o.push(')') } } } }
fn sels_text(v: &[S], o: &mut String) {
    o.push_str("{ x ");
    for s in v { match s {
        S::Spread(n) => { write!(o, "...F{n} ").unwrap() }
        S::Nested(i, kind) => { o.push_str(match kind { 0 => "f ", 1 => "... on T ", _ => "... " }); sels_text(i, o); }
    } }
    o.push_str("} ");
}

fn fragcycle_case(ctx: &mut Ctx, frags: &[Vec<S>]) {
    let k = frags.len();
    let mut text = String::from("{ ");
    for i in 0..k { write!(text, "...F{i} ").unwrap(); }
    text.push_str("} ");
    let mut offsets = vec![];
    let mut model = String::new();
    for (i, body) in frags.iter().enumerate() {
        offsets.push(text.len());
        write!(text, "fragment F{i} on T ").unwrap();
        sels_text(body, &mut text);
        write!(model, "{i}:").unwrap(); sels_model(body, &mut model); model.push(';');
    }
    let doc = match ast::Document::parse(text.as_str(), "f.graphql") { Ok(d) => d, Err(_) => { ctx.fail("fragcycle-generator-parse-error", &text, ""); return } };
    let mut out = vec!['o'; k];
    if let Err(errors) = doc.validate_standalone_executable() {
        for d in errors.iter() {
            let name = d.error.unstable_error_name();
            let msg = d.error.to_string();
            let which = d.error.location().and_then(|l| offsets.iter().position(|o| *o == l.offset()));
            if let Some(i) = which {
                if msg.contains("cannot reference itself") || name == Some("RecursiveFragmentDefinition") { out[i] = 'r' }
                else if msg.contains("too much nesting") { out[i] = 'l' }
            }
        }
    }
    ctx.case("fragcycle", &["100".to_string(), "500".to_string(), model.clone()], &out.iter().collect::<String>());
    if out.contains(&'r') { ctx.stat("fragcycle_with_cycle"); }
    if out.contains(&'l') { ctx.stat("fragcycle_with_limit"); }
    // oracle independent of the model: a fragment is reported recursive iff it can reach itself
    let mut adj = vec![vec![]; k];
    fn collect(v: &[S], k: usize, o: &mut Vec<usize>) { for s in v { match s { S::Spread(n) => if *n < k { o.push(*n) }, S::Nested(i, _) => collect(i, k, o) } } }
    for (i, b) in frags.iter().enumerate() { collect(b, k, &mut adj[i]); }
    for i in 0..k {
        let mut seen = vec![false; k]; let mut stack = adj[i].clone(); let mut cyc = false;
        while let Some(x) = stack.pop() { if x == i { cyc = true; break } if !seen[x] { seen[x] = true; stack.extend(adj[x].iter().copied()); } }
        // a limit diagnostic replaces the verdict ("ran into the limit before a cycle could be
        // detected"), but only an input that really is deep may get one: the call depth is at most
        // the sum over fragments of (nesting depth + 1), the name stack at most the fragment count
        if out[i] == 'l' {
            fn nest(v: &[S]) -> usize { v.iter().map(|s| match s { S::Spread(_) => 0, S::Nested(i, _) => 1 + nest(i) }).max().unwrap_or(0) }
            let bound: usize = frags.iter().map(|b| nest(b) + 2).sum();
            if k <= 100 && bound <= 500 { ctx.fail("limit-reported-on-shallow-input", &text, &format!("fragment F{i}: 'too much nesting' although the call depth is at most {bound} and there are {k} fragments")); }
            continue;
        }
        if k <= 50 && (out[i] == 'r') != cyc { ctx.fail("fragment-cycle-misreported", &text, &format!("fragment F{i}: reported {:?}, reaches itself: {cyc}", out[i])); }
    }
}

fn fragcycle_stream(ctx: &mut Ctx) {
    let n = if ctx.thorough { 60_000 } else { 8_000 };
    for _ in 0..n {
        let k = 1 + ctx.rng.below(6);
        let frags: Vec<Vec<S>> = (0..k).map(|_| gen_sels(&mut ctx.rng, k, 0)).collect();
        ctx.nontrivial(&format!("{}", { let mut m = String::new(); for f in &frags { sels_model(f, &mut m); m.push(';') } m }));
        fragcycle_case(ctx, &frags);
    }
    // chains around the stack limit of 100, optionally closing into a cycle
    let lens: Vec<usize> = if ctx.thorough { (90..=112).collect() } else { vec![98, 99, 100, 101, 102, 103] };
    for len in lens {
        for close in [None, Some(0usize), Some(len / 2)] {
            for nested in [false, true] {
                let frags: Vec<Vec<S>> = (0..len).map(|i| {
                    let next = if i + 1 < len { Some(i + 1) } else { close };
                    let sp: Vec<S> = next.into_iter().map(S::Spread).collect();
                    if nested { vec![S::Nested(sp, (i % 3) as u8)] } else { sp }
                }).collect();
                fragcycle_case(ctx, &frags);
            }
        }
    }
}

/// chains of `len` fragments, each nesting its spread `k` levels deep in fields / inline fragments:
/// the call depth of the cycle detector is the product, around its limit of 500
fn fragcycle_depth_stream(ctx: &mut Ctx) {
    let lens: Vec<usize> = if ctx.thorough { vec![3, 4, 5, 6, 8, 11, 17, 26, 34, 51, 73, 99] } else { vec![3, 6, 11, 26, 51, 99] };
    for len in lens {
        let per = 500 / len;
        let ks: Vec<usize> = if ctx.thorough { (per.saturating_sub(3)..=per + 2).collect() } else { vec![per.saturating_sub(2), per - 1, per, per + 1] };
        for k in ks {
            for close in [None, Some(0usize)] {
                let frags: Vec<Vec<S>> = (0..len).map(|i| {
                    let next = if i + 1 < len { Some(i + 1) } else { close };
                    let mut body: Vec<S> = next.into_iter().map(S::Spread).collect();
                    for level in 0..k { body = vec![S::Nested(body, ((i + level) % 3) as u8)]; }
                    body
                }).collect();
                ctx.stat("fragcycle_depth_chains");
                fragcycle_case(ctx, &frags);
            }
        }
    }
}

// ---------------------------------------------------------------------------------------------
// the schema-side cycle detectors (input objects, directive definitions): answer per definition —
// `o`k, `r`ecursive, `l`imit — against the instrumented models (which also check their ghosts)
// ---------------------------------------------------------------------------------------------

const SEARCH_LIMIT: usize = 32;

/// per definition (found by the offset its diagnostics point at): 'o' / 'r' / 'l'
fn search_outcomes(text: &str, offsets: &[usize]) -> Result<String, String> {
    let t = text.to_string();
    let r = catch(move || {
        let errs: Vec<(Option<usize>, String)> = match Schema::parse_and_validate(&t, "s.graphql") {
            Ok(_) => vec![],
            Err(e) => e.errors.iter().map(|d| (d.error.location().map(|l| l.offset()), d.error.to_string())).collect(),
        };
        errs
    });
    let errs = r?;
    let mut out = vec!['o'; offsets.len()];
    for (off, msg) in errs {
        if let Some(i) = off.and_then(|o| offsets.iter().position(|x| *x == o)) {
            if msg.contains("too much nesting") { out[i] = if out[i] == 'r' { 'X' } else { 'l' } }
            else if msg.contains("cannot reference itself") { out[i] = if out[i] == 'l' { 'X' } else { 'r' } }
        }
    }
    Ok(out.iter().collect())
}

/// field kinds: (non-null named?, target); other kinds: nullable named / list
fn inputguard_case(ctx: &mut Ctx, g: &[Vec<(u8, usize)>]) {
    let n = g.len();
    let mut text = String::from("type Query { a: Int }\n");
    let mut offsets = vec![];
    let mut encs = vec![];
    for (i, fs) in g.iter().enumerate() {
        offsets.push(text.len());
        let mut parts = vec![];
        let mut e = vec![];
        for (k, (kind, j)) in fs.iter().enumerate() {
            let tn = if *j < n { format!("In{j}") } else { "Int".to_string() };
            let (t, c) = match kind { 0 => (format!("{tn}!"), format!("N{j}")), 1 => (tn.clone(), format!("n{j}")), 2 => (format!("[{tn}!]!"), format!("L{j}")), _ => (format!("{tn} = null"), format!("n{j}d")) };
            parts.push(format!("f{k}: {t}"));
            e.push(c);
        }
        text.push_str(&format!("input In{i} {{ {} pad: Int }}\n", parts.join(" ")));
        encs.push(e.join(","));
    }
    let out = match search_outcomes(&text, &offsets) { Ok(o) => o, Err(p) => { ctx.fail("panic:inputguard", &text, &p); "PANIC".into() } };
    if out.contains('r') { ctx.stat("inputguard_with_cycle"); }
    if out.contains('l') { ctx.stat("inputguard_with_limit"); }
    if out.contains('r') || out.contains('l') { ctx.nontrivial(&format!("ig|{}", encs.join("|"))); }
    ctx.case("inputguard", &[SEARCH_LIMIT.to_string(), format!("G{}", encs.join("|"))], &out);
}

#[derive(Clone, Debug, Default)]
struct GA { dirs: Vec<usize>, ty: Option<usize> }
#[derive(Clone, Debug, Default)]
struct GT { kind: u8, dirs: Vec<usize>, values: Vec<Vec<usize>>, fields: Vec<GA> }

fn dirguard_case(ctx: &mut Ctx, dirs: &[Vec<GA>], types: &[GT]) {
    let app = |v: &[usize]| v.iter().map(|d| format!(" @d{d}")).collect::<String>();
    let nums = |v: &[usize]| v.iter().map(|x| x.to_string()).collect::<Vec<_>>().join(",");
    let arg = |k: usize, a: &GA| format!("a{k}: {}{}", a.ty.map(|t| format!("T{t}")).unwrap_or("Int".into()), app(&a.dirs));
    let enc_arg = |a: &GA| format!("{}:{}", nums(&a.dirs), a.ty.map(|t| t.to_string()).unwrap_or("-".into()));
    let mut text = String::from("type Query { a: Int }\n");
    let mut offsets = vec![];
    let mut denc = vec![];
    for (i, args) in dirs.iter().enumerate() {
        offsets.push(text.len());
        let a = if args.is_empty() { String::new() } else { format!("({})", args.iter().enumerate().map(|(k, a)| arg(k, a)).collect::<Vec<_>>().join(", ")) };
        text.push_str(&format!("directive @d{i}{a} repeatable on ARGUMENT_DEFINITION | SCALAR | ENUM | ENUM_VALUE | INPUT_OBJECT | INPUT_FIELD_DEFINITION\n"));
        denc.push(args.iter().map(|a| enc_arg(a)).collect::<Vec<_>>().join(";"));
    }
    let mut tenc = vec![];
    for (k, t) in types.iter().enumerate() {
        match t.kind {
            0 => text.push_str(&format!("scalar T{k}{}\n", app(&t.dirs))),
            1 => text.push_str(&format!("enum T{k}{} {{ {} VZ }}\n", app(&t.dirs), t.values.iter().enumerate().map(|(j, v)| format!("V{j}{}", app(v))).collect::<Vec<_>>().join(" "))),
            _ => text.push_str(&format!("input T{k}{} {{ {} pad: Int }}\n", app(&t.dirs), t.fields.iter().enumerate().map(|(j, a)| arg(j, a)).collect::<Vec<_>>().join(" "))),
        }
        tenc.push(format!("{}/{}/{}/{}", ["s", "e", "i"][t.kind as usize], nums(&t.dirs),
            if t.kind == 1 { t.values.iter().map(|v| nums(v)).collect::<Vec<_>>().join(";") } else { String::new() },
            if t.kind == 2 { t.fields.iter().map(|a| enc_arg(a)).collect::<Vec<_>>().join(";") } else { String::new() }));
    }
    let out = match search_outcomes(&text, &offsets) { Ok(o) => o, Err(p) => { ctx.fail("panic:dirguard", &text, &p); "PANIC".into() } };
    if out.contains('r') { ctx.stat("dirguard_with_cycle"); }
    if out.contains('l') { ctx.stat("dirguard_with_limit"); }
    if out.contains('r') || out.contains('l') { ctx.nontrivial(&format!("dg|{}|{}", denc.join("|"), tenc.join("|"))); }
    ctx.case("dirguard", &[SEARCH_LIMIT.to_string(), format!("G{}", denc.join("|")), format!("G{}", tenc.join("|"))], &out);
}

fn searchguard_stream(ctx: &mut Ctx) {
    // input objects: random small graphs
    let n_rand = if ctx.thorough { 20_000 } else { 1_500 };
    for _ in 0..n_rand {
        let k = 1 + ctx.rng.below(5);
        let g: Vec<Vec<(u8, usize)>> = (0..k).map(|_| { let nf = ctx.rng.below(4); (0..nf).map(|_| ((*ctx.rng.pick(&[0u8, 0, 0, 1, 2, 3])), ctx.rng.below(k + 1))).collect() }).collect();
        inputguard_case(ctx, &g);
    }
    // chains around the limit of 32 names: open, closed at the start / middle / end, with a side branch
    let lens: Vec<usize> = if ctx.thorough { (28..=40).collect() } else { vec![30, 31, 32, 33, 34, 35] };
    for k in lens.iter().copied() {
        for close in 0..5 {
            let mut g: Vec<Vec<(u8, usize)>> = (0..k).map(|i| if i + 1 < k { vec![(0u8, i + 1)] } else { vec![] }).collect();
            match close { 0 => {} 1 => g[k - 1].push((0, 0)), 2 => g[k - 1].push((0, k / 2)), 3 => g[k - 1].push((0, k - 1)), _ => { g[0].insert(0, (1, k - 1)); g[k / 2].push((2, 0)); g[k - 1].push((0, 0)); } }
            inputguard_case(ctx, &g);
        }
    }
    // directive definitions: random small schemas
    for _ in 0..n_rand {
        let nd = 1 + ctx.rng.below(5);
        let nt = ctx.rng.below(5);
        let some_dirs = |r: &mut Rng, p: u32| -> Vec<usize> { let mut v = vec![]; while r.chance(1, p) && v.len() < 2 { v.push(r.below(nd)); } v };
        let gen_arg = |r: &mut Rng| GA { dirs: some_dirs(r, 3), ty: if nt > 0 && r.chance(1, 2) { Some(r.below(nt)) } else { None } };
        let dirs: Vec<Vec<GA>> = (0..nd).map(|_| { let na = ctx.rng.below(3); (0..na).map(|_| gen_arg(&mut ctx.rng)).collect() }).collect();
        let types: Vec<GT> = (0..nt).map(|_| {
            let kind = ctx.rng.below(3) as u8;
            let mut t = GT { kind, dirs: some_dirs(&mut ctx.rng, 4), values: vec![], fields: vec![] };
            if kind == 1 { let nv = ctx.rng.below(3); t.values = (0..nv).map(|_| some_dirs(&mut ctx.rng, 3)).collect(); }
            if kind == 2 { let nf = ctx.rng.below(3); t.fields = (0..nf).map(|_| gen_arg(&mut ctx.rng)).collect(); }
            t
        }).collect();
        dirguard_case(ctx, &dirs, &types);
    }
    for k in lens.iter().copied() {
        for close in 0..3 {
            // (a) through argument directives only
            let mut dirs: Vec<Vec<GA>> = (0..k).map(|i| if i + 1 < k { vec![GA { dirs: vec![i + 1], ty: None }] } else { vec![] }).collect();
            match close { 0 => {} 1 => dirs[k - 1].push(GA { dirs: vec![0], ty: None }), _ => dirs[k - 1].push(GA { dirs: vec![k / 2], ty: None }) }
            dirguard_case(ctx, &dirs, &[]);
            // (b) through argument types: @d_i(a: T_i), input T_i { f: Int @d_{i+1} } — both stacks grow
            let dirs: Vec<Vec<GA>> = (0..k).map(|i| vec![GA { dirs: vec![], ty: Some(i) }]).collect();
            let types: Vec<GT> = (0..k).map(|i| {
                let next = if i + 1 < k { Some(i + 1) } else { match close { 0 => None, 1 => Some(0), _ => Some(k / 2) } };
                GT { kind: 2, dirs: vec![], values: vec![], fields: vec![GA { dirs: next.into_iter().collect(), ty: None }] }
            }).collect();
            dirguard_case(ctx, &dirs, &types);
            // (c) through enum values, the type chain alone growing: @d0(a: T0), input T_i { f: T_{i+1} }, enum at the end
            let dirs2: Vec<Vec<GA>> = vec![vec![GA { dirs: vec![], ty: Some(0) }]];
            let types2: Vec<GT> = (0..k).map(|i| if i + 1 < k { GT { kind: 2, dirs: vec![], values: vec![], fields: vec![GA { dirs: vec![], ty: Some(i + 1) }] } }
                else { GT { kind: 1, dirs: vec![], values: vec![if close == 0 { vec![] } else { vec![0] }], fields: vec![] } }).collect();
            dirguard_case(ctx, &dirs2, &types2);
        }
    }
}

pub fn run(ctx: &mut Ctx) {
    guard_stream(ctx);
    sort_stream(ctx);
    fragcycle_stream(ctx);
    fragcycle_depth_stream(ctx);
    searchguard_stream(ctx);
    // adversarial families, one child process per instance
    let mut specs = vec![];
    for f in FAMILIES { for n in sizes(ctx.thorough) { specs.push(format!("family:{f}:{n}")); } }
    let results = run_children(&specs);
    for (spec, r) in specs.iter().zip(results.iter()) {
        let describe = |id: &str| -> String {
            let p: Vec<&str> = id.split(':').collect();
            let (name, n) = if p[0] == "family" { (p[1], p[2]) } else { (p[0], p.get(1).copied().unwrap_or("0")) };
            let (s, d) = family(name, n.parse().unwrap_or(1));
            let clip = |t: &str| if t.len() > 400 { format!("{}…[{} bytes]", &t[..t.char_indices().nth(300).map(|x| x.0).unwrap_or(0)], t.len()) } else { t.to_string() };
            format!("family {name} size {n}; schema: {} ; document: {}", clip(&s), clip(&d))
        };
        digest(ctx, spec, r, &describe, true);
    }
    // the same nestings under other kinds of operation
    let mut specs = vec![];
    for f in VARIANT_FAMILIES { for v in VARIANTS {
        // in the two product families n is the nesting inside each of 98 fragments: the walkers' limits (100 names,
        // 500 calls) are crossed at small n, and the texts grow 98-fold
        let sizes = if f.starts_with("frag-deep") { if ctx.thorough { vec![1, 2, 3, 4, 5, 6, 7, 10, 25, 49, 50, 51, 100, 250, 499, 500, 501] } else { vec![2, 3, 5, 6, 50, 100] } } else { variant_sizes(ctx.thorough) };
        for n in sizes { specs.push(format!("variant:{f}:{v}:{n}")); }
    } }
    let results = run_children(&specs);
    for (spec, r) in specs.iter().zip(results.iter()) {
        let describe = |id: &str| -> String {
            let p: Vec<&str> = id.split(':').collect();
            let (name, variant, n) = if p[0] == "variant" { (p[1], p[2], p[3]) } else { (p[0], p.get(1).copied().unwrap_or(""), p.get(2).copied().unwrap_or("0")) };
            let (s, d) = family_variant(name, n.parse().unwrap_or(1), variant);
            let clip = |t: &str| if t.len() > 400 { format!("{}…[{} bytes]", &t[..t.char_indices().nth(300).map(|x| x.0).unwrap_or(0)], t.len()) } else { t.to_string() };
            format!("family {name} as {variant}, size {n}; schema: {} ; document: {}", clip(&s), clip(&d))
        };
        ctx.stat("family:operation_kind_variants");
        digest(ctx, spec, r, &describe, true);
    }
    // self-referential schemas
    let mut specs = vec![];
    for f in CYCLE_FAMILIES { for n in cycle_sizes(ctx.thorough) { specs.push(format!("family:{f}:{n}")); } }
    let results = run_children(&specs);
    for (spec, r) in specs.iter().zip(results.iter()) {
        let describe = |id: &str| -> String {
            let p: Vec<&str> = id.split(':').collect();
            let (name, n) = if p[0] == "family" { (p[1], p[2]) } else { (p[0], p.get(1).copied().unwrap_or("0")) };
            let (s, _) = family(name, n.parse().unwrap_or(1));
            let clip = |t: &str| if t.len() > 400 { format!("{}…[{} bytes]", &t[..t.char_indices().nth(300).map(|x| x.0).unwrap_or(0)], t.len()) } else { t.to_string() };
            format!("cycle family {name} size {n}; schema: {}", clip(&s))
        };
        digest_x(ctx, spec, r, &describe, false, true);
    }
    // random soups
    let total: u64 = if ctx.thorough { 64_000 } else { 6_400 };
    let per = total / 32;
    let seed = ctx.seed;
    let specs: Vec<String> = (0..32).map(|c| format!("soup:{seed}:{}:{}", c * per, (c + 1) * per)).collect();
    let results = run_children(&specs);
    for (spec, r) in specs.iter().zip(results.iter()) {
        let describe = |id: &str| -> String {
            let idx: u64 = id.split(':').nth(1).and_then(|x| x.parse().ok()).unwrap_or(0);
            let (s, d) = soup_instance(seed, idx);
            format!("soup seed {seed} index {idx}; schema: {s} ; document: {d}")
        };
        digest(ctx, spec, r, &describe, false);
    }
}
