//! C04 — token and recursion limits are enforced exactly.
use crate::gen::{mutate, G};
use crate::pp::*;
use crate::util::*;

fn limits_for(ctx: &mut Ctx, src: &str) {
    let Ok(unl) = run_parser("doc", None, 1_000_000, src) else { ctx.fail("parse-document-panic", src, "unlimited run panicked"); return };
    let n_items = crate::p03::lex_items(src, None).map(|v| v.len()).unwrap_or(0);
    let depth = unl.depth;
    if depth != unl.rec_high { ctx.fail("rec-high-vs-tree-depth", src, &format!("recursion high {} vs nesting depth of the tree {}", unl.rec_high, depth)); }
    // token limits: every n from 0 to |items|+1
    for n in 0..=n_items + 1 {
        let r = case(ctx, "doc", Some(n), 500, src);
        let Ok(p) = r else { ctx.fail("parse-document-panic", &format!("tl={n} {src}"), "panic"); continue };
        let has_limit = p.errors.iter().any(|e| e.0 == 'L');
        if has_limit != (n_items > n) { ctx.fail("token-limit-iff", &format!("tl={n} {src}"), &format!("limit error={has_limit}, unlimited stream has {n_items} items")); }
        if !src.starts_with(&p.text) {
            ctx.fail(if p.loss == Loss::TypePositionDropOnly { "cst-drops-token-in-type-position" } else { "limited-tree-not-prefix" }, &format!("tl={n} {src}"), &format!("tree text {:?}", p.text));
        }
        if let Some(pos) = p.errors.iter().position(|e| e.0 == 'L') {
            if pos + 1 != p.errors.len() { ctx.fail("error-after-token-limit", &format!("tl={n} {src}"), &format!("{:?}", p.errors)); }
        }
        if p.tok_high > n + 1 { ctx.fail("token-high-water", &format!("tl={n} {src}"), &format!("high {} > n+1", p.tok_high)); }
        if has_limit { ctx.nontrivial(&format!("{n}:{}", p.sexpr)); }
    }
    // recursion limits: every r from 0 to depth+1
    for r in 0..=depth + 1 {
        let res = case(ctx, "doc", None, r, src);
        let Ok(p) = res else { ctx.fail("parse-document-panic", &format!("rl={r} {src}"), "panic"); continue };
        let has_limit = p.errors.iter().any(|e| e.0 == 'L');
        if has_limit != (depth > r) { ctx.fail("recursion-limit-iff", &format!("rl={r} {src}"), &format!("limit error={has_limit}, nesting depth {depth}")); }
        if has_limit != (p.rec_high > r) { ctx.fail("recursion-limit-same-run", &format!("rl={r} {src}"), &format!("limit error={has_limit}, high {}", p.rec_high)); }
        if p.rec_high > r + 1 { ctx.fail("recursion-high-water", &format!("rl={r} {src}"), &format!("high {}", p.rec_high)); }
        if has_limit { ctx.nontrivial(&format!("r{r}:{}", p.sexpr)); }
        // the compiler reports the parser's high-water marks
        let mut cp = apollo_compiler::parser::Parser::new().recursion_limit(r);
        let _ = cp.parse_ast(src, "d.graphql");
        if cp.recursion_reached() != p.rec_high || cp.tokens_reached() != p.tok_high {
            ctx.fail("compiler-reached-figures", &format!("rl={r} {src}"), &format!("compiler ({}, {}) vs parser ({}, {})", cp.recursion_reached(), cp.tokens_reached(), p.rec_high, p.tok_high));
        }
    }
}

/// Histories: ONE compiler `Parser` value reused for several `parse_*` calls (documents, types, field sets), with both
/// limits set; after every call the reported figures must be those of that call alone ("during the last call"), i.e.
/// the high-water marks of `apollo_parser` on the same input, entry point and limits.
fn reached_history(ctx: &mut Ctx, steps: &[(u8, String)], rl: usize, tl: Option<usize>) {
    let mut cp = apollo_compiler::parser::Parser::new().recursion_limit(rl);
    if let Some(t) = tl { cp = cp.token_limit(t); }
    let schema = apollo_compiler::Schema::parse_and_validate("type Query { a: Query b(x: [[Int]]): Int }", "s.graphql").unwrap();
    let mut log = vec![];
    for (kind, src) in steps {
        let entry = match kind { 0 => "doc", 1 => "type", _ => "sel" };
        let ok = catch(|| match kind {
            0 => { let _ = cp.parse_ast(src.as_str(), "d.graphql"); }
            1 => { let _ = cp.parse_type(src.as_str(), "t.graphql"); }
            _ => { let _ = cp.parse_field_set(&schema, apollo_compiler::name!("Query"), src.as_str(), "f.graphql"); }
        });
        log.push(format!("{entry}:{src:?}"));
        let desc = format!("rl={rl} tl={tl:?} history: {}", log.join(" ; "));
        if let Err(m) = ok { ctx.fail("compiler-parse-panic", &desc, &m); return; }
        let Ok(p) = run_parser(entry, tl, rl, src) else { return };
        if cp.recursion_reached() != p.rec_high || cp.tokens_reached() != p.tok_high {
            ctx.fail("compiler-reached-figures", &desc, &format!("after the last call the compiler reports ({}, {}), the parser's high-water marks for that call are ({}, {})", cp.recursion_reached(), cp.tokens_reached(), p.rec_high, p.tok_high));
            return;
        }
        ctx.stat("reached_history_steps");
    }
}

pub fn run(ctx: &mut Ctx) {
    {
        let docs = ["{ a { b { c { d(x: [[1]]) } } } }", "{ a }", "", "type T { f: [[Int]] }", "{ a { b { c } } } # trailing comment", "query($v: [Int] = [1, [2]]) { a }", "\"", "{ a(x: {k: {l: 1}}) }"];
        let types = ["Int", "[[[Int!]]!]", "[", "Int ] ]", ""];
        let sels = ["a", "a { a { a { a } } }", "b(x: [[1]])", "{ a }", "a {"];
        let n = if ctx.thorough { 6000 } else { 600 };
        for i in 0..n {
            let len = 2 + ctx.rng.below(4);
            let steps: Vec<(u8, String)> = (0..len).map(|_| match ctx.rng.below(4) { 0 | 1 => (0u8, ctx.rng.pick(&docs).to_string()), 2 => (1u8, ctx.rng.pick(&types).to_string()), _ => (2u8, ctx.rng.pick(&sels).to_string()) }).collect();
            let rl = if i % 2 == 0 { ctx.rng.below(5) } else { 500 };
            let tl = if i % 3 == 0 { Some(ctx.rng.below(12)) } else { None };
            reached_history(ctx, &steps, rl, tl);
        }
        // every ordered pair of the fixed documents with default limits
        for a in docs { for b in docs { reached_history(ctx, &[(0, a.to_string()), (0, b.to_string())], 500, None); } }
    }
    for s in ["{ a { b { c } } }", "{ a(x: [[1, [2]], {k: {l: [3]}}]) }", "query($v: [[Int!]]! = [[1]]) { a }", "type Query { field(arg1: Int, arg2: Int): Int }",
              "{ a ...F ... on T { b } }", "\"", "{ a", "é", "", "{a(x:{a:{b:{c:1}}})}", "{a(x:[[[]]])}"] { limits_for(ctx, s); }
    let mut seqs = vec![];
    token_seqs(&["{", "}", "[", "]", "a", ":", "(", ")", "$", "...", "1"], if ctx.thorough { 5 } else { 4 }, |s| seqs.push(s.to_string()));
    for s in &seqs { limits_for(ctx, s); }
    let n = if ctx.thorough { 4000 } else { 400 };
    let mut cov = std::collections::BTreeMap::new();
    for i in 0..n {
        let doc = { let mut g = G { r: &mut ctx.rng, depth: 0, cov: &mut cov }; g.definition() };
        let src = if i % 3 == 0 { mutate(&mut ctx.rng, &doc) } else { doc };
        if src.len() < 400 { limits_for(ctx, &src); }
    }
    // lexer-only limit stream
    let mut short = vec![];
    for_all_strings(&crate::p03::CLASS_ALPHABET, 2, |s| short.push(s.to_string()));
    for s in &short { crate::p03::lexlim_case(ctx, s); }
}
