//! C04 — token and recursion limits are enforced exactly.
use crate::gen::{mutate, G};
use crate::pp::*;
use crate::util::*;
use std::collections::HashSet;

struct Env { schema: apollo_compiler::validation::Valid<apollo_compiler::Schema> }

/// byte indices of what the lexer itself refuses in `src` (these errors are pushed unconditionally, also after a limit)
fn lexer_error_indices(src: &str) -> HashSet<usize> {
    apollo_parser::Lexer::new(src).filter_map(|r| r.err()).map(|e| e.index()).collect()
}

/// after the first limit error (either limit) only lexer errors and limit errors may follow — never a syntax error
fn check_after_limit(ctx: &mut Ctx, label: &str, p: &Parsed, lexerr: &HashSet<usize>) {
    if let Some(pos) = p.errors.iter().position(|e| e.0 == 'L') {
        for e in &p.errors[pos + 1..] {
            if e.0 == 'L' || (e.0 == 'E' && lexerr.contains(&e.1)) { continue; }
            ctx.fail("syntax-error-after-limit", label, &format!("{:?}", p.errors));
            break;
        }
    }
}

/// the compiler's figures after parsing `src` through the wrapper of `entry` must be the parser's high-water marks
fn compiler_call(env: &Env, cp: &mut apollo_compiler::parser::Parser, method: &str, src: &str) -> Result<(), String> {
    catch(|| match method {
        "ast" => { let _ = cp.parse_ast(src, "d.graphql"); }
        "schema" => { let _ = cp.parse_schema(src, "d.graphql"); }
        "schema-builder" => { let mut b = apollo_compiler::Schema::builder(); cp.parse_into_schema_builder(src, "d.graphql", &mut b); }
        "exec" => { let _ = cp.parse_executable(&env.schema, src, "d.graphql"); }
        "mixed" => { let _ = cp.parse_mixed_validate(src, "d.graphql"); }
        "fieldset" => { let _ = cp.parse_field_set(&env.schema, apollo_compiler::name!("Query"), src, "d.graphql"); }
        _ => { let _ = cp.parse_type(src, "d.graphql"); }
    })
}
fn entry_of(method: &str) -> &'static str { match method { "fieldset" => "sel", "type" => "ty", _ => "doc" } }
fn method_of(entry: &str) -> &'static str { match entry { "sel" => "fieldset", "ty" => "type", _ => "ast" } }

/// one compiler `Parser` value used for a whole history of calls: after every call the figures are those of that call
fn compiler_history(ctx: &mut Ctx, env: &Env, tl: Option<usize>, rl: Option<usize>, history: &[(&str, &str)]) {
    let mut cp = apollo_compiler::parser::Parser::new();
    if let Some(r) = rl { cp = cp.recursion_limit(r); }
    if let Some(t) = tl { cp = cp.token_limit(t); }
    for (step, (method, src)) in history.iter().enumerate() {
        let label = format!("compiler tl={tl:?} rl={rl:?} history={:?} step={step}", history);
        if let Err(m) = compiler_call(env, &mut cp, method, src) { ctx.fail("compiler-parse-panic", &label, &m); return; }
        let Ok(p) = run_parser(entry_of(method), tl, rl.unwrap_or(500), src) else { ctx.fail("parse-document-panic", &label, "panic"); return };
        ctx.stat("compiler_figure_checks");
        if cp.recursion_reached() != p.rec_high || cp.tokens_reached() != p.tok_high {
            ctx.fail("compiler-reached-figures", &label, &format!("compiler ({}, {}) vs parser ({}, {})", cp.recursion_reached(), cp.tokens_reached(), p.rec_high, p.tok_high));
        }
        if step > 0 { ctx.nontrivial(&format!("hist:{label}")); }
    }
}

fn limits_for(ctx: &mut Ctx, env: &Env, src: &str) { limits_for_entry(ctx, env, "doc", src) }

fn limits_for_entry(ctx: &mut Ctx, env: &Env, entry: &str, src: &str) {
    let Ok(unl) = run_parser(entry, None, 1_000_000, src) else { ctx.fail("parse-document-panic", src, "unlimited run panicked"); return };
    let all_items = crate::p03::lex_items(src, None).map(|v| v.len()).unwrap_or(0);
    // a document is lexed to its end; the standalone entry points stop at the first token after their construct, so what
    // they "consume" is what the unlimited run asked of the lexer
    if entry == "doc" && unl.tok_high != all_items { ctx.fail("document-does-not-consume-all-items", src, &format!("{} of {all_items}", unl.tok_high)); }
    if unl.tok_high > all_items { ctx.fail("token-high-water", src, &format!("{} of {all_items}", unl.tok_high)); }
    let n_items = if entry == "doc" { all_items } else { unl.tok_high };
    let lexerr = lexer_error_indices(src);
    let depth = unl.depth;
    ctx.stat(&format!("limit_sweeps:{entry}"));
    ctx.stat(&format!("depth:{}", depth.min(9)));
    if depth != unl.rec_high { ctx.fail("rec-high-vs-tree-depth", &format!("entry={entry} {src}"), &format!("recursion high {} vs nesting depth of the tree {}", unl.rec_high, depth)); }
    let tag = if entry == "doc" { String::new() } else { format!("entry={entry} ") };
    // token limits: every n from 0 to |items|+1
    for n in 0..=n_items + 1 {
        let r = case(ctx, entry, Some(n), 500, src);
        let Ok(p) = r else { ctx.fail("parse-document-panic", &format!("{tag}tl={n} {src}"), "panic"); continue };
        let has_limit = p.errors.iter().any(|e| e.0 == 'L');
        if has_limit != (n_items > n) { ctx.fail("token-limit-iff", &format!("{tag}tl={n} {src}"), &format!("limit error={has_limit}, unlimited stream has {n_items} items")); }
        if !src.starts_with(&p.text) {
            ctx.fail(if p.loss == Loss::TypePositionDropOnly { "cst-drops-token-in-type-position" } else { "limited-tree-not-prefix" }, &format!("{tag}tl={n} {src}"), &format!("tree text {:?}", p.text));
        }
        if let Some(pos) = p.errors.iter().position(|e| e.0 == 'L') {
            if pos + 1 != p.errors.len() { ctx.fail("error-after-token-limit", &format!("{tag}tl={n} {src}"), &format!("{:?}", p.errors)); }
        }
        if p.tok_high > n + 1 { ctx.fail("token-high-water", &format!("{tag}tl={n} {src}"), &format!("high {} > n+1", p.tok_high)); }
        // exactly: n+1 items were asked of the lexer when the limit fired, all of them otherwise
        if p.tok_high != (n + 1).min(n_items) { ctx.fail("token-high-water", &format!("{tag}tl={n} {src}"), &format!("high {} but {} of {n_items} items allowed", p.tok_high, n)); }
        if has_limit { ctx.nontrivial(&format!("{entry}{n}:{}", p.sexpr)); }
    }
    // recursion limits: every r from 0 to depth+1
    for r in 0..=depth + 1 {
        let res = case(ctx, entry, None, r, src);
        let Ok(p) = res else { ctx.fail("parse-document-panic", &format!("{tag}rl={r} {src}"), "panic"); continue };
        let has_limit = p.errors.iter().any(|e| e.0 == 'L');
        if has_limit != (depth > r) { ctx.fail("recursion-limit-iff", &format!("{tag}rl={r} {src}"), &format!("limit error={has_limit}, nesting depth {depth}")); }
        if has_limit != (p.rec_high > r) { ctx.fail("recursion-limit-same-run", &format!("{tag}rl={r} {src}"), &format!("limit error={has_limit}, high {}", p.rec_high)); }
        if p.rec_high > r + 1 { ctx.fail("recursion-high-water", &format!("{tag}rl={r} {src}"), &format!("high {}", p.rec_high)); }
        if p.rec_high != depth.min(r + 1) { ctx.fail("recursion-high-water", &format!("{tag}rl={r} {src}"), &format!("high {} but depth {depth}", p.rec_high)); }
        if p.errors.iter().filter(|e| e.0 == 'L').count() > 1 { ctx.fail("recursion-limit-reported-twice", &format!("{tag}rl={r} {src}"), &format!("{:?}", p.errors)); }
        check_after_limit(ctx, &format!("{tag}rl={r} {src}"), &p, &lexerr);
        // (no token limit here: a document's tree is the whole text, a standalone entry point's a prefix)
        let cut = if entry == "doc" { p.text != src } else { !src.starts_with(&p.text) };
        if cut && p.loss != Loss::TypePositionDropOnly { ctx.fail("limited-tree-not-prefix", &format!("{tag}rl={r} {src}"), &format!("tree text {:?}", p.text)); }
        if has_limit { ctx.nontrivial(&format!("{entry}r{r}:{}", p.sexpr)); }
        // the compiler reports the parser's high-water marks
        let mut cp = apollo_compiler::parser::Parser::new().recursion_limit(r);
        if let Err(m) = compiler_call(env, &mut cp, method_of(entry), src) { ctx.fail("compiler-parse-panic", &format!("{tag}rl={r} {src}"), &m); continue; }
        if cp.recursion_reached() != p.rec_high || cp.tokens_reached() != p.tok_high {
            ctx.fail("compiler-reached-figures", &format!("{tag}rl={r} {src}"), &format!("compiler ({}, {}) vs parser ({}, {})", cp.recursion_reached(), cp.tokens_reached(), p.rec_high, p.tok_high));
        }
    }
}

/// every (token limit, recursion limit) pair of one input
fn limit_pairs(ctx: &mut Ctx, entry: &str, src: &str) {
    let Ok(unl) = run_parser(entry, None, 1_000_000, src) else { return };
    let n_items = if entry == "doc" { crate::p03::lex_items(src, None).map(|v| v.len()).unwrap_or(0) } else { unl.tok_high };
    let lexerr = lexer_error_indices(src);
    for r in 0..=unl.depth + 1 {
        // a standalone entry point that gives up on the recursion limit stops lexing early: what the run without a token limit asks for
        let n_items = if entry == "doc" { n_items } else { run_parser(entry, None, r, src).map(|p| p.tok_high).unwrap_or(0) };
        for n in 0..=n_items + 1 {
            let label = format!("entry={entry} tl={n} rl={r} {src}");
            let Ok(p) = case(ctx, entry, Some(n), r, src) else { ctx.fail("parse-document-panic", &label, "panic"); continue };
            ctx.stat("limit_pair_cases");
            let nl = p.errors.iter().filter(|e| e.0 == 'L').count();
            let tok_hit = n_items > n;
            if tok_hit {
                // the token-limit error is the last error; a second limit error can only be the recursion one
                if p.errors.last().map(|e| e.0) != Some('L') { ctx.fail("token-limit-iff", &label, &format!("{:?}", p.errors)); }
                if nl > 2 || (nl == 2 && p.rec_high <= r) { ctx.fail("limit-errors-wrong", &label, &format!("{:?} high {}", p.errors, p.rec_high)); }
            } else {
                if nl > 1 || ((nl == 1) != (p.rec_high > r)) { ctx.fail("limit-errors-wrong", &label, &format!("{:?} high {}", p.errors, p.rec_high)); }
            }
            check_after_limit(ctx, &label, &p, &lexerr);
            if !src.starts_with(&p.text) && p.loss != Loss::TypePositionDropOnly { ctx.fail("limited-tree-not-prefix", &label, &format!("tree text {:?}", p.text)); }
            if p.tok_high != (n + 1).min(n_items) { ctx.fail("token-high-water", &label, &format!("high {}", p.tok_high)); }
            if p.rec_high > r + 1 { ctx.fail("recursion-high-water", &label, &format!("high {}", p.rec_high)); }
            if nl == 2 { ctx.nontrivial(&format!("pair:{n}:{r}:{}", p.sexpr)); }
        }
    }
}

/// Histories: ONE compiler `Parser` value reused for several `parse_*` calls (documents, types, field sets), with both
/// limits set; after every call the reported figures must be those of that call alone ("during the last call"), i.e.
/// the high-water marks of `apollo_parser` on the same input, entry point and limits.
fn reached_history(ctx: &mut Ctx, steps: &[(u8, String)], rl: usize, tl: Option<usize>) {
    let mut cp = apollo_compiler::parser::Parser::new().recursion_limit(rl);
    if let Some(t) = tl { cp = cp.token_limit(t); }
    let schema = apollo_compiler::Schema::parse_and_validate("type Query { a: Query b(x: [[Int]]): Int }", "s.graphql").unwrap();
    let mut log = vec![];
    for (kind, src) in steps {
        let entry = match kind { 0 => "doc", 1 => "type", _ => "sel" };
        let ok = catch(|| match kind {
            0 => { let _ = cp.parse_ast(src.as_str(), "d.graphql"); }
            1 => { let _ = cp.parse_type(src.as_str(), "t.graphql"); }
            _ => { let _ = cp.parse_field_set(&schema, apollo_compiler::name!("Query"), src.as_str(), "f.graphql"); }
        });
        log.push(format!("{entry}:{src:?}"));
        let desc = format!("rl={rl} tl={tl:?} history: {}", log.join(" ; "));
        if let Err(m) = ok { ctx.fail("compiler-parse-panic", &desc, &m); return; }
        let Ok(p) = run_parser(entry, tl, rl, src) else { return };
        if cp.recursion_reached() != p.rec_high || cp.tokens_reached() != p.tok_high {
            ctx.fail("compiler-reached-figures", &desc, &format!("after the last call the compiler reports ({}, {}), the parser's high-water marks for that call are ({}, {})", cp.recursion_reached(), cp.tokens_reached(), p.rec_high, p.tok_high));
            return;
        }
        ctx.stat("reached_history_steps");
    }
}

pub fn run(ctx: &mut Ctx) {
    let env = Env { schema: apollo_compiler::Schema::parse_and_validate("type Query { a: Query b: Query c: Int f(x: Int): Query }", "s.graphql").unwrap() };
    let env = &env;
    {
        let docs = ["{ a { b { c { d(x: [[1]]) } } } }", "{ a }", "", "type T { f: [[Int]] }", "{ a { b { c } } } # trailing comment", "query($v: [Int] = [1, [2]]) { a }", "\"", "{ a(x: {k: {l: 1}}) }"];
        let types = ["Int", "[[[Int!]]!]", "[", "Int ] ]", ""];
        let sels = ["a", "a { a { a { a } } }", "b(x: [[1]])", "{ a }", "a {"];
        let n = if ctx.thorough { 6000 } else { 600 };
        for i in 0..n {
            let len = 2 + ctx.rng.below(4);
            let steps: Vec<(u8, String)> = (0..len).map(|_| match ctx.rng.below(4) { 0 | 1 => (0u8, ctx.rng.pick(&docs).to_string()), 2 => (1u8, ctx.rng.pick(&types).to_string()), _ => (2u8, ctx.rng.pick(&sels).to_string()) }).collect();
            let rl = if i % 2 == 0 { ctx.rng.below(5) } else { 500 };
            let tl = if i % 3 == 0 { Some(ctx.rng.below(12)) } else { None };
            reached_history(ctx, &steps, rl, tl);
        }
        // every ordered pair of the fixed documents with default limits
        for a in docs { for b in docs { reached_history(ctx, &[(0, a.to_string()), (0, b.to_string())], 500, None); } }
    }
    for s in ["{ a { b { c } } }", "{ a(x: [[1, [2]], {k: {l: [3]}}]) }", "query($v: [[Int!]]! = [[1]]) { a }", "type Query { field(arg1: Int, arg2: Int): Int }",
              "{ a ...F ... on T { b } }", "\"", "{ a", "é", "", "{a(x:{a:{b:{c:1}}})}", "{a(x:[[[]]])}", "{a(x:[é])}", "{a(x:[é 1])}", "{a(x:{k:é})}", "{a(x:[[é]])}"] { limits_for(ctx, env, s); }
    let mut seqs = vec![];
    token_seqs(&["{", "}", "[", "]", "a", ":", "(", ")", "$", "...", "1"], if ctx.thorough { 5 } else { 4 }, |s| seqs.push(s.to_string()));
    for s in &seqs { limits_for(ctx, env, s); }

    // ---- (audit G1) systematic families, the same on every seed — see pfam.rs ----
    {
        use crate::pfam::*;
        let th = ctx.thorough;
        // every shape of nested list / object values (ordered trees, each node a list or an object, with and without a scalar
        // after the nested children) in every position that takes a value; a second definition follows in one position
        let big = value_trees(if th { 5 } else { 4 });
        let mid = value_trees(if th { 4 } else { 3 });
        let small = value_trees(if th { 3 } else { 2 });
        let mut n = 0u64;
        for (i, pos) in VALUE_POS_ALL.iter().enumerate() {
            let trees = if i == 0 { &big } else if i < 6 { &mid } else { &small };
            for v in trees { limits_for(ctx, env, &pos.replace('§', v)); n += 1; }
        }
        ctx.stat_n("family:value-tree-x-position", n);
        // every shape of nested selection sets (field / inline fragment / inline fragment with type condition), alone and followed by a
        // second operation (the counter must be back at 0 between definitions)
        let sels = selection_trees(if th { 4 } else { 3 }, 3);
        for (i, s) in sels.iter().enumerate() {
            limits_for(ctx, env, s);
            if i % 3 == 0 { limits_for(ctx, env, &format!("{s} query Q {s}")); }
            if i % 3 == 1 { limits_for(ctx, env, &format!("fragment F on T {s}")); }
        }
        ctx.stat_n("family:selection-trees", sels.len() as u64);
        // every list type up to depth 3 (4) in every position that takes a type
        let tys = types(if th { 4 } else { 3 });
        for pos in TYPE_POS { for t in &tys { limits_for(ctx, env, &pos.replace('§', t)); } }
        ctx.stat_n("family:type-x-position", (tys.len() * TYPE_POS.len()) as u64);
        // look-ahead sites (description → keyword, extend → keyword, `...` → on / name, alias) under every token limit
        for d in LOOKAHEAD_DOCS { limits_for(ctx, env, d); }
        ctx.stat_n("family:lookahead", LOOKAHEAD_DOCS.len() as u64);
        // lexical errors / comments / an unterminated string in every gap of three small nested documents
        let mut gaps = vec![];
        for d in ["{ a(x: [1, {k: 2}]) { b } }", "type T { f(a: [Int] = [1]): [T] }", "query($v: [T] = {k: [1]}) { ... { a } }"] { fill_gaps(d, &["é", "\"", "#c\n"], |s| gaps.push(s)); }
        for s in &gaps { limits_for(ctx, env, s); }
        ctx.stat_n("family:lexical-error-in-every-gap", gaps.len() as u64);
        // the other two entry points: exhaustive short token sequences
        let mut sel = vec![];
        token_seqs(&["{", "}", "a", ":", "...", "on", "(x:[1])", "@d", "é"], if th { 4 } else { 3 }, |s| sel.push(s.to_string()));
        for s in &sel { limits_for_entry(ctx, env, "sel", s); }
        for s in ["a { b { c } }", "{ a { b { c } } }", "a(x: [[1]]) { b }", "... on T { a { b } }", " { a }", "a { b } }", "{ a } b"] { limits_for_entry(ctx, env, "sel", s); }
        for s in selection_trees(2, 3) { limits_for_entry(ctx, env, "sel", &s); limits_for_entry(ctx, env, "sel", s.trim_start_matches("{ ").trim_end_matches(" }")); }
        let mut ty = vec![];
        for_all_strings(&["A", "[", "]", "!", " ", "é"], if th { 5 } else { 4 }, |s| ty.push(s.to_string()));
        for s in &ty { limits_for_entry(ctx, env, "ty", s); }
        for t in types(4) { limits_for_entry(ctx, env, "ty", &t); }
        ctx.stat_n("family:other-entry-points", (sel.len() + ty.len()) as u64);
        // every (token limit, recursion limit) PAIR for one rich instance of every definition kind
        for d in RICH { limit_pairs(ctx, "doc", d); }
        for d in ["{ a { b { c } } } é", "{ a(x: [[é]]) }", "{ a { b", "type T { f: [[[Int", "{a(x:{k:{l:{m:1}}})}"] { limit_pairs(ctx, "doc", d); }
        for d in ["a { b { c } }", "{ a { b } } c"] { limit_pairs(ctx, "sel", d); }
        for d in ["[[[A!]!]!]!", "[[A] B"] { limit_pairs(ctx, "ty", d); }
        // the compiler's figures: every parse method, with a token limit and/or a recursion limit, and HISTORIES on one
        // `Parser` value (the figures are those of the last call, whatever came before)
        let calls: [(&str, &str); 14] = [("ast", "{ a { b { c { d } } } }"), ("ast", "{ a }"), ("ast", "{ a(x: [[[1]]]) }"), ("ast", "{ a b c d e f g h i j k l }"), ("ast", ""),
            ("schema", "type Query { f(a: [[[Int]]] = [[[1]]]): Int }"), ("schema-builder", "scalar S"), ("exec", "{ a { b { c } } }"), ("exec", "{ c }"),
            ("mixed", "type Query { a: Query } { a { a { a { a { a } } } } }"), ("fieldset", "a { b { c } }"), ("fieldset", "c"), ("type", "[[[[Int]]]]"), ("type", "Int")];
        let mut hist = 0u64;
        for (tl, rl) in [(None, None), (None, Some(2)), (Some(6), None), (Some(9), Some(1)), (Some(0), Some(0))] {
            for a in calls { for b in calls { compiler_history(ctx, env, tl, rl, &[a, b]); hist += 1; } }
            compiler_history(ctx, env, tl, rl, &calls);
            let rev: Vec<(&str, &str)> = calls.iter().rev().cloned().collect();
            compiler_history(ctx, env, tl, rl, &rev);
        }
        ctx.stat_n("family:compiler-histories", hist);
        for (i, d) in RICH.iter().enumerate() {
            let n = crate::p03::lex_items(d, None).map(|v| v.len()).unwrap_or(0);
            let m = ["ast", "schema", "exec", "mixed", "schema-builder"][i % 5];
            for tl in [Some(0), Some(1), Some(n / 2), Some(n - 1), Some(n), Some(n + 1), None] { for rl in [Some(0), Some(1), Some(2), None] { compiler_history(ctx, env, tl, rl, &[(m, d)]); } }
        }
    }

    let n = if ctx.thorough { 4000 } else { 400 };
    let mut cov = std::collections::BTreeMap::new();
    for i in 0..n {
        let doc = { let mut g = G { r: &mut ctx.rng, depth: 0, cov: &mut cov }; g.definition() };
        let src = if i % 3 == 0 { mutate(&mut ctx.rng, &doc) } else { doc };
        if src.len() < 400 { limits_for(ctx, env, &src); }
    }
    // lexer-only limit stream
    let mut short = vec![];
    for_all_strings(&crate::p03::CLASS_ALPHABET, 2, |s| short.push(s.to_string()));
    for s in &short { crate::p03::lexlim_case(ctx, s); }
}
