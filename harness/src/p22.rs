//! C22 — outputs are deterministic across processes (per-process hash seeds).
//!
//! The same inputs are processed by several child processes; every observable output is reduced to a
//! hash and the parent compares the streams line by line. One model stream (`unusedvars`) ties the
//! Lean model of `validate_unused_variables` to the implementation.
use crate::util::*;
use apollo_compiler::{ast, ExecutableDocument, Schema};
use std::fmt::Write as _;

fn fnv(s: &str) -> u64 {
    let mut h: u64 = 0xcbf29ce484222325;
    for b in s.as_bytes() { h ^= *b as u64; h = h.wrapping_mul(0x100000001b3); }
    h
}

const INTROSPECTION: &str = "{ __schema { queryType { name } types { name kind fields(includeDeprecated: true) { name args { name defaultValue } type { name kind ofType { name } } } possibleTypes { name } interfaces { name } enumValues { name } inputFields { name } } directives { name locations args { name } } } }";

/// every observable output of the compiler pipeline on (schema, document), as labelled strings
fn outputs(schema_src: &str, doc_src: &str) -> Vec<(&'static str, String)> {
    let mut out = vec![];
    let schema = match Schema::parse(schema_src, "schema.graphql") {
        Ok(s) => s,
        Err(e) => { out.push(("schema-build-diagnostics", e.errors.to_string())); e.partial }
    };
    // built-in scalars are always defined after a build from text (so `used_and_undefined` stays empty)
    let all_builtins = ["Int", "Float", "String", "Boolean", "ID"].iter().all(|b| schema.types.contains_key(*b));
    out.push(("builtin-scalars-defined-after-build", all_builtins.to_string()));
    out.push(("schema-serialized", schema.to_string()));
    let valid = match schema.validate() {
        Ok(v) => { out.push(("schema-valid-serialized", v.to_string())); Some(v) }
        Err(e) => { out.push(("schema-validate-diagnostics", e.errors.to_string())); let j: Vec<String> = e.errors.iter().map(|d| serde_json::to_string(&d.to_json()).unwrap()).collect(); out.push(("schema-validate-json", j.join("\n"))); None }
    };
    match ast::Document::parse(doc_src, "doc.graphql") {
        Ok(d) => {
            out.push(("ast-serialized", d.to_string()));
            if let Err(e) = d.validate_standalone_executable() { out.push(("standalone-diagnostics", e.to_string())); }
        }
        Err(e) => out.push(("ast-diagnostics", e.errors.to_string())),
    }
    if let Some(valid) = &valid {
        let doc = match ExecutableDocument::parse(valid, doc_src, "doc.graphql") {
            Ok(d) => d,
            Err(e) => { out.push(("exec-build-diagnostics", e.errors.to_string())); e.partial }
        };
        out.push(("exec-serialized", doc.to_string()));
        if let Err(e) = doc.validate(valid) { out.push(("exec-validate-diagnostics", e.errors.to_string())); }
        // introspection
        if let Ok(q) = ExecutableDocument::parse_and_validate(valid, INTROSPECTION, "i.graphql") {
            let imap = valid.implementers_map();
            if let Ok(op) = q.operations.get(None) {
                if let Ok(vars) = apollo_compiler::request::coerce_variable_values(valid, op, &Default::default()) {
                    if let Ok(resp) = apollo_compiler::introspection::partial_execute(valid, &imap, &q, op, &vars) {
                        out.push(("introspection-json", serde_json::to_string(&resp).unwrap()));
                    }
                }
            }
        }
    }
    let mixed = format!("{schema_src}\n{doc_src}");
    if let Err(e) = apollo_compiler::parser::Parser::new().parse_mixed_validate(&mixed, "mixed.graphql") { out.push(("mixed-diagnostics", e.to_string())); }
    out
}

/// operations with several variables, some unused, some defined twice; also in fragments and directives
pub fn vars_doc(rng: &mut Rng) -> (String, String) {
    let schema = "type Query { f(a: Int, b: Int, c: Int): Int q: Query }\ndirective @d(x: Int) on FIELD | QUERY | FRAGMENT_SPREAD | INLINE_FRAGMENT | FRAGMENT_DEFINITION".to_string();
    let mut d = String::new();
    let nops = 1 + rng.below(3);
    for op in 0..nops {
        let nv = 1 + rng.below(9);
        let names: Vec<String> = (0..nv).map(|i| if rng.chance(1, 8) { format!("v{}", rng.below(i + 1)) } else { format!("v{i}") }).collect();
        write!(d, "query Q{op}(").unwrap();
        for n in &names { write!(d, "${n}: Int{} ", if rng.chance(1, 4) { " = 1" } else { "" }).unwrap(); }
        d.push(')');
        if rng.chance(1, 4) { write!(d, " @d(x: ${})", rng.pick(&names)).unwrap(); }
        d.push_str(" { ");
        for _ in 0..rng.below(3) { write!(d, "f(a: ${}) ", rng.pick(&names)).unwrap(); }
        if rng.chance(1, 3) { write!(d, "q {{ ...F{op} }} ").unwrap(); } else { d.push_str("q { f } "); }
        if rng.chance(1, 4) { write!(d, "... @d(x: ${}) {{ f }} ", rng.pick(&names)).unwrap(); }
        d.push_str("}\n");
        if d.contains(&format!("...F{op}")) { write!(d, "fragment F{op} on Query {{ f(b: ${}) }}\n", rng.pick(&names)).unwrap(); }
    }
    (schema, d)
}

/// schema texts with cyclic / diamond `implements` graphs, as an existing document for apollo-smith
fn smith_base(rng: &mut Rng) -> String {
    let k = 2 + rng.below(5);
    let mut s = String::from("type Query { a: Int }\n");
    for i in 0..k {
        let mut parents = vec![];
        for j in 0..k { if j != i && rng.chance(1, 3) { parents.push(format!("N{j}")); } }
        let imp = if parents.is_empty() { String::new() } else { format!(" implements {}", parents.join(" & ")) };
        write!(s, "interface N{i}{imp} {{ f{i}: Int }}\n").unwrap();
    }
    for i in 0..rng.below(3) { write!(s, "type T{i} implements N{} {{ g: Int }}\n", rng.below(k)).unwrap(); }
    s
}

fn smith_outputs(bytes: &[u8], base: Option<&str>) -> String {
    use apollo_smith::DocumentBuilder;
    use arbitrary::Unstructured;
    let mut u = Unstructured::new(bytes);
    let builder = match base {
        None => DocumentBuilder::new(&mut u),
        Some(text) => {
            let cst = apollo_parser::Parser::new(text).parse();
            let doc = match apollo_smith::Document::try_from(cst.document()) { Ok(d) => d, Err(e) => return format!("ERR {e:?}") };
            match DocumentBuilder::with_document(&mut u, doc) { Ok(b) => b, Err(e) => return format!("ERR {e}") }
        }
    };
    match builder.build() { Ok(doc) => String::from(doc), Err(e) => format!("ERR {e}") }
}

#[derive(Clone, Copy)]
pub struct Plan { pub seed: u64, pub soups: u64, pub vars: u64, pub smith: u64 }

pub enum Input { Compiler(String, String), Smith(Vec<u8>, Option<String>) }

pub fn input(plan: Plan, kind: &str, idx: u64) -> Input {
    let mut rng = Rng(plan.seed ^ idx.wrapping_mul(0x9E37_79B9_7F4A_7C15) ^ fnv(kind));
    match kind {
        "soup" => { let (s, d) = crate::p21::soup_instance(plan.seed, idx); Input::Compiler(s, d) }
        "vars" => { let (s, d) = vars_doc(&mut rng); Input::Compiler(s, d) }
        "family" => {
            let f = crate::p21::FAMILIES[(idx as usize) % crate::p21::FAMILIES.len()];
            let n = [3usize, 40, 110, 140][(idx as usize / crate::p21::FAMILIES.len()) % 4];
            let (s, d) = crate::p21::family(f, n); Input::Compiler(s, d)
        }
        _ => {
            let len = 64 + rng.below(2000);
            let bytes: Vec<u8> = (0..len).map(|_| rng.next() as u8).collect();
            let base = if rng.chance(1, 2) { Some(smith_base(&mut rng)) } else { None };
            Input::Smith(bytes, base)
        }
    }
}

fn kinds(plan: Plan) -> Vec<(&'static str, u64)> { vec![("family", 48), ("vars", plan.vars), ("soup", plan.soups), ("smith", plan.smith)] }

/// `VH_C22_CHILD=seed:soups:vars:smith`
pub fn child_main(spec: &str) {
    let p: Vec<u64> = spec.split(':').map(|x| x.parse().unwrap()).collect();
    let plan = Plan { seed: p[0], soups: p[1], vars: p[2], smith: p[3] };
    for (kind, n) in kinds(plan) {
        for idx in 0..n {
            let line = match catch(|| match input(plan, kind, idx) {
                Input::Compiler(s, d) => outputs(&s, &d).into_iter().map(|(k, v)| format!("{k}={:016x}", fnv(&v))).collect::<Vec<_>>().join(" "),
                Input::Smith(bytes, base) => format!("smith={:016x}", fnv(&smith_outputs(&bytes, base.as_deref()))),
            }) { Ok(l) => l, Err(p) => format!("PANIC {}", p.replace('\n', " ")) };
            println!("{kind}\t{idx}\t{line}");
        }
    }
    println!("DONE");
}

fn unusedvars_stream(ctx: &mut Ctx) {
    let n = if ctx.thorough { 30_000 } else { 4_000 };
    for _ in 0..n {
        // one operation; variables v<i> at known offsets; some used
        let nv = 1 + ctx.rng.below(8);
        let names: Vec<usize> = (0..nv).map(|i| if ctx.rng.chance(1, 6) { ctx.rng.below(i + 1) } else { i }).collect();
        let mut text = String::from("query Q(");
        let mut defs = vec![];
        for n in &names { defs.push((*n, text.len())); write!(text, "$v{n}: Int ").unwrap(); }
        text.push_str(") { ");
        let mut used = vec![];
        for _ in 0..ctx.rng.below(4) { let u = *ctx.rng.pick(&names); used.push(u); write!(text, "f(a: $v{u}) ").unwrap(); }
        text.push_str("__typename }");
        let doc = match ast::Document::parse(text.as_str(), "v.graphql") { Ok(d) => d, Err(_) => { ctx.fail("unusedvars-generator-parse-error", &text, ""); continue } };
        let mut got = vec![];
        if let Err(errors) = doc.validate_standalone_executable() {
            for d in errors.iter() {
                let msg = d.error.to_string();
                if let Some(rest) = msg.strip_prefix("unused variable: `$v") { got.push(rest.trim_end_matches('`').to_string()); }
            }
        }
        let vars: Vec<String> = defs.iter().map(|(n, o)| format!("{n}@{o}")).collect();
        let used_s: Vec<String> = used.iter().map(|u| u.to_string()).collect();
        ctx.case("unusedvars", &[vars.join(","), used_s.join(",")], &got.join(","));
        if got.len() >= 2 { ctx.nontrivial(&text); ctx.stat("unusedvars_with_two_or_more_unused"); }
    }
}

pub fn run(ctx: &mut Ctx) {
    unusedvars_stream(ctx);
    let plan = if ctx.thorough { Plan { seed: ctx.seed, soups: 8_000, vars: 8_000, smith: 6_000 } } else { Plan { seed: ctx.seed, soups: 1_200, vars: 1_500, smith: 1_200 } };
    let procs = if ctx.thorough { 8 } else { 4 };
    let spec = format!("{}:{}:{}:{}", plan.seed, plan.soups, plan.vars, plan.smith);
    let kids: Vec<_> = (0..procs).map(|_| std::process::Command::new(std::env::current_exe().unwrap()).arg("C22").env("VH_C22_CHILD", &spec)
        .stdout(std::process::Stdio::piped()).stderr(std::process::Stdio::null()).spawn().expect("spawn")).collect();
    let outs: Vec<(String, bool)> = kids.into_iter().map(|k| { let o = k.wait_with_output().unwrap(); let s = String::from_utf8_lossy(&o.stdout).to_string(); let ok = o.status.success() && s.trim_end().ends_with("DONE"); (s, ok) }).collect();
    ctx.stat_n("processes", procs as u64);
    for (i, (_, ok)) in outs.iter().enumerate() { if !ok { ctx.fail("child-crashed", &format!("process {i} of {procs}, spec {spec}"), "a child process did not finish"); } }
    let lines: Vec<Vec<&str>> = outs.iter().map(|(s, _)| s.lines().collect()).collect();
    let n = lines.iter().map(|l| l.len()).min().unwrap_or(0);
    for li in 0..n {
        let first = lines[0][li];
        if first == "DONE" { continue }
        let f: Vec<&str> = first.splitn(3, '\t').collect();
        if f.len() < 3 { continue }
        ctx.stat(&format!("inputs:{}", f[0]));
        if f[2].starts_with("PANIC") { ctx.fail(&format!("panic:{}", f[0]), &format!("{} {}", f[0], f[1]), f[2]); }
        for label in f[2].split(' ') { if let Some((k, _)) = label.split_once('=') { ctx.stat(&format!("compared:{k}")); } }
        let mut differing: Vec<String> = vec![];
        for other in &lines[1..] {
            if other[li] != first {
                let a: Vec<&str> = f[2].split(' ').collect();
                let g: Vec<&str> = other[li].splitn(3, '\t').collect();
                let b: Vec<&str> = g.get(2).unwrap_or(&"").split(' ').collect();
                for (x, y) in a.iter().zip(b.iter()) { if x != y { let k = x.split('=').next().unwrap_or("?").to_string(); if !differing.contains(&k) { differing.push(k); } } }
                if a.len() != b.len() && differing.is_empty() { differing.push("set-of-outputs".into()); }
            }
        }
        if !differing.is_empty() {
            let idx: u64 = f[1].parse().unwrap_or(0);
            let desc = match input(plan, f[0], idx) {
                Input::Compiler(s, d) => format!("{} #{idx}: schema: {s} ; document: {d}", f[0]),
                Input::Smith(bytes, base) => format!("smith #{idx}: {} input bytes (seed {}), existing document: {}", bytes.len(), plan.seed, base.unwrap_or_else(|| "none".into())),
            };
            for k in differing {
                let key = if f[0] == "smith" { "nondeterministic:smith".to_string() } else { format!("nondeterministic:{k}") };
                ctx.fail(&key, &desc, &format!("output `{k}` differs between processes given identical input"));
            }
        }
    }
}
