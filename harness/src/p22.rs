//! C22 — outputs are deterministic across processes (per-process hash seeds).
//!
//! The same inputs are processed by several child processes; every observable output is reduced to a
//! hash and the parent compares the streams line by line. One model stream (`unusedvars`) ties the
//! Lean model of `validate_unused_variables` to the implementation.
use crate::util::*;
use apollo_compiler::diagnostic::Color;
use apollo_compiler::resolvers::{Execution, FieldError, ObjectValue, ResolveInfo, ResolvedValue};
use apollo_compiler::schema::ExtendedType;
use apollo_compiler::validation::Valid;
use apollo_compiler::{ast, ExecutableDocument, Schema};
use apollo_smith::{RandomProvider, ResponseBuilder, ResponseError};
use std::fmt::Write as _;

// ---- a resolver for any schema: every field gets a value determined by its type and name only ----
struct Mock<'s> { schema: &'s Valid<Schema>, ty: String, depth: usize }

/// values the mock resolver may still produce for the current input (nested list types would otherwise explode)
static BUDGET: std::sync::atomic::AtomicUsize = std::sync::atomic::AtomicUsize::new(0);
fn spend() -> bool { BUDGET.fetch_update(std::sync::atomic::Ordering::SeqCst, std::sync::atomic::Ordering::SeqCst, |b| b.checked_sub(1)).is_ok() }

fn mock_named<'a>(schema: &'a Valid<Schema>, name: &str, key: &str, depth: usize) -> Result<ResolvedValue<'a>, FieldError> {
    let h = fnv(key);
    if depth > 7 || h % 11 == 0 || !spend() { return if h % 2 == 0 { Ok(ResolvedValue::null()) } else { Err(FieldError { message: format!("no value for {key}") }) } }
    match schema.types.get(name) {
        Some(ExtendedType::Scalar(_)) => Ok(match name { "Int" => ResolvedValue::leaf((h % 1000) as i32), "Float" => ResolvedValue::leaf(1.5), "Boolean" => ResolvedValue::leaf(h % 2 == 0), _ => ResolvedValue::leaf(format!("s{}", h % 97)) }),
        Some(ExtendedType::Enum(e)) => Ok(match e.values.keys().nth((h % 3) as usize % e.values.len().max(1)) { Some(v) => ResolvedValue::leaf(v.to_string()), None => ResolvedValue::null() }),
        Some(ExtendedType::Object(_)) => Ok(ResolvedValue::object(Mock { schema, ty: name.to_string(), depth: depth + 1 })),
        Some(ExtendedType::Interface(_)) | Some(ExtendedType::Union(_)) => {
            // a concrete type, chosen from the schema's own (insertion-ordered) declarations
            let objs: Vec<String> = schema.types.iter().filter_map(|(n, t)| match t {
                ExtendedType::Object(o) if o.implements_interfaces.contains(name) => Some(n.to_string()),
                _ => None }).chain(match schema.types.get(name) { Some(ExtendedType::Union(u)) => u.members.iter().map(|m| m.to_string()).collect::<Vec<_>>(), _ => vec![] }).collect();
            if objs.is_empty() { Ok(ResolvedValue::null()) } else { Ok(ResolvedValue::object(Mock { schema, ty: objs[(h as usize) % objs.len()].clone(), depth: depth + 1 })) }
        }
        _ => Ok(ResolvedValue::null()),
    }
}

fn mock_value<'a>(schema: &'a Valid<Schema>, ty: &'a ast::Type, key: String, depth: usize) -> Result<ResolvedValue<'a>, FieldError> {
    match ty {
        ast::Type::Named(n) | ast::Type::NonNullNamed(n) => mock_named(schema, n.as_str(), &key, depth),
        ast::Type::List(inner) | ast::Type::NonNullList(inner) => {
            let n = if depth > 7 || !spend() { 0 } else { (fnv(&key) % 3) as usize };
            Ok(ResolvedValue::List(Box::new((0..n).map(move |i| mock_value(schema, inner, format!("{key}/{i}"), depth + 1)))))
        }
    }
}

impl<'s> ObjectValue for Mock<'s> {
    fn type_name(&self) -> &str { &self.ty }
    fn resolve_field<'a>(&'a self, info: &'a ResolveInfo<'a>) -> Result<ResolvedValue<'a>, FieldError> {
        let key = format!("{}.{}{}", self.ty, info.field_name(), serde_json::to_string(info.arguments()).unwrap_or_default());
        mock_value(self.schema, &info.field_definition().ty, key, self.depth)
    }
}

struct FixedRng(Rng);
impl FixedRng { fn draw(&mut self, n: u64) -> u64 { if n == 0 { 0 } else { self.0.next() % n } } }
impl RandomProvider for FixedRng {
    fn gen_bool(&mut self) -> Result<bool, ResponseError> { Ok(self.draw(2) == 1) }
    fn gen_i32_range(&mut self, min: i32, max: i32) -> Result<i32, ResponseError> { Ok(min + self.draw((max - min) as u64 + 1) as i32) }
    fn gen_usize_range(&mut self, min: usize, max: usize) -> Result<usize, ResponseError> { Ok(min + self.draw((max - min) as u64 + 1) as usize) }
    fn gen_f64_range(&mut self, _min: f64, _max: f64) -> Result<f64, ResponseError> { self.draw(1); Ok(0.5) }
    fn gen_alphanumeric_char(&mut self) -> Result<char, ResponseError> { Ok((b'a' + self.draw(26) as u8) as char) }
    fn choose_index(&mut self, len: usize) -> Result<usize, ResponseError> { if len == 0 { return Err(ResponseError::EmptyChoose); } Ok(self.draw(len as u64) as usize) }
    fn ratio(&mut self, numerator: u32, denominator: u32) -> Result<bool, ResponseError> { Ok(self.draw(denominator as u64) < numerator as u64) }
}

/// variable values for an operation, determined by the variable names only (some missing, some of the wrong type)
fn variable_values(op: &apollo_compiler::executable::Operation) -> apollo_compiler::response::JsonMap {
    let mut m = apollo_compiler::response::JsonMap::new();
    for v in op.variables.iter() {
        let tys = v.ty.to_string();
        let h = (fnv(v.name.as_str()) ^ fnv(&tys)).wrapping_mul(31).wrapping_add(fnv(&op.selection_set.to_string()));
        let base = tys.trim_matches(|c| c == '[' || c == ']' || c == '!');
        let good: serde_json_bytes::Value = match base {
            "Int" => serde_json_bytes::json!(7), "Float" => serde_json_bytes::json!(2.5), "String" | "ID" => serde_json_bytes::json!("x"), "Boolean" => serde_json_bytes::json!(h % 2 == 0),
            "E" => serde_json_bytes::json!("B"), "In" => serde_json_bytes::json!({"a": 1, "b": ["q"], "c": {"b": []}}),
            // the input object of the "five of everything" family: valid / five unknown keys / five fields of the wrong type
            "I" => match h % 5 { 0 => serde_json_bytes::json!({"q0": 1, "q1": 2, "q2": 3, "q3": 4, "q4": 5}), 1 => serde_json_bytes::json!({"x0": "s", "x1": "s", "x2": "s", "x3": "s", "x4": "s"}),
                _ => serde_json_bytes::json!({"x4": 4, "x0": 0, "y3": 3, "i": {"x1": 2, "l": [{"x2": 3}, {"y0": null}]}, "l": []}) },
            _ => serde_json_bytes::json!({"a": 1, "b": [1, 2]}),
        };
        // operations with many variables: fewer bad values per variable, so that some operations get through coercion
        let sel = if op.variables.len() >= 8 { h % 56 } else { h % 14 };
        let val: serde_json_bytes::Value = match sel {
            0 => continue,
            1 => serde_json_bytes::Value::Null,
            2 => serde_json_bytes::Value::String("wrong".into()),
            _ => if tys.starts_with('[') && h % 2 == 0 { serde_json_bytes::Value::Array(vec![good.clone(), good]) } else { good },
        };
        m.insert(v.name.as_str(), val);
    }
    m
}

fn fnv(s: &str) -> u64 {
    let mut h: u64 = 0xcbf29ce484222325;
    for b in s.as_bytes() { h ^= *b as u64; h = h.wrapping_mul(0x100000001b3); }
    h
}

const INTROSPECTION: &str = "{ __schema { queryType { name } types { name kind fields(includeDeprecated: true) { name args { name defaultValue } type { name kind ofType { name } } } possibleTypes { name } interfaces { name } enumValues { name } inputFields { name } } directives { name locations args { name } } } }";

/// every observable output of the compiler pipeline on (schema, document), as labelled strings
fn outputs(schema_src: &str, doc_src: &str) -> Vec<(&'static str, String)> {
    let mut out = vec![];
    let schema = match Schema::parse(schema_src, "schema.graphql") {
        Ok(s) => s,
        Err(e) => { out.push(("schema-build-diagnostics", e.errors.to_string())); e.partial }
    };
    // built-in scalars are always defined after a build from text (so `used_and_undefined` stays empty)
    let all_builtins = ["Int", "Float", "String", "Boolean", "ID"].iter().all(|b| schema.types.contains_key(*b));
    out.push(("builtin-scalars-defined-after-build", all_builtins.to_string()));
    out.push(("schema-serialized", schema.to_string()));
    let valid = match schema.validate() {
        Ok(v) => { out.push(("schema-valid-serialized", v.to_string())); Some(v) }
        Err(e) => {
            out.push(("schema-validate-diagnostics", e.errors.to_string()));
            let j: Vec<String> = e.errors.iter().map(|d| serde_json::to_string(&d.to_json()).unwrap()).collect(); out.push(("schema-validate-json", j.join("\n")));
            let r: Vec<String> = e.errors.iter().map(|d| d.to_report(Color::Never).into_string()).collect(); out.push(("schema-validate-report", r.join("\n")));
            out.push(("schema-partial-serialized", e.partial.to_string()));
            None
        }
    };
    if let Some(v) = &valid {
        // the order of the type map after validation (pruned / restored built-in scalars), and the implementers of every interface
        out.push(("valid-type-order", v.types.keys().map(|k| k.as_str()).collect::<Vec<_>>().join(",")));
        out.push(("valid-directive-order", v.directive_definitions.keys().map(|k| k.as_str()).collect::<Vec<_>>().join(",")));
        let imap = v.implementers_map();
        let imp: Vec<String> = v.types.keys().filter_map(|k| imap.get(k).map(|i| format!("{k}:{}|{}", i.objects.iter().map(|x| x.as_str()).collect::<Vec<_>>().join(","), i.interfaces.iter().map(|x| x.as_str()).collect::<Vec<_>>().join(",")))).collect();
        out.push(("implementers", imp.join(";")));
        out.push(("schema-valid-compact", v.serialize().no_indent().to_string()));
    }
    match ast::Document::parse(doc_src, "doc.graphql") {
        Ok(d) => {
            out.push(("ast-serialized", d.to_string()));
            if let Err(e) = d.validate_standalone_executable() { out.push(("standalone-diagnostics", e.to_string())); }
            match d.to_mixed_validate() {
                Ok((s2, d2)) => out.push(("ast-mixed-serialized", format!("{s2}\n{d2}"))),
                Err(e) => out.push(("ast-mixed-diagnostics", e.to_string())),
            }
        }
        Err(e) => out.push(("ast-diagnostics", e.errors.to_string())),
    }
    if let Some(valid) = &valid {
        let doc = match ExecutableDocument::parse(valid, doc_src, "doc.graphql") {
            Ok(d) => d,
            Err(e) => { out.push(("exec-build-diagnostics", e.errors.to_string())); e.partial }
        };
        out.push(("exec-serialized", doc.to_string()));
        match doc.validate(valid) {
            Err(e) => {
                out.push(("exec-validate-diagnostics", e.errors.to_string()));
                let j: Vec<String> = e.errors.iter().map(|d| serde_json::to_string(&d.to_json()).unwrap()).collect(); out.push(("exec-validate-json", j.join("\n")));
                let r: Vec<String> = e.errors.iter().map(|d| d.to_report(Color::Never).into_string()).collect(); out.push(("exec-validate-report", r.join("\n")));
            }
            Ok(vd) => {
                // request processing on the validated document: variables, execution with a mock resolver,
                // introspection of the document's own operations, apollo-smith responses with a fixed rng
                let imap = valid.implementers_map();
                // nested list types: keep generated lists at one item
                let max_list = if schema_src.contains("[[[") { 1 } else { 2 };
                let mut coerced = String::new(); let mut executed = String::new(); let mut intro = String::new(); let mut smith = String::new(); let mut depth = String::new();
                for (k, op) in vd.operations.iter().enumerate().take(4) {
                    let raw = variable_values(op);
                    match apollo_compiler::request::coerce_variable_values(valid, op, &raw) {
                        Ok(m) => { write!(coerced, "{k}:{}\n", serde_json::to_string(&*m).unwrap_or_default()).unwrap(); }
                        Err(e) => { write!(coerced, "{k}:ERR {}\n", serde_json::to_string(&e.to_graphql_error(&vd.sources)).unwrap_or_default()).unwrap(); }
                    }
                    write!(depth, "{k}:{}\n", apollo_compiler::introspection::check_max_depth(&vd, op).is_ok()).unwrap();
                    let root_ty = valid.root_operation(op.operation_type).map(|n| n.to_string()).unwrap_or_default();
                    BUDGET.store(5_000, std::sync::atomic::Ordering::SeqCst);
                    let root = Mock { schema: valid, ty: root_ty, depth: 0 };
                    match Execution::new(valid, &vd).operation(op).implementers_map(&imap).raw_variable_values(&raw).enable_schema_introspection(true).execute_sync(&root) {
                        Ok(resp) => { write!(executed, "{k}:{}\n", serde_json::to_string(&resp).unwrap_or_default()).unwrap(); }
                        Err(e) => { write!(executed, "{k}:ERR {}\n", serde_json::to_string(&e.to_graphql_error(&vd.sources)).unwrap_or_default()).unwrap(); }
                    }
                    if op.operation_type == ast::OperationType::Query && apollo_compiler::introspection::check_max_depth(&vd, op).is_ok() {
                        if let Ok(vars) = apollo_compiler::request::coerce_variable_values(valid, op, &Default::default()) {
                            match apollo_compiler::introspection::partial_execute(valid, &imap, &vd, op, &vars) {
                                Ok(resp) => { write!(intro, "{k}:{}\n", serde_json::to_string(&resp).unwrap_or_default()).unwrap(); }
                                Err(e) => { write!(intro, "{k}:ERR {}\n", serde_json::to_string(&e.to_graphql_error(&vd.sources)).unwrap_or_default()).unwrap(); }
                            }
                        }
                    }
                    let mut rng = FixedRng(Rng(0x5eed ^ k as u64));
                    let name = op.name.as_ref().map(|n| n.as_str());
                    match ResponseBuilder::new(&mut rng, &vd, valid).with_min_list_size(0).with_max_list_size(max_list).with_operation_name(name).build() {
                        Ok(v) => { write!(smith, "{k}:{}\n", serde_json::to_string(&v).unwrap_or_default()).unwrap(); }
                        Err(e) => { write!(smith, "{k}:ERR {e}\n").unwrap(); }
                    }
                }
                out.push(("coerced-variables", coerced));
                out.push(("max-depth", depth));
                out.push(("execution-response", executed));
                out.push(("operation-introspection", intro));
                out.push(("smith-response", smith));
            }
        }
        // introspection
        if let Ok(q) = ExecutableDocument::parse_and_validate(valid, INTROSPECTION, "i.graphql") {
            let imap = valid.implementers_map();
            if let Ok(op) = q.operations.get(None) {
                if let Ok(vars) = apollo_compiler::request::coerce_variable_values(valid, op, &Default::default()) {
                    if let Ok(resp) = apollo_compiler::introspection::partial_execute(valid, &imap, &q, op, &vars) {
                        out.push(("introspection-json", serde_json::to_string(&resp).unwrap()));
                    }
                }
            }
        }
    }
    let mixed = format!("{schema_src}\n{doc_src}");
    if let Err(e) = apollo_compiler::parser::Parser::new().parse_mixed_validate(&mixed, "mixed.graphql") { out.push(("mixed-diagnostics", e.to_string())); }
    out
}


// ---------------------------------------------------------------------------------------------------------
// "Five of everything": hash-order dependence only shows where a collection has several entries, and with
// four processes a two-entry collection agrees by chance one time in eight. Every collection the compiler keeps
// (types of each kind, fields, arguments, directives and their arguments and locations, enum values, union
// members, implemented interfaces, extensions, operations, variables, fragments, aliases, object-literal fields,
// JSON variable objects) gets N >= 5 entries at once, and every kind of diagnostic is provoked N times in the
// same input (N unused / undefined / duplicated / conflicting / cyclic … things), so that "which one is reported",
// "in which order" and "how the offenders are listed in the message" all have N! ways to differ.
pub const MULTI_VARIANTS: u64 = 44;
const ALL_LOCS: &str = "QUERY | MUTATION | SUBSCRIPTION | FIELD | FRAGMENT_DEFINITION | FRAGMENT_SPREAD | INLINE_FRAGMENT | VARIABLE_DEFINITION | SCHEMA | SCALAR | OBJECT | FIELD_DEFINITION | ARGUMENT_DEFINITION | INTERFACE | UNION | ENUM | ENUM_VALUE | INPUT_OBJECT | INPUT_FIELD_DEFINITION";

fn seq(n: usize, sep: &str, f: impl Fn(usize) -> String) -> String { (0..n).map(f).collect::<Vec<_>>().join(sep) }

/// schema variant `sv` (0 = valid) and document variant `dv` (0 = valid)
pub fn multi_texts(n: usize, sv: u64, dv: u64) -> (String, String) {
    let mut s = String::new();
    let rdirs = |k: usize| seq(k, "", |i| format!(" @r{i}(a{i}: {i})"));
    // --- schema
    write!(s, "schema{} {{ query: Query mutation: Mutation subscription: Subscription }}\n", rdirs(n)).unwrap();
    for i in 0..n {
        write!(s, "directive @r{i}({}) repeatable on {ALL_LOCS}\n", seq(n, ", ", |j| format!("a{j}: Int"))).unwrap();
        write!(s, "directive @o{i}(x: Int, y: I) on {ALL_LOCS}\n").unwrap();
        write!(s, "scalar S{i} @specifiedBy(url: \"https://s{i}\"){}\n", rdirs(2)).unwrap();
    }
    for i in 0..n {
        let imp = if i == 0 { String::new() } else { format!(" implements {}", seq(i, " & ", |j| format!("N{j}"))) };
        write!(s, "interface N{i}{imp}{} {{ id: ID {} }}\n", rdirs(2), seq(i + 1, " ", |j| format!("f{j}(p: Int = {j}): Int"))).unwrap();
    }
    for i in 0..n {
        write!(s, "type T{i} implements {}{} {{ id: ID {} {} arg({}): Int u: U n: N0 e: E l: [T{i}!] req({}): Int }}\n",
            seq(n, " & ", |j| format!("N{j}")), rdirs(n),
            seq(n, " ", |j| format!("f{j}(p: Int = {j}): Int")), seq(n, " ", |j| format!("t{j}: T{j}")),
            seq(n, ", ", |j| format!("a{j}: Int = {j}")), seq(n, ", ", |j| format!("r{j}: Int!"))).unwrap();
    }
    write!(s, "union U{} = {}\n", rdirs(2), seq(n, " | ", |j| format!("T{j}"))).unwrap();
    write!(s, "enum E{} {{ {} B }}\n", rdirs(2), seq(n, " ", |j| format!("V{j} @r{j}(a0: 1) @deprecated(reason: \"d{j}\")"))).unwrap();
    write!(s, "input I{} {{ {} i: I l: [I!] }}\n", rdirs(2), seq(n, " ", |j| format!("x{j}: Int = {j} @r{j}"))).unwrap();
    write!(s, "type Query {{ {} {} u: U us: [U] e(v: E = V0): E a({}): Int i(i: I): Int {} }}\n",
        seq(n, " ", |j| format!("t{j}: T{j}")), seq(n, " ", |j| format!("n{j}: N{j}")), seq(n, ", ", |j| format!("a{j}: Int = {j}")), seq(n, " ", |j| format!("s{j}: S{j}"))).unwrap();
    write!(s, "type Mutation {{ {} }}\ntype Subscription {{ {} }}\n", seq(n, " ", |j| format!("m{j}(x: Int): Int")), seq(n, " ", |j| format!("s{j}: Int"))).unwrap();
    for i in 0..n {
        write!(s, "extend type Query @r{i} {{ x{i}: Int }}\nextend enum E {{ X{i} }}\nextend input I {{ y{i}: Int }}\nextend union U @r{i}\nextend interface N0 @r{i}\nextend schema @r{i}\nextend scalar S0 @r{i}\n").unwrap();
    }
    match sv {
        0 => {}
        // N objects that miss N interface fields each
        1 => for i in 0..n { write!(s, "type M{i} implements {} {{ id: ID }}\n", seq(n, " & ", |j| format!("N{j}"))).unwrap(); },
        // duplicate definitions of every kind
        2 => for i in 0..n { write!(s, "type T{i} {{ z: Int }}\nscalar S{i}\ndirective @r{i} on FIELD\nenum E {{ Q{i} }}\nunion U = T{i}\ninput I {{ w{i}: Int }}\ninterface N{i} {{ id: ID }}\n").unwrap(); },
        // duplicate members inside one definition
        3 => { write!(s, "type D {{ {} {} }}\nenum DE {{ {} {} }}\nunion DU = {} | {}\ninput DI {{ {} {} }}\ntype DA {{ f({}, {}): Int }}\ntype DT implements {} & {} {{ id: ID f0(p: Int = 0): Int }}\ndirective @dd({}, {}) on FIELD | FIELD | QUERY | QUERY\n",
            seq(n, " ", |j| format!("d{j}: Int")), seq(n, " ", |j| format!("d{j}: Int")), seq(n, " ", |j| format!("W{j}")), seq(n, " ", |j| format!("W{j}")),
            seq(n, " | ", |j| format!("T{j}")), seq(n, " | ", |j| format!("T{j}")), seq(n, " ", |j| format!("d{j}: Int")), seq(n, " ", |j| format!("d{j}: Int")),
            seq(n, ", ", |j| format!("d{j}: Int")), seq(n, ", ", |j| format!("d{j}: Int")), seq(n, " & ", |_| "N0".to_string()), seq(n, " & ", |_| "N0".to_string()),
            seq(n, ", ", |j| format!("d{j}: Int")), seq(n, ", ", |j| format!("d{j}: Int"))).unwrap(); }
        // undefined types / directives, N each, in every position
        4 => { write!(s, "type UD {} {{ {} }}\nunion UU = {}\ninput UI {{ {} }}\ntype UT implements {} {{ id: ID }}\n",
            seq(n, "", |j| format!(" @zz{j}")), seq(n, " ", |j| format!("d{j}(a: Zi{j}): Zo{j}")), seq(n, " | ", |j| format!("Zu{j}")), seq(n, " ", |j| format!("d{j}: Zi{j}")), seq(n, " & ", |j| format!("Zn{j}"))).unwrap(); }
        // N non-null input-object cycles, N directive cycles
        5 => for i in 0..n { write!(s, "input C{i} {{ next: C{}! self: C{i}! }}\ndirective @c{i}(a: Int @c{}) on ARGUMENT_DEFINITION\n", (i + 1) % n, (i + 1) % n).unwrap(); },
        // wrong kinds: N non-object union members, N non-interface implements, input/output type confusion
        6 => { write!(s, "union WU = {} | {} | E | I | U\ntype WT implements {} & U & E {{ id: ID {} }}\ninput WI {{ {} }}\n",
            seq(n, " | ", |j| format!("N{j}")), seq(n, " | ", |j| format!("S{j}")), seq(n, " & ", |j| format!("T{j}")), seq(n, " ", |j| format!("d{j}(a: T{j}): I")), seq(n, " ", |j| format!("d{j}: T{j}"))).unwrap(); }
        // reserved names, empty definitions
        7 => for i in 0..n { write!(s, "type __R{i} {{ __f{i}(__a{i}: Int): Int }}\ndirective @__d{i} on FIELD\nenum __E{i} {{ __V{i} }}\ntype Empty{i}\ninput EmptyI{i}\nenum EmptyE{i}\nunion EmptyU{i}\n").unwrap(); },
        // transitive interfaces not declared; argument / type mismatches with the interface, N each
        8 => { for i in 0..n { write!(s, "type P{i} implements N{} {{ id: ID {} }}\n", n - 1, seq(n, " ", |j| format!("f{j}(p: String, extra{j}: Int!): String"))).unwrap(); } }
        // invalid default values and directive arguments, N each
        9 => { write!(s, "input BD {{ {} }}\ntype BT {{ f({}): Int {} }}\n", seq(n, " ", |j| format!("d{j}: Int = \"s{j}\"")), seq(n, ", ", |j| format!("d{j}: I = {{ {} }}", seq(n, ", ", |k| format!("q{k}: 1")))),
            seq(n, " ", |j| format!("g{j}: Int @r{j}(a{j}: \"s\", zz{j}: 1) @o{j}(x: 1) @o{j}(x: 2)"))).unwrap(); }
        // orphan extensions, extensions of the wrong kind
        10 => for i in 0..n { write!(s, "extend type Orphan{i} {{ a: Int }}\nextend enum T{i} {{ A }}\nextend union E = T{i}\nextend input U {{ a{i}: Int }}\nextend interface I {{ a{i}: Int }}\nextend scalar T{i} @r0\n").unwrap(); },
        // root operation types: wrong kinds, duplicates
        _ => { write!(s, "extend schema {{ query: T0 }}\nextend schema {{ mutation: I subscription: U }}\nschema {{ query: Query }}\n").unwrap(); }
    }
    // --- document
    let mut d = String::new();
    let vars = |extra: &str| format!("({}, $e: E = V1, $i: I, $b: Boolean = true{extra})", seq(n, ", ", |j| format!("$v{j}: Int = {j}")));
    let body = |k: usize| format!("a({}) {} t{k} {{ ...F{k} {} }} u {{ __typename {} }} n0 {{ id {} }} k{k}: e(v: $e) i(i: $i) i2: i(i: {{ {}, i: {{ x0: $v0 }}, l: [{{ x1: 1 }}, {{ x2: $v1 }}] }}) us @skip(if: $b) {{ ... on N{k} {{ f0 }} }}",
        seq(n, ", ", |j| format!("a{j}: $v{j}")), seq(n, " ", |j| format!("s{j}")),
        seq(n, " ", |j| format!("...F{j}")), seq(n, " ", |j| format!("... on T{j} {{ f{j} a{j}: f{j}(p: {j}) }}")), seq(n, " ", |j| format!("... on T{j} {{ id t{j} {{ id }} }}")),
        seq(n, ", ", |j| format!("x{j}: {j}")));
    let frag = |k: usize, sel: &str| format!("fragment F{k} on N{k}{} {{ id f0 {sel} }}\n", rdirs(2));
    match dv {
        0 | 1 | 2 | 3 | 4 | 5 | 6 | 7 | 8 | 9 => {
            for k in 0..n {
                let (v, b): (String, String) = match dv {
                    // N unused variables per operation
                    1 => (vars(&seq(n, "", |j| format!(", $unused{j}: Int"))), body(k)),
                    // N undefined variables per operation
                    2 => (vars(""), format!("{} und: a({})", body(k), seq(n, ", ", |j| format!("a{j}: $undefined{j}")))),
                    // every variable defined twice
                    3 => (vars(&seq(n, "", |j| format!(", $v{j}: Int"))), body(k)),
                    // every argument given twice, non-repeatable directives applied twice, N times
                    4 => (vars(""), format!("{} dup: a({}, {}) {}", body(k), seq(n, ", ", |j| format!("a{j}: 1")), seq(n, ", ", |j| format!("a{j}: 2")), seq(n, " ", |j| format!("q{j}: x{j} @o{j}(x: 1) @o{j}(x: 2) @o{}(x: 3) @o{}(x: 4)", (j + 1) % n, (j + 1) % n)))),
                    // N unknown fields, arguments, directives, types
                    5 => (vars(&seq(n, "", |j| format!(", $z{j}: Zt{j}"))), format!("{} {} a({}) {} {}", body(k), seq(n, " ", |j| format!("zf{j}")), seq(n, ", ", |j| format!("za{j}: $z{j}")), seq(n, " ", |j| format!("x{j} @zd{j}")), seq(n, " ", |j| format!("... on Zt{j} {{ a }}")))),
                    // N conflicting selections of one response key; conflicting arguments
                    6 => (vars(""), format!("{} {} {} t0 {{ {} }}", body(k), seq(n, " ", |j| format!("c: x{j}")), seq(n, " ", |j| format!("ca: a(a{j}: {j})")), seq(n, " ", |j| format!("c: f{j} ca: f0(p: {j})")))),
                    // N values of the wrong type, object literals with N unknown and N duplicated fields, N missing required arguments
                    7 => (vars(""), format!("{} w: a({}) wi: i(i: {{ {}, {}, {} }}) t0 {{ req r2: req({}) }}", body(k), seq(n, ", ", |j| format!("a{j}: \"s{j}\"")), seq(n, ", ", |j| format!("q{j}: 1")), seq(n, ", ", |j| format!("x{j}: 1")), seq(n, ", ", |j| format!("x{j}: \"s\"")), seq(n, ", ", |j| format!("r{j}: null")))),
                    // N leaf fields with selections, N composite fields without, N impossible spreads, N spreads on input / scalar types
                    8 => (vars(""), format!("{} {} {} t0 {{ {} }} {}", body(k), seq(n, " ", |j| format!("x{j} {{ id }}")), seq(n, " ", |j| format!("t{j}")), seq(n, " ", |j| format!("... on T{} {{ id }}", j + 1)), seq(n, " ", |j| format!("... on S{j} {{ id }} ... on I {{ x{j} }}")))),
                    // N directives in the wrong location, N variables of output types, N variable usages in mismatching positions
                    9 => (vars(&seq(n, "", |j| format!(", $o{j}: T{j}, $l{j}: [Int]"))), format!("{} {} wl: a({})", body(k), seq(n, " ", |j| format!("x{j} @deprecated @specifiedBy(url: \"u\")")), seq(n, ", ", |j| format!("a{j}: $l{j}")))),
                    _ => (vars(""), body(k)),
                };
                write!(d, "query Q{k}{v}{} {{ {b} }}\n", rdirs(2)).unwrap();
            }
            write!(d, "mutation M($x: Int) {{ {} }}\nsubscription S {{ s0 }}\n", seq(n, " ", |j| format!("m{j}(x: $x)"))).unwrap();
            for k in 0..n { d.push_str(&frag(k, &seq(k + 1, " ", |j| format!("g{j}: f{j}")))); }
        }
        // N unused fragments / N undefined fragments
        10 => { write!(d, "{{ x0 {} }}\n", seq(n, " ", |j| format!("...Und{j}"))).unwrap(); for k in 0..n { d.push_str(&frag(k, "")); } }
        // duplicate operation and fragment names, N each; N anonymous operations
        11 => { for k in 0..n { write!(d, "query Q{k} {{ x{k} }}\nquery Q{k} {{ x{k} t0 {{ ...F{k} }} }}\n{{ x{k} }}\n").unwrap(); d.push_str(&frag(k, "")); d.push_str(&frag(k, "f0")); } }
        // fragment cycles: one ring of N, N self-cycles, N two-cycles
        12 => { write!(d, "{{ t0 {{ {} }} }}\n", seq(n, " ", |j| format!("...F{j} ...G{j} ...H{j} ...K{j}"))).unwrap();
            for k in 0..n { write!(d, "fragment F{k} on T0 {{ id ...F{} }}\nfragment G{k} on T0 {{ ...G{k} }}\nfragment H{k} on T0 {{ t0 {{ ...K{k} }} }}\nfragment K{k} on T0 {{ ... on T0 {{ ...H{k} }} }}\n", (k + 1) % n).unwrap(); } }
        // subscriptions with N root fields, introspection at the root, through fragments
        13 => { write!(d, "subscription A {{ {} }}\nsubscription B {{ ...SF __typename }}\nsubscription C {{ ... {{ {} }} }}\nfragment SF on Subscription {{ {} }}\n", seq(n, " ", |j| format!("s{j}")), seq(n, " ", |j| format!("k{j}: s0")), seq(n, " ", |j| format!("s{j}"))).unwrap(); }
        // executable definitions mixed with type-system definitions, N each
        14 => { for k in 0..n { write!(d, "type Extra{k} {{ a: Int }}\nquery E{k} {{ x{k} }}\nextend type Query {{ more{k}: Int }}\ndirective @extra{k} on FIELD\n").unwrap(); } }
        // N aliases of every root field, @skip/@include with variables, nested lists: valid, executed, introspected
        15 => { write!(d, "query Big($b: Boolean = false) {{ {} __schema {{ types {{ name }} directives {{ name args {{ name }} }} }} {} }}\n",
            seq(n, " ", |j| format!("k{j}: t{j} {{ id l {{ id {} }} u {{ __typename ... on N0 {{ f0 }} }} }}", seq(n, " ", |i| format!("a{i}: f{i}(p: {i})")))),
            seq(n, " ", |j| format!("ty{j}: __type(name: \"T{j}\") {{ name fields {{ name args {{ name defaultValue }} }} interfaces {{ name }} possibleTypes {{ name }} }} in{j}: __type(name: \"N{j}\") {{ possibleTypes {{ name }} interfaces {{ name }} }}"))).unwrap(); }
        // syntax errors, N of them, spread over the document
        _ => { for k in 0..n { write!(d, "query Q{k} {{ x{k} {{ }} a(a0: ) ] }}\nfragment on T{k} {{ id }}\n").unwrap(); } }
    }
    (s, d)
}

/// variant index -> (schema variant, document variant): the valid schema with every document, every schema with the valid document
pub fn multi_instance(idx: u64) -> (String, String) {
    let n = 5;
    let v = idx % MULTI_VARIANTS;
    if v < 17 { multi_texts(n, 0, v) } else if v < 29 { multi_texts(n, v - 17 + 1, 0) } else {
        // both broken at once (the document is checked against a partial schema)
        multi_texts(n, 1 + (v - 29) % 11, 1 + (v - 29) * 3 % 16)
    }
}

/// operations with several variables, some unused, some defined twice; also in fragments and directives
pub fn vars_doc(rng: &mut Rng) -> (String, String) {
    let schema = "type Query { f(a: Int, b: Int, c: Int): Int q: Query }\ndirective @d(x: Int) on FIELD | QUERY | FRAGMENT_SPREAD | INLINE_FRAGMENT | FRAGMENT_DEFINITION".to_string();
    let mut d = String::new();
    let nops = 1 + rng.below(3);
    for op in 0..nops {
        let nv = 1 + rng.below(9);
        let names: Vec<String> = (0..nv).map(|i| if rng.chance(1, 8) { format!("v{}", rng.below(i + 1)) } else { format!("v{i}") }).collect();
        write!(d, "query Q{op}(").unwrap();
        for n in &names { write!(d, "${n}: Int{} ", if rng.chance(1, 4) { " = 1" } else { "" }).unwrap(); }
        d.push(')');
        if rng.chance(1, 4) { write!(d, " @d(x: ${})", rng.pick(&names)).unwrap(); }
        d.push_str(" { ");
        for _ in 0..rng.below(3) { write!(d, "f(a: ${}) ", rng.pick(&names)).unwrap(); }
        if rng.chance(1, 3) { write!(d, "q {{ ...F{op} }} ").unwrap(); } else { d.push_str("q { f } "); }
        if rng.chance(1, 4) { write!(d, "... @d(x: ${}) {{ f }} ", rng.pick(&names)).unwrap(); }
        d.push_str("}\n");
        if d.contains(&format!("...F{op}")) { write!(d, "fragment F{op} on Query {{ f(b: ${}) }}\n", rng.pick(&names)).unwrap(); }
    }
    (schema, d)
}

const EXEC_SCHEMA: &str = "type Query { a(x: Int, s: String = \"d\", i: In, l: [Int!]): Int b: String n: Node ns(first: Int = 2): [Node!]! u: U us: [U] e(v: E = A): E q: Query t1: T1 }
interface Node { id: ID! name: String }
type T1 implements Node { id: ID! name: String t1: Int q: Query peers: [[T1!]] }
type T2 implements Node { id: ID! name: String t2: [E] f: Float }
union U = T1 | T2
enum E { A B C }
input In { a: Int = 3 b: [String!] c: In }
type Mutation { set(x: Int!): Int q: Query }";

/// valid operations on a fixed schema: variables (all used), aliases, fragments, abstract types, lists, @skip/@include
fn exec_doc(rng: &mut Rng) -> (String, String) {
    fn sels(rng: &mut Rng, ty: &str, depth: usize, o: &mut String, frags: &mut Vec<(String, String)>) {
        let n = 1 + rng.below(4);
        for _ in 0..n {
            if rng.chance(1, 5) { o.push_str("__typename "); continue }
            let alias = if rng.chance(1, 4) { format!("k{}: ", rng.below(4)) } else { String::new() };
            let dir = match rng.below(8) { 0 => " @skip(if: $b)", 1 => " @include(if: $b)", 2 => " @include(if: true)", _ => "" };
            let obj = |rng: &mut Rng, name: &str, t: &str, o: &mut String, frags: &mut Vec<(String, String)>| {
                if depth >= 3 { o.push_str("__typename "); return }
                write!(o, "{alias}{name}{dir} {{ ").unwrap(); sels(rng, t, depth + 1, o, frags); o.push_str("} ");
            };
            match ty {
                "Query" => match rng.below(10) {
                    0 => write!(o, "{alias}a(x: $x, s: $s, i: $i, l: $l){dir} ").unwrap(),
                    1 => write!(o, "{alias}a(x: 1, i: {{a: $x, c: {{b: [\"z\"]}}}}){dir} ").unwrap(),
                    2 => write!(o, "{alias}b{dir} ").unwrap(),
                    3 => write!(o, "{alias}e(v: $e){dir} ").unwrap(),
                    4 => obj(rng, "n", "Node", o, frags),
                    5 => obj(rng, "ns(first: $x)", "Node", o, frags),
                    6 => obj(rng, "u", "U", o, frags),
                    7 => obj(rng, "us", "U", o, frags),
                    8 => obj(rng, "q", "Query", o, frags),
                    _ => obj(rng, "t1", "T1", o, frags),
                },
                "Node" => match rng.below(5) {
                    0 => write!(o, "{alias}id{dir} ").unwrap(), 1 => write!(o, "{alias}name{dir} ").unwrap(),
                    2 => { o.push_str("... on T1 { "); sels(rng, "T1", depth + 1, o, frags); o.push_str("} ") }
                    3 => { o.push_str("... on T2 { "); sels(rng, "T2", depth + 1, o, frags); o.push_str("} ") }
                    _ => { let k = frags.len(); let mut b = String::new(); sels(rng, "Node", depth + 1, &mut b, frags); frags.push((format!("F{k} on Node"), b)); write!(o, "...F{k} ").unwrap() }
                },
                "U" => match rng.below(3) {
                    0 => { o.push_str("... on T1 { "); sels(rng, "T1", depth + 1, o, frags); o.push_str("} ") }
                    1 => { o.push_str("... on T2 { "); sels(rng, "T2", depth + 1, o, frags); o.push_str("} ") }
                    _ => { o.push_str("... on Node { "); sels(rng, "Node", depth + 1, o, frags); o.push_str("} ") }
                },
                "T1" => match rng.below(5) {
                    0 => write!(o, "{alias}id{dir} ").unwrap(), 1 => write!(o, "{alias}t1{dir} ").unwrap(),
                    2 => obj(rng, "q", "Query", o, frags), 3 => obj(rng, "peers", "T1", o, frags),
                    _ => write!(o, "{alias}name{dir} ").unwrap(),
                },
                _ => match rng.below(3) { 0 => write!(o, "{alias}t2{dir} ").unwrap(), 1 => write!(o, "{alias}f{dir} ").unwrap(), _ => write!(o, "{alias}id{dir} ").unwrap() },
            }
        }
    }
    let mut d = String::new();
    let nops = 1 + rng.below(3);
    let mut frags = vec![];
    for k in 0..nops {
        let mut body = String::new();
        let mutation = rng.chance(1, 6);
        if mutation { body.push_str("set(x: 1) q { "); sels(rng, "Query", 1, &mut body, &mut frags); body.push_str("} "); } else { sels(rng, "Query", 0, &mut body, &mut frags); }
        // declare exactly the variables the operation (and its fragments, conservatively all) may use
        let all = format!("{body}{}", frags.iter().map(|f| f.1.as_str()).collect::<String>());
        let mut decl = vec![];
        for (v, t) in [("$x", "Int"), ("$s", "String = \"v\""), ("$i", "In"), ("$l", "[Int!]"), ("$e", "E = C"), ("$b", "Boolean!")] { if all.contains(v) { decl.push(format!("{v}: {t}")); } }
        let vars = if decl.is_empty() { String::new() } else { format!("({})", decl.join(", ")) };
        write!(d, "{} Op{k}{vars} {{ {body}}}\n", if mutation { "mutation" } else { "query" }).unwrap();
        if !frags.is_empty() && k + 1 < nops { /* fragments are shared by the operations that spread them */ }
    }
    for (h, b) in &frags { write!(d, "fragment {h} {{ {b}}}\n").unwrap(); }
    (EXEC_SCHEMA.to_string(), d)
}

/// schema texts with cyclic / diamond `implements` graphs, as an existing document for apollo-smith
fn smith_base(rng: &mut Rng) -> String {
    let k = 2 + rng.below(5);
    let mut s = String::from("type Query { a: Int }\n");
    for i in 0..k {
        let mut parents = vec![];
        for j in 0..k { if j != i && rng.chance(1, 3) { parents.push(format!("N{j}")); } }
        let imp = if parents.is_empty() { String::new() } else { format!(" implements {}", parents.join(" & ")) };
        write!(s, "interface N{i}{imp} {{ f{i}: Int }}\n").unwrap();
    }
    for i in 0..rng.below(3) { write!(s, "type T{i} implements N{} {{ g: Int }}\n", rng.below(k)).unwrap(); }
    s
}

/// `apollo_smith::Document::try_from` panics ("object type definition must have fields definition") on an object or
/// interface definition / extension without a fields block (valid GraphQL, e.g. `extend interface N0 @d`): a defect of
/// apollo-smith outside this property (it is deterministic); such lines are left out of the existing document.
/// A self-referential input object makes apollo-smith recurse without bound (known finding of C32): the input object
/// of the existing document loses its self references.
fn smith_ok(schema: &str) -> String { schema.replace(" i: I l: [I!] }", " }").lines().filter(|l| !(l.starts_with("extend interface") && !l.contains('{'))).collect::<Vec<_>>().join("\n") }

fn smith_outputs(bytes: &[u8], base: Option<&str>) -> String {
    use apollo_smith::DocumentBuilder;
    use arbitrary::Unstructured;
    let mut u = Unstructured::new(bytes);
    let builder = match base {
        None => DocumentBuilder::new(&mut u),
        Some(text) => {
            let cst = apollo_parser::Parser::new(text).parse();
            let doc = match apollo_smith::Document::try_from(cst.document()) { Ok(d) => d, Err(e) => return format!("ERR {e:?}") };
            match DocumentBuilder::with_document(&mut u, doc) { Ok(b) => b, Err(e) => return format!("ERR {e}") }
        }
    };
    match builder.build() { Ok(doc) => String::from(doc), Err(e) => format!("ERR {e}") }
}

#[derive(Clone, Copy)]
pub struct Plan { pub seed: u64, pub soups: u64, pub vars: u64, pub smith: u64 }
fn exec_count(plan: Plan) -> u64 { plan.vars / 2 }

pub enum Input { Compiler(String, String), Smith(Vec<u8>, Option<String>) }

pub fn input(plan: Plan, kind: &str, idx: u64) -> Input {
    let mut rng = Rng(plan.seed ^ idx.wrapping_mul(0x9E37_79B9_7F4A_7C15) ^ fnv(kind));
    match kind {
        "soup" => { let (s, d) = crate::p21::soup_instance(plan.seed, idx); Input::Compiler(s, d) }
        "vars" => { let (s, d) = vars_doc(&mut rng); Input::Compiler(s, d) }
        "exec" => { let (s, d) = exec_doc(&mut rng); Input::Compiler(s, d) }
        "multi" => { let (s, d) = multi_instance(idx); Input::Compiler(s, d) }
        "family" => {
            let f = crate::p21::FAMILIES[(idx as usize) % crate::p21::FAMILIES.len()];
            let n = [3usize, 40, 110, 140][(idx as usize / crate::p21::FAMILIES.len()) % 4];
            let (s, d) = crate::p21::family(f, n); Input::Compiler(s, d)
        }
        _ => {
            let len = 64 + rng.below(2000);
            let bytes: Vec<u8> = (0..len).map(|_| rng.next() as u8).collect();
            // existing documents: none / a random `implements` graph / the "five of everything" schema (several
            // members in every collection apollo-smith keeps about an existing document), without operations
            let base = match rng.below(8) {
                0 | 1 | 2 => None,
                3 | 4 | 5 => Some(smith_base(&mut rng)),
                _ => Some(smith_ok(&multi_texts(3 + rng.below(3), 0, 0).0)),
            };
            Input::Smith(bytes, base)
        }
    }
}

fn kinds(plan: Plan) -> Vec<(&'static str, u64)> { vec![("multi", MULTI_VARIANTS), ("family", 48), ("vars", plan.vars), ("exec", exec_count(plan)), ("soup", plan.soups), ("smith", plan.smith)] }

/// `VH_C22_CHILD=seed:soups:vars:smith`
pub fn child_main(spec: &str) {
    if let Some(rest) = spec.strip_prefix("show:") {
        // developer aid: `show:<kind>:<idx>:<seed>` prints every output of one input in full
        let f: Vec<&str> = rest.split(':').collect();
        let plan = Plan { seed: f[2].parse().unwrap(), soups: 0, vars: 0, smith: 0 };
        if let Input::Compiler(s, d) = input(plan, f[0], f[1].parse().unwrap()) {
            println!("SCHEMA {s}\nDOCUMENT {d}");
            for (k, v) in outputs(&s, &d) { println!("== {k}\n{v}"); }
        }
        println!("DONE");
        return;
    }
    let p: Vec<u64> = spec.split(':').map(|x| x.parse().unwrap()).collect();
    let plan = Plan { seed: p[0], soups: p[1], vars: p[2], smith: p[3] };
    for (kind, n) in kinds(plan) {
        for idx in 0..n {
            let line = match catch(|| match input(plan, kind, idx) {
                Input::Compiler(s, d) => {
                    let outs = outputs(&s, &d);
                    let missing = outs.iter().any(|(k, v)| *k == "builtin-scalars-defined-after-build" && v != "true");
                    let mut l = outs.into_iter().map(|(k, v)| format!("{k}={:016x}", fnv(&v))).collect::<Vec<_>>().join(" ");
                    if missing { l.push_str(" BUILTIN-MISSING=1"); }
                    l
                }
                Input::Smith(bytes, base) => format!("smith={:016x}", fnv(&smith_outputs(&bytes, base.as_deref()))),
            }) { Ok(l) => l, Err(p) => format!("PANIC {}", p.replace('\n', " ")) };
            println!("{kind}\t{idx}\t{line}");
        }
    }
    // not an input text: a validated schema edited in memory so that several pruned built-in scalars are used
    // again (the audited site `used_and_undefined`); reported as a statistic, outside the property's quantifier
    for (idx, adds) in [vec!["Int", "Float", "ID"], vec!["ID", "Int"], vec!["Float", "ID", "Int"]].iter().enumerate() {
        let line = catch(|| inmemory_restore(adds)).unwrap_or_else(|p| format!("PANIC {p}"));
        println!("edit\t{idx}\ttype-order={line}");
    }
    println!("DONE");
}

fn inmemory_restore(adds: &[&str]) -> String {
    let Ok(valid) = Schema::parse_and_validate("type Query { a: String }", "s.graphql") else { return "invalid".into() };
    let mut cur = valid.into_inner();
    let before = cur.types.keys().map(|k| k.to_string()).collect::<Vec<_>>();
    let Some(ExtendedType::Object(q)) = cur.types.get_mut("Query") else { return "no-query".into() };
    for (i, b) in adds.iter().enumerate() {
        let fname = apollo_compiler::Name::new(&format!("extra{i}")).unwrap();
        let fdef = apollo_compiler::schema::FieldDefinition { description: None, name: fname.clone(), arguments: vec![], ty: ast::Type::Named(apollo_compiler::Name::new(b).unwrap()), directives: Default::default() };
        q.make_mut().fields.insert(fname, apollo_compiler::schema::Component::new(fdef));
    }
    match cur.validate() {
        Ok(v) => format!("{}->{}", before.len(), v.types.keys().map(|k| k.as_str()).filter(|k| adds.contains(k)).collect::<Vec<_>>().join(",")),
        Err(e) => format!("ERR {}", e.errors.to_string().lines().next().unwrap_or("")),
    }
}

fn unusedvars_stream(ctx: &mut Ctx) {
    let n = if ctx.thorough { 30_000 } else { 4_000 };
    for _ in 0..n {
        // one operation; variables v<i> at known offsets; some used
        let nv = 1 + ctx.rng.below(8);
        let names: Vec<usize> = (0..nv).map(|i| if ctx.rng.chance(1, 6) { ctx.rng.below(i + 1) } else { i }).collect();
        let mut text = String::from("query Q(");
        let mut defs = vec![];
        for n in &names { defs.push((*n, text.len())); write!(text, "$v{n}: Int ").unwrap(); }
        text.push_str(") { ");
        let mut used = vec![];
        for _ in 0..ctx.rng.below(4) { let u = *ctx.rng.pick(&names); used.push(u); write!(text, "f(a: $v{u}) ").unwrap(); }
        text.push_str("__typename }");
        let doc = match ast::Document::parse(text.as_str(), "v.graphql") { Ok(d) => d, Err(_) => { ctx.fail("unusedvars-generator-parse-error", &text, ""); continue } };
        let mut got = vec![];
        if let Err(errors) = doc.validate_standalone_executable() {
            for d in errors.iter() {
                let msg = d.error.to_string();
                if let Some(rest) = msg.strip_prefix("unused variable: `$v") { got.push(rest.trim_end_matches('`').to_string()); }
            }
        }
        let vars: Vec<String> = defs.iter().map(|(n, o)| format!("{n}@{o}")).collect();
        let used_s: Vec<String> = used.iter().map(|u| u.to_string()).collect();
        ctx.case("unusedvars", &[vars.join(","), used_s.join(",")], &got.join(","));
        if got.len() >= 2 { ctx.nontrivial(&text); ctx.stat("unusedvars_with_two_or_more_unused"); }
    }
}

/// the built-in scalar bookkeeping of `validate_schema` on schemas edited in memory (the only way to reach the
/// audited iteration site): keys of `schema.types` before / after, against the model `finalTypes`
fn restore_stream(ctx: &mut Ctx) {
    const B: [&str; 5] = ["Int", "Float", "String", "Boolean", "ID"];
    let code = |order: &mut Vec<String>, k: &str| -> usize { if let Some(i) = B.iter().position(|b| *b == k) { i } else { if let Some(p) = order.iter().position(|x| x == k) { 10 + p } else { order.push(k.to_string()); 10 + order.len() - 1 } } };
    let mut seqs: Vec<Vec<usize>> = vec![vec![]];
    for a in 0..5 { seqs.push(vec![a]); for b in 0..5 { seqs.push(vec![a, b]); if ctx.thorough || (a + b) % 2 == 0 { for c in 0..5 { seqs.push(vec![a, b, c]); } } } }
    for mask in 0..8u32 {
        let mut text = String::from("type Query { a: String");
        if mask & 1 != 0 { text.push_str(" i: Int"); } if mask & 2 != 0 { text.push_str(" f: Float"); } if mask & 4 != 0 { text.push_str(" d: ID"); }
        text.push_str(" }");
        let Ok(valid) = Schema::parse_and_validate(&text, "s.graphql") else { ctx.fail("restore-generator-invalid", &text, ""); continue };
        for adds in &seqs {
            let mut cur = valid.clone().into_inner();
            let Some(ExtendedType::Object(q)) = cur.types.get_mut("Query") else { continue };
            for (i, b) in adds.iter().enumerate() {
                let fname = apollo_compiler::Name::new(&format!("extra{i}")).unwrap();
                let fdef = apollo_compiler::schema::FieldDefinition { description: None, name: fname.clone(), arguments: vec![], ty: ast::Type::NonNullNamed(apollo_compiler::Name::new(B[*b]).unwrap()), directives: Default::default() };
                q.make_mut().fields.insert(fname, apollo_compiler::schema::Component::new(fdef));
            }
            let mut order: Vec<String> = vec![];
            let before: Vec<usize> = cur.types.keys().map(|k| code(&mut order, k.as_str())).collect();
            // every reference to a built-in scalar anywhere in the schema
            let mut refs: Vec<usize> = vec![];
            let mut see = |t: &ast::Type| { if let Some(i) = B.iter().position(|b| *b == t.inner_named_type().as_str()) { refs.push(i); } };
            for d in cur.directive_definitions.values() { for a in &d.arguments { see(&a.ty); } }
            for t in cur.types.values() {
                match t {
                    ExtendedType::Object(o) => for f in o.fields.values() { see(&f.ty); for a in &f.arguments { see(&a.ty); } },
                    ExtendedType::Interface(o) => for f in o.fields.values() { see(&f.ty); for a in &f.arguments { see(&a.ty); } },
                    ExtendedType::InputObject(o) => for f in o.fields.values() { see(&f.ty); },
                    _ => {}
                }
            }
            let after: Vec<usize> = match cur.validate() { Ok(v) => v.types.keys().map(|k| code(&mut order, k.as_str())).collect(), Err(e) => { ctx.fail("restore-validate-failed", &text, &e.errors.to_string()); continue } };
            let kept: Vec<usize> = after.iter().copied().filter(|k| before.contains(k)).collect();
            let mut restored: Vec<usize> = after.iter().copied().filter(|k| !before.contains(k)).collect();
            // an `IndexMap` insert appends: the restored definitions are the tail of the map
            if [kept.clone(), restored.clone()].concat() != after { ctx.fail("restored-scalar-not-appended", &text, &format!("adds {adds:?}: keys {after:?}")); }
            if restored.len() >= 2 { ctx.stat("restore_two_or_more"); ctx.nontrivial(&format!("{mask}{adds:?}")); }
            restored.sort();
            let s = |v: &[usize]| v.iter().map(|x| x.to_string()).collect::<Vec<_>>().join(",");
            ctx.case("restore", &[s(&before), s(&refs)], &s(&[kept, restored].concat()));
        }
    }
}

pub fn run(ctx: &mut Ctx) {
    unusedvars_stream(ctx);
    restore_stream(ctx);
    let plan = if ctx.thorough { Plan { seed: ctx.seed, soups: 8_000, vars: 8_000, smith: 6_000 } } else { Plan { seed: ctx.seed, soups: 1_200, vars: 1_500, smith: 1_200 } };
    let procs = if ctx.thorough { 8 } else { 4 };
    let spec = format!("{}:{}:{}:{}", plan.seed, plan.soups, plan.vars, plan.smith);
    let kids: Vec<_> = (0..procs).map(|_| std::process::Command::new(std::env::current_exe().unwrap()).arg("C22").env("VH_C22_CHILD", &spec)
        .stdout(std::process::Stdio::piped()).stderr(std::process::Stdio::null()).spawn().expect("spawn")).collect();
    let outs: Vec<(String, bool)> = kids.into_iter().map(|k| { let o = k.wait_with_output().unwrap(); let s = String::from_utf8_lossy(&o.stdout).to_string(); let ok = o.status.success() && s.trim_end().ends_with("DONE"); (s, ok) }).collect();
    ctx.stat_n("processes", procs as u64);
    for (i, (_, ok)) in outs.iter().enumerate() { if !ok { ctx.fail("child-crashed", &format!("process {i} of {procs}, spec {spec}"), "a child process did not finish"); } }
    let lines: Vec<Vec<&str>> = outs.iter().map(|(s, _)| s.lines().collect()).collect();
    let n = lines.iter().map(|l| l.len()).min().unwrap_or(0);
    for li in 0..n {
        let first = lines[0][li];
        if first == "DONE" { continue }
        let f: Vec<&str> = first.splitn(3, '\t').collect();
        if f.len() < 3 { continue }
        ctx.stat(&format!("inputs:{}", f[0]));
        if f[2].starts_with("PANIC") { ctx.fail(&format!("panic:{}", f[0]), &format!("{} {}", f[0], f[1]), f[2]); }
        if f[0] == "edit" {
            // in-memory edit (not an input text): only recorded
            let same = lines[1..].iter().all(|o| o[li] == first);
            ctx.stat(if same { "inmemory_restore_type_order_same" } else { "inmemory_restore_type_order_differs" });
            if !f[2].contains("->") || f[2].contains("ERR") { ctx.fail("inmemory-restore-failed", f[1], f[2]); }
            continue;
        }
        if f[2].contains("BUILTIN-MISSING") {
            let idx: u64 = f[1].parse().unwrap_or(0);
            if let Input::Compiler(s, _) = input(plan, f[0], idx) { ctx.fail("builtin-scalar-missing-after-build", &s, "a schema built from text does not define all five built-in scalars: the audited site `used_and_undefined` is reachable from text"); }
        }
        for label in f[2].split(' ') { if let Some((k, _)) = label.split_once('=') { ctx.stat(&format!("compared:{k}")); } }
        let mut differing: Vec<String> = vec![];
        for other in &lines[1..] {
            if other[li] != first {
                let a: Vec<&str> = f[2].split(' ').collect();
                let g: Vec<&str> = other[li].splitn(3, '\t').collect();
                let b: Vec<&str> = g.get(2).unwrap_or(&"").split(' ').collect();
                for (x, y) in a.iter().zip(b.iter()) { if x != y { let k = x.split('=').next().unwrap_or("?").to_string(); if !differing.contains(&k) { differing.push(k); } } }
                if a.len() != b.len() && differing.is_empty() { differing.push("set-of-outputs".into()); }
            }
        }
        if !differing.is_empty() {
            let idx: u64 = f[1].parse().unwrap_or(0);
            let desc = match input(plan, f[0], idx) {
                Input::Compiler(s, d) => format!("{} #{idx}: schema: {s} ; document: {d}", f[0]),
                Input::Smith(bytes, base) => format!("smith #{idx}: {} input bytes (seed {}), existing document: {}", bytes.len(), plan.seed, base.unwrap_or_else(|| "none".into())),
            };
            for k in differing {
                let key = if f[0] == "smith" { "nondeterministic:smith".to_string() } else { format!("nondeterministic:{k}") };
                ctx.fail(&key, &desc, &format!("output `{k}` differs between processes given identical input"));
            }
        }
    }
}
