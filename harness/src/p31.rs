//! C31 — file ids: tag packing, sequential allocation from preset counters (vs the Lean model),
//! concurrent allocation and shared-schema workloads (explored on the implementation).
use crate::util::*;
use apollo_compiler::parser::FileId;
use apollo_compiler::{ExecutableDocument, Schema};
use std::collections::HashSet;

const TAG: u64 = 1 << 63;

fn pack_case(ctx: &mut Ctx, tag: bool, raw: u64) {
    let out = match FileId::verif_from_raw(raw) {
        None => "none".to_string(),
        Some(id) => match catch(|| id.verif_pack_unpack(tag)) {
            Err(_) => "PANIC".to_string(),
            Ok((packed, t, back)) => {
                if t != tag || back != raw {
                    ctx.fail("pack-roundtrip", &format!("tag={tag} id={raw}"), &format!("unpacked to tag={t} id={back}"));
                }
                if packed == 0 { ctx.fail("pack-zero", &format!("tag={tag} id={raw}"), "packed value is zero"); }
                ctx.nontrivial(&format!("{tag}{raw}"));
                format!("{packed},{t},{back}")
            }
        },
    };
    ctx.case("pack", &[tag.to_string(), raw.to_string()], &out);
}

fn alloc_case(ctx: &mut Ctx, start: u64, k: usize) {
    FileId::verif_set_next(start);
    let ids: Vec<u64> = (0..k).map(|_| FileId::new().verif_raw()).collect();
    for id in &ids {
        if *id == 0 || *id == 1 || *id == 2 || id & TAG != 0 {
            ctx.fail("fileid-reserved", &format!("counter preset {start}, {k} allocations"), &format!("handed out {id}"));
        }
    }
    // distinct unless the counter wrapped in between
    let wrapped = start as u128 + k as u128 >= TAG as u128 || start < 3;
    if !wrapped {
        let set: HashSet<_> = ids.iter().collect();
        if set.len() != ids.len() { ctx.fail("fileid-duplicate", &format!("counter preset {start}, {k} sequential allocations"), "duplicate id"); }
    }
    ctx.nontrivial(&format!("{start}/{k}"));
    let out = ids.iter().map(|i| i.to_string()).collect::<Vec<_>>().join(",");
    ctx.case("alloc", &[start.to_string(), k.to_string()], &out);
}

fn concurrent(ctx: &mut Ctx, threads: usize, per: usize, start: u64) {
    FileId::verif_set_next(start);
    // all threads leave the barrier together: without it a thread usually finishes its allocations before the
    // next one has even started, and nothing is interleaved
    let barrier = std::sync::Arc::new(std::sync::Barrier::new(threads));
    let handles: Vec<_> = (0..threads)
        .map(|_| { let b = barrier.clone(); std::thread::spawn(move || { b.wait(); (0..per).map(|_| FileId::new().verif_raw()).collect::<Vec<u64>>() }) })
        .collect();
    let mut all = vec![];
    for h in handles { all.extend(h.join().unwrap()); }
    let wraps = start as u128 + (threads * per) as u128 + threads as u128 >= TAG as u128;
    let set: HashSet<_> = all.iter().collect();
    ctx.stat("concurrent_runs");
    ctx.stat_n("concurrent_ids", all.len() as u64);
    if !wraps && set.len() != all.len() {
        ctx.fail("fileid-duplicate", &format!("{threads} threads x {per} allocations from {start}"), &format!("{} duplicates", all.len() - set.len()));
    }
    if !wraps {
        // exactly the successive counter values
        let mut sorted = all.clone(); sorted.sort();
        if sorted.first() != Some(&start) || sorted.last() != Some(&(start + all.len() as u64 - 1)) {
            ctx.fail("fileid-not-counter-values", &format!("{threads} threads x {per} from {start}"), "ids are not the successive counter values");
        }
    }
    for id in &all {
        if *id == 0 || *id == 1 || *id == 2 || id & TAG != 0 {
            ctx.fail("fileid-reserved", &format!("{threads} threads x {per} from {start}"), &format!("handed out {id}"));
        }
    }
}

const SCHEMA: &str = "type Query { a(x: Int = 1): A b: [B!]! u: U } type A implements I { id: ID! n: Int } interface I { id: ID! }
 type B { s: String a: A } union U = A | B enum E { X Y } input In { e: E = X l: [Int] }";
const DOCS: [&str; 4] = [
    "{ a(x: 2) { id n } b { s a { id } } }",
    "query Q($x: Int) { a(x: $x) { ...F } } fragment F on I { id ... on A { n } }",
    "{ u { __typename ... on A { id } ... on B { s } } nope }",
    "{ __schema { types { name fields { name type { name kind ofType { name } } } } } }",
];

fn workload(schema: &apollo_compiler::validation::Valid<Schema>, doc: &str) -> String {
    match ExecutableDocument::parse_and_validate(schema, doc, "d.graphql") {
        Ok(d) => {
            let mut out = d.to_string();
            if doc.contains("__schema") {
                let op = d.operations.get(None).unwrap();
                let vars = apollo_compiler::request::coerce_variable_values(schema, op, &Default::default()).unwrap();
                let resp = apollo_compiler::introspection::partial_execute(schema, &schema.implementers_map(), &d, op, &vars);
                match resp { Ok(r) => out.push_str(&serde_json::to_string(&r).unwrap_or_default()), Err(e) => out.push_str(&format!("{e:?}")) }
            }
            out
        }
        // messages only: file ids differ between runs by design
        Err(e) => e.errors.iter().map(|d| d.error.to_string()).collect::<Vec<_>>().join("|"),
    }
}

fn shared_schema(ctx: &mut Ctx, threads: usize) {
    FileId::verif_set_next(1000);
    let schema = Schema::parse_and_validate(SCHEMA, "s.graphql").expect("schema valid");
    let sequential: Vec<String> = DOCS.iter().map(|d| workload(&schema, d)).collect();
    let schema = std::sync::Arc::new(schema);
    let barrier = std::sync::Arc::new(std::sync::Barrier::new(threads));
    let handles: Vec<_> = (0..threads).map(|t| {
        let schema = schema.clone();
        let barrier = barrier.clone();
        std::thread::spawn(move || { barrier.wait(); (0..DOCS.len()).map(|i| { let j = (i + t) % DOCS.len(); (j, workload(&schema, DOCS[j])) }).collect::<Vec<_>>() })
    }).collect();
    for h in handles {
        match h.join() {
            Err(_) => ctx.fail("shared-schema-panic", "concurrent workload", "a worker thread panicked"),
            Ok(v) => for (j, out) in v {
                ctx.stat("shared_schema_workloads");
                if out != sequential[j] { ctx.fail("shared-schema-divergence", DOCS[j], "concurrent result differs from sequential"); }
            }
        }
    }
}

// ---------------------------------------------------------------------------------------------
// Lazily initialised shared state (OnceLock statics: built-in definitions, BuiltInScalars::ALL, meta-field
// definitions …) must not depend on WHO initialises it first.  A fresh child process performs one "first action",
// then the reference workload on several threads; every child must print what this process computes sequentially.
const INIT_SCHEMAS: [&str; 3] = ["type Query { n: Int }", "type Query { ok: Boolean s: [String!] }", "type Query { i: ID f(x: Float): Query } scalar Int"];

fn reference_workload() -> Vec<String> {
    let mut out = vec![];
    for src in INIT_SCHEMAS {
        match Schema::parse_and_validate(src, "s.graphql") {
            Err(e) => out.push(format!("invalid: {}", e.errors.iter().map(|d| d.error.to_string()).collect::<Vec<_>>().join("|"))),
            Ok(valid) => {
                let keys = |s: &Schema| s.types.keys().map(|k| k.to_string()).collect::<Vec<_>>().join(",");
                out.push(format!("types {}", keys(&valid)));
                out.push(workload(&valid, "{ __schema { types { name kind } directives { name } } }"));
                out.push(workload(&valid, "{ __typename }"));
                // validate → into_inner → add a field of a (possibly pruned) built-in scalar → validate
                for b in ["Float", "ID", "Int"] {
                    let mut inner = valid.clone().into_inner();
                    if let Some(apollo_compiler::schema::ExtendedType::Object(q)) = inner.types.get_mut("Query") {
                        let name = apollo_compiler::Name::new("added").unwrap();
                        let f = apollo_compiler::schema::FieldDefinition { description: None, name: name.clone(), arguments: vec![], ty: apollo_compiler::ast::Type::Named(apollo_compiler::Name::new(b).unwrap()), directives: Default::default() };
                        q.make_mut().fields.insert(name, apollo_compiler::schema::Component::new(f));
                    }
                    match inner.validate() { Ok(v) => out.push(format!("+{b}: {}", keys(&v))), Err(e) => out.push(format!("+{b}: invalid {}", e.errors.iter().map(|d| d.error.to_string()).collect::<Vec<_>>().join("|"))) }
                }
            }
        }
    }
    let schema = Schema::parse_and_validate(SCHEMA, "s.graphql").expect("schema valid");
    for d in DOCS { out.push(workload(&schema, d)); }
    out
}

fn first_action(which: usize) {
    use apollo_compiler::schema::ExtendedType;
    match which {
        0 => {}
        // a hand-pruned schema (the shape of Valid::into_inner(): unused built-in scalars absent) is validated first
        1 | 2 => {
            if let Ok(mut s) = Schema::parse("type Query { ok: Boolean }", "p.graphql") {
                for b in if which == 1 { vec!["Int", "Float", "ID"] } else { vec!["Int", "Float", "ID", "String", "Boolean"] } { s.types.shift_remove(b); }
                let _ = s.validate();
            }
        }
        3 => { let _ = Schema::new().validate(); }
        4 => { if let Ok(s) = Schema::parse("type Query { a: Int }", "p.graphql") { let _ = s.type_field("Query", "__typename"); let _ = s.type_field("Query", "__schema"); } }
        5 => { let _ = apollo_compiler::ast::Document::parse("{ a }", "d.graphql"); let _ = apollo_compiler::ast::Type::parse("[Int]", "t.graphql"); }
        6 => { let _ = Schema::parse_and_validate("scalar Int scalar String type Query { a: Int }", "p.graphql"); }
        7 => { let _ = Schema::parse_and_validate("directive @skip(if: Boolean! = true, why: String) repeatable on FIELD | QUERY  directive @deprecated(reason: String = \"x\") on FIELD_DEFINITION  type Query { a: Int @deprecated }", "p.graphql"); }
        8 => { if let Ok(mut s) = Schema::parse("type Query { a: Int }", "p.graphql") { s.types.retain(|_, t| !matches!(t, ExtendedType::Scalar(_))); let _ = s.validate(); } }
        _ => { let _ = Schema::builder().build(); }
    }
}

// ---------------------------------------------------------------------------------------------------------
// File ids as the PUBLIC entry points hand them out (every `FileId::new()` call site in parser.rs), from many
// threads at once: each parsed thing reports the id(s) it was given; all must be pairwise distinct, none reserved.
const N_ENTRY: usize = 12;
fn entry_point_ids(which: usize, tag: usize) -> Vec<u64> {
    use apollo_compiler::ast;
    use apollo_compiler::parser::Parser;
    use apollo_compiler::executable::FieldSet;
    use apollo_compiler::validation::Valid;
    let sdl = format!("type Query {{ f{tag}: Int a: Query }}");
    let doc = format!("{{ f{tag} a {{ f{tag} }} }}");
    let ids_of = |m: &apollo_compiler::parser::SourceMap| -> Vec<u64> {
        m.iter().filter(|(_, f)| f.path() != std::path::Path::new("built_in.graphql")).map(|(k, _)| k.verif_raw()).collect()
    };
    let schema = || Valid::assume_valid(Schema::parse(&sdl, "s.graphql").unwrap());
    match which {
        0 => ids_of(&ast::Document::parse(&sdl, "a.graphql").unwrap().sources),
        1 => ids_of(&Schema::parse(&sdl, "s.graphql").unwrap().sources),
        2 => { let mut b = Schema::builder(); b = b.parse(&sdl, "s1.graphql").parse("extend type Query { z: Int }", "s2.graphql"); ids_of(&b.build().unwrap().sources) }
        3 => { let s = schema(); let mut v = ids_of(&s.sources); let d = ExecutableDocument::parse(&s, &doc, "d.graphql").unwrap(); v.extend(ids_of(&d.sources).into_iter().filter(|i| !v.contains(i)).collect::<Vec<_>>()); v }
        4 => { let s = schema(); let skip = ids_of(&s.sources); let d = ExecutableDocument::parse_and_validate(&s, &doc, "d.graphql").unwrap(); ids_of(&d.sources).into_iter().filter(|i| !skip.contains(i)).collect() }
        5 => { let (s, d) = Parser::new().parse_mixed_validate(format!("{sdl} {doc}"), "m.graphql").unwrap(); let mut v = ids_of(&s.sources); v.extend(ids_of(&d.sources)); v.sort(); v.dedup(); v }
        6 => { let s = schema(); let skip = ids_of(&s.sources); let fs = FieldSet::parse(&s, name_q(), format!("f{tag} a {{ f{tag} }}"), "fs.graphql").unwrap(); ids_of(&fs.sources).into_iter().filter(|i| !skip.contains(i)).collect() }
        7 => { let t = ast::Type::parse(format!("[T{tag}!]"), "t.graphql").unwrap(); t.inner_named_type().location().map(|l| l.file_id().verif_raw()).into_iter().collect() }
        8 => { let s = schema(); let skip = ids_of(&s.sources); let mut errs = apollo_compiler::validation::DiagnosticList::new(Default::default()); let mut eb = ExecutableDocument::builder(Some(&s), &mut errs); Parser::new().parse_into_executable_builder(&doc, "e1.graphql", &mut eb); Parser::new().parse_into_executable_builder("query Q2 { a { a { __typename } } }", "e2.graphql", &mut eb); let d = eb.build(); ids_of(&d.sources).into_iter().filter(|i| !skip.contains(i)).collect() }
        9 => { let d = Parser::new().recursion_limit(50).token_limit(1000).parse_ast(&doc, "p.graphql").unwrap(); ids_of(&d.sources) }
        10 => { // a source with syntax errors still gets an id of its own (the partial result carries it)
            match ast::Document::parse("type Query { f: Int ", "bad.graphql") { Ok(d) => ids_of(&d.sources), Err(e) => ids_of(&e.partial.sources) } }
        _ => { match Schema::parse_and_validate(&sdl, "v.graphql") { Ok(s) => ids_of(&s.sources), Err(e) => ids_of(&e.partial.sources) } }
    }
}
fn name_q() -> apollo_compiler::Name { apollo_compiler::name!("Query") }

fn check_ids(ctx: &mut Ctx, what: &str, all: &[(usize, u64)], may_wrap: bool) {
    for (w, id) in all {
        if *id == 0 || *id == 1 || *id == 2 || id & TAG != 0 {
            ctx.fail("fileid-reserved", what, &format!("entry point {w} was given the reserved id {id}"));
        }
    }
    if !may_wrap {
        let mut seen = std::collections::HashMap::new();
        for (w, id) in all {
            if let Some(w0) = seen.insert(*id, *w) {
                ctx.fail("fileid-duplicate", what, &format!("id {id} given out twice (entry points {w0} and {w})"));
                break;
            }
        }
    }
}

fn entry_points_family(ctx: &mut Ctx) {
    // sequential: every entry point once, from a fresh counter and from counters just below the wrap
    for start in [3u64, 1_000, TAG - 40, TAG - 7, TAG - 1] {
        FileId::verif_set_next(start);
        let mut all = vec![];
        for w in 0..N_ENTRY {
            match catch(|| entry_point_ids(w, w)) {
                Ok(v) => { if v.is_empty() { ctx.fail("entry-point-without-id", &format!("entry point {w}"), "no file id observable"); } for id in v { all.push((w, id)); } }
                Err(e) => ctx.fail("entry-point-panic", &format!("entry point {w} from counter {start}"), &e),
            }
        }
        ctx.stat_n("family:entry_point_ids_sequential", all.len() as u64);
        check_ids(ctx, &format!("all entry points in sequence, counter preset {start}"), &all, start >= TAG - 100);
    }
    // concurrent
    let reps = if ctx.thorough { 30 } else { 4 };
    for rep in 0..reps {
        for threads in [2usize, 5, 16] {
            FileId::verif_set_next(3 + rep as u64 * 10_000);
            let barrier = std::sync::Arc::new(std::sync::Barrier::new(threads));
            let rounds = 6usize;
            let handles: Vec<_> = (0..threads).map(|t| { let b = barrier.clone(); std::thread::spawn(move || {
                b.wait();
                let mut v = vec![];
                for r in 0..rounds { for w in 0..N_ENTRY { let w = (w + t) % N_ENTRY; for id in entry_point_ids(w, t * 100 + r) { v.push((w, id)); } } }
                v
            }) }).collect();
            let mut all = vec![];
            for h in handles { match h.join() { Ok(v) => all.extend(v), Err(_) => ctx.fail("entry-point-panic", "concurrent entry points", "a worker thread panicked") } }
            ctx.stat_n("family:entry_point_ids_concurrent", all.len() as u64);
            check_ids(ctx, &format!("{threads} threads x {rounds} rounds over all entry points"), &all, false);
        }
    }
}

// ---------------------------------------------------------------------------------------------------------
// Cold start: the lazily initialised statics (built-in schema, meta-field definitions, built-in scalar table) are
// initialised by whichever thread comes first. In this process they are long initialised when threads start, so
// a FRESH process is started whose very first use of the library happens on N threads released by a barrier.
// The child prints every thread's results; they must equal what this (warm, sequential) process computes.
const COLD_SCHEMAS: [&str; 3] = [
    SCHEMA,
    "type Query { a: Int } extend scalar Int @specifiedBy(url: \"u\")",
    "type Query { f(x: Float, i: ID, s: String, b: Boolean): Int }",
];
fn cold_item(k: usize) -> String {
    let src = COLD_SCHEMAS[k % COLD_SCHEMAS.len()];
    match Schema::parse_and_validate(src, "s.graphql") {
        Ok(schema) => {
            let mut out = schema.to_string();
            for d in DOCS { out.push_str(" ## "); out.push_str(&workload(&schema, d)); }
            out.push_str(&format!(" ## types={} directives={} builtin_source={}", schema.types.len(), schema.directive_definitions.len(),
                schema.sources.iter().filter(|(id, _)| id.verif_raw() == 1).count()));
            out
        }
        Err(e) => e.errors.iter().map(|d| d.error.to_string()).collect::<Vec<_>>().join("|"),
    }.replace('\n', " ")
}
/// `VH_C31_CHILD=cold:threads:items`
fn cold_child_main(spec: &str) {
    let p: Vec<usize> = spec.split(':').map(|x| x.parse().unwrap()).collect();
    let (threads, items) = (p[0], p[1]);
    let barrier = std::sync::Arc::new(std::sync::Barrier::new(threads));
    let handles: Vec<_> = (0..threads).map(|t| { let b = barrier.clone(); std::thread::spawn(move || {
        b.wait();
        (0..items).map(|i| { let k = (i + t) % items; (k, cold_item(k), entry_point_ids((i + t) % N_ENTRY, t * 100 + i)) }).collect::<Vec<_>>()
    }) }).collect();
    for (t, h) in handles.into_iter().enumerate() {
        match h.join() {
            Ok(v) => for (k, out, ids) in v { println!("{t}\t{k}\t{}\t{out}", ids.iter().map(|i| i.to_string()).collect::<Vec<_>>().join(",")); },
            Err(_) => println!("{t}\tPANIC"),
        }
    }
    println!("DONE");
}

fn cold_start_family(ctx: &mut Ctx) {
    let items = COLD_SCHEMAS.len();
    let expected: Vec<String> = (0..items).map(cold_item).collect();
    let runs = if ctx.thorough { 40 } else { 6 };
    for run in 0..runs {
        let threads = [2usize, 4, 8, 16][run % 4];
        let spec = format!("cold:{threads}:{items}");
        let out = std::process::Command::new(std::env::current_exe().unwrap()).arg("C31").env("VH_C31_CHILD", &spec)
            .stdout(std::process::Stdio::piped()).stderr(std::process::Stdio::null()).output();
        let Ok(out) = out else { ctx.fail("cold-start-spawn", &spec, "could not start the child process"); continue };
        let text = String::from_utf8_lossy(&out.stdout).to_string();
        ctx.stat("family:cold_start_processes");
        if !out.status.success() || !text.trim_end().ends_with("DONE") {
            ctx.fail("cold-start-crashed", &format!("fresh process, {threads} threads using the library for the first time simultaneously"), "the child process did not finish");
            continue;
        }
        let mut ids: Vec<(usize, u64)> = vec![];
        for line in text.lines() {
            if line == "DONE" { continue; }
            let f: Vec<&str> = line.splitn(4, '\t').collect();
            if f.len() < 4 { ctx.fail("cold-start-panic", &format!("fresh process, {threads} threads"), &format!("thread {} panicked", f[0])); continue; }
            let k: usize = f[1].parse().unwrap();
            for id in f[2].split(',').filter(|x| !x.is_empty()) { ids.push((0, id.parse().unwrap())); }
            ctx.stat("family:cold_start_results");
            if f[3] != expected[k] {
                ctx.fail("cold-start-divergence", &format!("fresh process, {threads} threads, schema {:?}", COLD_SCHEMAS[k]), "a thread racing for the first initialisation computed a result different from the sequential one");
            }
        }
        check_ids(ctx, &format!("fresh process, {threads} threads"), &ids, false);
    }
}

/// `VH_C31_CHILD=<first action>:<threads>`
pub fn child_main(spec: &str) {
    if let Some(rest) = spec.strip_prefix("cold:") { cold_child_main(rest); return; }
    let mut it = spec.split(':').map(|x| x.parse::<usize>().unwrap_or(0));
    let (first, threads) = (it.next().unwrap_or(0), it.next().unwrap_or(1).max(1));
    // on its own thread or on the main thread, before anything else touches the library
    if first % 2 == 1 { let _ = std::thread::spawn(move || first_action(first)).join(); } else { first_action(first); }
    let handles: Vec<_> = (0..threads).map(|_| std::thread::spawn(reference_workload)).collect();
    for (t, h) in handles.into_iter().enumerate() {
        match h.join() { Ok(v) => for (i, l) in v.iter().enumerate() { println!("{t}\t{i}\t{}", l.replace('\n', "\\n").replace('\t', " ")); }, Err(_) => println!("{t}\tpanic") }
    }
}

fn init_order(ctx: &mut Ctx) {
    let want: Vec<String> = reference_workload().iter().map(|l| l.replace('\n', "\\n").replace('\t', " ")).collect();
    let Ok(exe) = std::env::current_exe() else { return };
    for first in 0..10usize {
        for threads in [1usize, 4] {
            let spec = format!("{first}:{threads}");
            let Ok(out) = std::process::Command::new(&exe).arg("C31").env("VH_C31_CHILD", &spec).output() else { ctx.stat("init_order_spawn_failed"); continue };
            let desc = format!("fresh process: first action {first}, then the reference workload on {threads} thread(s)");
            if !out.status.success() { ctx.fail("shared-state-child-crashed", &desc, &format!("{:?}", out.status)); continue; }
            let text = String::from_utf8_lossy(&out.stdout);
            let mut seen = 0usize;
            for line in text.lines() {
                let parts: Vec<&str> = line.splitn(3, '\t').collect();
                if parts.len() < 3 { if line.ends_with("panic") { ctx.fail("shared-state-child-crashed", &desc, line); } continue; }
                let i: usize = parts[1].parse().unwrap_or(usize::MAX);
                seen += 1;
                if want.get(i).map(|s| s.as_str()) != Some(parts[2]) {
                    ctx.fail("shared-state-depends-on-initialisation-order", &desc, &format!("thread {} step {i}: child printed {:?}, this process computes {:?}", parts[0], parts[2].chars().take(200).collect::<String>(), want.get(i).map(|s| s.chars().take(200).collect::<String>())));
                    break;
                }
            }
            if seen != want.len() * threads { ctx.fail("shared-state-child-crashed", &desc, &format!("{seen} lines, expected {}", want.len() * threads)); }
            ctx.stat("init_order_children");
        }
    }
}

pub fn run(ctx: &mut Ctx) {
    init_order(ctx);
    // boundary + random ids for packing
    let mut ids: Vec<u64> = vec![0, 1, 2, 3, 4, 255, 256, u32::MAX as u64, u32::MAX as u64 + 1, TAG - 2, TAG - 1, TAG, TAG + 1, u64::MAX - 1, u64::MAX];
    for b in 0..64 { ids.push(1u64 << b); ids.push((1u64 << b).wrapping_sub(1)); ids.push((1u64 << b) | 1); }
    let n = if ctx.thorough { 200_000 } else { 20_000 };
    for _ in 0..n { let r = ctx.rng.next(); ids.push(r >> (ctx.rng.below(64) as u32)); }
    for id in ids { for tag in [false, true] { pack_case(ctx, tag, id); } }

    // sequential allocation from preset counters, including the wrap/reset path
    let mut starts: Vec<u64> = vec![3, 4, 100, TAG - 1, TAG - 2, TAG - 3, TAG - 10, TAG, TAG + 1, u64::MAX, u64::MAX - 1, u64::MAX - 5];
    for _ in 0..(if ctx.thorough { 2000 } else { 200 }) {
        starts.push(3 + (ctx.rng.next() >> (1 + ctx.rng.below(62) as u32)));
        starts.push(TAG - 1 - ctx.rng.below(40) as u64);
        starts.push(u64::MAX - ctx.rng.below(40) as u64);
    }
    for s in starts { let k = 1 + ctx.rng.below(12); alloc_case(ctx, s, k); }

    // real threads
    let reps = if ctx.thorough { 40 } else { 8 };
    for r in 0..reps {
        for threads in [2usize, 4, 8, 16] {
            concurrent(ctx, threads, 2000, 3 + r as u64 * 1_000_000);
        }
        concurrent(ctx, 8, 50, TAG - 200); // crosses the wrap: only reserved-ness is checked
    }
    for threads in [2usize, 8, 16] { shared_schema(ctx, threads); }
    entry_points_family(ctx);
    cold_start_family(ctx);
    FileId::reset();
}
