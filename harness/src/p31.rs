//! C31 — file ids: tag packing, sequential allocation from preset counters (vs the Lean model),
//! concurrent allocation and shared-schema workloads (explored on the implementation).
use crate::util::*;
use apollo_compiler::parser::FileId;
use apollo_compiler::{ExecutableDocument, Schema};
use std::collections::HashSet;

const TAG: u64 = 1 << 63;

fn pack_case(ctx: &mut Ctx, tag: bool, raw: u64) {
    let out = match FileId::verif_from_raw(raw) {
        None => "none".to_string(),
        Some(id) => match catch(|| id.verif_pack_unpack(tag)) {
            Err(_) => "PANIC".to_string(),
            Ok((packed, t, back)) => {
                if t != tag || back != raw {
                    ctx.fail("pack-roundtrip", &format!("tag={tag} id={raw}"), &format!("unpacked to tag={t} id={back}"));
                }
                if packed == 0 { ctx.fail("pack-zero", &format!("tag={tag} id={raw}"), "packed value is zero"); }
                ctx.nontrivial(&format!("{tag}{raw}"));
                format!("{packed},{t},{back}")
            }
        },
    };
    ctx.case("pack", &[tag.to_string(), raw.to_string()], &out);
}

fn alloc_case(ctx: &mut Ctx, start: u64, k: usize) {
    FileId::verif_set_next(start);
    let ids: Vec<u64> = (0..k).map(|_| FileId::new().verif_raw()).collect();
    for id in &ids {
        if *id == 0 || *id == 1 || *id == 2 || id & TAG != 0 {
            ctx.fail("fileid-reserved", &format!("counter preset {start}, {k} allocations"), &format!("handed out {id}"));
        }
    }
    // distinct unless the counter wrapped in between
    let wrapped = start as u128 + k as u128 >= TAG as u128 || start < 3;
    if !wrapped {
        let set: HashSet<_> = ids.iter().collect();
        if set.len() != ids.len() { ctx.fail("fileid-duplicate", &format!("counter preset {start}, {k} sequential allocations"), "duplicate id"); }
    }
    ctx.nontrivial(&format!("{start}/{k}"));
    let out = ids.iter().map(|i| i.to_string()).collect::<Vec<_>>().join(",");
    ctx.case("alloc", &[start.to_string(), k.to_string()], &out);
}

fn concurrent(ctx: &mut Ctx, threads: usize, per: usize, start: u64) {
    FileId::verif_set_next(start);
    let handles: Vec<_> = (0..threads)
        .map(|_| std::thread::spawn(move || (0..per).map(|_| FileId::new().verif_raw()).collect::<Vec<u64>>()))
        .collect();
    let mut all = vec![];
    for h in handles { all.extend(h.join().unwrap()); }
    let wraps = start as u128 + (threads * per) as u128 + threads as u128 >= TAG as u128;
    let set: HashSet<_> = all.iter().collect();
    ctx.stat("concurrent_runs");
    ctx.stat_n("concurrent_ids", all.len() as u64);
    if !wraps && set.len() != all.len() {
        ctx.fail("fileid-duplicate", &format!("{threads} threads x {per} allocations from {start}"), &format!("{} duplicates", all.len() - set.len()));
    }
    if !wraps {
        // exactly the successive counter values
        let mut sorted = all.clone(); sorted.sort();
        if sorted.first() != Some(&start) || sorted.last() != Some(&(start + all.len() as u64 - 1)) {
            ctx.fail("fileid-not-counter-values", &format!("{threads} threads x {per} from {start}"), "ids are not the successive counter values");
        }
    }
    for id in &all {
        if *id == 0 || *id == 1 || *id == 2 || id & TAG != 0 {
            ctx.fail("fileid-reserved", &format!("{threads} threads x {per} from {start}"), &format!("handed out {id}"));
        }
    }
}

const SCHEMA: &str = "type Query { a(x: Int = 1): A b: [B!]! u: U } type A implements I { id: ID! n: Int } interface I { id: ID! }
 type B { s: String a: A } union U = A | B enum E { X Y } input In { e: E = X l: [Int] }";
const DOCS: [&str; 4] = [
    "{ a(x: 2) { id n } b { s a { id } } }",
    "query Q($x: Int) { a(x: $x) { ...F } } fragment F on I { id ... on A { n } }",
    "{ u { __typename ... on A { id } ... on B { s } } nope }",
    "{ __schema { types { name fields { name type { name kind ofType { name } } } } } }",
];

fn workload(schema: &apollo_compiler::validation::Valid<Schema>, doc: &str) -> String {
    match ExecutableDocument::parse_and_validate(schema, doc, "d.graphql") {
        Ok(d) => {
            let mut out = d.to_string();
            if doc.contains("__schema") {
                let op = d.operations.get(None).unwrap();
                let vars = apollo_compiler::request::coerce_variable_values(schema, op, &Default::default()).unwrap();
                let resp = apollo_compiler::introspection::partial_execute(schema, &schema.implementers_map(), &d, op, &vars);
                match resp { Ok(r) => out.push_str(&serde_json::to_string(&r).unwrap_or_default()), Err(e) => out.push_str(&format!("{e:?}")) }
            }
            out
        }
        // messages only: file ids differ between runs by design
        Err(e) => e.errors.iter().map(|d| d.error.to_string()).collect::<Vec<_>>().join("|"),
    }
}

fn shared_schema(ctx: &mut Ctx, threads: usize) {
    FileId::verif_set_next(1000);
    let schema = Schema::parse_and_validate(SCHEMA, "s.graphql").expect("schema valid");
    let sequential: Vec<String> = DOCS.iter().map(|d| workload(&schema, d)).collect();
    let schema = std::sync::Arc::new(schema);
    let handles: Vec<_> = (0..threads).map(|t| {
        let schema = schema.clone();
        std::thread::spawn(move || (0..DOCS.len()).map(|i| { let j = (i + t) % DOCS.len(); (j, workload(&schema, DOCS[j])) }).collect::<Vec<_>>())
    }).collect();
    for h in handles {
        match h.join() {
            Err(_) => ctx.fail("shared-schema-panic", "concurrent workload", "a worker thread panicked"),
            Ok(v) => for (j, out) in v {
                ctx.stat("shared_schema_workloads");
                if out != sequential[j] { ctx.fail("shared-schema-divergence", DOCS[j], "concurrent result differs from sequential"); }
            }
        }
    }
}

// ---------------------------------------------------------------------------------------------
// Lazily initialised shared state (OnceLock statics: built-in definitions, BuiltInScalars::ALL, meta-field
// definitions …) must not depend on WHO initialises it first.  A fresh child process performs one "first action",
// then the reference workload on several threads; every child must print what this process computes sequentially.
const INIT_SCHEMAS: [&str; 3] = ["type Query { n: Int }", "type Query { ok: Boolean s: [String!] }", "type Query { i: ID f(x: Float): Query } scalar Int"];

fn reference_workload() -> Vec<String> {
    let mut out = vec![];
    for src in INIT_SCHEMAS {
        match Schema::parse_and_validate(src, "s.graphql") {
            Err(e) => out.push(format!("invalid: {}", e.errors.iter().map(|d| d.error.to_string()).collect::<Vec<_>>().join("|"))),
            Ok(valid) => {
                let keys = |s: &Schema| s.types.keys().map(|k| k.to_string()).collect::<Vec<_>>().join(",");
                out.push(format!("types {}", keys(&valid)));
                out.push(workload(&valid, "{ __schema { types { name kind } directives { name } } }"));
                out.push(workload(&valid, "{ __typename }"));
                // validate → into_inner → add a field of a (possibly pruned) built-in scalar → validate
                for b in ["Float", "ID", "Int"] {
                    let mut inner = valid.clone().into_inner();
                    if let Some(apollo_compiler::schema::ExtendedType::Object(q)) = inner.types.get_mut("Query") {
                        let name = apollo_compiler::Name::new("added").unwrap();
                        let f = apollo_compiler::schema::FieldDefinition { description: None, name: name.clone(), arguments: vec![], ty: apollo_compiler::ast::Type::Named(apollo_compiler::Name::new(b).unwrap()), directives: Default::default() };
                        q.make_mut().fields.insert(name, apollo_compiler::schema::Component::new(f));
                    }
                    match inner.validate() { Ok(v) => out.push(format!("+{b}: {}", keys(&v))), Err(e) => out.push(format!("+{b}: invalid {}", e.errors.iter().map(|d| d.error.to_string()).collect::<Vec<_>>().join("|"))) }
                }
            }
        }
    }
    let schema = Schema::parse_and_validate(SCHEMA, "s.graphql").expect("schema valid");
    for d in DOCS { out.push(workload(&schema, d)); }
    out
}

fn first_action(which: usize) {
    use apollo_compiler::schema::ExtendedType;
    match which {
        0 => {}
        // a hand-pruned schema (the shape of Valid::into_inner(): unused built-in scalars absent) is validated first
        1 | 2 => {
            if let Ok(mut s) = Schema::parse("type Query { ok: Boolean }", "p.graphql") {
                for b in if which == 1 { vec!["Int", "Float", "ID"] } else { vec!["Int", "Float", "ID", "String", "Boolean"] } { s.types.shift_remove(b); }
                let _ = s.validate();
            }
        }
        3 => { let _ = Schema::new().validate(); }
        4 => { if let Ok(s) = Schema::parse("type Query { a: Int }", "p.graphql") { let _ = s.type_field("Query", "__typename"); let _ = s.type_field("Query", "__schema"); } }
        5 => { let _ = apollo_compiler::ast::Document::parse("{ a }", "d.graphql"); let _ = apollo_compiler::ast::Type::parse("[Int]", "t.graphql"); }
        6 => { let _ = Schema::parse_and_validate("scalar Int scalar String type Query { a: Int }", "p.graphql"); }
        7 => { let _ = Schema::parse_and_validate("directive @skip(if: Boolean! = true, why: String) repeatable on FIELD | QUERY  directive @deprecated(reason: String = \"x\") on FIELD_DEFINITION  type Query { a: Int @deprecated }", "p.graphql"); }
        8 => { if let Ok(mut s) = Schema::parse("type Query { a: Int }", "p.graphql") { s.types.retain(|_, t| !matches!(t, ExtendedType::Scalar(_))); let _ = s.validate(); } }
        _ => { let _ = Schema::builder().build(); }
    }
}

/// `VH_C31_CHILD=<first action>:<threads>`
pub fn child_main(spec: &str) {
    let mut it = spec.split(':').map(|x| x.parse::<usize>().unwrap_or(0));
    let (first, threads) = (it.next().unwrap_or(0), it.next().unwrap_or(1).max(1));
    // on its own thread or on the main thread, before anything else touches the library
    if first % 2 == 1 { let _ = std::thread::spawn(move || first_action(first)).join(); } else { first_action(first); }
    let handles: Vec<_> = (0..threads).map(|_| std::thread::spawn(reference_workload)).collect();
    for (t, h) in handles.into_iter().enumerate() {
        match h.join() { Ok(v) => for (i, l) in v.iter().enumerate() { println!("{t}\t{i}\t{}", l.replace('\n', "\\n").replace('\t', " ")); }, Err(_) => println!("{t}\tpanic") }
    }
}

fn init_order(ctx: &mut Ctx) {
    let want: Vec<String> = reference_workload().iter().map(|l| l.replace('\n', "\\n").replace('\t', " ")).collect();
    let Ok(exe) = std::env::current_exe() else { return };
    for first in 0..10usize {
        for threads in [1usize, 4] {
            let spec = format!("{first}:{threads}");
            let Ok(out) = std::process::Command::new(&exe).arg("C31").env("VH_C31_CHILD", &spec).output() else { ctx.stat("init_order_spawn_failed"); continue };
            let desc = format!("fresh process: first action {first}, then the reference workload on {threads} thread(s)");
            if !out.status.success() { ctx.fail("shared-state-child-crashed", &desc, &format!("{:?}", out.status)); continue; }
            let text = String::from_utf8_lossy(&out.stdout);
            let mut seen = 0usize;
            for line in text.lines() {
                let parts: Vec<&str> = line.splitn(3, '\t').collect();
                if parts.len() < 3 { if line.ends_with("panic") { ctx.fail("shared-state-child-crashed", &desc, line); } continue; }
                let i: usize = parts[1].parse().unwrap_or(usize::MAX);
                seen += 1;
                if want.get(i).map(|s| s.as_str()) != Some(parts[2]) {
                    ctx.fail("shared-state-depends-on-initialisation-order", &desc, &format!("thread {} step {i}: child printed {:?}, this process computes {:?}", parts[0], parts[2].chars().take(200).collect::<String>(), want.get(i).map(|s| s.chars().take(200).collect::<String>())));
                    break;
                }
            }
            if seen != want.len() * threads { ctx.fail("shared-state-child-crashed", &desc, &format!("{seen} lines, expected {}", want.len() * threads)); }
            ctx.stat("init_order_children");
        }
    }
}

pub fn run(ctx: &mut Ctx) {
    init_order(ctx);
    // boundary + random ids for packing
    let mut ids: Vec<u64> = vec![0, 1, 2, 3, 4, 255, 256, u32::MAX as u64, u32::MAX as u64 + 1, TAG - 2, TAG - 1, TAG, TAG + 1, u64::MAX - 1, u64::MAX];
    for b in 0..64 { ids.push(1u64 << b); ids.push((1u64 << b).wrapping_sub(1)); ids.push((1u64 << b) | 1); }
    let n = if ctx.thorough { 200_000 } else { 20_000 };
    for _ in 0..n { let r = ctx.rng.next(); ids.push(r >> (ctx.rng.below(64) as u32)); }
    for id in ids { for tag in [false, true] { pack_case(ctx, tag, id); } }

    // sequential allocation from preset counters, including the wrap/reset path
    let mut starts: Vec<u64> = vec![3, 4, 100, TAG - 1, TAG - 2, TAG - 3, TAG - 10, TAG, TAG + 1, u64::MAX, u64::MAX - 1, u64::MAX - 5];
    for _ in 0..(if ctx.thorough { 2000 } else { 200 }) {
        starts.push(3 + (ctx.rng.next() >> (1 + ctx.rng.below(62) as u32)));
        starts.push(TAG - 1 - ctx.rng.below(40) as u64);
        starts.push(u64::MAX - ctx.rng.below(40) as u64);
    }
    for s in starts { let k = 1 + ctx.rng.below(12); alloc_case(ctx, s, k); }

    // real threads
    let reps = if ctx.thorough { 40 } else { 8 };
    for r in 0..reps {
        for threads in [2usize, 4, 8, 16] {
            concurrent(ctx, threads, 2000, 3 + r as u64 * 1_000_000);
        }
        concurrent(ctx, 8, 50, TAG - 200); // crosses the wrap: only reserved-ness is checked
    }
    for threads in [2usize, 8, 16] { shared_schema(ctx, threads); }
    FileId::reset();
}
