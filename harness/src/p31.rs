//! C31 — file ids: tag packing, sequential allocation from preset counters (vs the Lean model),
//! concurrent allocation and shared-schema workloads (explored on the implementation).
use crate::util::*;
use apollo_compiler::parser::FileId;
use apollo_compiler::{ExecutableDocument, Schema};
use std::collections::HashSet;

const TAG: u64 = 1 << 63;

fn pack_case(ctx: &mut Ctx, tag: bool, raw: u64) {
    let out = match FileId::verif_from_raw(raw) {
        None => "none".to_string(),
        Some(id) => match catch(|| id.verif_pack_unpack(tag)) {
            Err(_) => "PANIC".to_string(),
            Ok((packed, t, back)) => {
                if t != tag || back != raw {
                    ctx.fail("pack-roundtrip", &format!("tag={tag} id={raw}"), &format!("unpacked to tag={t} id={back}"));
                }
                if packed == 0 { ctx.fail("pack-zero", &format!("tag={tag} id={raw}"), "packed value is zero"); }
                ctx.nontrivial(&format!("{tag}{raw}"));
                format!("{packed},{t},{back}")
            }
        },
    };
    ctx.case("pack", &[tag.to_string(), raw.to_string()], &out);
}

fn alloc_case(ctx: &mut Ctx, start: u64, k: usize) {
    FileId::verif_set_next(start);
    let ids: Vec<u64> = (0..k).map(|_| FileId::new().verif_raw()).collect();
    for id in &ids {
        if *id == 0 || *id == 1 || *id == 2 || id & TAG != 0 {
            ctx.fail("fileid-reserved", &format!("counter preset {start}, {k} allocations"), &format!("handed out {id}"));
        }
    }
    // distinct unless the counter wrapped in between
    let wrapped = start as u128 + k as u128 >= TAG as u128 || start < 3;
    if !wrapped {
        let set: HashSet<_> = ids.iter().collect();
        if set.len() != ids.len() { ctx.fail("fileid-duplicate", &format!("counter preset {start}, {k} sequential allocations"), "duplicate id"); }
    }
    ctx.nontrivial(&format!("{start}/{k}"));
    let out = ids.iter().map(|i| i.to_string()).collect::<Vec<_>>().join(",");
    ctx.case("alloc", &[start.to_string(), k.to_string()], &out);
}

fn concurrent(ctx: &mut Ctx, threads: usize, per: usize, start: u64) {
    FileId::verif_set_next(start);
    let handles: Vec<_> = (0..threads)
        .map(|_| std::thread::spawn(move || (0..per).map(|_| FileId::new().verif_raw()).collect::<Vec<u64>>()))
        .collect();
    let mut all = vec![];
    for h in handles { all.extend(h.join().unwrap()); }
    let wraps = start as u128 + (threads * per) as u128 + threads as u128 >= TAG as u128;
    let set: HashSet<_> = all.iter().collect();
    ctx.stat("concurrent_runs");
    ctx.stat_n("concurrent_ids", all.len() as u64);
    if !wraps && set.len() != all.len() {
        ctx.fail("fileid-duplicate", &format!("{threads} threads x {per} allocations from {start}"), &format!("{} duplicates", all.len() - set.len()));
    }
    if !wraps {
        // exactly the successive counter values
        let mut sorted = all.clone(); sorted.sort();
        if sorted.first() != Some(&start) || sorted.last() != Some(&(start + all.len() as u64 - 1)) {
            ctx.fail("fileid-not-counter-values", &format!("{threads} threads x {per} from {start}"), "ids are not the successive counter values");
        }
    }
    for id in &all {
        if *id == 0 || *id == 1 || *id == 2 || id & TAG != 0 {
            ctx.fail("fileid-reserved", &format!("{threads} threads x {per} from {start}"), &format!("handed out {id}"));
        }
    }
}

const SCHEMA: &str = "type Query { a(x: Int = 1): A b: [B!]! u: U } type A implements I { id: ID! n: Int } interface I { id: ID! }
 type B { s: String a: A } union U = A | B enum E { X Y } input In { e: E = X l: [Int] }";
const DOCS: [&str; 4] = [
    "{ a(x: 2) { id n } b { s a { id } } }",
    "query Q($x: Int) { a(x: $x) { ...F } } fragment F on I { id ... on A { n } }",
    "{ u { __typename ... on A { id } ... on B { s } } nope }",
    "{ __schema { types { name fields { name type { name kind ofType { name } } } } } }",
];

fn workload(schema: &apollo_compiler::validation::Valid<Schema>, doc: &str) -> String {
    match ExecutableDocument::parse_and_validate(schema, doc, "d.graphql") {
        Ok(d) => {
            let mut out = d.to_string();
            if doc.contains("__schema") {
                let op = d.operations.get(None).unwrap();
                let vars = apollo_compiler::request::coerce_variable_values(schema, op, &Default::default()).unwrap();
                let resp = apollo_compiler::introspection::partial_execute(schema, &schema.implementers_map(), &d, op, &vars);
                match resp { Ok(r) => out.push_str(&serde_json::to_string(&r).unwrap_or_default()), Err(e) => out.push_str(&format!("{e:?}")) }
            }
            out
        }
        // messages only: file ids differ between runs by design
        Err(e) => e.errors.iter().map(|d| d.error.to_string()).collect::<Vec<_>>().join("|"),
    }
}

fn shared_schema(ctx: &mut Ctx, threads: usize) {
    FileId::verif_set_next(1000);
    let schema = Schema::parse_and_validate(SCHEMA, "s.graphql").expect("schema valid");
    let sequential: Vec<String> = DOCS.iter().map(|d| workload(&schema, d)).collect();
    let schema = std::sync::Arc::new(schema);
    let handles: Vec<_> = (0..threads).map(|t| {
        let schema = schema.clone();
        std::thread::spawn(move || (0..DOCS.len()).map(|i| { let j = (i + t) % DOCS.len(); (j, workload(&schema, DOCS[j])) }).collect::<Vec<_>>())
    }).collect();
    for h in handles {
        match h.join() {
            Err(_) => ctx.fail("shared-schema-panic", "concurrent workload", "a worker thread panicked"),
            Ok(v) => for (j, out) in v {
                ctx.stat("shared_schema_workloads");
                if out != sequential[j] { ctx.fail("shared-schema-divergence", DOCS[j], "concurrent result differs from sequential"); }
            }
        }
    }
}

pub fn run(ctx: &mut Ctx) {
    // boundary + random ids for packing
    let mut ids: Vec<u64> = vec![0, 1, 2, 3, 4, 255, 256, u32::MAX as u64, u32::MAX as u64 + 1, TAG - 2, TAG - 1, TAG, TAG + 1, u64::MAX - 1, u64::MAX];
    for b in 0..64 { ids.push(1u64 << b); ids.push((1u64 << b).wrapping_sub(1)); ids.push((1u64 << b) | 1); }
    let n = if ctx.thorough { 200_000 } else { 20_000 };
    for _ in 0..n { let r = ctx.rng.next(); ids.push(r >> (ctx.rng.below(64) as u32)); }
    for id in ids { for tag in [false, true] { pack_case(ctx, tag, id); } }

    // sequential allocation from preset counters, including the wrap/reset path
    let mut starts: Vec<u64> = vec![3, 4, 100, TAG - 1, TAG - 2, TAG - 3, TAG - 10, TAG, TAG + 1, u64::MAX, u64::MAX - 1, u64::MAX - 5];
    for _ in 0..(if ctx.thorough { 2000 } else { 200 }) {
        starts.push(3 + (ctx.rng.next() >> (1 + ctx.rng.below(62) as u32)));
        starts.push(TAG - 1 - ctx.rng.below(40) as u64);
        starts.push(u64::MAX - ctx.rng.below(40) as u64);
    }
    for s in starts { let k = 1 + ctx.rng.below(12); alloc_case(ctx, s, k); }

    // real threads
    let reps = if ctx.thorough { 40 } else { 8 };
    for r in 0..reps {
        for threads in [2usize, 4, 8, 16] {
            concurrent(ctx, threads, 2000, 3 + r as u64 * 1_000_000);
        }
        concurrent(ctx, 8, 50, TAG - 200); // crosses the wrap: only reserved-ness is checked
    }
    for threads in [2usize, 8, 16] { shared_schema(ctx, threads); }
    FileId::reset();
}
