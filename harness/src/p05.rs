//! C05 — syntax acceptance matches the GraphQL grammar (reference recogniser = gramspec.rs).
use crate::gen::{mutate, G};
use crate::gramspec::spec_document;
use crate::pp::*;
use crate::util::*;


fn impl_definitions(src: &str) -> Vec<(String, Option<String>)> {
    let tree = apollo_parser::Parser::new(src).parse();
    tree.document().definitions().map(|d| (d.kind().to_string(), d.name().map(|n| n.text().to_string()))).collect()
}

fn classify(src: &str, accepted_by_impl: bool) -> String {
    if accepted_by_impl {
        // `query:` / `mutation:` / `subscription:` not followed by a type name inside schema { … }
        if let Some(t) = crate::gramspec::tokens(src) {
            use crate::gramspec::Tk;
            for w in t.windows(3) {
                if let (Tk::Name(n), Tk::P(":"), third) = (&w[0], &w[1], &w[2]) {
                    if ["query", "mutation", "subscription"].contains(&n.as_str()) && !matches!(third, Tk::Name(_)) && t.iter().any(|x| matches!(x, Tk::Name(s) if s == "schema")) {
                        return "accepts-root-operation-without-type".into();
                    }
                }
            }
            // a description in front of `fragment on T …` (repaired): fragment_definition bumped whatever token was current as the
            // `fragment` keyword (here the string) and then read `fragment` as the fragment's name
            for w in t.windows(3) {
                if let (Tk::Str, Tk::Name(a), Tk::Name(b)) = (&w[0], &w[1], &w[2]) {
                    if a == "fragment" && b == "on" { return "accepts-description-before-fragment".into(); }
                }
            }
        }
        "parser-accepts-non-document".into()
    } else { "parser-rejects-valid-document".into() }
}

pub fn one(ctx: &mut Ctx, src: &str) {
    let r = case(ctx, "doc", None, 500, src);
    let Ok(p) = r else { ctx.fail("parse-document-panic", src, "panic"); return };
    let ok = p.errors.is_empty();
    let spec = spec_document(src);
    if ok != spec.is_some() {
        ctx.fail(&classify(src, ok), src, &format!("parser reports {} error(s); reference grammar {}", p.errors.len(), if spec.is_some() { "accepts" } else { "rejects" }));
    } else if let Some(defs) = spec {
        let got = impl_definitions(src);
        if got != defs { ctx.fail("definitions-differ", src, &format!("tree has {got:?}, reference has {defs:?}")); }
        ctx.nontrivial(&p.sexpr);
        ctx.stat("accepted_by_both");
    } else { ctx.stat("rejected_by_both"); }
}

pub fn run(ctx: &mut Ctx) {
    for s in ["schema", "schema @d", "{ a(b: {c: 1 d}) }", "type A", "extend type A", "{ a }", "query { ... on T { a } ...F }", "extend schema @d", "\"d\" { a }", "\"d\" query { a }",
              "directive @d on | QUERY", "type A implements & B & C { a: Int }", "union U = | A | B", "enum E { true }", "fragment on on T { a }", "{ a(x: $v) }", "query($a: Int = $b) { a }", "{ ...on }",
              // empty braces after directives (found by the 6-token enumeration of the thorough tier, fixed by 50fb92a)
              "extend schema @d { }", "extend schema { }", "extend schema @d { query: Q }", "schema @d { }", "extend type A @d { }", "extend interface A @d { }",
              "extend enum A @d { }", "extend input A @d { }", "extend union A @d =",
              // a description in front of a fragment definition (found while proving the document-level acceptance theorem)
              "\"d\" fragment on T { a }", "\"\"\"d\"\"\" fragment on T @x { a }", "\"d\" fragment F on T { a }", "{ a } \"d\" fragment on T { a }",
              "\"d\" fragment on on { a }", "\"d\" extend type A @d", "\"d\" mutation { a }"] { one(ctx, s); }
    // restricted names: every position that takes a Name, with and without a description / directives in front,
    // filled with each keyword-like name (EnumValue is Name but not true/false/null; FragmentName is Name but not on)
    let templates = ["enum E { § }", "enum E { \"d\" § }", "enum E { \"\"\"d\"\"\" § @x }", "enum E { A \"d\" § }", "enum E { § A }", "enum E { \"d\" § \"e\" A }",
        "extend enum E { § }", "extend enum E { \"d\" § }", "extend enum E @x { \"d\" § @y }", "\"t\" enum E @x { \"d\" § }",
        "{ a(x: §) }", "{ a(x: [§]) }", "{ a(x: {k: §}) }", "query($v: T = §) { a }", "type T { f(x: Int = §): Int }", "type T { f(\"d\" x: E = § @y): Int }",
        "directive @d(x: E = §) on FIELD", "input I { x: E = § }", "input I { \"d\" x: E = § }",
        "fragment § on T { a }", "{ ...§ }", "{ ... § }", "{ ...§ @d }", "fragment F on § { a }", "{ ... on § { a } }",
        "type § { a: Int }", "\"d\" type § { a: Int }", "type T { §: Int }", "type T { \"d\" §: Int }", "type T { f(§: Int): Int }", "type T { f(\"d\" §: Int): Int }",
        "{ §: a }", "{ a: § }", "{ § }", "query § { a }", "mutation § @d { a }", "type T implements § { a: Int }", "type T implements & § & A { a: Int }", "union U = §", "union U = | § | A",
        "directive @§ on FIELD", "directive @d on §", "directive @d repeatable on § | FIELD", "{ a @§ }", "scalar §", "\"d\" scalar §", "input § { a: Int }", "interface § { a: Int }",
        "schema { query: § }", "extend schema { mutation: § }", "{ a(§: 1) }", "{ a(x: {§: 1}) }", "query($§: Int) { a }", "query($v: §) { a }", "query($v: [§!]) { a }", "extend scalar § @d",
        // (audit G1) the remaining definition names and name positions
        "union § = A", "\"d\" union § @d", "enum § { A }", "extend type § @d", "extend interface § @d", "extend union § = A", "extend enum § { A }", "extend input § { a: Int }", "subscription § { a }",
        "type T { f(x: Int): § }", "type T { f: [§] }", "input I { §: Int }", "input I { a: § }", "enum E { A @§ }", "query($v: Int @§) { a }", "type T @§ { f: Int }", "{ ... on T { ... on § { a } } }",
        "{ ...§ ...§ }", "{ a { § } }", "{ §(x: 1) }", "{ § @d }", "{ § { a } }", "{ §: §(§: §) @§(§: §) { § } }", "query § ($§: § = §) @§ { § }", "fragment § on § @§ { § }", "extend schema @§",
        "directive @d(§: Int) on FIELD", "directive @d(x: §) repeatable on FIELD", "interface § implements § { §: § }", "type § implements § & § @§ { §(§: § = §): § }",
        "enum § @§ { § @§ }", "input § @§ { §: § = § @§ }", "union § @§ = § | §", "schema @§ { query: § }", "scalar § @§(§: §)"];
    let names = ["true", "false", "null", "on", "a", "query", "fragment", "type", "extend", "schema", "implements", "repeatable", "input", "enum", "FIELD", "mutation", "subscription"];
    for t in templates { for n in names { one(ctx, &t.replace('§', n)); } }
    ctx.stat_n("restricted_name_cases", (templates.len() * names.len()) as u64);
    // (audit G1) systematic families, the same on every seed — see pfam.rs
    {
        use crate::pfam::*;
        let mut fam = |ctx: &mut Ctx, name: &str, docs: Vec<String>| { let n = docs.len(); for d in &docs { one(ctx, d); } ctx.stat_n(&format!("family:{name}"), n as u64); };
        // every definition kind × every combination of absent / present / empty / malformed optional parts
        fam(ctx, "definition-skeletons", definition_skeletons());
        // every value position × values with and without variables (Const positions must reject a variable at any depth)
        fam(ctx, "value-position-notconst", fill(VALUE_POS_NOTCONST, VALUE_FILLERS));
        fam(ctx, "value-position-const", fill(VALUE_POS_CONST, VALUE_FILLERS));
        // a description (none / string / block string / two strings) at every place where one may and may not stand
        fam(ctx, "description-placement", fill(DESC_POS, DESC_FILLERS));
        // the boundary between two definitions: all ordered pairs of minimal definitions (also: three in a row)
        let mut pairs = vec![];
        for a in MINIMAL_DEFS { for b in MINIMAL_DEFS { pairs.push(format!("{a} {b}")); } }
        for (i, a) in MINIMAL_DEFS.iter().enumerate() { pairs.push(format!("{a}\n{}\n{a}", MINIMAL_DEFS[(i * 7 + 3) % MINIMAL_DEFS.len()])); }
        fam(ctx, "definition-pairs", pairs);
        // every directive location, alone, in a list, after a leading `|`, in the wrong case
        let locs = ["QUERY", "MUTATION", "SUBSCRIPTION", "FIELD", "FRAGMENT_DEFINITION", "FRAGMENT_SPREAD", "INLINE_FRAGMENT", "VARIABLE_DEFINITION", "SCHEMA", "SCALAR", "OBJECT", "FIELD_DEFINITION",
            "ARGUMENT_DEFINITION", "INTERFACE", "UNION", "ENUM", "ENUM_VALUE", "INPUT_OBJECT", "INPUT_FIELD_DEFINITION", "query", "Field", "FIELD_", "OBJECT_TYPE", "TYPE", "ARGUMENT", "INPUT_FIELD", "on", "repeatable"];
        let mut ld = vec![];
        for l in locs { for t in ["directive @d on §", "directive @d on | §", "directive @d on FIELD | §", "directive @d on § | FIELD", "directive @d(x: Int) repeatable on § type T", "directive @d on § | §"] { ld.push(t.replace('§', l)); } }
        fam(ctx, "directive-locations", ld);
        // every single-token deletion / duplication / adjacent swap / insertion of each of 24 tokens at every boundary, of one rich
        // instance of every definition kind
        let mut edits = vec![];
        let mut kinds = std::collections::BTreeMap::new();
        for d in RICH { one(ctx, d); token_edits(d, if ctx.thorough { EDIT_INSERTS } else { &EDIT_INSERTS[..18] }, |k, s| { *kinds.entry(k.to_string()).or_insert(0u64) += 1; edits.push(s); }); }
        for (k, v) in kinds { ctx.stat_n(&format!("family:token-edits:{k}"), v); }
        fam(ctx, "token-edits", edits);
        // ignored tokens (comma, comment, BOM, CRLF) in every gap of the rich instances: acceptance must not change
        // (look-ahead past ignored tokens: description → keyword, extend → keyword, `...` → on, alias `:`)
        let mut gaps = vec![];
        for d in RICH { fill_gaps(d, &[",", "#c\n", "\u{feff}", "\r\n"], |s| gaps.push(s)); }
        fam(ctx, "ignored-token-in-every-gap", gaps);
    }
    let mut seqs = vec![];
    token_seqs(&["{", "}", "(", ")", ":", "$", "@", "a", "on", "query", "type", "extend", "schema", "...", "1"], if ctx.thorough { 6 } else { 5 }, |s| seqs.push(s.to_string()));
    ctx.stat_n("token_seqs", seqs.len() as u64);
    for s in &seqs { one(ctx, s); }
    let n = if ctx.thorough { 200_000 } else { 20_000 };
    let mut cov = std::collections::BTreeMap::new();
    for i in 0..n {
        let doc = { let mut g = G { r: &mut ctx.rng, depth: 0, cov: &mut cov }; if i % 4 == 0 { g.document() } else { g.definition() } };
        let src = match i % 3 { 0 => doc, _ => mutate(&mut ctx.rng, &doc) };
        one(ctx, &src);
    }
    for (k, v) in cov { ctx.stat_n(&format!("production:{k}"), v); }
    for s in repo_documents() { one(ctx, &s); }
}
