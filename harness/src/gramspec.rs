//! Reference recogniser for the October-2021 GraphQL *document* grammar (Appendix B), written from
//! the spec, over the significant tokens of the reference lexer.  Returns the top-level
//! definitions (kind, name) or None when the token stream is not a Document.
use crate::lexspec::{spec_lex, SK};

#[derive(Clone, Debug, PartialEq)]
pub enum Tk { P(&'static str), Name(String), Int, Float, Str }

pub fn tokens(src: &str) -> Option<Vec<Tk>> {
    let lexed = spec_lex(src, false)?;
    let cs: Vec<char> = src.chars().collect();
    let mut out = vec![];
    for (k, s, n) in lexed {
        match k {
            SK::Ws | SK::Comment | SK::Comma => {}
            SK::Punct(p) => out.push(Tk::P(p)),
            SK::Name => out.push(Tk::Name(cs[s..s + n].iter().collect())),
            SK::Int => out.push(Tk::Int), SK::Float => out.push(Tk::Float), SK::Str => out.push(Tk::Str),
        }
    }
    Some(out)
}

pub struct R<'a> { t: &'a [Tk], i: usize }
type Res = Option<()>;

impl<'a> R<'a> {
    fn peek(&self) -> Option<&Tk> { self.t.get(self.i) }
    fn peek2(&self) -> Option<&Tk> { self.t.get(self.i + 1) }
    fn p(&mut self, s: &str) -> Res { if let Some(Tk::P(x)) = self.peek() { if *x == s { self.i += 1; return Some(()); } } None }
    fn at_p(&self, s: &str) -> bool { matches!(self.peek(), Some(Tk::P(x)) if *x == s) }
    fn at_kw(&self, s: &str) -> bool { matches!(self.peek(), Some(Tk::Name(x)) if x == s) }
    fn kw(&mut self, s: &str) -> Res { if self.at_kw(s) { self.i += 1; Some(()) } else { None } }
    fn name(&mut self) -> Option<String> { if let Some(Tk::Name(x)) = self.peek() { let x = x.clone(); self.i += 1; Some(x) } else { None } }
    fn at_name(&self) -> bool { matches!(self.peek(), Some(Tk::Name(_))) }

    fn ty(&mut self) -> Res {
        if self.at_p("[") { self.i += 1; self.ty()?; self.p("]")?; } else { self.name()?; }
        if self.at_p("!") { self.i += 1; }
        Some(())
    }
    fn value(&mut self, konst: bool) -> Res {
        match self.peek()?.clone() {
            Tk::P("$") => { if konst { return None; } self.i += 1; self.name()?; }
            Tk::Int | Tk::Float | Tk::Str => self.i += 1,
            Tk::Name(_) => self.i += 1, // true false null or enum value
            Tk::P("[") => { self.i += 1; while !self.at_p("]") { self.value(konst)?; } self.i += 1; }
            Tk::P("{") => { self.i += 1; while !self.at_p("}") { self.name()?; self.p(":")?; self.value(konst)?; } self.i += 1; }
            _ => return None,
        }
        Some(())
    }
    fn arguments(&mut self, konst: bool) -> Res {
        self.p("(")?;
        loop { self.name()?; self.p(":")?; self.value(konst)?; if self.at_p(")") { break; } }
        self.p(")")
    }
    fn directives(&mut self, konst: bool) -> Res {
        while self.at_p("@") { self.i += 1; self.name()?; if self.at_p("(") { self.arguments(konst)?; } }
        Some(())
    }
    fn selection_set(&mut self) -> Res {
        self.p("{")?;
        loop {
            if self.at_p("...") {
                self.i += 1;
                if self.at_name() && !self.at_kw("on") { self.name()?; self.directives(false)?; }      // FragmentSpread
                else { if self.at_kw("on") { self.i += 1; self.name()?; } self.directives(false)?; self.selection_set()?; } // InlineFragment
            } else {
                self.name()?;
                if self.at_p(":") { self.i += 1; self.name()?; }
                if self.at_p("(") { self.arguments(false)?; }
                self.directives(false)?;
                if self.at_p("{") { self.selection_set()?; }
            }
            if self.at_p("}") { break; }
        }
        self.p("}")
    }
    fn variable_definitions(&mut self) -> Res {
        self.p("(")?;
        loop {
            self.p("$")?; self.name()?; self.p(":")?; self.ty()?;
            if self.at_p("=") { self.i += 1; self.value(true)?; }
            self.directives(true)?;
            if self.at_p(")") { break; }
        }
        self.p(")")
    }
    fn description(&mut self) { if matches!(self.peek(), Some(Tk::Str)) { self.i += 1; } }
    fn input_value_def(&mut self) -> Res {
        self.description(); self.name()?; self.p(":")?; self.ty()?;
        if self.at_p("=") { self.i += 1; self.value(true)?; }
        self.directives(true)
    }
    fn arguments_def(&mut self) -> Res { self.p("(")?; loop { self.input_value_def()?; if self.at_p(")") { break; } } self.p(")") }
    fn fields_def(&mut self) -> Res {
        self.p("{")?;
        loop {
            self.description(); self.name()?;
            if self.at_p("(") { self.arguments_def()?; }
            self.p(":")?; self.ty()?; self.directives(true)?;
            if self.at_p("}") { break; }
        }
        self.p("}")
    }
    fn implements(&mut self) -> Res {
        self.kw("implements")?;
        if self.at_p("&") { self.i += 1; }
        self.name()?;
        while self.at_p("&") { self.i += 1; self.name()?; }
        Some(())
    }
    fn root_ops(&mut self) -> Res {
        self.p("{")?;
        loop {
            let n = self.name()?; if !["query", "mutation", "subscription"].contains(&n.as_str()) { return None; }
            self.p(":")?; self.name()?;
            if self.at_p("}") { break; }
        }
        self.p("}")
    }
    fn enum_values(&mut self) -> Res {
        self.p("{")?;
        loop {
            self.description();
            let n = self.name()?; if ["true", "false", "null"].contains(&n.as_str()) { return None; }
            self.directives(true)?;
            if self.at_p("}") { break; }
        }
        self.p("}")
    }
    fn input_fields(&mut self) -> Res { self.p("{")?; loop { self.input_value_def()?; if self.at_p("}") { break; } } self.p("}") }
    fn union_members(&mut self) -> Res {
        self.p("=")?;
        if self.at_p("|") { self.i += 1; }
        self.name()?;
        while self.at_p("|") { self.i += 1; self.name()?; }
        Some(())
    }

    fn definition(&mut self) -> Option<(String, Option<String>)> {
        let start = self.i;
        // a leading string is a description only for type-system definitions
        let has_desc = matches!(self.peek(), Some(Tk::Str));
        if has_desc { self.i += 1; }
        let kw = match self.peek()? { Tk::Name(n) => n.clone(), Tk::P("{") if !has_desc => "{".to_string(), _ => return None };
        let _ = start;
        match kw.as_str() {
            "{" => { self.selection_set()?; Some(("OperationDefinition".into(), None)) }
            "query" | "mutation" | "subscription" if !has_desc => {
                self.i += 1;
                let name = if self.at_name() { self.name() } else { None };
                if self.at_p("(") { self.variable_definitions()?; }
                self.directives(false)?;
                self.selection_set()?;
                Some(("OperationDefinition".into(), name))
            }
            "fragment" if !has_desc => {
                self.i += 1;
                if self.at_kw("on") { return None; }
                let name = self.name()?;
                self.kw("on")?; self.name()?;
                self.directives(false)?; self.selection_set()?;
                Some(("FragmentDefinition".into(), Some(name)))
            }
            "schema" => { self.i += 1; self.directives(true)?; self.root_ops()?; Some(("SchemaDefinition".into(), None)) }
            "scalar" => { self.i += 1; let n = self.name()?; self.directives(true)?; Some(("ScalarTypeDefinition".into(), Some(n))) }
            "type" | "interface" => {
                self.i += 1; let n = self.name()?;
                if self.at_kw("implements") { self.implements()?; }
                self.directives(true)?;
                if self.at_p("{") { self.fields_def()?; }
                Some((if kw == "type" { "ObjectTypeDefinition" } else { "InterfaceTypeDefinition" }.into(), Some(n)))
            }
            "union" => { self.i += 1; let n = self.name()?; self.directives(true)?; if self.at_p("=") { self.union_members()?; } Some(("UnionTypeDefinition".into(), Some(n))) }
            "enum" => { self.i += 1; let n = self.name()?; self.directives(true)?; if self.at_p("{") { self.enum_values()?; } Some(("EnumTypeDefinition".into(), Some(n))) }
            "input" => { self.i += 1; let n = self.name()?; self.directives(true)?; if self.at_p("{") { self.input_fields()?; } Some(("InputObjectTypeDefinition".into(), Some(n))) }
            "directive" => {
                self.i += 1; self.p("@")?; let n = self.name()?;
                if self.at_p("(") { self.arguments_def()?; }
                if self.at_kw("repeatable") { self.i += 1; }
                self.kw("on")?;
                if self.at_p("|") { self.i += 1; }
                let locs = ["QUERY", "MUTATION", "SUBSCRIPTION", "FIELD", "FRAGMENT_DEFINITION", "FRAGMENT_SPREAD", "INLINE_FRAGMENT", "VARIABLE_DEFINITION", "SCHEMA", "SCALAR", "OBJECT", "FIELD_DEFINITION", "ARGUMENT_DEFINITION", "INTERFACE", "UNION", "ENUM", "ENUM_VALUE", "INPUT_OBJECT", "INPUT_FIELD_DEFINITION"];
                loop { let l = self.name()?; if !locs.contains(&l.as_str()) { return None; } if self.at_p("|") { self.i += 1; } else { break; } }
                Some(("DirectiveDefinition".into(), Some(n)))
            }
            "extend" if !has_desc => {
                self.i += 1;
                let what = self.name()?;
                match what.as_str() {
                    "schema" => {
                        let before = self.i; self.directives(true)?; let had_dirs = self.i > before;
                        if self.at_p("{") { self.root_ops()?; } else if !had_dirs { return None; }
                        Some(("SchemaExtension".into(), None))
                    }
                    "scalar" => { let n = self.name()?; let b = self.i; self.directives(true)?; if self.i == b { return None; } Some(("ScalarTypeExtension".into(), Some(n))) }
                    "type" | "interface" => {
                        let n = self.name()?; let b = self.i;
                        if self.at_kw("implements") { self.implements()?; }
                        self.directives(true)?;
                        if self.at_p("{") { self.fields_def()?; }
                        if self.i == b { return None; }
                        Some((if what == "type" { "ObjectTypeExtension" } else { "InterfaceTypeExtension" }.into(), Some(n)))
                    }
                    "union" => { let n = self.name()?; let b = self.i; self.directives(true)?; if self.at_p("=") { self.union_members()?; } if self.i == b { return None; } Some(("UnionTypeExtension".into(), Some(n))) }
                    "enum" => { let n = self.name()?; let b = self.i; self.directives(true)?; if self.at_p("{") { self.enum_values()?; } if self.i == b { return None; } Some(("EnumTypeExtension".into(), Some(n))) }
                    "input" => { let n = self.name()?; let b = self.i; self.directives(true)?; if self.at_p("{") { self.input_fields()?; } if self.i == b { return None; } Some(("InputObjectTypeExtension".into(), Some(n))) }
                    _ => None,
                }
            }
            _ => None,
        }
    }
}

/// (audit G1) is the whole input exactly one Type?  (independent of the parser under test)
pub fn spec_type(src: &str) -> bool {
    let Some(toks) = tokens(src) else { return false };
    let mut r = R { t: &toks, i: 0 };
    r.ty().is_some() && r.i == toks.len()
}

/// (audit G1) is the whole input exactly one SelectionSet, with or without its outer braces (the federation field-set syntax)?
pub fn spec_field_set(src: &str) -> bool {
    let Some(mut toks) = tokens(src) else { return false };
    if toks.is_empty() { return false; }
    if toks[0] != Tk::P("{") { toks.insert(0, Tk::P("{")); toks.push(Tk::P("}")); }
    let mut r = R { t: &toks, i: 0 };
    r.selection_set().is_some() && r.i == toks.len()
}

/// Document :: Definition+
pub fn spec_document(src: &str) -> Option<Vec<(String, Option<String>)>> {
    let toks = tokens(src)?;
    if toks.is_empty() { return None; }
    let mut r = R { t: &toks, i: 0 };
    let mut defs = vec![];
    while r.i < toks.len() { defs.push(r.definition()?); }
    Some(defs)
}
