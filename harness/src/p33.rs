//! C33 — generated responses match the operation's shape.
//! Stream `c33.build`: (schema, typed operation, configuration, scripted randomness) ↦ response JSON
//! (the Lean model of apollo-smith's response.rs replays the same draws).
//! Oracle on the implementation: an independent shape checker written from the property text
//! (response keys of CollectFields for some possible concrete type, list nesting exactly as the field
//! type, no null at non-null positions, defined enum values, JSON kinds of built-in scalars, __typename a
//! possible type), and execution of the operation by apollo-compiler over the generated data.
use crate::util::*;
use apollo_compiler::executable::{Field, Selection, SelectionSet};
use apollo_compiler::resolvers::{Execution, FieldError, ObjectValue, ResolveInfo, ResolvedValue};
use apollo_compiler::schema::ExtendedType;
use apollo_compiler::validation::Valid;
use apollo_compiler::{ast::Type, ExecutableDocument, Schema};
use apollo_smith::{RandomProvider, ResponseBuilder, ResponseError};
use serde_json_bytes::Value;
use std::fmt::Write;

const SCHEMAS: &[&str] = &[
    // nested lists, enums, custom scalar
    "type Query { a: Int b: [Int] c: [[Int!]] d: [[String]!]! e: E! f: [E!]! g: C h: ID! i: Float j: Boolean! k: String o: O os: [O!] oss: [[O]] }
     type O { a: Int c: [[Int!]] e: E! o: O os: [O!] k: String! }
     enum E { RED GREEN BLUE } scalar C",
    // interfaces (also implementing interfaces) and unions
    "type Query { n: Node! ns: [Node] u: U us: [[U!]!] r: Res! p: P }
     interface Node { id: ID! }
     interface Res implements Node { id: ID! url: String }
     type P implements Node { id: ID! name: String friend: Node }
     type Img implements Res & Node { id: ID! url: String w: Int }
     type Doc implements Res & Node { id: ID! url: String pages: [Int!]! }
     type Lone { x: Int }
     union U = P | Img | Lone",
    // mutation + subscription roots, single-member union, interface with one implementer
    "schema { query: Q mutation: M subscription: S }
     type Q { v: V }
     type M { set: V! many: [V!]! }
     type S { tick: [[V]] }
     interface I { z: Int }
     type V implements I { z: Int w: W i: I }
     union W = V",
];

struct ScriptRng { state: Rng, log: Vec<u64> }
impl ScriptRng {
    fn draw(&mut self, n: u64) -> u64 { let v = if n == 0 { 0 } else { self.state.next() % n }; self.log.push(v); v }
}
impl RandomProvider for ScriptRng {
    fn gen_bool(&mut self) -> Result<bool, ResponseError> { Ok(self.draw(2) == 1) }
    fn gen_i32_range(&mut self, min: i32, max: i32) -> Result<i32, ResponseError> { Ok(min + self.draw((max - min) as u64 + 1) as i32) }
    fn gen_usize_range(&mut self, min: usize, max: usize) -> Result<usize, ResponseError> { Ok(min + self.draw((max - min) as u64 + 1) as usize) }
    fn gen_f64_range(&mut self, _min: f64, _max: f64) -> Result<f64, ResponseError> { self.draw(1); Ok(0.5) }
    fn gen_alphanumeric_char(&mut self) -> Result<char, ResponseError> { Ok((b'a' + self.draw(26) as u8) as char) }
    fn choose_index(&mut self, len: usize) -> Result<usize, ResponseError> { if len == 0 { return Err(ResponseError::EmptyChoose); } Ok(self.draw(len as u64) as usize) }
    fn ratio(&mut self, numerator: u32, denominator: u32) -> Result<bool, ResponseError> { Ok(self.draw(denominator as u64) < numerator as u64) }
}

// ---------- type-directed operation generator (valid by construction, then validated) ----------
struct OpGen<'a> { r: &'a mut Rng, schema: &'a Schema, frags: Vec<String>, nfrag: usize }
impl<'a> OpGen<'a> {
    fn possible(&self, ty: &str) -> Vec<String> {
        match self.schema.types.get(ty) {
            Some(ExtendedType::Object(_)) => vec![ty.to_string()],
            Some(ExtendedType::Interface(_)) => self.schema.types.iter().filter_map(|(n, t)| match t { ExtendedType::Object(o) if o.implements_interfaces.contains(ty) => Some(n.to_string()), _ => None }).collect(),
            Some(ExtendedType::Union(u)) => u.members.iter().map(|m| m.name.to_string()).collect(),
            _ => vec![],
        }
    }
    /// type conditions that may be spread inside `ty`: the type itself, its possible types, interfaces they implement
    fn conditions(&self, ty: &str) -> Vec<String> {
        let mut out = vec![ty.to_string()];
        for p in self.possible(ty) {
            if !out.contains(&p) { out.push(p.clone()); }
            if let Some(ExtendedType::Object(o)) = self.schema.types.get(p.as_str()) { for i in &o.implements_interfaces { let i = i.name.to_string(); if !out.contains(&i) { out.push(i); } } }
        }
        // unions containing a possible type
        for (n, t) in &self.schema.types { if let ExtendedType::Union(u) = t { if self.possible(ty).iter().any(|p| u.members.iter().any(|m| m.name == p.as_str())) { let n = n.to_string(); if !out.contains(&n) { out.push(n); } } } }
        out
    }
    fn fields_of(&self, ty: &str) -> Vec<(String, Type)> {
        match self.schema.types.get(ty) {
            Some(ExtendedType::Object(o)) => o.fields.iter().map(|(n, f)| (n.to_string(), f.ty.clone())).collect(),
            Some(ExtendedType::Interface(o)) => o.fields.iter().map(|(n, f)| (n.to_string(), f.ty.clone())).collect(),
            _ => vec![],
        }
    }
    fn selset(&mut self, ty: &str, d: usize) -> String {
        let mut s = String::from("{");
        let n = 1 + self.r.below(4);
        let fields = self.fields_of(ty);
        for _ in 0..n {
            s.push(' ');
            let k = self.r.below(10);
            if k == 0 || fields.is_empty() && k < 4 { if self.r.chance(1, 3) { s.push_str("t: __typename"); } else { s.push_str("__typename"); } continue; }
            if k <= 5 && !fields.is_empty() {
                let (name, fty) = self.r.pick(&fields).clone();
                if self.r.chance(1, 4) { write!(s, "x_{name}: ").unwrap(); }
                s.push_str(&name);
                let inner = fty.inner_named_type().to_string();
                let composite = matches!(self.schema.types.get(inner.as_str()), Some(ExtendedType::Object(_) | ExtendedType::Interface(_) | ExtendedType::Union(_)));
                if composite { s.push(' '); if d >= 4 { s.push_str("{ __typename }"); } else { let sub = self.selset(&inner, d + 1); s.push_str(&sub); } }
                continue;
            }
            let conds = self.conditions(ty);
            let c = self.r.pick(&conds).clone();
            if d >= 4 { s.push_str("__typename"); continue; }
            if k == 6 { let sub = self.selset(ty, d + 1); write!(s, "... {sub}").unwrap(); }
            else if k <= 8 { let sub = self.selset(&c, d + 1); write!(s, "... on {c} {sub}").unwrap(); }
            else { let sub = self.selset(&c, d + 1); let name = format!("F{}", self.nfrag); self.nfrag += 1; self.frags.push(format!("fragment {name} on {c} {sub}")); write!(s, "...{name}").unwrap(); }
        }
        s.push_str(" }");
        s
    }
}

// ---------- encoding of schema and typed document for the Lean model ----------
fn enc_ty(t: &Type, out: &mut String) {
    match t { Type::Named(n) => { write!(out, "n{n};").unwrap() } Type::NonNullNamed(n) => { write!(out, "N{n};").unwrap() }
        Type::List(t) => { out.push('l'); enc_ty(t, out) } Type::NonNullList(t) => { out.push('L'); enc_ty(t, out) } }
}
fn enc_selset(ss: &SelectionSet, out: &mut String) {
    write!(out, "{{{}|", ss.ty).unwrap();
    for sel in &ss.selections {
        match sel {
            Selection::Field(f) => {
                write!(out, "F{},{},", f.alias.as_ref().map(|a| a.as_str()).unwrap_or("-"), f.name).unwrap();
                enc_ty(f.ty(), out);
                if f.selection_set.is_empty() { out.push('.'); } else { enc_selset(&f.selection_set, out); }
            }
            Selection::FragmentSpread(s) => { write!(out, "S{};", s.fragment_name).unwrap() }
            Selection::InlineFragment(i) => { write!(out, "I{}", i.type_condition.as_ref().map(|a| a.as_str()).unwrap_or("-")).unwrap(); enc_selset(&i.selection_set, out) }
        }
    }
    out.push('}');
}
fn enc_schema(schema: &Schema) -> String {
    let mut parts = vec![];
    for (n, t) in &schema.types {
        if n.starts_with("__") { continue; }
        parts.push(match t {
            ExtendedType::Scalar(_) => format!("S:{n}"),
            ExtendedType::Enum(e) => format!("E:{n}:{}", e.values.keys().map(|k| k.to_string()).collect::<Vec<_>>().join(",")),
            ExtendedType::Object(o) => format!("O:{n}:{}", o.implements_interfaces.iter().map(|k| k.name.to_string()).collect::<Vec<_>>().join(",")),
            ExtendedType::Interface(_) => format!("I:{n}"),
            ExtendedType::Union(u) => format!("U:{n}:{}", u.members.iter().map(|k| k.name.to_string()).collect::<Vec<_>>().join(",")),
            ExtendedType::InputObject(_) => format!("X:{n}"),
        });
    }
    parts.join(";")
}

// ---------- independent shape checker ----------
struct Shape<'a> { schema: &'a Schema, doc: &'a ExecutableDocument }
impl<'a> Shape<'a> {
    fn possible(&self, ty: &str) -> Vec<String> {
        match self.schema.types.get(ty) {
            Some(ExtendedType::Object(_)) => vec![ty.to_string()],
            Some(ExtendedType::Interface(_)) => self.schema.types.iter().filter_map(|(n, t)| match t { ExtendedType::Object(o) if o.implements_interfaces.contains(ty) => Some(n.to_string()), _ => None }).collect(),
            Some(ExtendedType::Union(u)) => u.members.iter().map(|m| m.name.to_string()).collect(),
            _ => vec![],
        }
    }
    /// DoesFragmentTypeApply(objectType, fragmentType)
    fn applies(&self, object: &str, cond: &str) -> bool { self.possible(cond).iter().any(|p| p == object) }
    /// CollectFields for a concrete object type (no @skip/@include in generated operations): ordered groups
    fn collect(&self, object: &str, sels: &[&'a Selection], out: &mut Vec<(String, Vec<&'a Field>)>, visited: &mut Vec<String>) {
        for sel in sels {
            match sel {
                Selection::Field(f) => { let key = f.response_key().to_string(); if let Some(g) = out.iter_mut().find(|(k, _)| *k == key) { g.1.push(f); } else { out.push((key, vec![f])); } }
                Selection::FragmentSpread(s) => {
                    let name = s.fragment_name.to_string();
                    if visited.contains(&name) { continue; }
                    visited.push(name);
                    if let Some(fr) = self.doc.fragments.get(&s.fragment_name) { if self.applies(object, fr.type_condition()) { let v: Vec<&Selection> = fr.selection_set.selections.iter().collect(); self.collect(object, &v, out, visited); } }
                }
                Selection::InlineFragment(i) => { if i.type_condition.as_ref().map(|c| self.applies(object, c)).unwrap_or(true) { let v: Vec<&Selection> = i.selection_set.selections.iter().collect(); self.collect(object, &v, out, visited); } }
            }
        }
    }
    fn check_object(&self, declared: &str, sels: &[&'a Selection], v: &Value, path: &str) -> Result<(), String> {
        let Some(map) = v.as_object() else { return Err(format!("{path}: expected an object for type {declared}, got {v}")) };
        let mut errs = vec![];
        for object in self.possible(declared) {
            match self.check_object_as(&object, sels, map, path) { Ok(()) => return Ok(()), Err(e) => errs.push(format!("as {object}: {e}")) }
        }
        Err(format!("{path}: object does not match any possible type of {declared}: {}", errs.join(" / ")))
    }
    fn check_object_as(&self, object: &str, sels: &[&'a Selection], map: &serde_json_bytes::Map<serde_json_bytes::ByteString, Value>, path: &str) -> Result<(), String> {
        let mut groups = vec![];
        self.collect(object, sels, &mut groups, &mut vec![]);
        let keys: Vec<&str> = map.keys().map(|k| k.as_str()).collect();
        let want: Vec<&str> = groups.iter().map(|(k, _)| k.as_str()).collect();
        let mut a = keys.clone(); a.sort(); let mut b = want.clone(); b.sort();
        if a != b { return Err(format!("{path}: response keys {keys:?}, CollectFields gives {want:?}")); }
        for (key, fields) in &groups {
            let v = map.get(key.as_str()).unwrap();
            let f = fields[0];
            let p = format!("{path}.{key}");
            if f.name == "__typename" { if v.as_str() != Some(object) { return Err(format!("{p}: __typename {v} but the other keys fit {object}")); } continue; }
            let sub: Vec<&Selection> = fields.iter().flat_map(|f| f.selection_set.selections.iter()).collect();
            self.check_value(f.ty(), &sub, v, &p)?;
        }
        Ok(())
    }
    fn check_value(&self, ty: &Type, sub: &[&'a Selection], v: &Value, path: &str) -> Result<(), String> {
        if v.is_null() { return if ty.is_non_null() { Err(format!("{path}: null at non-null position of type {ty}")) } else { Ok(()) }; }
        match ty {
            Type::List(inner) | Type::NonNullList(inner) => {
                let Some(items) = v.as_array() else { return Err(format!("{path}: type {ty} needs a list, got {v}")) };
                for (i, item) in items.iter().enumerate() { self.check_value(inner, sub, item, &format!("{path}[{i}]"))?; }
                Ok(())
            }
            Type::Named(n) | Type::NonNullNamed(n) => {
                if v.as_array().is_some() { return Err(format!("{path}: type {ty} is not a list but the value is {v}")); }
                match self.schema.types.get(n) {
                    Some(ExtendedType::Enum(e)) => match v.as_str() { Some(s) if e.values.contains_key(s) => Ok(()), _ => Err(format!("{path}: {v} is not a value of enum {n}")) },
                    Some(ExtendedType::Scalar(_)) => {
                        let ok = match n.as_str() {
                            "Int" => v.as_i64().map(|i| i >= i32::MIN as i64 && i <= i32::MAX as i64).unwrap_or(false),
                            "Float" => v.is_number(),
                            "String" => v.is_string(),
                            "Boolean" => v.is_boolean(),
                            "ID" => v.is_string() || v.as_i64().is_some(),
                            _ => true,
                        };
                        if ok { Ok(()) } else { Err(format!("{path}: {v} is not a valid {n}")) }
                    }
                    Some(_) => self.check_object(n, sub, v, path),
                    None => Err(format!("{path}: unknown type {n}")),
                }
            }
        }
    }
    /// the concrete object type a generated object stands for (first possible type that fits)
    fn concrete_of(&self, declared: &str, sels: &[&'a Selection], v: &Value) -> Option<String> {
        let map = v.as_object()?;
        self.possible(declared).into_iter().find(|o| self.check_object_as(o, sels, map, "").is_ok())
    }
}

// ---------- serving the generated data to apollo-compiler's executor ----------
struct JsonObj<'a> { ty: String, map: &'a serde_json_bytes::Map<serde_json_bytes::ByteString, Value>, shape: &'a Shape<'a> }
fn resolved<'a>(shape: &'a Shape<'a>, ty: &Type, sub: Vec<&'a Selection>, v: &'a Value) -> ResolvedValue<'a> {
    if v.is_null() { return ResolvedValue::null(); }
    match ty {
        Type::List(inner) | Type::NonNullList(inner) => {
            let inner: Type = (**inner).clone();
            match v.as_array() {
                Some(items) => { let it: Vec<Result<ResolvedValue<'a>, FieldError>> = items.iter().map(|i| Ok(resolved(shape, &inner, sub.clone(), i))).collect(); ResolvedValue::List(Box::new(it.into_iter())) }
                None => ResolvedValue::leaf(v.clone()),
            }
        }
        Type::Named(n) | Type::NonNullNamed(n) => match (shape.schema.types.get(n), v.as_object()) {
            (Some(ExtendedType::Object(_) | ExtendedType::Interface(_) | ExtendedType::Union(_)), Some(map)) => {
                let ty = shape.concrete_of(n, &sub, v).unwrap_or_else(|| n.to_string());
                ResolvedValue::object(JsonObj { ty, map, shape })
            }
            _ => ResolvedValue::leaf(v.clone()),
        },
    }
}
impl<'a> ObjectValue for JsonObj<'a> {
    fn type_name(&self) -> &str { &self.ty }
    fn resolve_field<'b>(&'b self, info: &'b ResolveInfo<'b>) -> Result<ResolvedValue<'b>, FieldError> {
        let f = info.field_selections()[0];
        let key = f.response_key().as_str();
        let Some(v) = self.map.get(key) else { return Err(FieldError { message: format!("no data for {key}") }) };
        let sub: Vec<&Selection> = info.field_selections().iter().flat_map(|f| f.selection_set.selections.iter()).collect();
        // lifetimes: the shape (schema, document) and the data outlive the execution
        let shape: &'b Shape<'b> = unsafe_shorten(self.shape);
        let sub: Vec<&'b Selection> = sub.into_iter().map(|s| { let p: &'b Selection = s; p }).collect();
        Ok(resolved(shape, f.ty(), sub, v))
    }
}
fn unsafe_shorten<'b, 'a: 'b>(s: &'b Shape<'a>) -> &'b Shape<'b> { s }

fn json_text(v: &Value) -> String { serde_json::to_string(v).unwrap_or_else(|_| "?".into()) }

fn run_one(ctx: &mut Ctx, schema: &Valid<Schema>, schema_enc: &str, src: &str, doc: &Valid<ExecutableDocument>, opname: Option<&str>, cfg: (usize, usize, Option<(u32, u32)>), seed: u64) {
    let Ok(op) = doc.operations.get(opname) else { return };
    let mut rng = ScriptRng { state: Rng(seed), log: vec![] };
    let (minl, maxl, nr) = cfg;
    let built = catch(|| {
        let mut b = ResponseBuilder::new(&mut rng, doc, schema).with_min_list_size(minl).with_max_list_size(maxl).with_operation_name(opname);
        if let Some((n, d)) = nr { b = b.with_null_ratio(n, d); }
        b.build_data()
    });
    let input = format!("schema#{} op={:?} cfg={cfg:?} seed={seed} src={src}", schema_enc.len(), opname);
    let data = match built {
        Ok(Ok(v)) => v,
        Ok(Err(e)) => { ctx.stat("build_error"); ctx.fail("build-error", &input, &format!("{e}")); return }
        Err(m) => { ctx.fail("build-panic", &input, &m); return }
    };
    // correspondence
    let mut docenc = String::new();
    enc_selset(&op.selection_set, &mut docenc);
    let frags: Vec<String> = doc.fragments.iter().map(|(n, f)| { let mut s = format!("{n}~{}~", f.type_condition()); enc_selset(&f.selection_set, &mut s); s }).collect();
    let script: Vec<String> = rng.log.iter().map(|x| x.to_string()).collect();
    let cfg_s = format!("{minl},{maxl},{}", nr.map(|(n, d)| format!("{n}/{d}")).unwrap_or_else(|| "-".into()));
    ctx.case("c33.build", &[format!("={schema_enc}"), format!("={docenc}"), format!("={}", frags.join("^")), format!("={cfg_s}"), format!("={}", script.join(","))], &json_text(&data));
    ctx.stat("responses");
    ctx.stat_n("draws", rng.log.len() as u64);
    check_data(ctx, schema, doc, op, &data, &input);
}

/// the two oracles on a generated response (whatever randomness source produced it)
fn check_data(ctx: &mut Ctx, schema: &Valid<Schema>, doc: &Valid<ExecutableDocument>, op: &apollo_compiler::executable::Operation, data: &Value, input: &str) {
    let data = data.clone();
    let input = input.to_string();
    // oracle 1: shape
    let shape = Shape { schema, doc };
    let sels: Vec<&Selection> = op.selection_set.selections.iter().collect();
    let shape_ok = match shape.check_object(op.selection_set.ty.as_str(), &sels, &data, "data") {
        Ok(()) => true,
        Err(e) => {
            let key = if e.contains("needs a list") || e.contains("is not a list") || e.contains("is not a valid") && e.contains('[') { "list-nesting" } else if e.contains("null at non-null") { "null-at-non-null" } else if e.contains("response keys") || e.contains("does not match any possible type") { "response-keys" } else if e.contains("enum") { "enum-value" } else { "shape" };
            ctx.fail(key, &input, &format!("{e}; data {}", json_text(&data)));
            false
        }
    };
    if json_text(&data).contains('[') { ctx.nontrivial(&json_text(&data)); }
    // oracle 2: executing the operation over this data reproduces it without errors
    if shape_ok {
        if let Some(map) = data.as_object() {
            let root = JsonObj { ty: op.selection_set.ty.to_string(), map, shape: &shape };
            let exec = catch(|| Execution::new(schema, doc).operation(op).execute_sync(&root));
            match exec {
                Ok(Ok(resp)) => {
                    let got = resp.data.map(Value::Object).unwrap_or(Value::Null);
                    if !resp.errors.is_empty() { ctx.fail("replay-errors", &input, &format!("executing over the generated data gives errors: {:?}; data {}", resp.errors.iter().map(|e| e.message.clone()).collect::<Vec<_>>(), json_text(&data))); }
                    else if got != data { ctx.fail("replay-differs", &input, &format!("generated {} executed {}", json_text(&data), json_text(&got))); }
                    ctx.stat("replays");
                }
                Ok(Err(e)) => ctx.fail("replay-request-error", &input, &format!("{e:?}")),
                Err(m) => ctx.fail("replay-panic", &input, &m),
            }
        }
    }
}

/// The same builder driven by the real `arbitrary::Unstructured` provider (random.rs) over a byte buffer: the
/// draws cannot be scripted, so this is oracle-only (shape + replay), for buffers from empty to long.
fn run_unstructured(ctx: &mut Ctx, schema: &Valid<Schema>, src: &str, doc: &Valid<ExecutableDocument>, opname: Option<&str>, cfg: (usize, usize, Option<(u32, u32)>), bytes: &[u8]) {
    let Ok(op) = doc.operations.get(opname) else { return };
    let (minl, maxl, nr) = cfg;
    let built = catch(|| {
        let mut u = arbitrary::Unstructured::new(bytes);
        let mut b = ResponseBuilder::new(&mut u, doc, schema).with_min_list_size(minl).with_max_list_size(maxl).with_operation_name(opname);
        if let Some((n, d)) = nr { b = b.with_null_ratio(n, d); }
        b.build_data()
    });
    let input = format!("provider=Unstructured bytes={bytes:?} op={opname:?} cfg={cfg:?} src={src}");
    ctx.stat("unstructured_provider");
    ctx.stat(&format!("unstructured_bytes_{}", match bytes.len() { 0 => "0", 1..=8 => "1-8", 9..=64 => "9-64", _ => "65+" }));
    match built {
        Ok(Ok(v)) => check_data(ctx, schema, doc, op, &v, &input),
        Ok(Err(e)) => { ctx.stat("build_error"); ctx.fail("build-error", &input, &format!("{e}")); }
        Err(m) => ctx.fail("build-panic", &input, &m),
    }
}

/// every wrapping of `name` with at most three list layers (2 + 4 + 8 + 16 = 30)
fn all_wrappings(name: &str) -> Vec<String> {
    let mut out = vec![];
    for layers in 0..4usize {
        for bits in 0..(1u32 << (layers + 1)) {
            let mut t = if bits & 1 == 0 { name.to_string() } else { format!("{name}!") };
            for k in 1..=layers { t = if bits >> k & 1 == 0 { format!("[{t}]") } else { format!("[{t}]!") }; }
            out.push(t);
        }
    }
    out
}

/// (prefix, base type, sub-selection) of the wrapping schema
const WRAP_KINDS: &[(&str, &str, &str)] = &[
    ("i", "Int", ""), ("f", "Float", ""), ("s", "String", ""), ("b", "Boolean", ""), ("d", "ID", ""), ("e", "E", ""), ("c", "C", ""),
    ("o", "O", " { x }"), ("n", "N", " { __typename x ... on P { y } }"), ("u", "U", " { ... on O { x } ... on P { y t: __typename } }"),
];

/// one root field per wrapping (≤ 3 list layers) of every kind of leaf and composite type; an object that implements
/// its interface, and a union member, only through an extension
fn wrapping_schema() -> String {
    let mut q = String::from("type Query {");
    for (p, base, _) in WRAP_KINDS { for (k, w) in all_wrappings(base).iter().enumerate() { write!(q, " {p}{k}: {w}").unwrap(); } }
    q.push_str(" }\n");
    q.push_str("enum E { A B } scalar C interface N { x: Int } type O implements N { x: Int } type P { x: Int y: String } union U = O\n");
    q.push_str("extend type P implements N\nextend union U = P\n");
    q
}

const FIXED_OPS: &[(usize, &str)] = &[
    (0, "{ a b c d e f g h i j k }"), (0, "{ c d oss { c } os { os { k } } }"), (0, "{ o { a } o { k } x_o: o { e } }"), (0, "{ __typename t: __typename o { __typename } }"),
    (1, "{ n { id __typename } ns { id ... on P { name } ... on Res { url } } }"), (1, "{ u { __typename ... on P { name } ... on Img { w } } us { ... on Lone { x } ...F } } fragment F on Node { id }"),
    (1, "{ r { id url ... on Doc { pages } ... on Img { w } } p { friend { id ... on P { friend { id } } } } }"), (1, "{ us { __typename } u { ... on Node { id } } }"),
    (2, "{ v { z w { ... on V { z } } i { z } } }"), (2, "mutation { set { z } many { z w { __typename } } }"), (2, "subscription { tick { z } }"),
];

pub fn run(ctx: &mut Ctx) {
    let cfgs: [(usize, usize, Option<(u32, u32)>); 9] = [(0, 5, None), (1, 3, None), (2, 2, Some((1, 2))), (0, 0, None), (0, 3, Some((1, 1))), (1, 2, Some((1, 3))),
        // audit G5: never-null ratio, a fixed size above one, a bound above the default
        (0, 2, Some((0, 1))), (3, 3, None), (0, 7, Some((2, 3)))];
    let mut schema_texts: Vec<String> = SCHEMAS.iter().map(|s| s.to_string()).collect();
    let wrap_si = schema_texts.len();
    schema_texts.push(wrapping_schema());
    let schemas: Vec<Valid<Schema>> = schema_texts.iter().map(|s| Schema::parse_and_validate(s.as_str(), "s.graphql").expect("fixed schema validates")).collect();
    let encs: Vec<String> = schemas.iter().map(|s| enc_schema(s)).collect();
    for (si, src) in FIXED_OPS {
        let doc = ExecutableDocument::parse_and_validate(&schemas[*si], *src, "q.graphql").expect("fixed operation validates");
        for (ci, cfg) in cfgs.iter().enumerate() { for seed in 0..4u64 { run_one(ctx, &schemas[*si], &encs[*si], src, &doc, None, *cfg, seed * 7 + ci as u64 + 1); } }
    }
    // ── wrapping family (audit G5): every wrapping up to three list layers of every kind of type ──
    for (p, base, sub) in WRAP_KINDS {
        let n = all_wrappings(base).len();
        // all wrappings with ≤ 2 layers in one operation, the three-layer ones in a second (responses stay small)
        for (lo, hi) in [(0usize, 14usize), (14, n)] {
            let src = format!("{{ {} }}", (lo..hi).map(|k| format!("{p}{k}{sub}")).collect::<Vec<_>>().join(" "));
            let doc = ExecutableDocument::parse_and_validate(&schemas[wrap_si], &src, "q.graphql").expect("wrapping operation validates");
            let use_cfgs: Vec<usize> = if ctx.thorough { (0..cfgs.len()).collect() } else if lo == 0 { vec![1, 2, 5, 6] } else { vec![1, 5] };
            for ci in use_cfgs {
                let mut cfg = cfgs[ci];
                if lo > 0 { cfg.1 = cfg.1.min(3); cfg.0 = cfg.0.min(cfg.1); } // three layers: at most 27 leaves per field
                for seed in 0..(if ctx.thorough { 4u64 } else { 2 }) {
                    ctx.stat("family:wrappings");
                    run_one(ctx, &schemas[wrap_si], &encs[wrap_si], &src, &doc, None, cfg, 1000 + seed * 13 + ci as u64);
                }
            }
        }
    }
    let n = if ctx.thorough { 40_000 } else { 3_000 };
    for i in 0..n {
        let si = ctx.rng.below(schemas.len());
        let schema = &schemas[si];
        let mut r = Rng(ctx.rng.next());
        let root_kind = if si == 2 { *r.pick(&["query", "mutation", "subscription"]) } else { "query" };
        let root_ty = match root_kind { "mutation" => "M", "subscription" => "S", _ => if si == 2 { "Q" } else { "Query" } };
        // one document in four has two named operations sharing the fragment definitions (audit G5)
        let two_ops = root_kind != "subscription" && r.chance(1, 4);
        let (body, body2, frags) = {
            let mut g = OpGen { r: &mut r, schema, frags: vec![], nfrag: 0 };
            let b = g.selset(root_ty, 0);
            let b2 = if two_ops { g.selset(root_ty, 0) } else { String::new() };
            (b, b2, g.frags)
        };
        // a subscription must have a single root field
        let body = if root_kind == "subscription" { "{ tick { z w { __typename } } }".to_string() } else { body };
        let src = if two_ops { format!("{root_kind} A {body} {root_kind} B {body2} {}", frags.join(" ")) } else { format!("{root_kind} {body} {}", frags.join(" ")) };
        let doc = match ExecutableDocument::parse_and_validate(schema, &src, "q.graphql") { Ok(d) => d, Err(_) => { ctx.stat("generated_invalid"); continue } };
        ctx.stat("generated_valid");
        let cfg = cfgs[i % cfgs.len()];
        let seed = ctx.rng.next();
        let names: Vec<Option<&str>> = if two_ops { vec![Some("A"), Some("B")] } else { vec![None] };
        for name in &names {
            if name.is_some() { ctx.stat("named_operation"); }
            run_one(ctx, schema, &encs[si], &src, &doc, *name, cfg, seed);
        }
        // the same request through the real `Unstructured` provider (oracle-only), one document in five
        if i % 5 == 0 {
            let len = *r.pick(&[0usize, 1, 3, 8, 40, 200, 1000]);
            let bytes: Vec<u8> = (0..len).map(|_| r.below(256) as u8).collect();
            // `Unstructured::ratio` documents a panic for a zero numerator: that configuration is left to the scripted provider
            let cfg_u = if matches!(cfg.2, Some((0, _))) { (cfg.0, cfg.1, None) } else { cfg };
            run_unstructured(ctx, schema, &src, &doc, names[0], cfg_u, &bytes);
        }
    }
}
