//! C15 — valid schemas are internally consistent.
//! Every `Valid<Schema>` reached (generated valid schemas, mutants that still validate, invalid
//! schemas mutated until they validate, repo seeds) is checked clause by clause against the C15
//! statement, directly on the public fields `schema_definition`, `types`, `directive_definitions`.
//! Stream `c15.inv`: the abstract schema exported from the real `Schema` (validated or only built) is
//! evaluated by the Lean invariant evaluators; the bits must equal this file's own evaluation.
use crate::p14::random_valid;
use crate::schemagen::*;
use crate::util::*;
use apollo_compiler::ast::Type;
use apollo_compiler::schema::ExtendedType;
use apollo_compiler::Schema;
use std::collections::{BTreeMap, BTreeSet};

const BUILTIN_SCALARS: [&str; 5] = ["Int", "Float", "String", "Boolean", "ID"];

fn is_input_kind(t: &ExtendedType) -> bool { matches!(t, ExtendedType::Scalar(_) | ExtendedType::Enum(_) | ExtendedType::InputObject(_)) }
fn is_output_kind(t: &ExtendedType) -> bool { !matches!(t, ExtendedType::InputObject(_)) }

fn implements_of(t: &ExtendedType) -> Vec<String> {
    match t {
        ExtendedType::Object(o) => o.implements_interfaces.iter().map(|c| c.name.to_string()).collect(),
        ExtendedType::Interface(i) => i.implements_interfaces.iter().map(|c| c.name.to_string()).collect(),
        _ => vec![],
    }
}

type Fields = Vec<(String, Type, Vec<(String, Type, bool)>)>; // name, type, args(name, type, required)

fn fields_of(t: &ExtendedType) -> Fields {
    let m = match t { ExtendedType::Object(o) => &o.fields, ExtendedType::Interface(i) => &i.fields, _ => return vec![] };
    m.iter().map(|(n, f)| (n.to_string(), f.ty.clone(), f.arguments.iter().map(|a| (a.name.to_string(), (*a.ty).clone(), a.ty.is_non_null() && a.default_value.is_none())).collect())).collect()
}

/// IsValidImplementationFieldType(fieldType, implementedFieldType), spec §3.6.1, on `ast::Type`
fn covariant(s: &Schema, field: &Type, implemented: &Type) -> bool {
    match (field, implemented) {
        // 1. fieldType non-null: strip it, and strip implementedFieldType's non-null if present
        (Type::NonNullNamed(f), Type::NonNullNamed(i)) | (Type::NonNullNamed(f), Type::Named(i)) => covariant(s, &Type::Named(f.clone()), &Type::Named(i.clone())),
        (Type::NonNullList(f), Type::NonNullList(i)) | (Type::NonNullList(f), Type::List(i)) => covariant(s, &Type::List(f.clone()), &Type::List(i.clone())),
        (Type::NonNullNamed(_), _) | (Type::NonNullList(_), _) => false,
        // 2. both lists
        (Type::List(f), Type::List(i)) => covariant(s, f, i),
        // 3-5. same type, or member of the union / implementor of the interface
        (Type::Named(f), Type::Named(i)) => {
            if f == i { return true; }
            match (s.types.get(f), s.types.get(i)) {
                (Some(ExtendedType::Object(_)), Some(ExtendedType::Union(u))) => u.members.iter().any(|m| m.name == *f),
                (Some(ft @ (ExtendedType::Object(_) | ExtendedType::Interface(_))), Some(ExtendedType::Interface(_))) => implements_of(ft).iter().any(|x| x == i.as_str()),
                _ => false,
            }
        }
        _ => false,
    }
}

#[derive(Default, Debug)]
pub struct Inv {
    pub roots: bool,
    pub impl_kind: bool,
    pub trans: bool,
    pub input: bool,
    pub scalars: bool,
    pub contracts: bool,
    pub kinds: bool,
    /// violated clauses (stable keys) with a detail
    pub failures: Vec<(String, String)>,
}

pub fn referenced_names(s: &Schema) -> BTreeSet<String> {
    let mut refs = BTreeSet::new();
    for d in s.directive_definitions.values() { for a in &d.arguments { refs.insert(a.ty.inner_named_type().to_string()); } }
    for t in s.types.values() {
        for (_, ty, args) in fields_of(t) { refs.insert(ty.inner_named_type().to_string()); for (_, at, _) in args { refs.insert(at.inner_named_type().to_string()); } }
        if let ExtendedType::InputObject(io) = t { for f in io.fields.values() { refs.insert(f.ty.inner_named_type().to_string()); } }
    }
    refs
}

/// every clause of the C15 statement, evaluated on the schema's public fields
pub fn invariants(s: &Schema) -> Inv {
    let mut inv = Inv::default();
    let mut fail = |k: &str, d: String| inv.failures.push((k.to_string(), d));
    // --- a query root; every root operation type is a distinct object type
    let sd = &s.schema_definition;
    let roots: Vec<String> = [&sd.query, &sd.mutation, &sd.subscription].iter().filter_map(|r| r.as_ref().map(|c| c.name.to_string())).collect();
    let mut roots_ok = true;
    if sd.query.is_none() { roots_ok = false; fail("query-root", "no query root".into()); }
    for r in &roots {
        if !matches!(s.types.get(r.as_str()), Some(ExtendedType::Object(_))) { roots_ok = false; fail("root-object-type", format!("root {r} is not an object type")); }
    }
    for i in 0..roots.len() { for j in 0..i { if roots[i] == roots[j] { roots_ok = false; fail("roots-distinct", format!("root type {} used twice", roots[i])); } } }
    // --- referenced types exist with the right kind
    for (tn, t) in &s.types {
        for (fname, ty, args) in fields_of(t) {
            match s.types.get(ty.inner_named_type()) { Some(k) if is_output_kind(k) => {} _ => fail("field-output-type", format!("{tn}.{fname}: {ty}")) }
            for (an, at, _) in args {
                match s.types.get(at.inner_named_type()) { Some(k) if is_input_kind(k) => {} _ => fail("argument-input-type", format!("{tn}.{fname}({an}: {at})")) }
            }
        }
        if let ExtendedType::InputObject(io) = t {
            for f in io.fields.values() {
                match s.types.get(f.ty.inner_named_type()) { Some(k) if is_input_kind(k) => {} _ => fail("input-field-input-type", format!("{tn}.{}: {}", f.name, f.ty)) }
            }
        }
        if let ExtendedType::Union(u) = t {
            for m in &u.members { if !matches!(s.types.get(m.name.as_str()), Some(ExtendedType::Object(_))) { fail("union-member-object", format!("{tn} = {}", m.name)); } }
        }
    }
    for d in s.directive_definitions.values() {
        for a in &d.arguments {
            match s.types.get(a.ty.inner_named_type()) { Some(k) if is_input_kind(k) => {} _ => fail("argument-input-type", format!("@{}({}: {})", d.name, a.name, a.ty)) }
        }
    }
    // --- implements: interfaces only; contracts
    let mut impl_kind = true;
    let mut trans = true;
    for (tn, t) in &s.types {
        let declared = implements_of(t);
        for i in &declared {
            if !matches!(s.types.get(i.as_str()), Some(ExtendedType::Interface(_))) { impl_kind = false; fail("implements-interface", format!("{tn} implements {i}")); }
            if matches!(t, ExtendedType::Interface(_)) && i == tn.as_str() { impl_kind = false; /* not a clause of the statement: bit only */ }
        }
        // transitive closure over interface definitions
        let mut reach: BTreeSet<String> = BTreeSet::new();
        let mut todo: Vec<String> = declared.clone();
        while let Some(i) = todo.pop() {
            if let Some(idef @ ExtendedType::Interface(_)) = s.types.get(i.as_str()) {
                for j in implements_of(idef) { if reach.insert(j.clone()) { todo.push(j); } }
            }
        }
        for j in &reach { if !declared.contains(j) { trans = false; fail("transitive-interface-contract", format!("{tn} does not declare {j}")); } }
        // IsValidImplementation for each implemented interface
        let mine = fields_of(t);
        for i in &declared {
            let Some(idef @ ExtendedType::Interface(_)) = s.types.get(i.as_str()) else { continue };
            for (fname, ity, iargs) in fields_of(idef) {
                let Some((_, fty, fargs)) = mine.iter().find(|f| f.0 == fname) else { fail("field-contract", format!("{tn} lacks {i}.{fname}")); continue };
                if !covariant(s, fty, &ity) { fail("field-contract", format!("{tn}.{fname}: {fty} vs {i}.{fname}: {ity}")); }
                for (an, at, _) in &iargs {
                    match fargs.iter().find(|a| a.0 == *an) {
                        None => fail("argument-contract", format!("{tn}.{fname} lacks argument {an} of {i}")),
                        Some(a) => if a.1 != *at { fail("argument-contract", format!("{tn}.{fname}({an}: {}) vs {at}", a.1)) },
                    }
                }
                for a in fargs { if a.2 && !iargs.iter().any(|x| x.0 == a.0) { fail("argument-contract", format!("{tn}.{fname} adds required argument {}", a.0)); } }
            }
        }
    }
    // --- no input object has a non-null cycle
    let mut input_ok = true;
    let edges: BTreeMap<String, Vec<String>> = s.types.iter().filter_map(|(n, t)| if let ExtendedType::InputObject(io) = t {
        Some((n.to_string(), io.fields.values().filter_map(|f| if let Type::NonNullNamed(m) = &*f.ty { if matches!(s.types.get(m), Some(ExtendedType::InputObject(_))) { Some(m.to_string()) } else { None } } else { None }).collect()))
    } else { None }).collect();
    for start in edges.keys() {
        let mut seen: BTreeSet<&String> = BTreeSet::new();
        let mut todo: Vec<&String> = edges[start].iter().collect();
        let mut cyc = false;
        while let Some(n) = todo.pop() {
            if n == start { cyc = true; break; }
            if seen.insert(n) { todo.extend(edges[n].iter()); }
        }
        if cyc { input_ok = false; fail("input-object-cycle", format!("{start} reaches itself through non-null fields")); }
    }
    // --- no user-defined name starts with `__`
    for (tn, t) in &s.types {
        if !t.is_built_in() && tn.starts_with("__") { fail("reserved-name", format!("type {tn}")); }
        for (fname, _, args) in fields_of(t) {
            if fname.starts_with("__") { fail("reserved-name", format!("field {tn}.{fname}")); }
            for (an, _, _) in args { if an.starts_with("__") { fail("reserved-name", format!("argument {tn}.{fname}({an})")); } }
        }
        if let ExtendedType::Enum(e) = t { for v in e.values.keys() { if v.starts_with("__") { fail("reserved-name", format!("enum value {tn}.{v}")); } } }
        if let ExtendedType::InputObject(io) = t { for f in io.fields.keys() { if f.starts_with("__") { fail("reserved-name", format!("input field {tn}.{f}")); } } }
    }
    for (dn, d) in &s.directive_definitions {
        if dn.starts_with("__") { fail("reserved-name", format!("directive @{dn}")); }
        for a in &d.arguments { if a.name.starts_with("__") { fail("reserved-name", format!("directive argument @{dn}({})", a.name)); } }
    }
    // --- the type map contains exactly the referenced built-in scalars
    let refs = referenced_names(s);
    let mut scalars_ok = true;
    for b in BUILTIN_SCALARS {
        let present = s.types.contains_key(b);
        let referenced = refs.contains(b);
        if present != referenced { scalars_ok = false; fail("builtin-scalars-exact", format!("{b}: present={present} referenced={referenced}")); }
    }
    inv.roots = roots_ok; inv.impl_kind = impl_kind; inv.trans = trans; inv.input = input_ok; inv.scalars = scalars_ok;
    inv.contracts = !inv.failures.iter().any(|(k, _)| k == "field-contract" || k == "argument-contract");
    inv.kinds = !inv.failures.iter().any(|(k, _)| ["field-output-type", "argument-input-type", "input-field-input-type", "union-member-object"].contains(&k.as_str()));
    inv
}

/// the abstract schema for the Lean evaluators
fn export(s: &Schema) -> Vec<String> {
    let idx: BTreeMap<&str, usize> = s.types.keys().enumerate().map(|(i, n)| (n.as_str(), i)).collect();
    let sd = &s.schema_definition;
    let mut undefined: Vec<String> = vec![];
    let mut out = vec![];
    for r in [&sd.query, &sd.mutation, &sd.subscription] {
        out.push(match r {
            None => "=-".to_string(),
            Some(c) => match s.types.get(c.name.as_str()) {
                Some(ExtendedType::Object(_)) => format!("=o{}", idx[c.name.as_str()]),
                Some(_) => format!("=k{}", idx[c.name.as_str()]),
                None => { let p = undefined.iter().position(|u| *u == c.name.as_str()).unwrap_or_else(|| { undefined.push(c.name.to_string()); undefined.len() - 1 }); format!("=u{}", 100000 + p) }
            },
        });
    }
    let mut undef_ifaces: Vec<String> = vec![];
    let imp: Vec<String> = s.types.values().map(|t| {
        let l: Vec<String> = implements_of(t).iter().map(|i| match idx.get(i.as_str()) {
            Some(k) => k.to_string(),
            // distinct undefined names stay distinct
            None => { let p = undef_ifaces.iter().position(|u| u == i).unwrap_or_else(|| { undef_ifaces.push(i.clone()); undef_ifaces.len() - 1 }); (100000 + p).to_string() }
        }).collect();
        format!("{}:{}", if matches!(t, ExtendedType::Interface(_)) { "I" } else { "O" }, l.join(","))
    }).collect();
    out.push(enc(&imp.join("|")));
    let inputs: Vec<(&str, &apollo_compiler::schema::InputObjectType)> = s.types.iter().filter_map(|(n, t)| if let ExtendedType::InputObject(io) = t { Some((n.as_str(), &**io)) } else { None }).collect();
    let iidx: BTreeMap<&str, usize> = inputs.iter().enumerate().map(|(i, (n, _))| (*n, i)).collect();
    let ig: Vec<String> = inputs.iter().map(|(_, io)| io.fields.values().map(|f| match &*f.ty {
        Type::NonNullNamed(m) => format!("N{}", iidx.get(m.as_str()).copied().unwrap_or(999999)),
        t => format!("n{}", iidx.get(t.inner_named_type().as_str()).copied().unwrap_or(999999)),
    }).collect::<Vec<_>>().join(",")).collect();
    out.push(if inputs.is_empty() { "=-".to_string() } else { enc(&ig.join("|")) });
    let ts: Vec<String> = s.types.iter().map(|(n, t)| {
        let mut refs: Vec<String> = vec![];
        for (_, ty, args) in fields_of(t) { refs.push(ty.inner_named_type().to_string()); for (_, at, _) in args { refs.push(at.inner_named_type().to_string()); } }
        if let ExtendedType::InputObject(io) = t { for f in io.fields.values() { refs.push(f.ty.inner_named_type().to_string()); } }
        format!("{n};{};{};{}", if t.is_built_in() { "b" } else { "u" }, if matches!(t, ExtendedType::Scalar(_)) { "s" } else { "o" }, refs.join(","))
    }).collect();
    out.push(enc(&ts.join("|")));
    let drefs: Vec<String> = s.directive_definitions.values().flat_map(|d| d.arguments.iter().map(|a| a.ty.inner_named_type().to_string())).collect();
    out.push(enc(&drefs.join(",")));
    // fields of every type (for the contract evaluator)
    fn ty_enc(t: &Type) -> String {
        match t { Type::Named(n) => format!("n{n};"), Type::NonNullNamed(n) => format!("N{n};"), Type::List(x) => format!("l{}", ty_enc(x)), Type::NonNullList(x) => format!("L{}", ty_enc(x)) }
    }
    let tf: Vec<String> = s.types.values().map(|t| fields_of(t).iter().map(|(n, ty, args)| format!("{n}~{}~{}", ty_enc(ty), args.iter().map(|(an, at, req)| format!("{an}^{at}^{}", if *req { "r" } else { "o" })).collect::<Vec<_>>().join(","))).collect::<Vec<_>>().join("&")).collect();
    out.push(enc(&tf.join("|")));
    // the subtype relation in the specification's sense: object/interface declaring an interface, object member of a union
    let mut subs: Vec<String> = vec![];
    for (n, t) in &s.types {
        for i in implements_of(t) { if matches!(s.types.get(i.as_str()), Some(ExtendedType::Interface(_))) { subs.push(format!("{i}>{n}")); } }
        if let ExtendedType::Union(u) = t { for m in &u.members { if matches!(s.types.get(m.name.as_str()), Some(ExtendedType::Object(_))) { subs.push(format!("{n}>{}", m.name)); } } }
    }
    out.push(enc(&subs.join(",")));
    let kenv: Vec<String> = s.types.iter().map(|(n, t)| format!("{n}:{}", match t { ExtendedType::Scalar(_) => "s", ExtendedType::Object(_) => "o", ExtendedType::Interface(_) => "i", ExtendedType::Union(_) => "u", ExtendedType::Enum(_) => "e", ExtendedType::InputObject(_) => "n" })).collect();
    out.push(enc(&kenv.join(",")));
    let mut refs: Vec<String> = s.types.values().map(|t| {
        let fs = fields_of(t);
        let ft: Vec<String> = fs.iter().map(|f| f.1.inner_named_type().to_string()).collect();
        let at: Vec<String> = fs.iter().flat_map(|f| f.2.iter().map(|a| a.1.inner_named_type().to_string())).collect();
        let ift: Vec<String> = if let ExtendedType::InputObject(io) = t { io.fields.values().map(|f| f.ty.inner_named_type().to_string()).collect() } else { vec![] };
        let ms: Vec<String> = if let ExtendedType::Union(u) = t { u.members.iter().map(|m| m.name.to_string()).collect() } else { vec![] };
        format!("{};{};{};{}", ft.join(","), at.join(","), ift.join(","), ms.join(","))
    }).collect();
    refs.push(format!(";{};;", drefs.join(",")));
    out.push(enc(&refs.join("|")));
    out
}

fn bits(i: &Inv) -> String {
    [i.roots, i.impl_kind, i.trans, i.input, i.scalars, i.contracts, i.kinds].iter().map(|b| if *b { '1' } else { '0' }).collect()
}

/// the invariant checker + stream case for one `Valid<Schema>`; `src` describes how it was reached
fn check_valid(ctx: &mut Ctx, valid: &apollo_compiler::validation::Valid<Schema>, src: &str, label: &str) {
    ctx.stat("valid_schemas");
    ctx.stat(&format!("valid_via:{label}"));
    let inv = invariants(valid);
    for (k, d) in &inv.failures { ctx.fail(&format!("invariant:{k}"), src, &format!("Valid<Schema> violates the clause: {d} (generator: {label})")); }
    let b = bits(&inv);
    ctx.case("c15.inv", &export(valid), &b);
    ctx.nontrivial(src);
    // shape statistics of what the accepted schemas exercise
    let s: &Schema = valid;
    if s.types.values().any(|t| !implements_of(t).is_empty()) { ctx.stat("valid_with_implements"); }
    if s.types.values().any(|t| implements_of(t).len() > 1) { ctx.stat("valid_with_transitive_or_multiple_implements"); }
    if s.types.values().any(|t| matches!(t, ExtendedType::InputObject(_))) { ctx.stat("valid_with_input_objects"); }
    if s.schema_definition.mutation.is_some() || s.schema_definition.subscription.is_some() { ctx.stat("valid_with_several_roots"); }
    let present = BUILTIN_SCALARS.iter().filter(|b| s.types.contains_key(**b)).count();
    ctx.stat(&format!("valid_builtin_scalars_present_{present}"));
}

// ---------------------------------------------------------------------------------------------
// histories: Valid<Schema> → into_inner() → programmatic edits through the public API → validate()

pub fn retarget(t: &Type, to: &apollo_compiler::Name) -> Type {
    match t {
        Type::Named(_) => Type::Named(to.clone()),
        Type::NonNullNamed(_) => Type::NonNullNamed(to.clone()),
        Type::List(x) => Type::List(Box::new(retarget(x, to))),
        Type::NonNullList(x) => Type::NonNullList(Box::new(retarget(x, to))),
    }
}

fn is_builtin_scalar_name(n: &str) -> bool { BUILTIN_SCALARS.contains(&n) }

/// one random edit; returns its description, or None when no site exists
pub fn edit(schema: &mut Schema, r: &mut Rng) -> Option<String> {
    // sites in user-defined types whose inner named type is a built-in scalar
    let mut field_sites: Vec<(String, String)> = vec![];
    let mut arg_sites: Vec<(String, String, usize)> = vec![];
    let mut input_sites: Vec<(String, String)> = vec![];
    let mut composite: Vec<(String, usize)> = vec![];
    for (tn, t) in &schema.types {
        if t.is_built_in() { continue; }
        let fs = fields_of(t);
        if matches!(t, ExtendedType::Object(_) | ExtendedType::Interface(_)) { composite.push((tn.to_string(), fs.len())); }
        for (fname, ty, args) in &fs {
            if is_builtin_scalar_name(ty.inner_named_type()) { field_sites.push((tn.to_string(), fname.clone())); }
            for (k, a) in args.iter().enumerate() { if is_builtin_scalar_name(a.1.inner_named_type()) { arg_sites.push((tn.to_string(), fname.clone(), k)); } }
        }
        if let ExtendedType::InputObject(io) = t { for f in io.fields.values() { if is_builtin_scalar_name(f.ty.inner_named_type()) { input_sites.push((tn.to_string(), f.name.to_string())); } } }
    }
    let to_s = *r.pick(&BUILTIN_SCALARS);
    let to = apollo_compiler::Name::new(to_s).unwrap();
    fn fields_mut<'a>(t: &'a mut ExtendedType) -> Option<&'a mut apollo_compiler::collections::IndexMap<apollo_compiler::Name, apollo_compiler::schema::Component<apollo_compiler::schema::FieldDefinition>>> {
        match t { ExtendedType::Object(o) => Some(&mut o.make_mut().fields), ExtendedType::Interface(i) => Some(&mut i.make_mut().fields), _ => None }
    }
    match r.below(6) {
        0 | 1 => {
            if field_sites.is_empty() { return None; }
            let (tn, fname) = field_sites[r.below(field_sites.len())].clone();
            let f = fields_mut(schema.types.get_mut(tn.as_str())?)?.get_mut(fname.as_str())?;
            let old = f.ty.clone();
            f.make_mut().ty = retarget(&old, &to);
            Some(format!("{tn}.{fname}: {old} -> {to_s}"))
        }
        2 => {
            if arg_sites.is_empty() { return None; }
            let (tn, fname, k) = arg_sites[r.below(arg_sites.len())].clone();
            let f = fields_mut(schema.types.get_mut(tn.as_str())?)?.get_mut(fname.as_str())?;
            let a = &mut f.make_mut().arguments[k];
            let old = (*a.ty).clone();
            *a.make_mut().ty.make_mut() = retarget(&old, &to);
            Some(format!("{tn}.{fname}(arg {k}): {old} -> {to_s}"))
        }
        3 => {
            if input_sites.is_empty() { return None; }
            let (tn, fname) = input_sites[r.below(input_sites.len())].clone();
            let Some(ExtendedType::InputObject(io)) = schema.types.get_mut(tn.as_str()) else { return None };
            let f = io.make_mut().fields.get_mut(fname.as_str())?;
            let old = (*f.ty).clone();
            *f.make_mut().ty.make_mut() = retarget(&old, &to);
            Some(format!("input {tn}.{fname}: {old} -> {to_s}"))
        }
        4 => {
            // remove a field that references a built-in scalar when another field remains
            let cands: Vec<&(String, String)> = field_sites.iter().filter(|(tn, _)| composite.iter().any(|(n, k)| n == tn && *k > 1)).collect();
            if cands.is_empty() { return None; }
            let (tn, fname) = cands[r.below(cands.len())].clone();
            fields_mut(schema.types.get_mut(tn.as_str())?)?.shift_remove(fname.as_str());
            Some(format!("remove {tn}.{fname}"))
        }
        _ => {
            // add a field of a built-in scalar, preferably one that has been pruned
            if composite.is_empty() { return None; }
            let pruned: Vec<&str> = BUILTIN_SCALARS.iter().filter(|b| !schema.types.contains_key(**b)).cloned().collect();
            let b = if !pruned.is_empty() && r.chance(3, 4) { pruned[r.below(pruned.len())] } else { to_s };
            let (tn, k) = composite[r.below(composite.len())].clone();
            let fname = apollo_compiler::Name::new(&format!("added{k}")).ok()?;
            let ty = if r.chance(1, 2) { Type::Named(apollo_compiler::Name::new(b).unwrap()) } else { Type::NonNullList(Box::new(Type::NonNullNamed(apollo_compiler::Name::new(b).unwrap()))) };
            let fdef = apollo_compiler::schema::FieldDefinition { description: None, name: fname.clone(), arguments: vec![], ty, directives: Default::default() };
            let fs = fields_mut(schema.types.get_mut(tn.as_str())?)?;
            if fs.contains_key(&fname) { return None; }
            fs.insert(fname, apollo_compiler::schema::Component::new(fdef));
            Some(format!("add {tn}.added{k}: {b}"))
        }
    }
}

/// edit→validate rounds from one valid schema; every Valid<Schema> obtained is checked
fn histories(ctx: &mut Ctx, start: &apollo_compiler::validation::Valid<Schema>, src: &str) {
    let mut cur: Schema = start.clone().into_inner();
    let mut log: Vec<String> = vec![];
    let rounds = 1 + ctx.rng.below(3);
    for _ in 0..rounds {
        let n_edits = 1 + ctx.rng.below(3);
        let mut any = false;
        for _ in 0..n_edits {
            match catch(|| { let mut c = cur.clone(); let d = edit(&mut c, &mut ctx.rng); (c, d) }) {
                Err(p) => { ctx.fail("schema-edit-panic", src, &p); return; }
                Ok((c, Some(d))) => { cur = c; log.push(d); any = true; }
                Ok((_, None)) => {}
            }
        }
        if !any { ctx.stat("history_no_edit_site"); return; }
        log.push("validate".into());
        let desc = format!("{src}\n## history: into_inner; {}", log.join("; "));
        match catch(|| cur.clone().validate()) {
            Err(p) => { ctx.fail("schema-validation-panic", &desc, &p); return; }
            Ok(Err(_)) => { ctx.stat("history_edit_invalid"); return; }
            Ok(Ok(v)) => {
                ctx.stat("history_valid");
                check_valid(ctx, &v, &desc, "history");
                // validating again must not change anything observable by the checker either
                if ctx.rng.chance(1, 2) {
                    match catch(|| v.clone().into_inner().validate()) {
                        Ok(Ok(v2)) => { ctx.stat("history_revalidated"); check_valid(ctx, &v2, &format!("{desc}; into_inner; validate"), "history"); }
                        Ok(Err(e)) => { ctx.stat("history_revalidation_fails"); if std::env::var("VH_DEBUG").is_ok() { eprintln!("REVALIDATION-FAILS\n{desc}\n{}", e.errors); } } // C16's subject, not a clause of C15
                        Err(p) => { ctx.fail("schema-validation-panic", &desc, &p); return; }
                    }
                }
                cur = v.into_inner();
                log.push("into_inner".into());
            }
        }
    }
}

/// one schema text: build, validate, check the invariants on every `Valid<Schema>`, emit stream cases
pub fn examine(ctx: &mut Ctx, src: &str, label: &str) -> bool {
    let built = match catch(|| Schema::parse(src, "s.graphql")) {
        Err(p) => { ctx.fail("schema-build-panic", src, &p); return false; }
        Ok(Err(_)) => { ctx.stat("build_errors"); return false; }
        Ok(Ok(s)) => s,
    };
    // the built (not yet validated) schema: two-sided material for the stream
    let inv0 = invariants(&built);
    let b0 = bits(&inv0);
    ctx.stat(&format!("built_bits:{b0}"));
    ctx.case("c15.inv", &export(&built), &b0);
    let valid = match catch(|| built.validate()) {
        Err(p) => { ctx.fail("schema-validation-panic", src, &p); return false; }
        Ok(Err(_)) => { ctx.stat("built_but_invalid"); return false; }
        Ok(Ok(v)) => v,
    };
    check_valid(ctx, &valid, src, label);
    if ctx.rng.chance(1, 3) || label == "generated" || label == "fixed" { histories(ctx, &valid, src); }
    true
}

// ---------------------------------------------------------------------------------------------
// systematic families (generator audit GA): the accepted side of every rule boundary, and every place a
// built-in scalar can be referenced from, alone

/// retarget every reference to a built-in scalar in user-written definitions (types and directive definitions)
fn retarget_all(schema: &mut Schema, to: &apollo_compiler::Name) -> usize {
    let mut n = 0;
    for t in schema.types.values_mut() {
        if t.is_built_in() { continue; }
        match t {
            ExtendedType::Object(o) => for f in o.make_mut().fields.values_mut() {
                if is_builtin_scalar_name(f.ty.inner_named_type()) { let old = f.ty.clone(); f.make_mut().ty = retarget(&old, to); n += 1; }
                for a in f.make_mut().arguments.iter_mut() { if is_builtin_scalar_name(a.ty.inner_named_type()) { let old = (*a.ty).clone(); *a.make_mut().ty.make_mut() = retarget(&old, to); n += 1; } }
            },
            ExtendedType::Interface(o) => for f in o.make_mut().fields.values_mut() {
                if is_builtin_scalar_name(f.ty.inner_named_type()) { let old = f.ty.clone(); f.make_mut().ty = retarget(&old, to); n += 1; }
                for a in f.make_mut().arguments.iter_mut() { if is_builtin_scalar_name(a.ty.inner_named_type()) { let old = (*a.ty).clone(); *a.make_mut().ty.make_mut() = retarget(&old, to); n += 1; } }
            },
            ExtendedType::InputObject(io) => for f in io.make_mut().fields.values_mut() { if is_builtin_scalar_name(f.ty.inner_named_type()) { let old = (*f.ty).clone(); *f.make_mut().ty.make_mut() = retarget(&old, to); n += 1; } },
            _ => {}
        }
    }
    for (dn, d) in schema.directive_definitions.iter_mut() {
        if !dn.starts_with("gd") { continue; }
        for a in d.make_mut().arguments.iter_mut() { if is_builtin_scalar_name(a.ty.inner_named_type()) { let old = (*a.ty).clone(); *a.make_mut().ty.make_mut() = retarget(&old, to); n += 1; } }
    }
    n
}

fn families(ctx: &mut Ctx) {
    use crate::p14::{print_fields, wrap_all};
    // ---- 1. one reference to a built-in scalar, at every kind of site, in every wrapping, with and without the
    //         built-in directives' own references (all four redefined over a custom scalar), then a scripted history:
    //         the reference is moved to other built-in scalars (pruned ones included) and back
    const SITES: [(&str, &str); 12] = [
        ("object-field", "type Query { a: S0 b: TY }"),
        ("interface-field", "type Query { a: S0 } interface I { b: TY }"),
        ("object-argument", "type Query { a(x: TY): S0 }"),
        ("interface-argument", "type Query { a: S0 } interface I { b(x: S0, y: TY): S0 }"),
        ("input-field", "type Query { a: S0 } input N { f: S0 g: TY }"),
        ("directive-argument", "type Query { a: S0 } directive @gd(x: TY) on OBJECT"),
        ("object-field-by-extension", "type Query { a: S0 } extend type Query { b: TY }"),
        ("interface-field-by-extension", "type Query { a: S0 } interface I { b: S0 } extend interface I { c: TY }"),
        ("input-field-by-extension", "type Query { a: S0 } input N { f: S0 } extend input N { g: TY }"),
        ("argument-by-extension", "type Query { a: S0 } extend type Query { b(x: TY): S0 }"),
        ("implementer-extra-argument", "type Query implements I { b(x: TY): S0 } interface I { b: S0 }"),
        ("mutation-root-field", "type Query { a: S0 } type Mutation { m: TY }"),
    ];
    const REDEF: &str = "directive @skip(if: S0!) on FIELD | FRAGMENT_SPREAD | INLINE_FRAGMENT\ndirective @include(if: S0!) on FIELD | FRAGMENT_SPREAD | INLINE_FRAGMENT\ndirective @deprecated(reason: S0) on FIELD_DEFINITION | ARGUMENT_DEFINITION | INPUT_FIELD_DEFINITION | ENUM_VALUE\ndirective @specifiedBy(url: S0!) on SCALAR\n";
    let wraps = ["TY", "TY!", "[TY]", "[TY!]!", "[[TY]!]"];
    let mut rot = 0usize;
    for (site, tpl) in SITES {
        for (wi, w) in wraps.iter().enumerate() {
            for (bi, b) in BUILTIN_SCALARS.iter().enumerate() {
                for redef in [false, true] {
                    // quick: the bare built-in directives with every scalar; the redefined header with a rotating pair
                    if redef && !ctx.thorough && (bi + wi) % 2 != 0 { continue; }
                    let text = format!("scalar S0\n{}{}\n", if redef { REDEF } else { "" }, tpl.replace("TY", &w.replace("TY", b)));
                    ctx.stat_n(&format!("family_site:{site}"), 1);
                    if redef { ctx.stat("family_site_builtin_directives_redefined"); }
                    let Ok(Ok(v)) = catch(|| Schema::parse_and_validate(text.clone(), "s.graphql")) else { ctx.stat("family_site_invalid"); examine(ctx, &text, "site"); continue };
                    check_valid(ctx, &v, &text, "site");
                    // history: move the reference to two other scalars and back (thorough: through all of them)
                    let mut cur = v.into_inner();
                    let mut log: Vec<String> = vec![];
                    rot += 1;
                    let chain: Vec<&str> = if ctx.thorough { (1..=5).map(|k| BUILTIN_SCALARS[(bi + k) % 5]).collect() } else { vec![BUILTIN_SCALARS[(bi + 1 + rot % 4) % 5], BUILTIN_SCALARS[(bi + 1 + (rot / 4) % 4) % 5], b] };
                    for to in chain {
                        let name = apollo_compiler::Name::new(to).unwrap();
                        let moved = retarget_all(&mut cur, &name);
                        if moved == 0 { ctx.stat("family_site_no_reference_found"); break; }
                        log.push(format!("retarget {moved} built-in scalar reference(s) -> {to}; validate"));
                        let desc = format!("{text}\n## history: into_inner; {}", log.join("; into_inner; "));
                        match catch(|| cur.clone().validate()) {
                            Ok(Ok(v)) => { ctx.stat("family_site_history_valid"); check_valid(ctx, &v, &desc, "site-history"); cur = v.into_inner(); }
                            Ok(Err(e)) => { ctx.fail("site-history-invalid", &desc, &format!("retargeting a built-in scalar reference to another built-in scalar made the schema invalid: {}", e.errors)); break; }
                            Err(p) => { ctx.fail("schema-validation-panic", &desc, &p); break; }
                        }
                    }
                }
            }
        }
    }
    // ---- 2. implementation contract, field types: interface field type x implementing field type over related
    //         names x all six wrappings, object and interface implementers, fields in the definition or an extension
    let related: &[(&str, &str)] = &[("Int", "Int"), ("A", "A"), ("Node", "Node"), ("U", "U"), ("T", "T"), ("I0", "I0"), ("Node", "A"), ("A", "Node"), ("U", "A"), ("U", "B"), ("A", "U"), ("I0", "T"), ("T", "I0"), ("Int", "A"), ("Node", "B"), ("U", "Node")];
    let all_names = ["Int", "A", "B", "Node", "U", "T", "I0"];
    let mut pairs: Vec<(String, String)> = related.iter().map(|(a, b)| (a.to_string(), b.to_string())).collect();
    if ctx.thorough { for a in all_names { for b in all_names { if !pairs.iter().any(|p| p.0 == a && p.1 == b) { pairs.push((a.into(), b.into())); } } } }
    let head = "type Query { a: Int }\ninterface Node { id: ID }\ntype A implements Node { id: ID x: Int }\ntype B { y: Int }\nunion U = A | B\n";
    let mut k = 0usize;
    for (ia, ib) in &pairs { for a in wrap_all(ia) { for b in wrap_all(ib) { for kw in ["type", "interface"] {
        k += 1;
        let text = match k % 3 {
            0 => format!("{head}interface I0 {{ f: {} }}\n{kw} T implements I0 {{ f: {} zz: Int }}\n", a.print(), b.print()),
            1 => format!("{head}interface I0 {{ f: {} }}\n{kw} T implements I0 {{ zz: Int }}\nextend {kw} T {{ f: {} }}\n", a.print(), b.print()),
            _ => format!("{head}interface I0 {{ g: Int }}\n{kw} T {{ f: {} g: Int }}\nextend {kw} T implements I0\nextend interface I0 {{ f: {} }}\n", b.print(), a.print()),
        };
        ctx.stat("family_contract_field_type");
        if examine(ctx, &text, "contract") { ctx.stat("family_contract_field_type_accepted"); }
    } } } }
    // ---- 3. implementation contract, arguments
    let arg = |n: &str, t: T, d: Option<&str>| GIn { name: n.into(), ty: t, default: d.map(|s| s.to_string()), dirs: vec![] };
    let a_opts: Vec<Option<GIn>> = vec![None, Some(arg("a", T::n("Int"), None)), Some(arg("a", T::n("Int").nn(), None)), Some(arg("a", T::n("Int").list(), None)), Some(arg("a", T::n("Int").nn().list(), None)), Some(arg("a", T::n("String"), None)), Some(arg("a", T::n("Int"), Some("1")))];
    let c_opts: Vec<Option<GIn>> = vec![None, Some(arg("c", T::n("Int"), None)), Some(arg("c", T::n("Int").nn(), None)), Some(arg("c", T::n("Int").nn(), Some("1"))), Some(arg("c", T::n("Int").nn().list().nn(), None)), Some(arg("c", T::n("Int").list().nn(), Some("[]")))];
    for ia in &a_opts { for ta in &a_opts { for tc in &c_opts { for kw in ["type", "interface"] {
        if kw == "interface" && !ctx.thorough && tc.is_some() { continue; }
        let fi = GField { name: "f".into(), args: ia.iter().cloned().collect(), ty: T::n("Int"), dirs: vec![] };
        let ft = GField { name: "f".into(), args: [tc, ta].iter().filter_map(|x| (*x).clone()).collect(), ty: T::n("Int"), dirs: vec![] };
        let text = format!("type Query {{ a: Int }}\ninterface I0 {{ {} }}\n{kw} T implements I0 {{ {} }}\n", print_fields(&[fi]), print_fields(&[ft]));
        ctx.stat("family_contract_arguments");
        if examine(ctx, &text, "contract") { ctx.stat("family_contract_arguments_accepted"); }
    } } } }
    // ---- 4. root operations: every assignment of the three roots over objects and the other kinds, through a
    //         schema definition, a schema extension, or the default names
    const POOL: [&str; 8] = ["A", "B", "I", "S", "Undef", "In", "U", "E"];
    let decls = "type A { x: Int }\ntype B { x: Int }\ninterface I { x: Int }\nscalar S\ninput In { x: Int }\nunion U = A | B\nenum E { V }\n";
    let ops = ["query", "mutation", "subscription"];
    for q in 0..9usize { for m in 0..9usize { for s in 0..9usize {
        let slots = [q, m, s];
        let parts: Vec<String> = (0..3).filter(|i| slots[*i] > 0).map(|i| format!("{}: {}", ops[i], POOL[slots[i] - 1])).collect();
        if parts.is_empty() { continue; }
        let mode = (q + 2 * m + 3 * s) % 3;
        let text = if mode == 1 && parts.len() > 1 { format!("{decls}schema {{ {} }}\nextend schema {{ {} }}\n", parts[0], parts[1..].join(" ")) }
            else if mode == 2 && parts.len() > 1 { format!("{decls}extend schema {{ {} }}\nschema {{ {} }}\n", parts[parts.len() - 1], parts[..parts.len() - 1].join(" ")) }
            else { format!("{decls}schema {{ {} }}\n", parts.join(" ")) };
        ctx.stat("family_roots");
        if examine(ctx, &text, "roots") { ctx.stat("family_roots_accepted"); }
    } } }
    // default root names taken by every kind of type
    let kinds: [&dyn Fn(&str) -> String; 7] = [&|n| format!("type {n} {{ x: Int }}"), &|n| format!("interface {n} {{ x: Int }}"), &|n| format!("scalar {n}"), &|n| format!("input {n} {{ x: Int }}"), &|n| format!("union {n} = Zed"), &|n| format!("enum {n} {{ V }}"), &|_| String::new()];
    for q in 0..7usize { for m in 0..7usize { for s in 0..7usize {
        if !ctx.thorough && q != 0 && (m + s) % 2 == 1 { continue; }
        let text = format!("type Zed {{ x: Int }}\n{}\n{}\n{}\n", kinds[q]("Query"), kinds[m]("Mutation"), kinds[s]("Subscription"));
        ctx.stat("family_default_roots");
        if examine(ctx, &text, "roots") { ctx.stat("family_default_roots_accepted"); }
    } } }
    // ---- 5. input objects: every two-node graph with up to two reference fields in all, each reference in five
    //         wrappings, plain / with default values / supplied by an extension
    let refs = |j: usize| -> Vec<(String, &'static str)> { let n = format!("In{j}"); vec![(format!("{n}!"), "{}"), (n.clone(), "{}"), (format!("[{n}!]!"), "[]"), (format!("[{n}!]"), "[]"), (format!("[{n}]!"), "[]")] };
    let mut shapes: Vec<Vec<(String, &'static str)>> = vec![vec![]];
    for j in 0..2 { for r in refs(j) { shapes.push(vec![r]); } }
    for r in refs(0) { for r2 in refs(1) { shapes.push(vec![r.clone(), r2.clone()]); shapes.push(vec![r2, r.clone()]); } }
    let mut k = 0usize;
    for a in &shapes { for b in &shapes {
        if !ctx.thorough && a.len() + b.len() > 2 { continue; }
        if a.is_empty() && b.is_empty() { continue; }
        k += 1;
        let mode = k % 3;
        let node = |i: usize, fs: &Vec<(String, &'static str)>| -> String {
            let parts: Vec<String> = fs.iter().enumerate().map(|(k, (t, d))| if mode == 1 { format!("f{k}: {t} = {d}") } else { format!("f{k}: {t}") }).collect();
            if mode == 2 && !parts.is_empty() { format!("input In{i} {{ pad: Int }}\nextend input In{i} {{ {} }}\n", parts.join(" ")) } else { format!("input In{i} {{ {} pad: Int }}\n", parts.join(" ")) }
        };
        let text = format!("type Query {{ a: Int }}\n{}{}", node(0, a), node(1, b));
        ctx.stat("family_input_graph");
        if examine(ctx, &text, "input-graph") { ctx.stat("family_input_graph_accepted"); }
    } }
}

/// move `d` one definition closer to `base`; false when they print the same set of definitions
fn repair_step(d: &mut Vec<GDef>, base: &[GDef], r: &mut Rng) -> bool {
    let bp: Vec<String> = base.iter().map(print_def).collect();
    let dp: Vec<String> = d.iter().map(print_def).collect();
    let extra: Vec<usize> = (0..d.len()).filter(|i| !bp.contains(&dp[*i])).collect();
    let missing: Vec<usize> = (0..base.len()).filter(|i| !dp.contains(&bp[*i])).collect();
    if extra.is_empty() && missing.is_empty() { return false; }
    if !extra.is_empty() && (missing.is_empty() || r.chance(1, 2)) {
        let i = extra[r.below(extra.len())];
        d.remove(i);
    } else {
        let i = missing[r.below(missing.len())];
        let at = r.below(d.len() + 1);
        d.insert(at, base[i].clone());
    }
    true
}

pub fn run(ctx: &mut Ctx) {
    const FIXED: &[&str] = &[
        "type Query { a: Int }",
        "type Query { a: String }",
        "type Query { a: Q2 } type Q2 { b: Boolean }",
        "schema { query: Q mutation: M } type Q { a: ID } type M { f(x: Float): Q }",
        "type Query { a: Int } input A { b: [A!]! c: A d: B! } input B { x: Int! }",
        "interface A { x: Int } interface B implements A { x: Int } type Query implements B & A { x: Int! }",
        "interface A { x(a: Int): [A] } type Query implements A { x(a: Int, b: Int! = 1, c: String): [Query!]! }",
        "union U = Query type Query { a: U }",
        "directive @d(a: ID) on OBJECT type Query @d(a: 1) { a: Boolean }",
        "scalar S enum E { V } type Query { a(s: S, e: E): S }",
        "type Query { a: Int } extend scalar Int @specifiedBy(url: \"u\")",
        // invalid ones: no Valid<Schema> may come out
        "type Q { a: Int }",
        "schema { query: Q mutation: Q } type Q { a: Int }",
        "type Query { a: Int } input A { b: B! } input B { a: A! }",
        "interface A { x: Int } interface B implements A { x: Int } type Query implements B { x: Int }",
        "type Query { __a: Int }",
        "type Query { a: Nope }",
    ];
    for s in FIXED { examine(ctx, s, "fixed"); }
    families(ctx);
    // scripted histories: retarget the only reference of a built-in scalar to a pruned one, and back
    for (src, chain) in [("type Query { reading: Int }", vec!["Float", "ID", "Int", "String"]), ("type Query { a(x: Int): String } input In { f: Int }", vec!["Boolean", "Float"])] {
        if let Ok(Ok(v)) = catch(|| Schema::parse_and_validate(src, "s.graphql")) {
            let mut cur = v.into_inner();
            let mut log = vec![];
            for to in chain {
                let name = apollo_compiler::Name::new(to).unwrap();
                for t in cur.types.values_mut() {
                    if t.is_built_in() { continue; }
                    match t {
                        ExtendedType::Object(o) => for f in o.make_mut().fields.values_mut() {
                            if is_builtin_scalar_name(f.ty.inner_named_type()) && f.name != "a" { let old = f.ty.clone(); f.make_mut().ty = retarget(&old, &name); }
                            for a in f.make_mut().arguments.iter_mut() { let old = (*a.ty).clone(); *a.make_mut().ty.make_mut() = retarget(&old, &name); }
                        },
                        ExtendedType::InputObject(io) => for f in io.make_mut().fields.values_mut() { let old = (*f.ty).clone(); *f.make_mut().ty.make_mut() = retarget(&old, &name); },
                        _ => {}
                    }
                }
                log.push(format!("retarget scalar references -> {to}; validate"));
                match catch(|| cur.clone().validate()) {
                    Ok(Ok(v)) => { check_valid(ctx, &v, &format!("{src}\n## history: into_inner; {}", log.join("; into_inner; ")), "history"); cur = v.into_inner(); }
                    _ => break,
                }
            }
        }
    }
    let repo = std::env::var("VERIF_REPO").unwrap_or_else(|_| "/repo".into());
    for dir in ["diagnostics", "ok"] {
        let Ok(rd) = std::fs::read_dir(format!("{repo}/crates/apollo-compiler/test_data/{dir}")) else { continue };
        let mut files: Vec<_> = rd.filter_map(|e| e.ok()).map(|e| e.path()).filter(|p| p.extension().is_some_and(|x| x == "graphql")).collect();
        files.sort();
        for f in files {
            let Ok(s) = std::fs::read_to_string(&f) else { continue };
            if s.len() > 20_000 { continue; }
            let Ok(doc) = apollo_compiler::ast::Document::parse(s, "seed.graphql") else { continue };
            let t: String = doc.definitions.iter().filter(|d| !matches!(d, apollo_compiler::ast::Definition::OperationDefinition(_) | apollo_compiler::ast::Definition::FragmentDefinition(_))).map(|d| format!("{d}\n")).collect();
            if !t.is_empty() { ctx.stat("repo_seed_files"); examine(ctx, &t, "seed"); }
        }
    }
    let n = if ctx.thorough { 2000 } else { 600 };
    for round in 0..n {
        let base = random_valid(ctx);
        examine(ctx, &print_doc(&base), "generated");
        // single mutants that may still validate
        for m in 0..N_MUTATIONS {
            if !ctx.thorough && (m + round) % 4 != 0 { continue; }
            let mut d = base.clone();
            if mutate(&mut d, &mut ctx.rng, m) == "noop" { continue; }
            let text = print_doc(&d);
            if examine(ctx, &text, "mutant") { continue; }
            // invalid: keep mutating until it validates (bounded walk): pile up one or two more
            // mutations, then alternate random mutations with steps that move one definition back
            // towards the valid base (drop a foreign definition / re-insert a missing one)
            if !ctx.rng.chance(1, 2) { continue; }
            for _ in 0..ctx.rng.below(3) { let m2 = ctx.rng.below(N_MUTATIONS); mutate(&mut d, &mut ctx.rng, m2); }
            for step in 0..10 {
                if ctx.rng.chance(1, 4) {
                    let m2 = *ctx.rng.pick(&[58usize, 31, 29, 34, 33, 57, 32, 35, 36, 19, 30]);
                    if mutate(&mut d, &mut ctx.rng, m2) == "noop" { continue; }
                } else if !repair_step(&mut d, &base, &mut ctx.rng) { break; }
                let t = print_doc(&d);
                ctx.stat("walk_steps");
                if examine(ctx, &t, "walk") { ctx.stat(&format!("walk_reached_valid_after_{}", step + 1)); if ctx.rng.chance(1, 2) { break; } }
            }
        }
    }
}
