#!/bin/bash
# usage: keep_harmless.sh <Cnn> [tier] [worktree] [name]
# For a HARMLESS rewrite produced by a sub-agent (lib/refactor_prompt.py; files mutation.diff, NOTES.md in the worktree):
# runs ./check <Cnn> against HEAD+rewrite in an isolated copy (lib/mutant_run.sh) — the check is expected to stay quiet —
# and stores patch, notes and outcome under /verif/seeded/<name> (default <Cnn>-harmless). Removes the worktree.
ID=$1; TIER=${2:-quick}; WT=${3:-/tmp/wt-${ID}h}; NAME=${4:-$ID-harmless}
cd /verif
lib/mutant_run.sh $NAME $WT/mutation.diff $ID $TIER > /work/harmless-$NAME.out 2>&1; RC=$?
tail -4 /work/harmless-$NAME.out
mkdir -p seeded/$NAME
cp $WT/mutation.diff seeded/$NAME/patch.diff; cp $WT/NOTES.md seeded/$NAME/NOTES.md 2>/dev/null
cp /work/mut-$NAME.evidence.json seeded/$NAME/evidence_on_rewrite.json 2>/dev/null
python3 - "$NAME" "$ID" "$RC" "$TIER" <<'PY'
import sys, json, os
name, pid, rc, tier = sys.argv[1:5]
log = f'/work/mut-{name}.log'
lines = [l.strip() for l in open(log)] if os.path.exists(log) else []
viol = [l for l in lines if l.startswith('VIOLATION')]
summ = [l for l in lines if l.startswith('[')]
meta = {"property": pid, "kind": "harmless rewrite (the property still holds; the check must stay quiet)",
        "check": f"./check {pid} {tier} (run against HEAD + patch.diff in an isolated worktree by lib/mutant_run.sh)",
        "check_exit": int(rc), "quiet": int(rc) == 0 and not viol, "violation_lines": viol[:3], "summary": summ[-1:] ,
        "origin": "sub-agent given only the property text and a scratch worktree (lib/refactor_prompt.py)"}
json.dump(meta, open(f'/verif/seeded/{name}/meta.json', 'w'), indent=1)
print("quiet:", meta["quiet"])
PY
git -C /repo worktree remove --force $WT 2>/dev/null || rm -rf $WT
git -C /repo worktree prune
rm -rf /work/mut-$NAME.replays.keep; mv /work/mut-$NAME.replays /work/mut-$NAME.replays.keep 2>/dev/null
rm -f /work/mut-$NAME.log /work/mut-$NAME.evidence.json
