#!/bin/bash
# usage: confirm_seed.sh <worktree> <crate> <demo name> [rustflags]
# Confirms in the scratch worktree that (1) the existing tests of the crate pass with the mutation,
# (2) the demo test fails with the mutation, (3) the demo test passes without it.
WT=$1; CRATE=$2; DEMO=$3; FLAGS=$4
cd "$WT" || exit 2
export CARGO_NET_OFFLINE=true
git checkout -q -- . 2>/dev/null
git apply mutation.diff || { echo "CONFIRM $DEMO: patch does not apply"; exit 2; }
mkdir -p crates/$CRATE/tests
cp demo_test.rs crates/$CRATE/tests/$DEMO.rs
if grep -q "autotests = false" crates/$CRATE/Cargo.toml; then printf '\n[[test]]\nname = "%s"\n' "$DEMO" >> crates/$CRATE/Cargo.toml; fi
RUSTFLAGS="$FLAGS" cargo test -p $CRATE --test $DEMO --offline > /tmp/confirm-$DEMO-mut.log 2>&1; MUT=$?
EXIST=skipped
if [ "$5" != "noexisting" ]; then
  rm crates/$CRATE/tests/$DEMO.rs; git checkout -q -- crates/$CRATE/Cargo.toml
  cargo test -p $CRATE --offline > /tmp/confirm-$DEMO-existing.log 2>&1; EXIST=$?
  cp demo_test.rs crates/$CRATE/tests/$DEMO.rs
  if grep -q "autotests = false" crates/$CRATE/Cargo.toml; then printf '\n[[test]]\nname = "%s"\n' "$DEMO" >> crates/$CRATE/Cargo.toml; fi
fi
git apply -R mutation.diff
RUSTFLAGS="$FLAGS" cargo test -p $CRATE --test $DEMO --offline > /tmp/confirm-$DEMO-orig.log 2>&1; ORIG=$?
rm -f crates/$CRATE/tests/$DEMO.rs; git checkout -q -- . 
echo "CONFIRM $DEMO: with-mutation demo rc=$MUT (want != 0), existing tests rc=$EXIST (want 0), without-mutation demo rc=$ORIG (want 0)"
