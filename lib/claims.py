"""Which properties are claimed, with the level text; everything else is listed not_applicable
(with 'not built yet' as the honest reason until its check exists)."""
HOOK_COMMITS = ["02ee90e", "123e01a"]

TB = ("Trusted: Lean kernel (+ propext, Classical.choice, Quot.sound), the translator and the correspondence harness "
      "(finite, counted in the evidence), rustc/std/third-party crates. ")

CLAIMS = {
    "C29": {
        "technique": "Lean 4 proof over translator-regenerated model + exhaustive correspondence",
        "text": "Theorems for all type references of unbounded nesting: Type::is_assignable_to = AreTypesCompatible, "
                "is_variable_usage_allowed = IsVariableUsageAllowed (incl. null default), is_valid_implementation_field_type = "
                "IsValidImplementationFieldType for every subtype relation. The two match functions are regenerated from the Rust source "
                "on every run, so a changed arm breaks the proof; the variable-usage model is tied by exhaustive correspondence "
                "(depth ≤ 3/4, all defaults, every schema shape over three names).",
        "note": TB + "schema.is_subtype is an abstract relation in the theorem; its relation to implements/union membership is read off the real schema by the harness.",
    },
}

CLAIMS["C23"] = {
    "technique": "Lean 4 proof over hand model + exhaustive correspondence",
    "text": "Theorems for all strings, coordinates and schemas on the model of coordinate.rs: parse s succeeds iff s is one of the five "
            "forms over valid Names (coord_parse_iff), print∘parse = id and parse∘print = id (coord_parse_print, coord_print_parse), "
            "lookup returns the element with exactly those names and succeeds iff it exists (lookup_*_iff, lookup_ok_names). "
            "The model is tied to the code by exhaustive correspondence over all strings ≤ 5/6 over an 11-symbol alphabet, mutated valid "
            "coordinates, and ~30k lookups on three schemas; an independent recogniser of the five forms is evaluated on the implementation.",
    "note": TB + "Name validity is modelled on chars (bytes ≥ 0x80 are never name bytes). IndexMap lookup is modelled as association-list lookup.",
}

CLAIMS["C31"] = {
    "technique": "Lean 4 proof (transition system over atomic steps, all schedules) + translator-regenerated constants/shape + correspondence",
    "text": "Theorems: for any number of threads and ANY schedule of atomic steps, while fewer than 2^63-INITIAL allocations have run the ids "
            "handed out are exactly the successive counter values, hence pairwise distinct, never 0/BUILT_IN/NONE and never tagged "
            "(ids_are_counter_values, ids_distinct, ids_not_reserved); pack/unpack returns tag and id for every id < 2^63 (pack_unpack, "
            "pack_nonzero, pack_none_iff) with real |||/&&& on naturals. INITIAL, TAG, reserved ids and the RMW shape of FileId::new are "
            "regenerated from parser.rs each run (a load+store rewrite makes rmw_shape fail; non_rmw_collides is the model-level witness). "
            "Correspondence: pack on boundary+random ids and sequential allocation from preset counters incl. the wrap/reset path through "
            "cfg hooks. The shared-schema clause (threads vs sequential) and real concurrent allocation are explored on the implementation only.",
    "note": TB + "The memory model is reduced to 'an atomic RMW is one indivisible step'; OnceLock/Sync/Send of shared schemas and OS scheduling are runtime facts, explored with real threads (2-16) not proved.",
}

CLAIMS["C25"] = {
    "technique": "Lean 4 proof (memoised DFS = expanded depth, by induction over fragment nesting and selections) + translator-checked constants + correspondence",
    "text": "Theorems over all acyclic documents and all selection trees: the model of check_selection_set (running maximum, fragment-depth "
            "memo, early error) fails iff MAX ≤ expanded list-field depth (depth_check_iff/_ok, for every MAX>0), never runs out of fuel, the u32 "
            "subtraction never underflows (post_ge_depth), and replacing any spread by an inline fragment keeps the verdict (inline_eq_named). "
            "shape_ok ties MAX_LISTS_DEPTH and the two comparisons / memo-hit update to the current source via the translator. Correspondence: "
            "exhaustive nesting chains ≤5/6 over {list,plain,inline,spread F,spread G} × 3 fragment families + random documents, through the public "
            "check_max_depth; oracle on impl: verdict = (expanded depth ≥ 3) and verdict(inlined) = verdict(original).",
    "note": TB + "Documents are modelled with fragments numbered so that a fragment only spreads lower-numbered ones (any acyclic document); validation supplies acyclicity in the real code.",
}

CLAIMS["C10"] = {
    "technique": "Lean 4 proof over hand model + exhaustive correspondence (names, numeric literals); type round-trip explored on the implementation",
    "text": "Theorems for all strings / all integers: Name validity = [_A-Za-z][_0-9A-Za-z]* (name_valid_iff, nameStart_iff); IntValue and FloatValue "
            "syntax checks accept exactly the October-2021 IntValue / FloatValue token texts written as explicit decompositions "
            "(int_valid_iff_spec, float_valid_iff_spec — after the fix requiring ≥1 exponent digit); every integer prints to a valid IntValue "
            "(int_from_i32_valid) and every text of the shape Rust prints for a finite f64 becomes a valid FloatValue (float_text_valid, shape "
            "hypothesis explicit and checked on 200k+ floats). Correspondence: all strings ≤5/6 over 11 symbols through Name::new, serde Name/"
            "IntValue/FloatValue; i32 and f64 printing. PARTIAL: numeric round-trip (parse back to the same number) and the type-reference "
            "print→parse round-trip (all types of depth ≤6/7 over two names) are evaluated on the implementation only, not proved.",
    "note": TB + "Rust's i32/f64 Display and FromStr are trusted (the f64 shape is an explicit hypothesis of float_text_valid, checked at run time); Name bytes vs chars as in C23.",
}

CLAIMS["C03"] = {
    "technique": "Lean 4 proof over a DFA model with translator-regenerated character tables + exhaustive correspondence + reference-grammar oracle",
    "text": "Theorems for ALL inputs on the lexer model: items concatenate to the input and the stream ends with EOF (lex_concat, advance_concat — proved "
            "for the generic driver, i.e. for any transition table), every item is non-empty and consumes input (advance_progress ⇒ termination), exact "
            "token-limit behaviour (token_limit_exact), maximal munch for names and punctuators (lex_name, lex_punctuator), and the regenerated tables "
            "are the grammar's (tables_are_spec). The 25-state transition function is hand-written and tied by correspondence on every string ≤4/5 over "
            "one representative per character class (24 symbols), deeper targeted alphabets for escapes/block strings/numbers (≈2.2M strings quick), random "
            "pieces and the repo's test data. PARTIAL: number/string token kinds and 'no error ⟺ valid token sequence' are decided by an independent "
            "reference lexer of the October-2021 grammar run on the implementation, not yet by a theorem. One known finding (raw control characters).",
    "note": TB + "The cursor (byte index/offset/pending char) is abstracted to consumed-so-far/rest; byte indices are recomputed from UTF-8 lengths and compared with the real token indices.",
}

CLAIMS["C01"] = {
    "technique": "Lean 4 proof over a proof-carrying model of lexer+rowan+parser (invariant by construction) + correspondence",
    "text": "Theorem parse_no_panic: for EVERY input, token limit and recursion limit, Parser::parse / parse_selection_set / parse_type of the model never "
            "reach any panic site (unwrap on empty node stack, start_node_at asserts, counter underflow, GreenNodeBuilder::finish root assert); lexing terminates "
            "with progress at every step; every grammar function restores the recursion counter and node stack (Frame). " + "Parser model = transliteration of lexer/mod.rs, rowan's GreenNodeBuilder, parser/mod.rs and every parser/grammar/*.rs function in a proof-carrying state monad; tied by correspondence stream P (S-expression of the tree with token texts, error positions, both high-water marks; three entry points; all limit settings) — " + "0 disagreements on ~130k cases "
            "incl. every string ≤3/4 over the lexer class alphabet × 3 entry points, token sequences, generated+mutated documents. PARTIAL: termination of the parser "
            "model (fuel, peek_while progress assertion) is not excluded by the framework, and stack depth is a runtime fact: explored with deep nesting around "
            "the default limit on a 2 MiB thread, and on the compiler's five parse entry points.",
    "note": TB + "Native stack usage, the compiler wrappers (parse_common etc.) and rowan's caching are explored/trusted, not modelled. Two defects repaired (a655e20).",
}
CLAIMS["C02"] = {
    "technique": "Lean 4 proof (lossless invariant preserved by every parser primitive) + kernel-checked counterexample + correspondence",
    "text": "Theorem lossless_document_partial: for every input and recursion limit, with no token limit, the tree text equals the input whenever ty.rs did not "
            "throw a token away (ghost flag `dropped`); C02_counterexample (kernel-evaluated) shows the full statement is false of the code: `type A{a:[!}` loses "
            "`!` — recorded as a KNOWN FINDING because repairing it would change 3 committed parser snapshots. " + "Parser model = transliteration of lexer/mod.rs, rowan's GreenNodeBuilder, parser/mod.rs and every parser/grammar/*.rs function in a proof-carrying state monad; tied by correspondence stream P (S-expression of the tree with token texts, error positions, both high-water marks; three entry points; all limit settings) — " + "oracle on impl: tree text = source, every "
            "range on a char boundary, lexical errors and multibyte text inserted at every grammar position.",
    "note": TB + "Char-boundary clause: true by typing in the model (List Char), checked on the implementation.",
}
CLAIMS["C04"] = {
    "technique": "Lean 4 proof (lexer limit stream, prefix/freeze/balance invariants of the parser model) + exhaustive (n,r) correspondence",
    "text": "Theorems for all inputs and limits: token_limit_exact / token_limit_iff (limited stream = first n items + one limit error iff longer), "
            "limited_tree_is_prefix, no_error_after_token_limit (error list frozen once the limit error is recorded), recursion counter balanced and the limit branch "
            "taken exactly when the incremented counter exceeds the limit. " + "Parser model = transliteration of lexer/mod.rs, rowan's GreenNodeBuilder, parser/mod.rs and every parser/grammar/*.rs function in a proof-carrying state monad; tied by correspondence stream P (S-expression of the tree with token texts, error positions, both high-water marks; three entry points; all limit settings) — " + "every token limit 0..|items|+1 and every recursion limit 0..depth+1 per document. "
            "PARTIAL: 'recursion-limit error ⟺ nesting depth of the unlimited tree > r' and the compiler's reached figures are decided on the implementation "
            "against a depth computed from the tree.",
    "note": TB + "apollo_compiler::parser::Parser's recursion_reached/tokens_reached are compared with the parser's high-water marks on the implementation only.",
}
CLAIMS["C07"] = {
    "technique": "Lean 4 proof (exhaustion lemma for the repaired entry points) + exhaustive prefix/construct/suffix correspondence",
    "text": "Theorem standalone_whole_input: for every input and recursion limit (no token limit), if parse_type / parse_selection_set report no error then nothing "
            "is left unconsumed (lexer exhausted, only the empty EOF token current). " + "Parser model = transliteration of lexer/mod.rs, rowan's GreenNodeBuilder, parser/mod.rs and every parser/grammar/*.rs function in a proof-carrying state monad; tied by correspondence stream P (S-expression of the tree with token texts, error positions, both high-water marks; three entry points; all limit settings) — " + "oracle on impl: an independent recogniser of `one type` / `one selection set` "
            "over all strings ≤6/7 of a type alphabet and all prefix×construct×suffix token combinations, also through ast::Type::parse. PARTIAL: that the consumed tokens "
            "form exactly one construct is grammar acceptance (C05), decided on the implementation. Defect repaired (013ce3e).",
    "note": TB + "FieldSet::parse needs a schema and is exercised in C01/C19 harnesses.",
}

CLAIMS["C06"] = {
    "technique": "Lean 4 proof (decoder model = spec semantics, all inputs) + exhaustive correspondence + independent spec decoder as oracle",
    "text": "Theorems for all inputs: unescape_string on any sequence of valid StringCharacters yields exactly their semantic values and never panics "
            "(unescape_string_spec, unescape_string_no_panic); unescape_block_string = BlockStringValue steps 1-9 for EVERY raw value (block_string_spec, "
            "common_indent_spec), block slicing in range. The decoder model is hand-written from cst/node_ext.rs and tied by correspondence on ~400k lexically "
            "valid literals (quoted ≤5/6 over 12 symbols, block ≤6/7 over 8 symbols incl. CR/LF/tab/é, random with BOM/indent structure); oracle on impl: an "
            "independent transcription of the spec semantics in Rust, and the compiler's argument / default value / description storage.",
    "note": TB + "The `\\\"\"\"` unescape is applied per line in code and spec model (it contains no line terminator or white space); from_cst.rs storage is checked on the implementation only.",
}
CLAIMS["C09"] = {
    "technique": "Lean 4 proof (quoted form round-trips for every string) + correspondence + re-parse oracle; block form partial",
    "text": "Theorems for EVERY Unicode string: decode(quotedForm s) = s (quoted_roundtrip), hence every value/description round-trips with no_indent "
            "(no_indent_roundtrip) and whenever the block form is not chosen (quoted_branch_roundtrip); the block form is never chosen for strings with CR. "
            "PARTIAL: the block-form round trip (block_roundtrip_statement) is stated but not yet proved; it is decided by correspondence of the serializer model "
            "(262k cases: all strings ≤5/6 over {quote, backslash, LF, CR, space, tab, a, é, U+0001, U+007F} × 8 configurations incl. tab and empty prefixes and "
            "levels 0-3) and by re-parsing every printed literal and whole documents with nested descriptions/defaults with the real parser.",
    "note": TB + "Only white-space indent prefixes are in scope (as the property says). Lexing of the printed literal as a single token is checked on the implementation.",
}

CLAIMS["C05"] = {
    "technique": "differential: parser model (correspondence) + independent reference recogniser of the October-2021 grammar; Lean facts/witnesses only (partial)",
    "text": "PARTIAL. Decided by (1) the parser model of C01 agreeing with the real parser on every case (tree, errors) and (2) a reference recogniser of the October-2021 "
            "document grammar written from the spec (gramspec.rs over lexspec.rs) evaluated on the implementation: error-free ⟺ accepted and equal (kind,name) definition "
            "lists — on all token sequences ≤5/6 over 15 tokens (~810k), 20k/200k generated documents covering every production (coverage counters in the evidence) and "
            "their single/double token mutations, and the repo's test data. Machine-checked in Lean: accepted documents are covered whole by the tree, the top-level loop "
            "only stops at EOF, kernel-evaluated witnesses of three repaired defects (schema without braces, comma in look-ahead, argument/object field without value; a fourth, "
            "`extend schema @d { }` accepted, was found by the thorough tier's 6-token enumeration and repaired by 50fb92a, its inputs now run first in the quick tier) and "
            "of the known finding (`schema{query:}`). No theorem yet relates the parser model to a grammar specification.",
    "note": TB + "The reference recogniser is our reading of Appendix B; it shares no code with apollo-parser.",
}

CLAIMS["C11"] = {
    "technique": "Lean 4 proof (line/column function = documented rule, all texts and offsets) + exhaustive correspondence + AST location walk on the implementation",
    "text": "Theorem line_column_spec: for EVERY source text and byte offset the model of the (repaired) SourceFile::get_line_column — scan bytes before the offset "
            "for \\n / \\r\\n / \\r, then recount characters from the line start — equals the documented rule written as one pass with a running line and column "
            "(columns count Unicode scalar values; FF, U+2028, U+0085 do not start lines); offsets inside the file always have a position. Tied by correspondence on "
            "every offset (incl. non-boundary and past-the-end) of all strings ≤5/6 over {a, é, emoji, LF, CR, FF, U+2028, U+0085, space} and generated documents (728k cases). "
            "PARTIAL: 'every AST name's location covers exactly its text, every node lies inside its file, JSON errors report those positions' is checked on the "
            "implementation by walking every name/node of generated ASTs (from_cst.rs is not modelled); one known finding inherited from C02.",
    "note": TB + "Diagnostic rendering (ariadne) keeps its own line table and is out of scope of the proved function.",
}

CLAIMS["C16"] = {
    "technique": "Lean 4 proof (fixpoint / exact restoration of the built-in scalar bookkeeping, all schemas, all hash orders) + history correspondence",
    "text": "Theorems for every well-formed type map and every iteration order of the hash set: re-running the end of validate_schema on its own output changes nothing "
            "(revalidate_fixpoint); adding a reference to a pruned built-in scalar B to a validated schema restores exactly B and nothing else (restore_exact); after a pass "
            "every referenced built-in scalar is defined; references are unchanged by the pass. The bookkeeping model (record_type_ref / all_used / retain / insert) is "
            "hand-written and tied by correspondence on histories validate → into_inner → validate → add fields → validate over 2k/20k generated schemas (5.7k model cases). "
            "PARTIAL: 're-validating a valid executable document succeeds and is equal' and full Schema equality are checked on the implementation only.",
    "note": TB + "Only the built-in scalar part of validate_schema is modelled; the rest of validation is a function of the schema (no hidden state), which is argued, not proved.",
}

CLAIMS["C21"] = {
    "technique": "Lean 4 proof (depth guard bound, limit diagnostic iff too deep, termination and soundness of fragment-cycle detection, stable sort) + correspondence + child-process adversarial exploration",
    "text": "Theorems: a walker guarded by DepthGuard::increment never goes deeper than limit+1 and restores the counter (depth_guard_bound), and reports the limit if and only if the "
            "nesting below it exceeds what the limit leaves (limit_yields_diagnostic), for every nesting shape; DiagnosticList::sort is a permutation, sorted by (file, offset) with None first, "
            "and stable (sort_perm / sort_sorted / sort_stable); detect_fragment_cycles terminates on every document, cyclic or not (the model is accepted by Lean through a well-founded "
            "measure on limit+1-|path|), its RecursionStack never holds more than limit+1 names, its call depth (the fragment chain times the field / inline-fragment nesting inside each fragment) never exceeds "
            "dlimit+1 frames, and a reported cycle is a real chain of spreads back to the fragment (fragment_cycle_stack_bound / fragment_cycle_depth_bound / fragment_cycle_sound). The three models are tied to the real DepthCounter/DepthGuard, DiagnosticList::sort (cfg hooks) and validate_fragment_cycles "
            "(through ast::Document::validate_standalone_executable) by correspondence: all balanced shapes up to length 10/12 x limits, random keys with ties, random fragment graphs, "
            "chains of 90-112 fragments around the limit of 100 and chains of 3-99 fragments whose nesting product sits around the depth limit of 500. PARTIAL: 'no panic, no stack overflow' of build/validate/serialize/introspect/render as a whole is explored on the "
            "implementation, not proved: 14 families of otherwise valid documents (fragment, directive, input-object chains; selection, inline fragment, list type, list/object value, "
            "field-merge and variable nesting; 98 chained fragments x n levels of fields or inline fragments) at sizes around every internal limit (32, 100, 128, 500) and far above, and thousands of random self-referential schema+document soups "
            "(mostly valid, then damaged), each in a child process on a 2 MiB thread stack, rendering every diagnostic as text, colour-capable report and JSON; oracles: child exits "
            "normally, no panic, every DiagnosticList in source order, an otherwise valid input is rejected only with a recursion-limit diagnostic.",
    "note": TB + "ariadne (report rendering) and serde_json are third-party code exercised, not modelled. Stack-overflow freedom is relative to a 2 MiB stack in the harness build profile "
            "(release + debug assertions); the guard theorems bound the recursion depth of a guarded walker, not the frame size. Other cycle detectors (directive definitions, input "
            "objects, variables) use the same RecursionStack but are only explored, not modelled. Two defects repaired: 3b32b6a (ariadne panic on a span inside a character), "
            "3e87d32 (stack overflow in fragment cycle detection: chain x nesting).",
}

CLAIMS["C22"] = {
    "technique": "Lean 4 proof (stable sort hides hash iteration order when keys are distinct) + translator-generated list of hash iteration sites + cross-process correspondence",
    "text": "The translator lists, on every run, every place in apollo-compiler and apollo-smith where a HashMap/HashSet is iterated (token-level scan with scoping: for-loops, iter/keys/values/"
            "into_iter/drain/extend on names bound to hash collections, crate-wide for fields and hash-returning functions) into Generated/HashSites.lean; theorem all_sites_audited (decide) "
            "checks that list against the audited sites. Theorems: stable_sorted_unique / sort_hash_order_independent — for every list of earlier diagnostics and every two iteration orders "
            "of hash-map entries with pairwise distinct locations, DiagnosticList::sort yields the same list; unused_variables_deterministic instantiates it for the model of "
            "validate_unused_variables (HashMap collect with overwrite, removal of used names, iteration in an arbitrary order). Correspondence: the model's sorted unused-variable diagnostics "
            "equal the implementation's on 4k/30k generated operations; and the whole pipeline (build, validate, serialize, diagnostics as text and JSON, schema introspection, "
            "parse_mixed_validate, apollo-smith with and without an existing document) is run on identical inputs in 4/8 processes and compared output by output. "
            "PARTIAL: order-independence is proved for the modelled site only; the other audited site (restoring several built-in scalars) is order-dependent but unreachable from text "
            "(the harness checks on every input that a schema built from text defines all five built-in scalars); IndexMap/IndexSet insertion order and the absence of other sources of "
            "nondeterminism (addresses, time, threads) are not modelled, only compared across processes.",
    "note": TB + "The scanner (translator/hashsites.py) is trusted to find iteration sites; it does not see iteration through generic code or trait objects. Seeds of ahash/std RandomState differ per map and "
            "per process (runtime-rng), which the cross-process comparison relies on.",
}

# per-property claim files (lib/claims.d/Cnn.json: {"technique","text","note"}) so that a new property
# is claimed without editing this file
import json as _json, os as _os, glob as _glob
for _p in sorted(_glob.glob(_os.path.join(_os.path.dirname(_os.path.abspath(__file__)), "claims.d", "C*.json"))):
    _c = _json.load(open(_p, encoding="utf-8"))
    CLAIMS[_os.path.basename(_p)[:-5]] = {"technique": _c["technique"], "text": _c["text"], "note": TB + _c.get("note", "")}

ALL = [f"C{i:02d}" for i in range(1, 34)]
NOT_APPLICABLE = {p: "check not built yet in this session (planned, see DESIGN.md §9); not a claim that the technique cannot apply"
                  for p in ALL if p not in CLAIMS}
