#!/usr/bin/env python3
"""Writes /verif/MANIFEST.json from lib/claims.py (kept in one place so it always validates)."""
import json, os, sys
ROOT = os.path.dirname(os.path.dirname(os.path.abspath(__file__)))
sys.path.insert(0, os.path.join(ROOT, "lib"))
from claims import CLAIMS, NOT_APPLICABLE, HOOK_COMMITS

checks = []
for pid in sorted(CLAIMS):
    c = CLAIMS[pid]
    checks.append({
        "property_id": pid,
        "quick_cmd": f"./check {pid} quick",
        "thorough_cmd": f"./check {pid} thorough",
        "evidence_file": f"/verif/evidence/{pid}.json",
        "replay_cmd_template": f"./check {pid} quick --replay {{path}}",
        "engine": "lean-proof+correspondence",
        "level_claimed": {"category": "proof", "text": c["text"], "design_ref": f"DESIGN.md §9 {pid}"},
        "level_note": c["note"],
        "technique": c["technique"],
    })
manifest = {
    "version": 1,
    "setup_cmd": "./setup.sh",
    "hooks": {
        "guard": "--cfg apollo_rs_verif",
        "enable": "RUSTFLAGS='--cfg apollo_rs_verif' (set in /verif/harness/.cargo/config.toml; the harness crate has path dependencies on /repo/crates/*)",
        "baseline_off_cmd": "/verif/lib/run_repo_tests.sh /repo",
        "source_commits": HOOK_COMMITS,
        "add_only": True,
    },
    "engines": [{
        "name": "lean-proof+correspondence",
        "path": "/verif/check",
        "serves_properties": sorted(CLAIMS),
        "kind_free_text": "Lean 4 theorems over an executable model (lean/ApolloModel), translator-regenerated tables (translator/), "
                          "and a differential correspondence check of the compiled model against the real Rust code (harness/)",
    }],
    "checks": checks,
    "not_applicable": [{"property_id": p, "reason": r} for p, r in sorted(NOT_APPLICABLE.items())],
    "notes": "See DESIGN.md. KNOWN_FINDINGS.txt lists recorded defects; replays/ is written on violation.",
}
json.dump(manifest, open(os.path.join(ROOT, "MANIFEST.json"), "w"), indent=1)
print("checks:", len(checks), "not_applicable:", len(NOT_APPLICABLE))
