#!/bin/bash
# Runs the repository's own pinned test suite with the verification guard OFF (baseline_off_cmd).
# usage: run_repo_tests.sh [repo_dir]   — prints a summary line; exit 0 iff everything passed.
REPO=${1:-/repo}
cd "$REPO" || exit 2
export CARGO_NET_OFFLINE=true
if [ -f /w/lib/nextest.toml ] && command -v cargo-nextest >/dev/null; then
  cargo nextest run --workspace --no-fail-fast --tool-config-file pb:/w/lib/nextest.toml --profile pb --test-threads 8 --offline 2>&1 | tail -15
  exit ${PIPESTATUS[0]}
else
  cargo test --workspace --no-fail-fast --offline 2>&1 | grep -E "^test result|FAILED|failed" | tail -30
  exit ${PIPESTATUS[0]}
fi
