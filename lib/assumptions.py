"""Per-property statements of what is modelled rather than verified (goes into evidence.assumptions)."""
PROP_ASSUMPTIONS = {
    "C29": [
        "Gen.isAssignableTo / Gen.isValidImplementationFieldType are machine-translated from the Rust match arms; the translator (translator/matchfn.py) is trusted and cross-checked by the correspondence stream",
        "Model.isVariableUsageAllowed is hand-written; tied to validation/variable.rs by exhaustive correspondence (hook + public validation of minimal documents)",
        "schema.is_subtype is an abstract relation parameter in the theorem; the harness reads the real relation off the schema",
    ],
    "C23": [
        "Model/Coordinate.lean is a hand-written mirror of coordinate.rs (split_once/strip_prefix/or_else cascade, Display, lookup); tied by correspondence",
        "IndexMap::get modelled as List.lookup; Name bytes vs chars equivalence exercised with non-ASCII input",
    ],
    "C31": [
        "AtomicU64::fetch_add is one indivisible step that wraps modulo 2^64 (hardware/std trusted)",
        "the translator recognises the shape of FileId::new by token pattern (fetch_add(1, …) / load+store; `id & TAG == 0` test)",
        "thread-safety of shared Valid<Schema> (OnceLock, Send/Sync impls) is explored with real threads, not proved",
    ],
    "C25": [
        "HashMap get/insert of fragment depths modelled as an association list",
        "valid documents have acyclic fragment spreads (executable validation), so fragments can be numbered topologically",
        "selection tree → model encoding in harness/src/p25.rs (field names fields|interfaces|possibleTypes|inputFields ↦ list field)",
    ],
    "C10": [
        "Model/Numbers.lean mirrors IntValue::valid_syntax / FloatValue::valid_syntax / From<i32> / From<f64> by hand; tied by exhaustive correspondence",
        "Rust's Display for i32 is modelled by natDigits/intToString (compared on 100k+ values incl. boundaries); f64 Display shape is a stated hypothesis",
        "shortest-round-trip float printing and str::parse::<f64> are trusted (numeric round-trip checked on the implementation only)",
    ],
    "C03": [
        "transition function of Model/Lexer.lean hand-written from Cursor::advance/eof/done; eatc look-aheads unfolded into intermediate states; tied by exhaustive correspondence",
        "character-class tables regenerated from lookup.rs / mod.rs by the translator",
        "reference lexer harness/src/lexspec.rs is our reading of the October-2021 lexical grammar (surrogate and braced escapes rejected as documented)",
    ],
    "C01": [
        "parser model hand-written from parser/mod.rs + parser/grammar/*.rs + rowan builder; tied by correspondence stream P",
        "validate_name and the recursion-balance assert of document() are modelled as ghost flags (deadBranch), printed by the driver if ever set",
        "lexer errors/indices as in C03; limit-error index reproduces Cursor::index() incl. its len-1 quirk at end of input",
        "native stack size and the five compiler parse entry points are explored, not modelled",
    ],
    "C02": [
        "parser model hand-written from parser/mod.rs + parser/grammar/*.rs + rowan builder; tied by correspondence stream P",
        "validate_name and the recursion-balance assert of document() are modelled as ghost flags (deadBranch), printed by the driver if ever set",
        "lexer errors/indices as in C03; limit-error index reproduces Cursor::index() incl. its len-1 quirk at end of input",
    ],
    "C04": [
        "parser model hand-written from parser/mod.rs + parser/grammar/*.rs + rowan builder; tied by correspondence stream P",
        "validate_name and the recursion-balance assert of document() are modelled as ghost flags (deadBranch), printed by the driver if ever set",
        "lexer errors/indices as in C03; limit-error index reproduces Cursor::index() incl. its len-1 quirk at end of input",
    ],
    "C07": [
        "parser model hand-written from parser/mod.rs + parser/grammar/*.rs + rowan builder; tied by correspondence stream P",
        "validate_name and the recursion-balance assert of document() are modelled as ghost flags (deadBranch), printed by the driver if ever set",
        "lexer errors/indices as in C03; limit-error index reproduces Cursor::index() incl. its len-1 quirk at end of input",
    ],
    "C06": [
        "Model/Strings.lean decoder hand-written from cst/node_ext.rs; memchr/memmem searches modelled as list scans; tied by correspondence",
        "spec side (SChar/valuesAll, specBlockStringValue) is our transcription of October 2021 §2.9.4",
    ],
    "C09": [
        "Model/Strings.lean serializer hand-written from ast/serialize.rs (find/split_at loop modelled as per-character flatMap); tied by correspondence",
        "block-form round trip is not proved (stated as block_roundtrip_statement)",
    ],
    "C05": [
        "harness/src/gramspec.rs + lexspec.rs are the reference parser (graphql-js is not available offline); they are our transcription of the October-2021 grammar",
        "parser model as in C01",
    ],
    "C11": [
        "Model/LineColumn.lean hand-written from SourceFile::get_line_column; bytes modelled as characters with utf8Size prefix sums",
        "ast/from_cst.rs location attachment is not modelled; checked on the implementation",
    ],
    "C21": [
        "Model/Guards.lean hand-written from validation/mod.rs (DepthCounter, DepthGuard, RecursionStack, DiagnosticList::sort) and validation/fragment.rs (detect_fragment_cycles)",
        "slice::sort_by_key is a stable sort (std documentation); modelled by List.mergeSort",
        "the HashSet `seen` of detect_fragment_cycles is modelled as a list (membership only)",
        "a leaf field is a nested, empty selection set for detect_fragment_cycles (the code recurses into field.selection_set unconditionally); the harness encodes it that way",
        "the frame size of detect_fragment_cycles is not modelled: the theorem bounds the number of frames (<= 501), the 2 MiB child-process runs show that this many frames fit",
        "fragment definitions are validated once each when spread directly from the operation (harness spreads every fragment at the top level)",
    ],
    "C22": [
        "hash seeds are observable only through iteration over HashMap/HashSet (lookups/inserts/removals are seed-independent); IndexMap/IndexSet iterate in insertion order",
        "distinct variable definitions of one operation start at distinct byte offsets (distinct syntax nodes)",
        "slice::sort_by_key is stable (modelled by List.mergeSort)",
        "translator/hashsites.py finds every iteration over a hash-ordered collection (token-level, scoped names; no type inference)",
    ],
    "C16": [
        "Model/BuiltinScalars.lean hand-written from schema/validation.rs; IndexMap = association list, HashSet iteration = arbitrary permutation",
        "type references are exported by the harness from fields, arguments, input fields and directive definition arguments (what record_type_ref sees)",
    ],
}

# per-property files (lib/assumptions.d/Cnn.json: a JSON list of strings)
import json as _json, os as _os, glob as _glob
for _p in sorted(_glob.glob(_os.path.join(_os.path.dirname(_os.path.abspath(__file__)), "assumptions.d", "C*.json"))):
    PROP_ASSUMPTIONS[_os.path.basename(_p)[:-5]] = _json.load(open(_p, encoding="utf-8"))
