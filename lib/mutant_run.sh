#!/bin/bash
# usage: mutant_run.sh <name> <patch.diff> <Cnn> [tier]
# Runs ./check <Cnn> <tier> against /repo's HEAD + <patch.diff> WITHOUT touching /repo or /verif:
# a scratch git worktree of /repo with the patch applied, a scratch copy of /verif (with its build
# output, so the rebuild is incremental) whose harness points at that worktree, VERIF_REPO set.
# Prints the check's last lines; the full log is /work/mut-<name>.log; the mutant run's evidence is
# copied to /work/mut-<name>.evidence.json.  Everything else is removed.
SRC=$(dirname "$(dirname "$(readlink -f "$0")")")   # the /verif (or a copy of it) this script lives in
NAME=$1; PATCH=$(readlink -f "$2"); ID=$3; TIER=${4:-quick}
D=/work/mut-$NAME
mkdir -p /work; rm -rf "$D"; git -C /repo worktree prune
mkdir -p "$D"
git -C /repo worktree add --detach "$D/repo" HEAD >/dev/null 2>&1 || { echo "worktree failed"; exit 2; }
git -C "$D/repo" apply "$PATCH" || { echo "patch does not apply"; git -C /repo worktree remove --force "$D/repo"; rm -rf "$D"; exit 2; }
[ -f "$D/repo/Cargo.lock" ] || cp /repo/Cargo.lock "$D/repo/Cargo.lock"
rsync -a --exclude .work --exclude .git --exclude replays "$SRC/" "$D/verif/"
sed -i "s#/repo/crates#$D/repo/crates#" "$D/verif/harness/Cargo.toml"
( cd "$D/verif" && VERIF_REPO="$D/repo" ./check "$ID" "$TIER" ) > /work/mut-$NAME.log 2>&1
RC=$?
cp "$D/verif/evidence/$ID.json" /work/mut-$NAME.evidence.json 2>/dev/null
mkdir -p /work/mut-$NAME.replays; cp "$D"/verif/replays/* /work/mut-$NAME.replays/ 2>/dev/null
tail -6 /work/mut-$NAME.log
echo "exit=$RC"
git -C /repo worktree remove --force "$D/repo" 2>/dev/null
rm -rf "$D"; git -C /repo worktree prune
exit $RC
