#!/bin/bash
# usage: keep_seed.sh <Cnn> <crate> [tier] [worktree] [name]
# For a seeded change produced by a sub-agent in <worktree> (default /tmp/wt-<Cnn>; files mutation.diff and
# demo_test.rs): (1) confirms it in that scratch worktree (existing tests of the crate pass with the change,
# the demonstration fails with it and passes without it), (2) runs ./check <Cnn> <tier> against HEAD+change
# in an isolated copy (lib/mutant_run.sh — /repo and /verif are not touched), (3) stores patch, demo and
# meta.json under /verif/seeded/<name>, (4) removes the worktree.
ID=$1; CRATE=$2; TIER=${3:-quick}; WT=${4:-/tmp/wt-$ID}; NAME=${5:-$ID}
cd /verif
DEMO=demo_$(echo $NAME | tr 'A-Z-' 'a-z_')
CONF=$(lib/confirm_seed.sh $WT $CRATE $DEMO "" | tail -1)
echo "$CONF"
lib/mutant_run.sh seed-$NAME $WT/mutation.diff $ID $TIER > /work/seed-$NAME.out 2>&1; RC=$?
tail -4 /work/seed-$NAME.out
mkdir -p seeded/$NAME
cp $WT/mutation.diff seeded/$NAME/patch.diff; cp $WT/demo_test.rs seeded/$NAME/demo_test.rs
cp /work/mut-seed-$NAME.evidence.json seeded/$NAME/evidence_on_mutant.json 2>/dev/null
REPLAY=$(ls /work/mut-seed-$NAME.replays/* 2>/dev/null | head -1)
python3 - "$NAME" "$ID" "$CRATE" "$RC" "$CONF" "$REPLAY" "$TIER" <<'PY'
import sys, json
name, pid, crate, rc, conf, replay, tier = sys.argv[1:8]
viol = [l.strip() for l in open(f'/work/mut-seed-{name}.log') if l.startswith('VIOLATION')]
meta = {"property": pid, "crate": crate, "check": f"./check {pid} {tier} (run against HEAD + patch.diff in an isolated worktree by lib/mutant_run.sh)",
        "check_exit": int(rc), "detected": int(rc) == 1 and bool(viol),
        "violation_lines": viol[:3], "confirm": conf, "origin": "sub-agent given only the property text and a scratch worktree"}
if replay:
    try:
        r = json.load(open(replay)); meta["replay_excerpt"] = {k: (r[k] if not isinstance(r[k], str) else r[k][:600]) for k in list(r)[:6]}
    except Exception as e: meta["replay_excerpt"] = str(e)
json.dump(meta, open(f'/verif/seeded/{name}/meta.json', 'w'), indent=1, default=str)
print("detected:", meta["detected"])
PY
git -C /repo worktree remove --force $WT 2>/dev/null || rm -rf $WT
git -C /repo worktree prune
rm -rf /work/mut-seed-$NAME.replays /work/mut-seed-$NAME.log /work/mut-seed-$NAME.evidence.json
