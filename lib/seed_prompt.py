#!/usr/bin/env python3
"""usage: seed_prompt.py <Cnn> <worktree> [variant-hint]  — prints the task text for a seeding sub-agent.
The agent gets ONLY the property text and a scratch worktree (nothing from /verif)."""
import json, sys
pid, wt = sys.argv[1], sys.argv[2]
hint = sys.argv[3] if len(sys.argv) > 3 else ""
prop = None
for l in open("/verif/properties.jsonl"):
    p = json.loads(l)
    if p["id"] == pid:
        prop = p
crates = {"apollo-parser", "apollo-compiler", "apollo-smith"}
text = f"""You are testing how good a verification suite is at catching regressions in the Rust repository apollographql/apollo-rs (a GraphQL parser / compiler / document generator). You do not see the suite. Your job: produce ONE realistic, subtle code change ("seeded defect") that breaks the semantic property below, while the repository still compiles and its existing test suite still passes.

Your scratch git worktree of the repository is {wt} (work ONLY there; never touch /repo or /verif; do not read anything under /verif). Build and test offline: `cd {wt} && CARGO_NET_OFFLINE=true cargo test -p <crate> --offline` (crates: apollo-parser, apollo-compiler, apollo-smith; the first build takes a few minutes).

The property (id {pid}): {prop['title']}
Statement: {prop['statement']}
Quantified over: {prop['quantifier']['text']}
Why the existing tests cannot settle it: {prop['why_tests_cant']}
Code anchors: {json.dumps(prop['anchors'].get('files'))}; mechanisms: {json.dumps(prop['anchors'].get('mechanism'))}; observable at: {json.dumps(prop['anchors'].get('observe_at'))}

Requirements for the change:
* It must make the property FALSE for some input/history, in a way that needs something specific to manifest: an unusual input, a particular combination of features, a multi-step sequence of operations, a boundary value, a specific configuration, or two cooperating sites that each look fine alone. NOT something ordinary use or the existing tests would expose at once. A maintainer skimming the diff should find it plausible (a refactor, an "optimisation", an off-by-one, a missed case), not sabotage. Keep it small (typically 1–15 changed lines, in the anchored files or their close helpers). Do not touch tests, snapshots or test data.
* The crate must still compile, and ALL existing tests of the affected crate(s) must still pass with the change (run them: `cargo test -p <crate> --offline`; if your change affects apollo-parser also run apollo-compiler's tests, since it depends on it).
* Write a demonstration: a Rust integration test file `{wt}/demo_test.rs` (it will be copied to `crates/<crate>/tests/demo_{pid.lower()}.rs`; use only the crate's public API and its normal dev-dependencies) that FAILS with your change and PASSES without it, and states the property-level expectation it checks (not just "output changed").
* Save the change as a unified diff at `{wt}/mutation.diff` (`git -C {wt} diff > {wt}/mutation.diff`, paths relative to the repo root; must apply with `git apply` to a clean checkout of HEAD). Leave the worktree with the change applied.
{('Variation wanted: ' + hint) if hint else ''}
Verify all of it yourself before answering: (1) existing tests pass with the change, (2) demo fails with the change, (3) demo passes after `git apply -R mutation.diff` (then re-apply). Clean up large build output you do not need, but keep the worktree's `target/` if it speeds up your own runs.

Reply with: the crate name, a 3–6 line description of the change and why it breaks the property, what exactly is needed for it to manifest, and the commands you ran with their outcomes."""
print(text)
