#!/bin/bash
# usage: reseed.sh <name> <Cnn> [tier] [note]
# Re-runs ./check <Cnn> against HEAD + seeded/<name>/patch.diff (isolated, lib/mutant_run.sh) after a check was
# strengthened, and records the new outcome in seeded/<name>/meta.json next to the first one.
NAME=$1; ID=$2; TIER=${3:-quick}; NOTE=${4:-}
cd /verif
lib/mutant_run.sh reseed-$NAME seeded/$NAME/patch.diff $ID $TIER > /work/reseed-$NAME.out 2>&1; RC=$?
tail -4 /work/reseed-$NAME.out
REPLAY=$(ls /work/mut-reseed-$NAME.replays/* 2>/dev/null | head -1)
python3 - "$NAME" "$ID" "$RC" "$REPLAY" "$TIER" "$NOTE" <<'PY'
import sys, json
name, pid, rc, replay, tier, note = sys.argv[1:7]
p = f'/verif/seeded/{name}/meta.json'
meta = json.load(open(p))
viol = [l.strip() for l in open(f'/work/mut-reseed-{name}.log') if l.startswith('VIOLATION')]
if 'first_run' not in meta:
    meta['first_run'] = {k: meta.get(k) for k in ('check', 'check_exit', 'detected', 'violation_lines')}
meta.update({"check": f"./check {pid} {tier} (isolated run, after the check was strengthened)", "check_exit": int(rc),
             "detected": int(rc) == 1 and bool(viol), "violation_lines": viol[:3]})
if note: meta['strengthening'] = note
if replay:
    try:
        r = json.load(open(replay)); meta["replay_excerpt"] = {k: (r[k] if not isinstance(r[k], str) else r[k][:600]) for k in list(r)[:6]}
    except Exception as e: meta["replay_excerpt"] = str(e)
json.dump(meta, open(p, 'w'), indent=1, default=str)
print("detected:", meta["detected"])
PY
cp /work/mut-reseed-$NAME.evidence.json seeded/$NAME/evidence_on_mutant.json 2>/dev/null
rm -rf /work/mut-reseed-$NAME.replays /work/mut-reseed-$NAME.log /work/mut-reseed-$NAME.evidence.json
