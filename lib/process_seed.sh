#!/bin/bash
# usage: process_seed.sh <Cnn> <crate> [tier]   — worktree /tmp/wt-<Cnn> with mutation.diff + demo_test.rs
# applies the change to /repo, runs the check, reverts /repo, confirms the seed in the scratch
# worktree, stores it under /verif/seeded/<Cnn>[-k] and removes the worktree.
ID=$1; CRATE=$2; TIER=${3:-quick}; WT=${4:-/tmp/wt-$ID}; NAME=${5:-$ID}
cd /verif
[ -z "$(git -C /repo status --short)" ] || { echo "/repo not clean"; exit 2; }
git -C /repo apply $WT/mutation.diff || exit 2
# the run on the mutated tree rewrites evidence/<id>.json: keep the unchanged tree's record aside and
# put it back, so that what gets committed always describes /repo as it is
KEEP=$(mktemp -d); cp evidence/$ID.json $KEEP/ 2>/dev/null
./check $ID $TIER > /tmp/seed-$NAME-check.log 2>&1; RC=$?
git -C /repo checkout -- .
cp evidence/$ID.json seeded-evidence-$NAME.json 2>/dev/null && mkdir -p seeded/$NAME && mv seeded-evidence-$NAME.json seeded/$NAME/evidence_on_mutant.json
if [ -f $KEEP/$ID.json ]; then cp $KEEP/$ID.json evidence/$ID.json; else rm -f evidence/$ID.json; fi
rm -rf $KEEP
tail -4 /tmp/seed-$NAME-check.log
DEMO=demo_$(echo $NAME | tr 'A-Z-' 'a-z_')
CONF=$(lib/confirm_seed.sh $WT $CRATE $DEMO "" | tail -1)
echo "$CONF"
mkdir -p seeded/$NAME
cp $WT/mutation.diff seeded/$NAME/patch.diff; cp $WT/demo_test.rs seeded/$NAME/demo_test.rs
REPLAY=$(grep -o 'replay=[^ ]*' /tmp/seed-$NAME-check.log | head -1 | cut -d= -f2)
python3 - "$NAME" "$ID" "$CRATE" "$RC" "$CONF" "$REPLAY" "$TIER" <<'PY'
import sys, json
name, pid, crate, rc, conf, replay, tier = sys.argv[1:8]
viol = [l.strip() for l in open(f'/tmp/seed-{name}-check.log') if l.startswith('VIOLATION')]
meta = {"property": pid, "crate": crate, "check": f"./check {pid} {tier}", "check_exit": int(rc), "detected": int(rc) == 1 and bool(viol),
        "violation_lines": viol[:3], "confirm": conf, "origin": "sub-agent given only the property text and a scratch worktree"}
if replay:
    try:
        r = json.load(open(replay)); meta["replay_excerpt"] = {k: r[k] for k in list(r)[:6]}
    except Exception as e: meta["replay_excerpt"] = str(e)
json.dump(meta, open(f'/verif/seeded/{name}/meta.json', 'w'), indent=1, default=str)
print("detected:", meta["detected"])
PY
git -C /repo worktree remove --force $WT 2>/dev/null || rm -rf $WT
git -C /repo worktree prune
