#!/usr/bin/env python3
"""usage: refactor_prompt.py <Cnn> <worktree>  — prompt for a sub-agent that writes a HARMLESS rewrite of the code a
property is anchored in (the property must still hold); used to test that the checks stay quiet on correct code.
The agent gets ONLY the property text and a scratch worktree (nothing from /verif)."""
import json, sys
pid, wt = sys.argv[1], sys.argv[2]
prop = next(json.loads(l) for l in open("/verif/properties.jsonl") if json.loads(l)["id"] == pid)
print(f"""You are testing how robust a verification suite is against HARMLESS code changes in the Rust repository apollographql/apollo-rs (a GraphQL parser / compiler / document generator). You do not see the suite. Your job: produce ONE realistic behaviour-preserving rewrite (a refactor a maintainer could plausibly merge) of the code that the semantic property below is about, such that the property STILL HOLDS and no observable behaviour of the public API changes at all (same results, same diagnostics, same order, same panics/non-panics).

Your scratch git worktree of the repository is {wt} (work ONLY there; never touch /repo or /verif; do not read anything under /verif or /work). Build and test offline: `cd {wt} && CARGO_NET_OFFLINE=true cargo test -p <crate> --offline` (crates: apollo-parser, apollo-compiler, apollo-smith).

The property (id {pid}): {prop['title']}
Statement: {prop['statement']}
Code anchors: {json.dumps(prop['anchors'].get('files'))}; mechanisms: {json.dumps(prop['anchors'].get('mechanism'))}; observable at: {json.dumps(prop['anchors'].get('observe_at'))}

Requirements:
* Rewrite the anchored functions non-trivially but equivalently (20–80 changed lines is ideal): e.g. reorder independent match arms or statements, turn `if let`/`match` into the other form, extract or inline a helper function, rename local variables / private functions / private fields, replace a loop by iterator combinators or vice versa, change a private constant's spelling (`1 << 3` vs `8`), hoist a computation, replace `x.is_none()` by `matches!(x, None)`, split a function in two, move a private item to another place in the file, add comments. Touch the very code the mechanisms above name — the point is to disturb anything that reads or pattern-matches the source text while keeping behaviour identical.
* Do NOT change any public signature, any diagnostic text, any ordering of outputs, any data structure kind that affects iteration order, or anything observable. Do not touch tests, snapshots or test data. Keep `#[cfg(apollo_rs_verif)]` items (if any) compiling and behaving the same (you may move them along with the code they sit next to, but do not delete or rename them).
* The crate must compile without new warnings, and ALL existing tests of the affected crate(s) must pass (run them; if you change apollo-parser also run apollo-compiler's tests; if you change apollo-compiler also run apollo-smith's).
* Save the change as a unified diff at `{wt}/mutation.diff` (`git -C {wt} diff > {wt}/mutation.diff`, must apply with `git apply` to a clean checkout of HEAD). Leave the worktree with the change applied. Also write `{wt}/NOTES.md`: 5–10 lines listing each rewrite you made and why it cannot change behaviour.

Reply with: the crate, the list of rewrites, and the test commands you ran with their outcomes.""")
