#!/usr/bin/env python3
"""Prints the per-property status table of DESIGN.md §16 from the repository's own files
(Properties/*.lean, evidence/*.json, KNOWN_FINDINGS.txt, seeded/*/meta.json)."""
import json, re, glob, os
root = '/verif'
props = [json.loads(l) for l in open(f'{root}/properties.jsonl')]
kf = [l.strip() for l in open(f'{root}/KNOWN_FINDINGS.txt') if l.startswith(('finding:', 'fixed:'))]
seeds = {}
for d in sorted(glob.glob(f'{root}/seeded/*')):
    name = os.path.basename(d)
    m = re.match(r'(C\d\d)', name)
    if not m or not os.path.exists(f'{d}/meta.json'): continue
    meta = json.load(open(f'{d}/meta.json'))
    seeds.setdefault(m.group(1), []).append((name, meta))
print('| Prop | theorems | quick cases | fixed (commits) | open findings | seeded changes (detected / kept; * = only after strengthening) | harmless |')
print('|---|---|---|---|---|---|---|')
for p in props:
    pid = p['id']
    try: n = len(re.findall(r'^theorem ', open(f'{root}/lean/ApolloModel/Properties/{pid}.lean').read(), re.M))
    except Exception: n = '?'
    try:
        ev = json.load(open(f'{root}/evidence/{pid}.json')); cases = ev.get('coverage', {}).get('evaluations', '')
    except Exception: cases = ''
    fixed = [re.search(r'property=\S+ (\w+)', l).group(1) for l in kf if l.startswith('fixed:') and f'property={pid} ' in l]
    find = [re.search(r'key=(\S+)', l).group(1) for l in kf if l.startswith('finding:') and f'property={pid} ' in l]
    sd = [x for x in seeds.get(pid, []) if 'harmless' not in x[0]]
    det = sum(1 for _, m in sd if m.get('detected') or ('detected' not in m and 'VIOLATION' in str(m.get('detected_by', ''))))
    late = sum(1 for _, m in sd if isinstance(m.get('first_run'), dict) and m['first_run'].get('detected') is False)
    hl = [x for x in seeds.get(pid, []) if 'harmless' in x[0]]
    hls = ', '.join('quiet' if m.get('quiet') else 'alarm' for _, m in hl)
    print(f"| {pid} | {n} | {cases} | {' '.join(dict.fromkeys(fixed))} | {len(find)} | {det}/{len(sd)}{' (' + str(late) + '*)' if late else ''} | {hls} |")
