#!/bin/bash
# MANIFEST.setup_cmd — offline build of everything the checks need (run once after a fresh restore).
set -e
cd "$(dirname "$0")"
export CARGO_NET_OFFLINE=true
mkdir -p .work evidence replays
python3 translator/translate.py
(cd lean && lake build 2>&1 | tail -3)
cp /repo/Cargo.lock harness/Cargo.lock
(cd harness && cargo build --offline --release 2>&1 | tail -2)
echo setup-ok
