"""Translate a Rust function whose body is a single `match (a, b) { … }` over `Type::…` patterns with
boolean bodies into a Lean definition.  Recognised shapes only; anything else raises Drift."""
from rustlex import tokenize, find_fn, find_matching


class Drift(Exception):
    pass


CTOR = {"Named": ".named", "NonNullNamed": ".nonNullNamed", "List": ".list", "NonNullList": ".nonNullList"}


class P:
    def __init__(self, toks):
        self.t = toks
        self.i = 0
    def peek(self, k=0):
        return self.t[self.i + k].text if self.i + k < len(self.t) else None
    def eat(self, text=None):
        if self.i >= len(self.t):
            raise Drift("unexpected end")
        tok = self.t[self.i]
        if text is not None and tok.text != text:
            raise Drift(f"expected {text!r}, got {tok.text!r}")
        self.i += 1
        return tok


def parse_pat_alt(p):
    """Type::Ctor(x) | Type::Ctor(_) | … ; returns list of (ctor, var)"""
    alts = []
    while True:
        if p.peek() == "_":
            p.eat()
            alts.append(("_", None))
        else:
            p.eat("Type"); p.eat("::")
            c = p.eat().text
            if c not in CTOR:
                raise Drift(f"unknown constructor {c}")
            p.eat("(")
            v = p.eat().text
            p.eat(")")
            alts.append((c, v))
        if p.peek() == "|":
            p.eat()
            continue
        return alts


def parse_arm_patterns(p):
    """(A, B) | (C, D) …  → list of (alts1, alts2)"""
    tuples = []
    if p.peek() == "|":
        p.eat()
    while True:
        p.eat("(")
        a = parse_pat_alt(p)
        p.eat(",")
        b = parse_pat_alt(p)
        p.eat(")")
        tuples.append((a, b))
        if p.peek() == "|":
            p.eat()
            continue
        return tuples


class ExprTr:
    def __init__(self, p, calls):
        self.p = p
        self.calls = calls  # name -> lambda(receiver, args) -> lean text

    def expr(self):
        lhs = self.and_()
        while self.p.peek() == "||":
            self.p.eat()
            lhs = f"({lhs} || {self.and_()})"
        return lhs

    def and_(self):
        lhs = self.cmp()
        while self.p.peek() == "&&":
            self.p.eat()
            lhs = f"({lhs} && {self.cmp()})"
        return lhs

    def cmp(self):
        lhs = self.unary()
        if self.p.peek() in ("==", "!="):
            op = self.p.eat().text
            rhs = self.unary()
            return f"({lhs} {op} {rhs})"
        return lhs

    def unary(self):
        if self.p.peek() == "!":
            self.p.eat()
            return f"(!{self.unary()})"
        if self.p.peek() in ("&", "*"):
            self.p.eat()
            return self.unary()
        return self.postfix()

    def args(self):
        self.p.eat("(")
        out = []
        while self.p.peek() != ")":
            out.append(self.expr())
            if self.p.peek() == ",":
                self.p.eat()
        self.p.eat(")")
        return out

    def postfix(self):
        e = self.primary()
        while self.p.peek() == ".":
            self.p.eat()
            m = self.p.eat().text
            a = self.args()
            if m not in self.calls:
                raise Drift(f"unknown method {m}")
            e = self.calls[m](e, a)
        return e

    def primary(self):
        t = self.p.peek()
        if t in ("true", "false"):
            self.p.eat()
            return t
        if t == "(":
            self.p.eat()
            e = self.expr()
            self.p.eat(")")
            return e
        if t == "{":
            self.p.eat()
            e = self.expr()
            self.p.eat("}")
            return e
        tok = self.p.eat()
        if tok.kind != "ident":
            raise Drift(f"unexpected token {tok.text!r} in expression")
        if self.p.peek() == "(":
            a = self.args()
            if tok.text not in self.calls:
                raise Drift(f"unknown function {tok.text}")
            return self.calls[tok.text](None, a)
        return tok.text


def translate(src, fn_name, lean_name, params, scrutinee, calls, extra_params=""):
    """params: Lean binder text for the two `Ty` arguments in Rust order;
    scrutinee: the (x, y) names expected in `match (x, y)`."""
    toks = tokenize(src)
    r = find_fn(toks, fn_name)
    if r is None:
        raise Drift(f"fn {fn_name} not found")
    _, a, b = r
    body = toks[a + 1:b]
    p = P(body)
    p.eat("match")
    p.eat("(")
    s0 = p.eat().text; p.eat(","); s1 = p.eat().text
    p.eat(")")
    if (s0, s1) != scrutinee:
        raise Drift(f"scrutinee is ({s0}, {s1}), expected {scrutinee}")
    p.eat("{")
    arms = []
    while p.peek() != "}":
        pats = parse_arm_patterns(p)
        p.eat("=>")
        e = ExprTr(p, calls).expr()
        if p.peek() == ",":
            p.eat()
        arms.append((pats, e))
    p.eat("}")
    if p.i != len(body):
        raise Drift("trailing tokens after match")
    lines = []
    covered = set()
    ALL = list(CTOR)
    for pats, e in arms:
        for (alts1, alts2) in pats:
            for (c1, v1) in alts1:
                for (c2, v2) in alts2:
                    # first-match semantics: expand wildcards, skip pairs already decided
                    for d1 in (ALL if c1 == "_" else [c1]):
                        for d2 in (ALL if c2 == "_" else [c2]):
                            if (d1, d2) in covered:
                                continue
                            covered.add((d1, d2))
                            w1 = v1 if c1 != "_" else "_"
                            w2 = v2 if c2 != "_" else "_"
                            lines.append(f"  | {CTOR[d1]} {w1}, {CTOR[d2]} {w2} => {e}")
    out = [f"def {lean_name} {extra_params}{params} : Bool :=",
           f"  match {scrutinee[0]}, {scrutinee[1]} with"] + lines
    return "\n".join(out) + "\n"
