"""A small Rust tokenizer and helpers to pull function bodies / constants out of source files.
Token-level (comments and strings are recognised), not regex-on-lines."""
import re

TOKEN_RE = re.compile(r"""
    (?P<ws>\s+)
  | (?P<lcomment>//[^\n]*)
  | (?P<bcomment>/\*.*?\*/)
  | (?P<rawstr>r\#*"(?:.|\n)*?"\#*)
  | (?P<bytechar>b'(?:\\.|[^'\\])')
  | (?P<str>b?"(?:\\.|[^"\\])*")
  | (?P<char>'(?:\\u\{[0-9a-fA-F]+\}|\\x[0-9a-fA-F]{2}|\\.|[^'\\])')
  | (?P<lifetime>'[A-Za-z_][A-Za-z0-9_]*)
  | (?P<num>0x[0-9a-fA-F_]+|[0-9][0-9_]*(?:\.[0-9_]+)?(?:[eE][+-]?[0-9]+)?(?:[iu](?:8|16|32|64|128|size)|f32|f64)?)
  | (?P<ident>[A-Za-z_][A-Za-z0-9_]*)
  | (?P<punct>::|->|=>|==|!=|<=|>=|&&|\|\||\.\.=|\.\.\.|\.\.|<<|>>|\+=|-=|\*=|/=|[-+*/%^!&|=<>@.,;:#$?~\[\]{}()])
""", re.X | re.S)


class Tok:
    __slots__ = ("kind", "text", "pos")
    def __init__(self, kind, text, pos):
        self.kind, self.text, self.pos = kind, text, pos
    def __repr__(self):
        return f"{self.kind}:{self.text!r}"


def tokenize(src):
    out = []
    pos = 0
    n = len(src)
    raw_open = re.compile(r'b?r(#*)"')
    while pos < n:
        mo = raw_open.match(src, pos)
        if mo and (pos == 0 or not (src[pos - 1].isalnum() or src[pos - 1] == "_")):
            close = '"' + mo.group(1)
            end = src.find(close, mo.end())
            if end < 0:
                raise ValueError(f"unterminated raw string at {pos}")
            out.append(Tok("rawstr", src[pos:end + len(close)], pos))
            pos = end + len(close)
            continue
        m = TOKEN_RE.match(src, pos)
        if not m:
            raise ValueError(f"cannot tokenize at {pos}: {src[pos:pos+30]!r}")
        kind = m.lastgroup
        if kind not in ("ws", "lcomment", "bcomment"):
            out.append(Tok(kind, m.group(), pos))
        pos = m.end()
    return out


def find_matching(toks, i):
    """toks[i] is an opening bracket; return index of its partner."""
    pairs = {"(": ")", "[": "]", "{": "}"}
    open_ = toks[i].text
    close = pairs[open_]
    depth = 0
    for j in range(i, len(toks)):
        t = toks[j].text
        if toks[j].kind == "punct":
            if t == open_:
                depth += 1
            elif t == close:
                depth -= 1
                if depth == 0:
                    return j
    raise ValueError("unbalanced")


def find_fn(toks, name, start=0):
    """Return (sig_start, body_open, body_close) token indices of `fn name`."""
    for i in range(start, len(toks) - 1):
        if toks[i].kind == "ident" and toks[i].text == "fn" and toks[i + 1].text == name:
            j = i + 2
            # skip to the body's opening brace (first `{` at paren depth 0)
            depth = 0
            while j < len(toks):
                t = toks[j].text
                if toks[j].kind == "punct":
                    if t in "([":
                        depth += 1
                    elif t in ")]":
                        depth -= 1
                    elif t == "{" and depth == 0:
                        return i, j, find_matching(toks, j)
                    elif t == ";" and depth == 0:
                        break
                j += 1
    return None


def fn_body_text(src, name, start_after=None):
    toks = tokenize(src)
    start = 0
    if start_after is not None:
        for i, t in enumerate(toks):
            if t.kind == "ident" and t.text == start_after:
                start = i
                break
    r = find_fn(toks, name, start)
    if r is None:
        return None
    _, a, b = r
    return " ".join(t.text for t in toks[a:b + 1])


def normalized_hash(text):
    import hashlib
    return hashlib.sha256(text.encode()).hexdigest()[:16]
