"""Find every place where a hash-ordered collection (std HashMap / HashSet, whatever the hasher) is
*iterated* in the library sources. Token-level: names are bound to hash collections by their declared
type or initialiser, crate-wide for struct fields and for functions returning such a collection;
iteration is `for … in X`, or one of the iterating methods called on X.

Insertion-ordered collections (IndexMap / IndexSet) are not reported: their iteration order does not
depend on the hasher."""
import os, re
from rustlex import tokenize, find_matching

HASH_TYPES = {"HashMap", "HashSet"}
ITER_METHODS = {"iter", "iter_mut", "into_iter", "keys", "values", "values_mut", "into_keys", "into_values", "drain"}
CONSUMERS = {"extend", "from_iter", "collect"}  # X passed whole: `.extend(X)`


def strip_tests(toks):
    """Drop `#[cfg(test)] mod NAME { … }` blocks."""
    out, i = [], 0
    while i < len(toks):
        if toks[i].text == "#" and i + 6 < len(toks) and [t.text for t in toks[i + 1:i + 7]] == ["[", "cfg", "(", "test", ")", "]"]:
            j = i + 7
            if j + 2 < len(toks) and toks[j].text == "mod" and toks[j + 2].text == "{":
                i = find_matching(toks, j + 2) + 1
                continue
        out.append(toks[i])
        i += 1
    return out


def type_mentions_hash(toks, i, stop_texts):
    """Does the type starting at toks[i] (up to a top-level token in stop_texts) have a hash collection
    as its outermost constructor (after &, mut, lifetimes, path prefixes, Option<…>/Result<…>/MaybeLazy<…> wrappers)?"""
    depth = 0
    j = i
    first = True
    while j < len(toks):
        t = toks[j]
        if depth == 0 and t.text in stop_texts:
            return False
        if t.kind == "punct" and t.text in "<([":
            depth += 1
        elif t.kind == "punct" and t.text in ">)]":
            depth -= 1
            if depth < 0:
                return False
        elif t.text == ">>":
            depth -= 2
            if depth < 0:
                return False
        if t.kind == "ident":
            if t.text in HASH_TYPES:
                return True
            if t.text in ("mut", "dyn", "impl", "std", "collections", "crate", "OnceLock", "Option", "Result", "MaybeLazy", "Rc", "Arc", "Box", "RefCell", "Cell", "Mutex") or t.text.startswith("'"):
                pass
            elif depth == 0 and first:
                # some other outermost type
                first = False
                # keep scanning only through wrappers; an unrelated outer type ends the search
                return False
        j += 1
    return False


def fn_spans(toks):
    """(sig_start, body_open, body_close, name) for every fn with a body"""
    spans = []
    n = len(toks)
    for i in range(n - 1):
        if toks[i].text == "fn" and toks[i].kind == "ident" and toks[i + 1].kind == "ident":
            j = i + 2
            depth = 0
            while j < n:
                x = toks[j]
                if x.kind == "punct" and x.text in "([":
                    depth += 1
                elif x.kind == "punct" and x.text in ")]":
                    depth -= 1
                elif x.text == "{" and depth == 0:
                    spans.append((i, j, find_matching(toks, j), toks[i + 1].text))
                    break
                elif x.text == ";" and depth == 0:
                    break
                j += 1
    return spans


def scope_of(spans, n):
    """innermost fn (index into spans, or -1) for every token; the signature belongs to the fn"""
    owner = [-1] * n
    order = sorted(range(len(spans)), key=lambda k: spans[k][2] - spans[k][0], reverse=True)
    for k in order:
        a, _, b, _ = spans[k]
        for t in range(a, b + 1):
            owner[t] = k
    return owner


def stmt_end(toks, i):
    """index of the `;` (or closing bracket) ending the statement that contains token i"""
    depth = 0
    j = i
    n = len(toks)
    while j < n:
        x = toks[j]
        if x.kind == "punct" and x.text in "([{":
            depth += 1
        elif x.kind == "punct" and x.text in ")]}":
            depth -= 1
            if depth < 0:
                return j
        elif x.text == ";" and depth == 0:
            return j
        j += 1
    return n - 1


def scan_decls(toks, owner):
    """hash-bound names: locals[(scope, name)] = token index after which the binding is in force;
    fields = set of names declared outside any fn (struct fields, statics); fns = fn names returning one"""
    locals_, fields, fns = {}, set(), set()
    n = len(toks)
    def bind(scope, name, at):
        if scope == -1:
            fields.add(name)
        else:
            key = (scope, name)
            if key not in locals_ or at < locals_[key]:
                locals_[key] = at
    for i, t in enumerate(toks):
        # IDENT : TYPE   (params, fields, let with annotation)
        if t.kind == "ident" and i + 2 < n and toks[i + 1].text == ":" and toks[i + 1].kind == "punct":
            if type_mentions_hash(toks, i + 2, {",", ")", "=", ";", "{", "}"}):
                is_let = i >= 1 and (toks[i - 1].text == "let" or (toks[i - 1].text == "mut" and i >= 2 and toks[i - 2].text == "let"))
                bind(owner[i], t.text, stmt_end(toks, i) if is_let else i)
        if t.text == "let" and t.kind == "ident":
            j = i + 1
            if toks[j].text == "mut":
                j += 1
            if toks[j].kind == "ident" and j + 1 < n and toks[j + 1].text == "=":
                k = j + 2
                end = stmt_end(toks, k)
                hashy = toks[k].text in HASH_TYPES
                depth = 0
                for m in range(k, end):
                    x = toks[m]
                    if x.kind == "punct" and x.text in "([{":
                        depth += 1
                    elif x.kind == "punct" and x.text in ")]}":
                        depth -= 1
                    if depth == 0 and x.text == "collect" and m + 3 < n and toks[m + 1].text == "::" and toks[m + 2].text == "<" and toks[m + 3].text in HASH_TYPES:
                        hashy = True
                if hashy:
                    bind(owner[i], toks[j].text, end)
        if t.text == "fn" and t.kind == "ident" and i + 1 < n and toks[i + 1].kind == "ident":
            j = i + 2
            while j < n and toks[j].text != "(":
                j += 1
            if j < n:
                close = find_matching(toks, j)
                if close + 1 < n and toks[close + 1].text == "->":
                    if type_mentions_hash(toks, close + 2, {"{", ";", "where"}):
                        # (name, visible outside its crate?) — `pub fn` only; `pub(crate) fn` and private fns are not
                        fns.add((toks[i + 1].text, i >= 1 and toks[i - 1].text == "pub"))
    return locals_, fields, fns


def receiver_name(toks, dot):
    """toks[dot] is `.`; the expression before it: returns the last path segment if it is `ident`, `a.b.ident`
    or `ident(...)`/`a.ident(...)` (a call) — as ('name', ident) / ('call', ident)."""
    j = dot - 1
    if j < 0:
        return None
    if toks[j].kind == "ident":
        return ("name", toks[j].text)
    if toks[j].text == ")":
        # find matching open paren
        depth = 0
        k = j
        while k >= 0:
            if toks[k].text == ")":
                depth += 1
            elif toks[k].text == "(":
                depth -= 1
                if depth == 0:
                    break
            k -= 1
        if k - 1 >= 0 and toks[k - 1].kind == "ident":
            return ("call", toks[k - 1].text)
    return None


def scan_sites(rel, toks, spans, owner, locals_, fields, hash_fns, let_fn_bound):
    sites = []
    n = len(toks)
    def fn_name(i):
        return spans[owner[i]][3] if owner[i] >= 0 else ""
    def is_field_use(i):
        return i >= 1 and toks[i - 1].text == "."
    def is_hash_name(i, name):
        """identifier `name` used at token i (the identifier itself is toks[i])"""
        if i >= 1 and toks[i - 1].text == ".":
            return name in fields
        # walk outwards through enclosing fns: closures see outer locals, nested fns do not, but being
        # generous here only risks reporting more
        at = locals_.get((owner[i], name))
        return at is not None and i > at
    for i, t in enumerate(toks):
        if t.kind == "ident" and t.text in ITER_METHODS and i >= 2 and toks[i - 1].text == "." and i + 1 < n and toks[i + 1].text == "(":
            r = receiver_name(toks, i - 1)
            if r and r[0] == "name" and is_hash_name(i - 2, r[1]):
                sites.append((rel, fn_name(i), r[1], t.text, "field" if is_field_use(i - 2) else "local"))
            elif r and r[0] == "call" and r[1] in hash_fns:
                sites.append((rel, fn_name(i), r[1] + "()", t.text, "call"))
        if t.text == "for" and t.kind == "ident":
            depth = 0
            j = i + 1
            while j < n and not (toks[j].text == "in" and depth == 0):
                if toks[j].kind == "punct" and toks[j].text in "([":
                    depth += 1
                elif toks[j].kind == "punct" and toks[j].text in ")]":
                    depth -= 1
                elif toks[j].text in ("{", ";"):
                    break
                j += 1
            if j < n and toks[j].text == "in":
                k = j + 1
                while toks[k].text in ("&", "mut", "&&"):
                    k += 1
                depth = 0
                m = k
                while m < n:
                    x = toks[m]
                    if x.kind == "punct" and x.text in "([":
                        depth += 1
                    elif x.kind == "punct" and x.text in ")]":
                        depth -= 1
                    elif x.text == "{" and depth == 0:
                        break
                    m += 1
                expr = toks[k:m]
                if expr:
                    last = expr[-1]
                    if last.kind == "ident" and all(e.kind == "ident" or e.text in (".", "::", "*") for e in expr) and is_hash_name(m - 1, last.text):
                        sites.append((rel, fn_name(i), last.text, "for", "field" if is_field_use(m - 1) else "local"))
                    elif last.text == ")":
                        r = receiver_name(toks, m)
                        if r and r[0] == "call" and r[1] in hash_fns:
                            sites.append((rel, fn_name(i), r[1] + "()", "for", "call"))
        if t.kind == "ident" and t.text in ("extend", "from_iter") and i + 3 < n and toks[i + 1].text == "(":
            k = i + 2
            while toks[k].text in ("&", "mut"):
                k += 1
            if toks[k].kind == "ident" and toks[k + 1].text == ")" and is_hash_name(k, toks[k].text):
                sites.append((rel, fn_name(i), toks[k].text, t.text, "field" if is_field_use(k) else "local"))
    return sites


def scan_crates(repo, crate_dirs):
    files = []
    for d in crate_dirs:
        for root, _, fs in os.walk(os.path.join(repo, d)):
            for f in sorted(fs):
                if f.endswith(".rs"):
                    files.append(os.path.relpath(os.path.join(root, f), repo))
    files.sort()
    per = {}
    fields, fn_decls = set(), set()   # fn_decls: (crate dir, name, pub)
    def crate_of(rel):
        for d in crate_dirs:
            if rel.startswith(d.rstrip("/") + "/"):
                return d
        return ""
    for rel in files:
        with open(os.path.join(repo, rel), encoding="utf-8") as fh:
            toks = strip_tests(tokenize(fh.read()))
        spans = fn_spans(toks)
        owner = scope_of(spans, len(toks))
        locals_, flds, fns = scan_decls(toks, owner)
        per[rel] = (toks, spans, owner, locals_)
        fields |= flds
        fn_decls |= {(crate_of(rel), name, is_pub) for (name, is_pub) in fns}
    def fn_names_for(rel):
        """hash-returning functions a call in `rel` can reach by name: those of its own crate, and the `pub` ones of
        the other crates (a private helper called `definitions` in one crate says nothing about `.definitions()` in another)"""
        c = crate_of(rel)
        return {name for (cr, name, is_pub) in fn_decls if cr == c or is_pub}
    # a local initialised from a hash-returning fn is hash-bound too: `let x = a.implementers_map();`
    for rel, (toks, spans, owner, locals_) in per.items():
        n = len(toks)
        fn_names = fn_names_for(rel)
        for i, t in enumerate(toks):
            if t.text == "let" and t.kind == "ident":
                j = i + 1
                if toks[j].text == "mut":
                    j += 1
                if toks[j].kind == "ident" and j + 1 < n and toks[j + 1].text == "=":
                    end = stmt_end(toks, j + 2)
                    if end - 3 >= 0 and toks[end - 1].text == ")":
                        r = receiver_name(toks, end)
                        if r and r[0] == "call" and r[1] in fn_names and owner[i] >= 0:
                            key = (owner[i], toks[j].text)
                            if key not in locals_ or end < locals_[key]:
                                locals_[key] = end
    # a local bound by DESTRUCTURING a struct that has a hash-typed field is hash-bound too:
    # `let BuiltInScalars { used_and_undefined, all: known, .. } = self;`
    for rel, (toks, spans, owner, locals_) in per.items():
        n = len(toks)
        for i, t in enumerate(toks):
            if t.text == "let" and t.kind == "ident" and owner[i] >= 0:
                j = i + 1
                # a path: Ident (:: Ident)*
                while j + 1 < n and toks[j].kind == "ident" and toks[j + 1].text == "::":
                    j += 2
                if j + 1 < n and toks[j].kind == "ident" and toks[j + 1].text == "{":
                    close = find_matching(toks, j + 1)
                    k = j + 2
                    while k < close:
                        if toks[k].text in ("ref", "mut"):
                            k += 1
                            continue
                        if toks[k].kind == "ident" and toks[k].text in fields:
                            name = toks[k].text
                            if k + 2 < close and toks[k + 1].text == ":" and toks[k + 2].kind == "ident" and toks[k + 2].text not in ("ref", "mut"):
                                name = toks[k + 2].text
                            elif k + 3 < close and toks[k + 1].text == ":" and toks[k + 2].text in ("ref", "mut") and toks[k + 3].kind == "ident":
                                name = toks[k + 3].text
                            key = (owner[i], name)
                            if key not in locals_ or close < locals_[key]:
                                locals_[key] = close
                        # skip to the next top-level comma
                        depth = 0
                        while k < close and not (toks[k].text == "," and depth == 0):
                            if toks[k].kind == "punct" and toks[k].text in "([{":
                                depth += 1
                            elif toks[k].kind == "punct" and toks[k].text in ")]}":
                                depth -= 1
                            k += 1
                        k += 1
    sites = []
    for rel, (toks, spans, owner, locals_) in per.items():
        sites += scan_sites(rel, toks, spans, owner, locals_, fields, fn_names_for(rel), None)
    sites = sorted(set(sites))
    return sites, sorted(fields), sorted({name for (_, name, _) in fn_decls})


if __name__ == "__main__":
    import sys
    repo = sys.argv[1] if len(sys.argv) > 1 else "/repo"
    sites, names, fns = scan_crates(repo, ["crates/apollo-compiler/src", "crates/apollo-smith/src"])
    print("hash-typed fields/statics:", names)
    print("hash-returning fns:", fns)
    for s in sites:
        print(s)
