/-
Model of `rowan::GreenNodeBuilder` (rowan 0.16 `green/builder.rs`): a flat `children` vector shared
by all open nodes and a `parents` stack of (kind, index of first child).  Every `unwrap`/`assert!`
of the builder is an explicit `none` (= panic).  Modelled, not verified: node caching/hashing.
-/
namespace Apollo.Rowan

abbrev Str := List Char
abbrev SK := String        -- SyntaxKind, by its Rust name

inductive Elem where
  | tok (kind : SK) (text : Str)
  | node (kind : SK) (children : List Elem)
  deriving Repr, Inhabited

mutual
  /-- the source text covered by an element -/
  def Elem.text : Elem → Str
    | .tok _ t => t
    | .node _ cs => textList cs
  def textList : List Elem → Str
    | [] => []
    | e :: es => e.text ++ textList es
end

structure Builder where
  parents : List (SK × Nat)      -- innermost first
  children : List Elem
  deriving Repr, Inhabited

namespace Builder

def new : Builder := { parents := [], children := [] }

def token (b : Builder) (kind : SK) (text : Str) : Builder :=
  { b with children := b.children ++ [.tok kind text] }

def startNode (b : Builder) (kind : SK) : Builder :=
  { b with parents := (kind, b.children.length) :: b.parents }

/-- `self.parents.pop().unwrap()` -/
def finishNode (b : Builder) : Option Builder :=
  match b.parents with
  | [] => none
  | (kind, first) :: ps =>
    some { parents := ps, children := b.children.take first ++ [.node kind (b.children.drop first)] }

def checkpoint (b : Builder) : Nat := b.children.length

/-- `start_node_at`: both `assert!`s -/
def startNodeAt (b : Builder) (cp : Nat) (kind : SK) : Option Builder :=
  if cp ≤ b.children.length then
    match b.parents with
    | (_, first) :: _ => if cp ≥ first then some { b with parents := (kind, cp) :: b.parents } else none
    | [] => some { b with parents := (kind, cp) :: b.parents }
  else none

/-- `finish`: `assert_eq!(self.children.len(), 1)` and the single child must be a node -/
def finish (b : Builder) : Option Elem :=
  match b.children with
  | [.node k cs] => some (.node k cs)
  | _ => none

end Builder
end Apollo.Rowan
