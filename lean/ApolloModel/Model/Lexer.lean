import ApolloModel.Generated.LexTables
/-
Model of the lexer: `Cursor::advance` / `eof` / `done` (lexer/mod.rs) with the cursor of
lexer/cursor.rs abstracted to "the characters consumed so far" (`acc`) and "the rest".

`current_str()` ends the item after the character just read (`Action.incl`), `prev_str()` ends it
before that character and puts it back (`Action.excl`).  The `eatc` look-aheads of the Rust code
(closing `"""`, `...`, `\"""`) are unfolded into explicit intermediate states, so the model is
a plain one-character-at-a-time automaton `step` plus a generic driver `runD`.
The character-class tables come from Generated/LexTables.lean (regenerated every run).
-/
namespace Apollo.Lex

abbrev Str := List Char

inductive State where
  | start
  | ident | stringLiteralEscapedUnicode (remaining : Nat) | stringLiteral
  | stringLiteralStart            -- after the opening quote
  | stringLiteralStart2           -- after two quotes: a third one opens a block string
  | blockStringLiteral
  | blockQuote1 | blockQuote2     -- inside a block string, after one / two consecutive quotes
  | blockStringLiteralBackslash
  | blockBackslashQuote1 | blockBackslashQuote2   -- after `\"` / `\""`
  | stringLiteralBackslash
  | leadingZero | integerPart | decimalPoint | fractionalPart | exponentIndicator | exponentSign
  | exponentDigit | whitespace | comment
  | spread1 | spread2             -- after `.` / `..`
  | minusSign
  deriving Repr, DecidableEq

/-- one lexer item: a token, or an error carrying the offending source fragment -/
inductive Item where
  | tok (kind : Kind) (data : Str)
  | err (data : Str)
  | limit                    -- "token limit reached, aborting lexing" (no data)
  deriving Repr, DecidableEq, Inhabited

def Item.data : Item → Str
  | .tok _ d => d
  | .err d => d
  | .limit => []

def Item.isErr : Item → Bool
  | .tok _ _ => false
  | _ => true

def isAsciiDigit (c : Char) : Bool := 48 ≤ c.toNat && c.toNat ≤ 57
def isAsciiHexDigit (c : Char) : Bool :=
  isAsciiDigit c || (97 ≤ c.toNat && c.toNat ≤ 102) || (65 ≤ c.toNat && c.toNat ≤ 70)

def hexVal (c : Char) : Nat :=
  if isAsciiDigit c then c.toNat - 48
  else if 97 ≤ c.toNat && c.toNat ≤ 102 then c.toNat - 87
  else c.toNat - 55

/-- `char::from_u32(code_point).is_none()` for a 4-hex-digit code point: the surrogate range -/
def isSurrogate (cp : Nat) : Bool := 0xD800 ≤ cp && cp ≤ 0xDFFF

/-- the code point of the last four consumed characters (`&self.source[hex_start..hex_end]`) -/
def lastFourHex (acc : Str) : Nat :=
  ((acc.reverse.take 4).reverse).foldl (fun n c => n * 16 + hexVal c) 0

/-- what an item will be: a token of a kind, or an error -/
inductive Out where
  | tok (kind : Kind)
  | err
  deriving Repr, DecidableEq

def Out.mk : Out → Str → Item
  | .tok k, d => .tok k d
  | .err, d => .err d

/-- `Cursor::done`: a pending error turns the finished token into an error item -/
def done (kind : Kind) (pendingErr : Bool) : Out := if pendingErr then .err else .tok kind

inductive Action where
  | goto (st : State) (kind : Kind) (pendingErr : Bool)   -- consume the character, keep going
  | incl (o : Out)                                         -- item ends after this character
  | excl (o : Out)                                         -- item ends before this character
  deriving Repr

/-- a character inside a block string (also used when a quote look-ahead fails) -/
def blockStep (kind : Kind) (e : Bool) (c : Char) : Action :=
  if c == '\\' then .goto .blockStringLiteralBackslash kind e
  else if c == '"' then .goto .blockQuote1 kind e
  else .goto .blockStringLiteral kind e

/-- one iteration of the `match state { … }` in `Cursor::advance`; `acc` = characters of the
    current item consumed so far (needed only for the unicode-escape surrogate check) -/
def step (st : State) (kind : Kind) (e : Bool) (acc : Str) (c : Char) : Action :=
  match st with
  | .start =>
    match punctuationKind c with
    | some k => .incl (.tok k)
    | none =>
      if isNameStart c then .goto .ident .name false
      else if c != '0' && isAsciiDigit c then .goto .integerPart .int false
      else if c == '"' then .goto .stringLiteralStart .stringValue false
      else if c == '#' then .goto .comment .comment false
      else if c == '.' then .goto .spread1 .spread false
      else if c == '-' then .goto .minusSign .int false
      else if c == '0' then .goto .leadingZero .int false
      else if isWhitespaceAssimilated c then .goto .whitespace .whitespace false
      else .incl .err
  | .ident => if isNameContinue c then .goto .ident kind e else .excl (done kind e)
  | .whitespace => if isWhitespaceAssimilated c then .goto .whitespace kind e else .excl (done kind e)
  | .comment => if isLineTerminator c then .excl (done kind e) else .goto .comment kind e
  | .blockStringLiteral => blockStep kind e c
  | .blockQuote1 => if c == '"' then .goto .blockQuote2 kind e else blockStep kind e c
  | .blockQuote2 => if c == '"' then .incl (done kind e) else blockStep kind e c
  | .stringLiteralStart =>
    if c == '"' then .goto .stringLiteralStart2 kind e
    else if c == '\\' then .goto .stringLiteralBackslash kind e
    else if isLineTerminator c then .goto .stringLiteral kind true
    else .goto .stringLiteral kind e
  | .stringLiteralStart2 =>
    if c == '"' then .goto .blockStringLiteral kind e else .excl (done kind e)
  | .stringLiteralEscapedUnicode remaining =>
    if c == '"' then .incl .err                            -- add_err + done
    else if !isAsciiHexDigit c then .goto .stringLiteral kind true
    else if remaining ≤ 1 then .goto .stringLiteral kind (e || isSurrogate (lastFourHex (acc ++ [c])))
    else .goto (.stringLiteralEscapedUnicode (remaining - 1)) kind e
  | .stringLiteral =>
    if c == '"' then .incl (done kind e)
    else if isLineTerminator c then .goto .stringLiteral kind true
    else if c == '\\' then .goto .stringLiteralBackslash kind e
    else .goto .stringLiteral kind e
  | .blockStringLiteralBackslash =>
    if c == '"' then .goto .blockBackslashQuote1 kind e
    else if c == '\\' then .goto .blockStringLiteralBackslash kind e
    else .goto .blockStringLiteral kind e
  | .blockBackslashQuote1 => if c == '"' then .goto .blockBackslashQuote2 kind e else blockStep kind e c
  | .blockBackslashQuote2 => if c == '"' then .goto .blockStringLiteral kind e else blockStep kind e c
  | .stringLiteralBackslash =>
    if isEscapedChar c then .goto .stringLiteral kind e
    else if c == 'u' then .goto (.stringLiteralEscapedUnicode 4) kind e
    else .goto .stringLiteral kind true
  | .leadingZero =>
    if c == '.' then .goto .decimalPoint .float e
    else if c == 'e' || c == 'E' then .goto .exponentIndicator .float e
    else if isAsciiDigit c then .incl .err
    else if isNameStart c then .incl .err
    else .excl (done kind e)
  | .integerPart =>
    if isAsciiDigit c then .goto .integerPart kind e
    else if c == '.' then .goto .decimalPoint .float e
    else if c == 'e' || c == 'E' then .goto .exponentIndicator .float e
    else if isNameStart c then .incl .err
    else .excl (done kind e)
  | .decimalPoint => if isAsciiDigit c then .goto .fractionalPart kind e else .incl .err
  | .fractionalPart =>
    if isAsciiDigit c then .goto .fractionalPart kind e
    else if c == 'e' || c == 'E' then .goto .exponentIndicator kind e
    else if c == '.' || isNameStart c then .incl .err
    else .excl (done kind e)
  | .exponentIndicator =>
    if isAsciiDigit c then .goto .exponentDigit kind e
    else if c == '+' || c == '-' then .goto .exponentSign kind e
    else .incl .err
  | .exponentSign => if isAsciiDigit c then .goto .exponentDigit kind e else .incl .err
  | .exponentDigit =>
    if isAsciiDigit c then .goto .exponentDigit kind e
    else if c == '.' || isNameStart c then .incl .err
    else .excl (done kind e)
  | .spread1 => if c == '.' then .goto .spread2 kind e else .incl .err      -- `.x`: unterminated
  | .spread2 => if c == '.' then .incl (.tok kind) else .excl .err          -- `..`: unterminated
  | .minusSign =>
    if c == '0' then .goto .leadingZero kind e
    else if isAsciiDigit c then .goto .integerPart kind e
    else .incl .err

/-- `Cursor::eof(state, token)`; `acc` is everything consumed since the item started -/
def eofItem (st : State) (kind : Kind) (acc : Str) : Item :=
  match st with
  | .start => .tok .eof acc        -- `acc` is empty here: `Start` is only ever the first state
  | .ident | .leadingZero | .integerPart | .fractionalPart | .exponentDigit | .whitespace | .comment
  | .stringLiteralStart2 => .tok kind acc
  | _ => .err acc

/-- the `loop { let Some(c) = self.bump() else { return self.eof(…) }; … }` driver -/
def runD (st : State) (kind : Kind) (e : Bool) (acc : Str) : Str → Item × Str
  | [] => (eofItem st kind acc, [])
  | c :: rest =>
    match step st kind e acc c with
    | .goto st' kind' e' => runD st' kind' e' (acc ++ [c]) rest
    | .incl o => (o.mk (acc ++ [c]), rest)
    | .excl o => (o.mk acc, c :: rest)

/-- `Cursor::advance` -/
def advance (src : Str) : Item × Str := runD .start .eof false [] src

/-- `impl Iterator for Lexer`: all items, with an optional token limit (`limit_tracker`).
    `count` is `limit_tracker.current` (= number of items produced so far). -/
def lexAux : Nat → Option Nat → Nat → Str → List Item
  | 0, _, _, _ => []                                   -- out of fuel (never: see `lex_fuel_sufficient`)
  | fuel + 1, limit, count, src =>
    if (match limit with | some l => decide (count + 1 > l) | none => false) then [.limit]
    else
      match src with
      | [] => [.tok .eof []]
      | _ => (advance src).1 :: lexAux fuel limit (count + 1) (advance src).2

def lex (limit : Option Nat) (src : Str) : List Item := lexAux (src.length + 1) limit 0 src

end Apollo.Lex
