import ApolloModel.Generated.FileIdConsts
/-
Model of `FileId::new`, `FileId::reset` and `TaggedFileId::{pack, tag, file_id}`
(crates/apollo-compiler/src/parser.rs).  u64 values are `Nat`s below 2^64; `fetch_add` wraps.
The constants and the shape of the allocation step (`fileIdAllocIsRmw`) are regenerated from the
source on every run.
-/
namespace Apollo.FileId
open Apollo.Gen

def TAG : Nat := fileIdTag
def INITIAL : Nat := fileIdInitial
/-- `const ID_MASK: u64 = !TAG` -/
def ID_MASK : Nat := 2 ^ 64 - 1 - TAG

/-- `TaggedFileId::pack` (the `debug_assert!((id & TAG) == 0)` is a panic site: `none`) -/
def pack (tag : Bool) (id : Nat) : Option Nat :=
  if id &&& TAG != 0 then none
  else some (if tag then id ||| TAG else id)

def tagOf (packed : Nat) : Bool := packed &&& TAG != 0
def fileIdOf (packed : Nat) : Nat := packed &&& ID_MASK

/-! ### allocation as a transition system over atomic steps -/

inductive PC where
  | start              -- about to execute the allocation step
  | loaded (v : Nat)   -- (non-RMW shape only) has read `v`, not yet written back
  | reset              -- saw the tag bit; about to store INITIAL
  deriving Repr, DecidableEq

structure St where
  next : Nat
  pcs : Nat → PC
  returned : List Nat      -- ids handed out, oldest first
  fetches : Nat            -- number of increments of the counter so far

def init : St := { next := INITIAL, pcs := fun _ => .start, returned := [], fetches := 0 }

def setPc (pcs : Nat → PC) (t : Nat) (pc : PC) : Nat → PC := fun i => if i = t then pc else pcs i

/-- after the counter has been advanced from `old`: return it, or go and reset -/
def afterFetch (s : St) (t old : Nat) : St :=
  if old &&& TAG = 0 then
    { s with next := (old + 1) % 2 ^ 64, returned := s.returned ++ [old], pcs := setPc s.pcs t .start, fetches := s.fetches + 1 }
  else
    { s with next := (old + 1) % 2 ^ 64, pcs := setPc s.pcs t .reset, fetches := s.fetches + 1 }

/-- one atomic step of thread `t`; `rmw` says whether read-and-increment is a single atomic step -/
def step (rmw : Bool) (s : St) (t : Nat) : St :=
  match s.pcs t with
  | .start => if rmw then afterFetch s t s.next else { s with pcs := setPc s.pcs t (.loaded s.next) }
  | .loaded v => afterFetch s t v
  | .reset => { s with next := INITIAL, pcs := setPc s.pcs t .start }

/-- a schedule is the sequence of thread numbers that take the next atomic step -/
def run (rmw : Bool) (sched : List Nat) : St := sched.foldl (step rmw) init

end Apollo.FileId

namespace Apollo.FileId
/-- Sequential use from a preset counter (the harness presets `NEXT` through a hook):
    keep stepping thread 0 until `k` ids have been handed out. -/
def allocSeq (rmw : Bool) (start : Nat) (k : Nat) : List Nat :=
  let rec go (fuel : Nat) (s : St) : List Nat :=
    match fuel with
    | 0 => s.returned
    | fuel + 1 => if s.returned.length ≥ k then s.returned else go fuel (step rmw s 0)
  go (4 * k + 4) { init with next := start }
end Apollo.FileId
