import ApolloModel.Model.Execution
/-
Model of the parts of crates/apollo-compiler/src/introspection/resolvers.rs whose logic is more than a
field read: the `kind` / `name` / `ofType` answers of `TypeDefResolver` and `TypeResolver` for the
four-constructor `schema::Type`, `include_deprecated` and the deprecation filters, `possibleTypes`.
`partial_execute` (introspection/mod.rs) is the executor of Model/Execution.lean with an initial value
whose every concrete field resolves to `SkipForPartialExecution`.
-/
namespace Apollo.Introspection
open Apollo

/-- `__TypeKind` -/
inductive TKind where
  | scalar | object | interface | union | enum | inputObject | list | nonNull
  deriving DecidableEq, Repr

def TKind.text : TKind → String
  | .scalar => "SCALAR" | .object => "OBJECT" | .interface => "INTERFACE" | .union => "UNION"
  | .enum => "ENUM" | .inputObject => "INPUT_OBJECT" | .list => "LIST" | .nonNull => "NON_NULL"

/-- what a `__Type` object answers for `kind` and `name` -/
structure Link where
  kind : TKind
  name : Option String
  deriving DecidableEq, Repr

/-- The resolver object behind a `__Type` value: `TypeDefResolver` for a named type (function `ty`
    sends `Type::Named` there), `TypeResolver { ty }` for everything else. -/
inductive TypeObj where
  | typeDef (name : String)
  | wrapper (ty : Ty)

/-- `fn ty(info, ty)` -/
def resolverFor : Ty → TypeObj
  | .named n => .typeDef n
  | t => .wrapper t

/-- fields `kind` and `name` -/
def link (kindOf : String → TKind) : TypeObj → Link
  | .typeDef n => { kind := kindOf n, name := some n }
  | .wrapper (.list _) => { kind := .list, name := none }
  | .wrapper (.nonNullNamed _) => { kind := .nonNull, name := none }
  | .wrapper (.nonNullList _) => { kind := .nonNull, name := none }
  /- `Type::Named(_) => unreachable!()`: `resolverFor` never builds it -/
  | .wrapper (.named n) => { kind := kindOf n, name := some n }

/-- field `ofType`; `none` = JSON null -/
def ofType : TypeObj → Option TypeObj
  | .typeDef _ => none
  | .wrapper (.list inner) => some (resolverFor inner)
  | .wrapper (.nonNullNamed n) => some (.typeDef n)
  | .wrapper (.nonNullList inner) => some (.wrapper (.list inner))
  | .wrapper (.named _) => none

/-- following `ofType` until null -/
def chain (kindOf : String → TKind) : Nat → TypeObj → List Link
  | 0, _ => []
  | n + 1, o =>
    link kindOf o ::
      match ofType o with
      | none => []
      | some o' => chain kindOf n o'

/-- `include_deprecated(args)` on the coerced argument (`Boolean = false`, nullable) -/
def includeDeprecated : Json → Bool
  | .bool b => b
  | _ => false

structure Elem where
  name : String
  deprecated : Bool

/-- `.filter(move |def| include_deprecated || def.directives.get("deprecated").is_none())` -/
def visible (incl : Bool) (xs : List Elem) : List Elem :=
  xs.filter fun e => incl || !e.deprecated

structure ObjInfo where
  name : String
  implements : List String

/-- `implementers_map().get(name).objects`: the object types that declare the interface -/
def implementerObjects (objs : List ObjInfo) (iface : String) : List String :=
  (objs.filter fun o => o.implements.contains iface).map (·.name)

/-- `possibleTypes`; the `types!` macro keeps the names that are defined types -/
def possibleOfUnion (defined : String → Bool) (members : List String) : List String :=
  members.filter defined

end Apollo.Introspection
