import ApolloModel.Model.ExecRules
/-
C18: the variables an operation uses, on the documents of Model/ExecRules.lean.
`opFieldVars` = the variables written in the arguments and directives of the fields that
`Operation::all_fields` yields (the recursive walk through sub-selections, inline fragments and — each named
fragment once — fragment spreads), the quantity the harness computes with the real iterator (stream `c18.opvars`).
-/
namespace Apollo.ExecRules

def argsVars (args : List RArg) : List String := args.flatMap fun a => RVal.vars a.value
def dirsVars (dirs : List RDir) : List String := dirs.flatMap fun d => argsVars d.args

/-- `enter f seen` = the walk of fragment `f`'s body -/
def fvSels (enter : String → List String → List String × List String) : RSels → List String → List String × List String
  | .nil, seen => ([], seen)
  | .field _ dirs args sub rest, seen =>
    let a := fvSels enter sub seen
    let b := fvSels enter rest a.2
    (dirsVars dirs ++ argsVars args ++ a.1 ++ b.1, b.2)
  | .spread f _ rest, seen =>
    let a := if seen.contains f then ([], seen) else enter f (f :: seen)
    let b := fvSels enter rest a.2
    (a.1 ++ b.1, b.2)
  | .inline _ _ sub rest, seen =>
    let a := fvSels enter sub seen
    let b := fvSels enter rest a.2
    (a.1 ++ b.1, b.2)

def fvFrag (doc : RBuilt) : Nat → String → List String → List String × List String
  | 0, _, seen => ([], seen)
  | n + 1, f, seen =>
    match doc.findFrag f with
    | some d => fvSels (fvFrag doc n) d.sels seen
    | none => ([], seen)

/-- variables in the arguments / directives of the fields `all_fields` yields for the operation -/
def opFieldVars (doc : RBuilt) (o : ROp) : List String := (fvSels (fvFrag doc doc.frags.length) o.sels []).1

end Apollo.ExecRules
