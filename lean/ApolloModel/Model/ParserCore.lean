import ApolloModel.Model.Lexer
import ApolloModel.Model.Rowan
/-
Model of `apollo_parser::Parser` (parser/mod.rs): parser state, the token plumbing
(`peek`/`pop`/`next_token`/`skip_ignored`/`push_ignored`/`bump`/`eat`/`expect`/`err*`), the limit
trackers, and the tree builder calls — as state transformers with explicit panic outcomes.

`PI α` is a state transformer that CARRIES a proof that it (1) preserves the structural invariant
`Inv` (nothing is lost between the lexer and the tree unless the `dropped` ghost flag is raised;
builder bookkeeping well-formed), (2) leaves the builder's open-node stack, the recursion counter
and the frozen-after-limit error list as the `Frame` relation says, and (3) never panics.
Grammar functions written in `PI`'s do-notation therefore have these properties by construction.
-/
namespace Apollo.Parse
open Apollo.Rowan hiding Str
open Apollo.Lex hiding Str
abbrev Str := List Char

structure Tok where
  kind : Kind
  data : Str
  index : Nat
  deriving Repr, DecidableEq, Inhabited

inductive Pending where
  | ignored (t : Tok)
  | error (data : Str)
  deriving Repr

def Pending.text : Pending → Str
  | .ignored t => t.data
  | .error d => d

def pendingText : List Pending → Str
  | [] => []
  | p :: ps => p.text ++ pendingText ps

inductive EKind where
  | lexer | syntax | eof | limit
  deriving Repr, DecidableEq

structure PErr where
  index : Nat
  len : Nat
  kind : EKind
  deriving Repr, DecidableEq

/-- the lexer part: `Cursor` + `LimitTracker` + `finished` -/
structure LexSt where
  src : Str                  -- not yet lexed
  pos : Nat                  -- byte offset of `src` in the input
  idx : Nat                  -- `Cursor::index()` as seen by the limit error (quirk: `len - 1` at the end)
  total : Nat                -- byte length of the whole input
  cur : Nat                  -- limit_tracker.current
  high : Nat
  limit : Option Nat
  finished : Bool
  deriving Repr, Inhabited

structure PState where
  lx : LexSt
  current : Option Tok
  builder : Builder
  pending : List Pending
  errors : List PErr         -- oldest first
  recCur : Nat
  recHigh : Nat
  recLimit : Nat
  acceptErrors : Bool
  -- ghost
  original : Str             -- the input
  dropped : Bool             -- a popped token was thrown away (ty.rs `Err(Some(p.pop()))`)
  deadBranch : Bool          -- a branch the Rust code cannot reach was taken (never, see lemmas)
  deriving Repr, Inhabited

def utf8Len (s : Str) : Nat := s.foldl (fun n c => n + c.utf8Size) 0

def curText : Option Tok → Str
  | some t => t.data
  | none => []

inductive Abort where
  | fuel                     -- model artefact
  | stuck                    -- `peek_while*` progress `debug_assert!` failed
  deriving Repr, DecidableEq

inductive Res (α : Type) where
  | ok (a : α) (s : PState)
  | abort (why : Abort)
  | panic (msg : String)
  deriving Inhabited

/-! ### invariant, frame -/

structure Inv (s : PState) : Prop where
  /-- nothing is lost between lexer and tree unless a token was knowingly dropped -/
  text : s.dropped = false →
    textList s.builder.children ++ pendingText s.pending ++ curText s.current ++ s.lx.src = s.original
  /-- rowan bookkeeping: every open node starts inside the children vector -/
  parents : ∀ p ∈ s.builder.parents, p.2 ≤ s.builder.children.length
  /-- without a token limit the lexer only finishes after the EOF token, i.e. on empty input -/
  lexDone : s.lx.finished = true → s.lx.limit = none → s.lx.src = []
  /-- an EOF token in `current_token` is empty and means the input is exhausted -/
  eofTok : ∀ t, s.current = some t → t.kind = .eof → t.data = [] ∧ s.lx.src = [] ∧ s.lx.finished = true
  /-- the parser only stops accepting errors after it has recorded (at least) a limit error -/
  errNonempty : s.acceptErrors = false → s.errors ≠ []

structure Frame (s s' : PState) : Prop where
  parents : s'.builder.parents = s.builder.parents
  children : ∃ added, s'.builder.children = s.builder.children ++ added
  recCur : s'.recCur = s.recCur
  recLimit : s'.recLimit = s.recLimit
  original : s'.original = s.original
  limit : s'.lx.limit = s.lx.limit
  frozen : s.acceptErrors = false ∧ s.lx.finished = true →
    s'.errors = s.errors ∧ s'.acceptErrors = false ∧ s'.lx.finished = true

theorem Frame.refl (s : PState) : Frame s s :=
  ⟨rfl, ⟨[], by simp⟩, rfl, rfl, rfl, rfl, fun h => ⟨rfl, h.1, h.2⟩⟩

theorem Frame.trans {a b c : PState} (h1 : Frame a b) (h2 : Frame b c) : Frame a c := by
  refine ⟨h2.parents.trans h1.parents, ?_, h2.recCur.trans h1.recCur, h2.recLimit.trans h1.recLimit,
    h2.original.trans h1.original, h2.limit.trans h1.limit, ?_⟩
  · obtain ⟨x, hx⟩ := h1.children
    obtain ⟨y, hy⟩ := h2.children
    exact ⟨x ++ y, by rw [hy, hx, List.append_assoc]⟩
  · intro h
    have hb := h1.frozen h
    have hc := h2.frozen ⟨hb.2.1, hb.2.2⟩
    exact ⟨hc.1.trans hb.1, hc.2⟩

def Post {α : Type} (s : PState) : Res α → Prop
  | .ok _ s' => Inv s' ∧ Frame s s'
  | .abort _ => True
  | .panic _ => False

structure PI (α : Type) where
  run : PState → Res α
  ok : ∀ s, Inv s → Post s (run s)

namespace PI

def pure' {α : Type} (a : α) : PI α :=
  ⟨fun s => .ok a s, fun s h => ⟨h, Frame.refl s⟩⟩

def bind' {α β : Type} (m : PI α) (f : α → PI β) : PI β :=
  ⟨fun s => match m.run s with
      | .ok a s' => (f a).run s'
      | .abort w => .abort w
      | .panic msg => .panic msg,
   by
    intro s h
    have hm := m.ok s h
    cases hr : m.run s with
    | ok a s' =>
      simp only [hr, Post] at hm ⊢
      have hf := (f a).ok s' hm.1
      cases hr2 : (f a).run s' with
      | ok b s'' => simp only [hr2, Post] at hf ⊢; exact ⟨hf.1, hm.2.trans hf.2⟩
      | abort w => trivial
      | panic msg => simp [hr2, Post] at hf
    | abort w => simp [Post]
    | panic msg => simp [hr, Post] at hm⟩

instance : Monad PI where
  pure := pure'
  bind := bind'

/-- model artefact: out of fuel -/
def outOfFuel {α : Type} : PI α := ⟨fun _ => .abort .fuel, fun _ _ => trivial⟩

/-- `debug_assert!(before != self.current_token, …)` failed -/
def stuck {α : Type} : PI α := ⟨fun _ => .abort .stuck, fun _ _ => trivial⟩

end PI

/-! ### text lemmas used by the primitives' proofs -/

theorem textList_append (a b : List Elem) : textList (a ++ b) = textList a ++ textList b := by
  induction a with
  | nil => simp [textList]
  | cons e es ih => simp [textList, ih]

theorem textList_tok (k : SK) (t : Str) : textList [Elem.tok k t] = t := by simp [textList, Elem.text]

theorem textList_node (k : SK) (cs : List Elem) : textList [Elem.node k cs] = textList cs := by
  simp [textList, Elem.text]

theorem pendingText_append (a b : List Pending) : pendingText (a ++ b) = pendingText a ++ pendingText b := by
  induction a with
  | nil => simp [pendingText]
  | cons e es ih => simp [pendingText, ih]

end Apollo.Parse
