import ApolloModel.Generated.TypeCompat
import ApolloModel.Model.SchemaInvariants
/-
C14/C15 growth: models of
* the implementation contract of one type against all its declared interfaces
  (validation/object.rs + interface.rs: the `MissingInterfaceField` loop,
  `validate_implementation_field_types`, `validate_implementation_field_arguments`), and
* the kind checks on type references (validation/field.rs `validate_field_definitions`,
  input_object.rs `validate_input_value_definitions`, union_.rs `validate_union_definition`).
The covariance test itself is `Gen.isValidImplementationFieldType`, regenerated from the Rust source.
-/
namespace Apollo.Implementation
open Apollo Apollo.SchemaInvariants

structure FieldM where
  name : String
  ty : Ty
  args : List Arg
  deriving Repr, DecidableEq, Inhabited

inductive ImplDiag where
  | missingField (iface : Nat) (field : String)
  | fieldType (iface : Nat) (field : String)
  | argument (iface : Nat) (field : String) (d : ArgDiag)
  deriving Repr, DecidableEq

/-- `IndexMap::get(field_name)` -/
def findField (fs : List FieldM) (n : String) : Option FieldM := fs.find? (·.name == n)

/-- the three loops for one implemented interface (the code runs each loop over all interfaces in turn;
    grouping per interface permutes the diagnostics, it does not change them) -/
def implDiagsFor (sub : Name → Name → Bool) (tfields : List FieldM) (i : Nat) (ifields : List FieldM) :
    List ImplDiag :=
  (ifields.filterMap fun f =>
      if (findField tfields f.name).isSome then none else some (.missingField i f.name))
  ++ (ifields.filterMap fun f =>
      match findField tfields f.name with
      | some g => if Gen.isValidImplementationFieldType sub f.ty g.ty then none else some (.fieldType i f.name)
      | none => none)
  ++ (ifields.flatMap fun f =>
      match findField tfields f.name with
      | some g => (argDiags f.args g.args).map (ImplDiag.argument i f.name)
      | none => [])

/-- all declared interfaces; `getIface i = none` when the name is not an interface (`continue`) -/
def implDiags (sub : Name → Name → Bool) (getIface : Nat → Option (List FieldM)) (tfields : List FieldM)
    (declared : List Nat) : List ImplDiag :=
  declared.flatMap fun i =>
    match getIface i with
    | some ifields => implDiagsFor sub tfields i ifields
    | none => []

/-! ### kinds of referenced types -/

inductive Kind where
  | scalar | object | interface | union | enum | input
  deriving Repr, DecidableEq, Inhabited

/-- `ExtendedType::is_output_type` -/
def Kind.isOutput : Kind → Bool
  | .input => false
  | _ => true

/-- `ExtendedType::is_input_type` -/
def Kind.isInput : Kind → Bool
  | .scalar | .enum | .input => true
  | _ => false

inductive KindDiag where
  | outputType (n : String)
  | inputType (n : String)
  | undefinedType (n : String)
  | unionMemberNotObject (n : String)
  deriving Repr, DecidableEq

/-- the tail of the loop body of `validate_field_definitions`: `kindOf` is `schema.types.get`;
    a built-in scalar missing from the map is fine ("validate_schema() will insert the missing definition") -/
def outputRefDiags (kindOf : String → Option Kind) (n : String) : List KindDiag :=
  match kindOf n with
  | some k => if k.isOutput then [] else [.outputType n]
  | none => if Scalars.builtinScalars.contains n then [] else [.undefinedType n]

/-- the same in `validate_input_value_definitions` (arguments, input fields, directive arguments) -/
def inputRefDiags (kindOf : String → Option Kind) (n : String) : List KindDiag :=
  match kindOf n with
  | some k => if k.isInput then [] else [.inputType n]
  | none => if Scalars.builtinScalars.contains n then [] else [.undefinedType n]

/-- `validate_union_definition`'s member loop -/
def unionMemberDiags (kindOf : String → Option Kind) (n : String) : List KindDiag :=
  match kindOf n with
  | none => [.undefinedType n]
  | some .object => []
  | some _ => [.unionMemberNotObject n]

/-- the inner named types one definition refers to -/
structure TypeRefs where
  fieldTypes : List String
  argTypes : List String
  inputFieldTypes : List String
  members : List String
  deriving Repr, DecidableEq, Inhabited

def typeRefDiags (kindOf : String → Option Kind) (t : TypeRefs) : List KindDiag :=
  t.fieldTypes.flatMap (outputRefDiags kindOf) ++ t.argTypes.flatMap (inputRefDiags kindOf)
    ++ t.inputFieldTypes.flatMap (inputRefDiags kindOf) ++ t.members.flatMap (unionMemberDiags kindOf)

/-- the kind of a name in the validated schema: the bookkeeping inserts referenced built-in scalars -/
def kindAfter (kindOf : String → Option Kind) (n : String) : Option Kind :=
  match kindOf n with
  | some k => some k
  | none => if Scalars.builtinScalars.contains n then some .scalar else none

/-! ### evaluators for the `c15.inv` stream -/

open Apollo.SchemaValidation in
/-- interface `i`'s fields when `i` names an interface of the implements graph -/
def ifaceFields (s : ISchema) (fields : List (List FieldM)) (i : Nat) : Option (List FieldM) :=
  match getInterface s i with
  | some _ => some (fields.getD i [])
  | none => none

open Apollo.SchemaValidation in
/-- every type satisfies IsValidImplementation for every interface it declares -/
def contractsInv (sub : Name → Name → Bool) (s : ISchema) (fields : List (List FieldM)) : Bool :=
  (List.range s.length).all fun a =>
    (implDiags sub (ifaceFields s fields) (fields.getD a []) (s.getD a default).implements).isEmpty

/-- every reference of every definition has the right kind -/
def kindsInv (kindOf : String → Option Kind) (refs : List TypeRefs) : Bool :=
  refs.all fun t => (typeRefDiags kindOf t).isEmpty

end Apollo.Implementation
