import ApolloModel.Model.SchemaBuild
/-
Model of `schema/serialize.rs` (`Schema::to_ast`, `Node<SchemaDefinition>::to_ast`, `XType::to_ast`,
`components`, `names`) and of `iter_origins` / `extensions` (`schema/mod.rs`), on the abstract schema of
Model/SchemaBuild.lean.

`to_ast` splits every type back into its definition (the components with origin `Definition`) plus one
extension per `ExtensionId`, the extensions in the order `extensions()` discovers them: first appearance over
`directives ++ implements_interfaces ++ fields/values/members` (for `schema`: directives, query, mutation,
subscription).  AST nodes keep the locations of the nodes they come from (`ext.same_location`, the
component nodes are cloned), so in the model `toAst` keeps positions, and re-building the AST gives
origins with the same extension positions.
-/
namespace Apollo.SchemaSerialize
open Apollo.SchemaBuild

/-- `IndexSet::from_iter`: first occurrences, in order -/
def firstOcc : List Pos → List Pos
  | [] => []
  | x :: xs => x :: (firstOcc xs).filter (fun y => !(y == x))

/-- `iter_origins().filter_map(|o| o.extension_id())` of a type -/
def extOrigins (b : Body) : List Pos := (b.directives ++ b.interfaces ++ b.members).filterMap (·.origin)

/-- `XType::extensions()` -/
def extensionsOf (b : Body) : List Pos := firstOcc (extOrigins b)

def Comp.toItem (c : Comp) : Item := ⟨c.name, c.pos.getD 0, c.pos.getD 0, c.target⟩

/-- `components(list, ext)` / `names(set, ext)`: the components contributed by one origin, in list order -/
def partOf (o : Option Pos) (cs : List Comp) : List Item := (cs.filter (fun c => c.origin == o)).map Comp.toItem

def defOfBody (tag : DefTag) (name : Name) (pos : Pos) (o : Option Pos) (b : Body) : Def :=
  ⟨tag, name, pos, pos, partOf o b.directives, partOf o b.interfaces, partOf o b.members⟩

/-- `XType::to_ast(location)`, with the definition of a built-in type skipped as `Schema::to_ast` does -/
def toAstType (t : TypeEntry) : List Def :=
  let es := (extensionsOf t.body).map (fun e => defOfBody (.typeExt t.kind) t.name e (some e) t.body)
  if t.builtin then es else defOfBody (.typeDef t.kind) t.name (t.pos.getD 0) none t.body :: es

/-- `iter_root_operations()`: query, mutation, subscription — whatever the order they were added in -/
def rootsInOrder (sd : SchemaDefn) : List Comp :=
  ["query", "mutation", "subscription"].filterMap (fun op => sd.body.members.find? (fun c => c.name == op))

def schemaBody (sd : SchemaDefn) : Body := ⟨sd.body.directives, [], rootsInOrder sd⟩

def actualRoot (sd : SchemaDefn) (op : Name) : Option Name :=
  (sd.body.members.find? (fun c => c.name == op)).map (·.target)

/-- the `implicit` decision of `Node<SchemaDefinition>::to_ast` (descriptions are not modelled: none) -/
def implicitSchema (sd : SchemaDefn) (types : List TypeEntry) : Bool :=
  let b := schemaBody sd
  if (partOf none b.members).isEmpty then true
  else
    b.directives.isEmpty && (extensionsOf b).isEmpty
    && [("query", "Query"), ("mutation", "Mutation"), ("subscription", "Subscription")].all
        (fun p => actualRoot sd p.1 == (if isObject types p.2 then some p.2 else none))
    && !b.members.isEmpty

def toAstSchema (sd : SchemaDefn) (types : List TypeEntry) : List Def :=
  let b := schemaBody sd
  let es := (extensionsOf b).map (fun e => defOfBody .schemaExt "" e (some e) b)
  if implicitSchema sd types then es else defOfBody .schemaDef "" (sd.pos.getD 0) none b :: es

/-- `Schema::to_ast` -/
def toAst (s : Builder) : List Def :=
  toAstSchema s.schemaDef s.types
    ++ (s.directiveDefs.filter (fun d => !d.builtin)).map (fun d => ⟨.directiveDef, d.name, d.pos.getD 0, d.pos.getD 0, [], [], []⟩)
    ++ s.types.flatMap toAstType

/-- serialize, then `Schema::parse` -/
def reparse (s : Builder) : Builder := build (Builder.new false false) [toAst s]

/-! ### what re-building does to one component list -/

/-- the list regrouped by origin: definition components, then the components of each extension in the given
    order -/
def regroup (exts : List Pos) (cs : List Comp) : List Comp :=
  cs.filter (fun c => c.origin == none) ++ exts.flatMap (fun e => cs.filter (fun c => c.origin == some e))

def regroupBody (b : Body) : Body :=
  let exts := extensionsOf b
  ⟨regroup exts b.directives, regroup exts b.interfaces, regroup exts b.members⟩

def regroupType (t : TypeEntry) : TypeEntry := { t with body := regroupBody t.body }

end Apollo.SchemaSerialize
