import ApolloModel.Model.Ast
import ApolloModel.Model.Name
import ApolloModel.Model.TreeRanges
/-
Model of the CST → AST conversion, `crates/apollo-compiler/src/ast/from_cst.rs`, with the accessors of
`apollo-parser/src/cst/generated/nodes.rs` (`support::child` = first child node of a kind, `support::children`
= all child nodes of a kind, `support::token` = first child token of a kind) and of `cst/node_ext.rs`
(`text_of_first_token`, `String::from(&StringValue)`, `bool::try_from(&BooleanValue)`).

Input: the rowan tree of the parser model (`Rowan.Elem`, kinds by their Rust names).  Output: the AST of
Model/Ast.lean together with, for every `Name` in it, the byte range taken from the CST
(`SourceSpan::new(file_id, name.syntax())`) and the text of that NAME node, as `(start, length, text)` — the
same triples as `Rowan.nameRanges`.

The conversion is total: every `?` / `ok()?` of the Rust code is a `none` (the enclosing definition,
selection, argument … is dropped, with the names it had collected), every `filter_map` skips failed items.
`text_of_first_token` unwraps "the first green child is a token"; the model answers `none` there (on trees
built by the parser the first child of STRING_VALUE / BOOLEAN_VALUE nodes is always their token).
-/
namespace Apollo.FromCst
open Apollo.Rowan Apollo.Ast

abbrev Loc := Nat × Nat × Rowan.Str

/-- the locations a conversion may report: triples of a given list `R` (for `fromCst root` this is
    `Rowan.nameRanges root 0`, so "every Name carries the range of a NAME node of the tree" holds by typing) -/
abbrev LocIn (R : List Loc) := { l : Loc // l ∈ R }
abbrev Locs (R : List Loc) := List (LocIn R)

/-- a conversion result: `Option<T>` plus the name locations collected on success -/
abbrev M (R : List Loc) (α : Type) : Type := Option (α × Locs R)

variable {R : List Loc}

namespace M
def pure' {α : Type} (a : α) : M R α := some (a, [])
def fail {α : Type} : M R α := none
def bind' {α β : Type} (m : M R α) (f : α → M R β) : M R β :=
  match m with
  | none => none
  | some (a, l) =>
    match f a with
    | none => none
    | some (b, l') => some (b, l ++ l')
instance : Monad (M R) where
  pure := pure'
  bind := bind'
/-- `x?` for a plain `Option` -/
def ofOpt {α : Type} : Option α → M R α
  | some a => some (a, [])
  | none => none
end M

/-- `iter.filter_map(|x| f(x))`: failed items are skipped together with what they had collected -/
def filterMapM {α β : Type} (f : α → M R β) : List α → List β × Locs R
  | [] => ([], [])
  | x :: xs =>
    let (bs, ls) := filterMapM f xs
    match f x with
    | some (b, l) => (b :: bs, l ++ ls)
    | none => (bs, ls)

def collectM {α β : Type} (f : α → M R β) (xs : List α) : M R (List β) := some (filterMapM f xs)

/-- `impl Convert for Option<T>`: absent is fine, present must convert -/
def optM {α β : Type} (o : Option α) (f : α → M R β) : M R (Option β) :=
  match o with
  | none => M.pure' none
  | some a => M.bind' (f a) (fun b => M.pure' (some b))

/-! ### positioned elements and accessors -/

/-- an element with the byte offset at which it starts, all of whose NAME-node triples belong to `R` -/
abbrev PE (R : List Loc) := { p : Elem × Nat // ∀ x ∈ nameRanges p.1 p.2, x ∈ R }

theorem nameRanges_node (k : SK) (cs : List Elem) (s : Nat) :
    nameRanges (.node k cs) s = (if k == "NAME" then [(s, bytes (textList cs), textList cs)] else []) ++ nameRangesList cs s := by
  simp [nameRanges]

theorem nameRangesList_cons (e : Elem) (es : List Elem) (s : Nat) :
    nameRangesList (e :: es) s = nameRanges e s ++ nameRangesList es (s + bytes e.text) := by
  simp [nameRangesList]

/-- the children of a node with their start offsets (prefix sums of UTF-8 lengths) -/
def kidsAt : (cs : List Elem) → (s : Nat) → (∀ x ∈ nameRangesList cs s, x ∈ R) → List (PE R)
  | [], _, _ => []
  | e :: es, s, h =>
    ⟨(e, s), fun x hx => h x (by rw [nameRangesList_cons]; exact List.mem_append_left _ hx)⟩ ::
      kidsAt es (s + bytes e.text) (fun x hx => h x (by rw [nameRangesList_cons]; exact List.mem_append_right _ hx))

def PE.kids (p : PE R) : List (PE R) :=
  match p with
  | ⟨(.node k cs, s), h⟩ => kidsAt cs s (fun x hx => h x (by rw [nameRanges_node]; exact List.mem_append_right _ hx))
  | ⟨(.tok _ _, _), _⟩ => []

def PE.kind (p : PE R) : SK :=
  match p.1.1 with
  | .node k _ => k
  | .tok k _ => k

def PE.isNode (p : PE R) : Bool :=
  match p.1.1 with
  | .node _ _ => true
  | _ => false

/-- `support::child::<N>` for a node type of one kind -/
def child (k : SK) (p : PE R) : Option (PE R) := p.kids.find? (fun c => c.isNode && c.kind == k)
/-- `support::children::<N>` -/
def children (k : SK) (p : PE R) : List (PE R) := p.kids.filter (fun c => c.isNode && c.kind == k)
/-- the same for enum node types (`Definition`, `Selection`, `Value`, `Type`) -/
def childP (pr : SK → Bool) (p : PE R) : Option (PE R) := p.kids.find? (fun c => c.isNode && pr c.kind)
def childrenP (pr : SK → Bool) (p : PE R) : List (PE R) := p.kids.filter (fun c => c.isNode && pr c.kind)
/-- `support::token(..).is_some()` -/
def hasToken (k : SK) (p : PE R) : Bool := p.kids.any (fun c => !c.isNode && c.kind == k)

mutual
  /-- rowan `first_token()`: the first leaf of the subtree (kind, text) -/
  def firstTok : Elem → Option (SK × Rowan.Str)
    | .tok k t => some (k, t)
    | .node _ cs => firstTokList cs
  def firstTokList : List Elem → Option (SK × Rowan.Str)
    | [] => none
    | e :: es => match firstTok e with
      | some r => some r
      | none => firstTokList es
end

/-- `text_of_first_token`: the first green child must be a token -/
def textOfFirstToken (p : PE R) : Option Rowan.Str :=
  match p.1.1 with
  | .node _ (.tok _ t :: _) => some t
  | _ => none

def isValueKind (k : SK) : Bool :=
  k == "VARIABLE" || k == "STRING_VALUE" || k == "FLOAT_VALUE" || k == "INT_VALUE" || k == "BOOLEAN_VALUE"
    || k == "NULL_VALUE" || k == "ENUM_VALUE" || k == "LIST_VALUE" || k == "OBJECT_VALUE"
def isTypeKind (k : SK) : Bool := k == "NAMED_TYPE" || k == "LIST_TYPE" || k == "NON_NULL_TYPE"
def isSelectionKind (k : SK) : Bool := k == "FIELD" || k == "FRAGMENT_SPREAD" || k == "INLINE_FRAGMENT"
def definitionKinds : List SK :=
  ["OPERATION_DEFINITION", "FRAGMENT_DEFINITION", "DIRECTIVE_DEFINITION", "SCHEMA_DEFINITION",
   "SCALAR_TYPE_DEFINITION", "OBJECT_TYPE_DEFINITION", "INTERFACE_TYPE_DEFINITION", "UNION_TYPE_DEFINITION",
   "ENUM_TYPE_DEFINITION", "INPUT_OBJECT_TYPE_DEFINITION", "SCHEMA_EXTENSION", "SCALAR_TYPE_EXTENSION",
   "OBJECT_TYPE_EXTENSION", "INTERFACE_TYPE_EXTENSION", "UNION_TYPE_EXTENSION", "ENUM_TYPE_EXTENSION",
   "INPUT_OBJECT_TYPE_EXTENSION"]
def isDefinitionKind (k : SK) : Bool := definitionKinds.contains k

/-! ### names, descriptions -/

theorem name_triple_mem (k : SK) (cs : List Elem) (s : Nat) (hk : k = "NAME") :
    (s, bytes (textList cs), textList cs) ∈ nameRanges (.node k cs) s := by
  rw [nameRanges_node]; simp [hk]

/-- `impl Convert for cst::Name` on the parts of a node: location of the NAME node, text of its first token,
    `Name::new(..).ok()?` -/
def cNameCore (k : SK) (cs : List Elem) (s : Nat) (h : ∀ x ∈ nameRanges (.node k cs) s, x ∈ R) : M R Ast.Str :=
  if hk : k = "NAME" then
    match firstTokList cs with
    | some (_, t) =>
      if isValidName t then some (t, [⟨(s, bytes (textList cs), textList cs), h _ (name_triple_mem k cs s hk)⟩])
      else none
    | none => none
  else none

def cName (p : PE R) : M R Ast.Str :=
  match p with
  | ⟨(.node k cs, s), h⟩ => cNameCore k cs s h
  | ⟨(.tok _ _, _), _⟩ => none

/-- `x.name()?.convert(file_id)?` -/
def nameOf (p : PE R) : M R Ast.Str :=
  match child "NAME" p with
  | some n => cName n
  | none => none

/-- `x.name().convert(file_id)?` (optional name) -/
def optNameOf (p : PE R) : M R (Option Ast.Str) := optM (child "NAME" p) cName

/-- `String::from(&cst::StringValue)` on a STRING_VALUE node -/
def cStringValue (p : PE R) : M R Ast.Str :=
  match textOfFirstToken p with
  | some t => M.ofOpt (Strs.decodeStringToken t)
  | none => none

/-- `self.description().convert(file_id)?` -/
def descOf (p : PE R) : M R (Option Ast.Str) :=
  optM (child "DESCRIPTION" p) fun d =>
    match child "STRING_VALUE" d with
    | some sv => cStringValue sv
    | none => none

def listToValues : List Value → Values
  | [] => .nil
  | v :: vs => .cons v (listToValues vs)

def listToObjFields : List (Ast.Str × Value) → ObjFields
  | [] => .nil
  | (n, v) :: r => .cons n v (listToObjFields r)

def listToSels : List Sel → Sels
  | [] => .nil
  | s :: r => .cons s (listToSels r)

/-! ### values, types -/

/-- `impl Convert for cst::Value` (and `cst::ObjectField`) -/
def cValue : Nat → PE R → M R Value
  | 0, _ => none
  | n + 1, p =>
    let k := p.kind
    if k == "VARIABLE" then do let x ← nameOf p; pure (.var x)
    else if k == "STRING_VALUE" then do let s ← cStringValue p; pure (.str s)
    else if k == "FLOAT_VALUE" then
      match firstTok p.1.1 with
      | some (_, t) => M.pure' (.float t)
      | none => none
    else if k == "INT_VALUE" then
      match firstTok p.1.1 with
      | some (_, t) => M.pure' (.int t)
      | none => none
    else if k == "BOOLEAN_VALUE" then
      match textOfFirstToken p with
      | some t => if t == "true".toList then M.pure' (.bool true) else if t == "false".toList then M.pure' (.bool false) else none
      | none => none
    else if k == "NULL_VALUE" then M.pure' .null
    else if k == "ENUM_VALUE" then do let x ← nameOf p; pure (.enum x)
    else if k == "LIST_VALUE" then do
      let vs ← collectM (cValue n) (childrenP isValueKind p)
      pure (.list (listToValues vs))
    else if k == "OBJECT_VALUE" then do
      let fs ← collectM (fun f => do
          let name ← nameOf f
          let v ← M.ofOpt (childP isValueKind f)
          let val ← cValue n v
          pure (name, val)) (children "OBJECT_FIELD" p)
      pure (.obj (listToObjFields fs))
    else none

/-- `impl Convert for cst::Type` -/
def cType : Nat → PE R → M R Ty
  | 0, _ => none
  | n + 1, p =>
    let k := p.kind
    if k == "NAMED_TYPE" then do let x ← nameOf p; pure (.named x)
    else if k == "LIST_TYPE" then do
      let inner ← M.ofOpt (childP isTypeKind p)
      let t ← cType n inner
      pure (.list t)
    else if k == "NON_NULL_TYPE" then
      match child "NAMED_TYPE" p with
      | some named => do let x ← nameOf named; pure (.nonNullNamed x)
      | none =>
        match child "LIST_TYPE" p with
        | some list => do
          let inner ← M.ofOpt (childP isTypeKind list)
          let t ← cType n inner
          pure (.nonNullList t)
        | none => none
    else none

/-- the value child of an ARGUMENT / OBJECT_FIELD / DEFAULT_VALUE: `x.value()?` then convert -/
def valueOf (n : Nat) (p : PE R) : M R Value := do
  let v ← M.ofOpt (childP isValueKind p)
  cValue n v

/-- `x.ty()?` then convert -/
def typeOf (n : Nat) (p : PE R) : M R Ty := do
  let t ← M.ofOpt (childP isTypeKind p)
  cType n t

/-! ### arguments, directives -/

/-- `impl Convert for cst::Argument` -/
def cArgument (n : Nat) (p : PE R) : M R (Ast.Str × Value) := do
  let name ← nameOf p
  let v ← valueOf n p
  pure (name, v)

/-- `collect_opt(file_id, x.arguments(), |x| x.arguments())` -/
def argumentsOf (n : Nat) (p : PE R) : M R (List (Ast.Str × Value)) :=
  match child "ARGUMENTS" p with
  | some a => collectM (cArgument n) (children "ARGUMENT" a)
  | none => M.pure' []

/-- `impl Convert for cst::Directive` -/
def cDirective (n : Nat) (p : PE R) : M R Directive := do
  let name ← nameOf p
  let args ← argumentsOf n p
  pure ⟨name, args⟩

/-- `collect_opt(file_id, x.directives(), |x| x.directives())` -/
def directivesOf (n : Nat) (p : PE R) : M R (List Directive) :=
  match child "DIRECTIVES" p with
  | some d => collectM (cDirective n) (children "DIRECTIVE" d)
  | none => M.pure' []

/-- `impl Convert for cst::TypeCondition`: `self.named_type()?.name()?.convert(file_id)` -/
def cTypeCondition (p : PE R) : M R Ast.Str :=
  match child "NAMED_TYPE" p with
  | some nt => nameOf nt
  | none => none

/-! ### selections -/

/-- `impl Convert for cst::Selection / Field / FragmentSpread / InlineFragment`, `convert_selection_set` -/
def cSelection : Nat → PE R → M R Sel
  | 0, _ => none
  | n + 1, p =>
    let k := p.kind
    if k == "FIELD" then do
      let alias ← optM (child "ALIAS" p) nameOf
      let name ← nameOf p
      let args ← argumentsOf n p
      let dirs ← directivesOf n p
      let sels ← match child "SELECTION_SET" p with
        | some ss => collectM (cSelection n) (childrenP isSelectionKind ss)
        | none => M.pure' []
      pure (.field alias name args dirs (listToSels sels))
    else if k == "FRAGMENT_SPREAD" then do
      let fname ← M.ofOpt (child "FRAGMENT_NAME" p)
      let name ← nameOf fname
      let dirs ← directivesOf n p
      pure (.spread name dirs)
    else if k == "INLINE_FRAGMENT" then do
      let tc ← optM (child "TYPE_CONDITION" p) cTypeCondition
      let dirs ← directivesOf n p
      let ss ← M.ofOpt (child "SELECTION_SET" p)
      let sels ← collectM (cSelection n) (childrenP isSelectionKind ss)
      pure (.inline tc dirs (listToSels sels))
    else none

/-- `x.selection_set()?` then `convert_selection_set` -/
def selectionSetOf (n : Nat) (p : PE R) : M R Sels := do
  let ss ← M.ofOpt (child "SELECTION_SET" p)
  let sels ← collectM (cSelection n) (childrenP isSelectionKind ss)
  pure (listToSels sels)

/-! ### pieces of definitions -/

/-- `impl Convert for cst::OperationType`: kind of the first token -/
def cOperationType (p : PE R) : M R OpType :=
  match firstTok p.1.1 with
  | some (k, _) =>
    if k == "query_KW" then M.pure' .query
    else if k == "mutation_KW" then M.pure' .mutation
    else if k == "subscription_KW" then M.pure' .subscription
    else none
  | none => none

/-- the default value of a variable / input value definition -/
def defaultOf (n : Nat) (p : PE R) : M R (Option Value) :=
  optM (child "DEFAULT_VALUE" p) (valueOf n)

/-- `impl Convert for cst::VariableDefinition` -/
def cVariableDefinition (n : Nat) (p : PE R) : M R VarDef := do
  let dflt ← defaultOf n p
  let ty ← typeOf n p
  let var ← M.ofOpt (child "VARIABLE" p)
  let name ← nameOf var
  let dirs ← directivesOf n p
  pure ⟨name, ty, dflt, dirs⟩

/-- `impl Convert for cst::InputValueDefinition` -/
def cInputValueDefinition (n : Nat) (p : PE R) : M R InputValueDef := do
  let dflt ← defaultOf n p
  let ty ← typeOf n p
  let desc ← descOf p
  let name ← nameOf p
  let dirs ← directivesOf n p
  pure ⟨desc, name, ty, dflt, dirs⟩

/-- `collect_opt(file_id, x.arguments_definition(), |x| x.input_value_definitions())` etc. -/
def inputValuesOf (n : Nat) (container : SK) (p : PE R) : M R (List InputValueDef) :=
  match child container p with
  | some c => collectM (cInputValueDefinition n) (children "INPUT_VALUE_DEFINITION" c)
  | none => M.pure' []

/-- `impl Convert for cst::FieldDefinition` -/
def cFieldDefinition (n : Nat) (p : PE R) : M R FieldDef := do
  let desc ← descOf p
  let name ← nameOf p
  let args ← inputValuesOf n "ARGUMENTS_DEFINITION" p
  let ty ← typeOf n p
  let dirs ← directivesOf n p
  pure ⟨desc, name, args, ty, dirs⟩

def fieldsOf (n : Nat) (p : PE R) : M R (List FieldDef) :=
  match child "FIELDS_DEFINITION" p with
  | some c => collectM (cFieldDefinition n) (children "FIELD_DEFINITION" c)
  | none => M.pure' []

/-- `impl Convert for cst::EnumValueDefinition` -/
def cEnumValueDefinition (n : Nat) (p : PE R) : M R EnumValueDef := do
  let desc ← descOf p
  let ev ← M.ofOpt (child "ENUM_VALUE" p)
  let value ← nameOf ev
  let dirs ← directivesOf n p
  pure ⟨desc, value, dirs⟩

def enumValuesOf (n : Nat) (p : PE R) : M R (List EnumValueDef) :=
  match child "ENUM_VALUES_DEFINITION" p with
  | some c => collectM (cEnumValueDefinition n) (children "ENUM_VALUE_DEFINITION" c)
  | none => M.pure' []

/-- `named_types().filter_map(|n| n.name()?.convert(file_id))` under an optional container -/
def namedTypesOf (container : SK) (p : PE R) : M R (List Ast.Str) :=
  match child container p with
  | some c => collectM nameOf (children "NAMED_TYPE" c)
  | none => M.pure' []

/-- `impl Convert for cst::RootOperationTypeDefinition` -/
def cRootOperation (p : PE R) : M R (OpType × Ast.Str) := do
  let ot ← M.ofOpt (child "OPERATION_TYPE" p)
  let ty ← cOperationType ot
  let nt ← M.ofOpt (child "NAMED_TYPE" p)
  let name ← nameOf nt
  pure (ty, name)

def rootsOf (p : PE R) : M R (List (OpType × Ast.Str)) :=
  collectM cRootOperation (children "ROOT_OPERATION_TYPE_DEFINITION" p)

/-- `impl Convert for cst::DirectiveLocation`: kind of the first token, `…_KW` -/
def cDirectiveLocation (p : PE R) : M R Ast.Str :=
  match firstTok p.1.1 with
  | some (k, _) =>
    match ["QUERY", "MUTATION", "SUBSCRIPTION", "FIELD", "FRAGMENT_DEFINITION", "FRAGMENT_SPREAD", "INLINE_FRAGMENT",
      "VARIABLE_DEFINITION", "SCHEMA", "SCALAR", "OBJECT", "FIELD_DEFINITION", "ARGUMENT_DEFINITION", "INTERFACE",
      "UNION", "ENUM", "ENUM_VALUE", "INPUT_OBJECT", "INPUT_FIELD_DEFINITION"].find? (fun l => k == l ++ "_KW") with
    | some l => M.pure' l.toList
    | none => none
  | none => none

def locationsOf (p : PE R) : M R (List Ast.Str) :=
  match child "DIRECTIVE_LOCATIONS" p with
  | some c => collectM cDirectiveLocation (children "DIRECTIVE_LOCATION" c)
  | none => M.pure' []

/-! ### definitions -/

/-- `impl Convert for cst::Definition` and the seventeen definition kinds -/
def cDefinition (n : Nat) (p : PE R) : M R Definition :=
  let k := p.kind
  if k == "OPERATION_DEFINITION" then do
    let ty ← match child "OPERATION_TYPE" p with
      | some ot => cOperationType ot
      | none => M.pure' OpType.query
    let name ← optNameOf p
    let vars ← match child "VARIABLE_DEFINITIONS" p with
      | some c => collectM (cVariableDefinition n) (children "VARIABLE_DEFINITION" c)
      | none => M.pure' []
    let dirs ← directivesOf n p
    let sels ← selectionSetOf n p
    pure (.operation ty name vars dirs sels)
  else if k == "FRAGMENT_DEFINITION" then do
    let fname ← M.ofOpt (child "FRAGMENT_NAME" p)
    let name ← nameOf fname
    let tcn ← M.ofOpt (child "TYPE_CONDITION" p)
    let tc ← cTypeCondition tcn
    let dirs ← directivesOf n p
    let sels ← selectionSetOf n p
    pure (.fragment name tc dirs sels)
  else if k == "DIRECTIVE_DEFINITION" then do
    let desc ← descOf p
    let name ← nameOf p
    let args ← inputValuesOf n "ARGUMENTS_DEFINITION" p
    let locs ← locationsOf p
    pure (.directiveDef desc name args (hasToken "repeatable_KW" p) locs)
  else if k == "SCHEMA_DEFINITION" then do
    let desc ← descOf p
    let dirs ← directivesOf n p
    let roots ← rootsOf p
    pure (.schemaDef desc dirs roots)
  else if k == "SCALAR_TYPE_DEFINITION" then do
    let desc ← descOf p
    let name ← nameOf p
    let dirs ← directivesOf n p
    pure (.scalarDef desc name dirs)
  else if k == "OBJECT_TYPE_DEFINITION" then do
    let desc ← descOf p
    let name ← nameOf p
    let impls ← namedTypesOf "IMPLEMENTS_INTERFACES" p
    let dirs ← directivesOf n p
    let fields ← fieldsOf n p
    pure (.objectDef desc name impls dirs fields)
  else if k == "INTERFACE_TYPE_DEFINITION" then do
    let desc ← descOf p
    let name ← nameOf p
    let impls ← namedTypesOf "IMPLEMENTS_INTERFACES" p
    let dirs ← directivesOf n p
    let fields ← fieldsOf n p
    pure (.interfaceDef desc name impls dirs fields)
  else if k == "UNION_TYPE_DEFINITION" then do
    let desc ← descOf p
    let name ← nameOf p
    let dirs ← directivesOf n p
    let members ← namedTypesOf "UNION_MEMBER_TYPES" p
    pure (.unionDef desc name dirs members)
  else if k == "ENUM_TYPE_DEFINITION" then do
    let desc ← descOf p
    let name ← nameOf p
    let dirs ← directivesOf n p
    let values ← enumValuesOf n p
    pure (.enumDef desc name dirs values)
  else if k == "INPUT_OBJECT_TYPE_DEFINITION" then do
    let desc ← descOf p
    let name ← nameOf p
    let dirs ← directivesOf n p
    let fields ← inputValuesOf n "INPUT_FIELDS_DEFINITION" p
    pure (.inputDef desc name dirs fields)
  else if k == "SCHEMA_EXTENSION" then do
    let dirs ← directivesOf n p
    let roots ← rootsOf p
    pure (.schemaExt dirs roots)
  else if k == "SCALAR_TYPE_EXTENSION" then do
    let name ← nameOf p
    let dirs ← directivesOf n p
    pure (.scalarExt name dirs)
  else if k == "OBJECT_TYPE_EXTENSION" then do
    let name ← nameOf p
    let impls ← namedTypesOf "IMPLEMENTS_INTERFACES" p
    let dirs ← directivesOf n p
    let fields ← fieldsOf n p
    pure (.objectExt name impls dirs fields)
  else if k == "INTERFACE_TYPE_EXTENSION" then do
    let name ← nameOf p
    let impls ← namedTypesOf "IMPLEMENTS_INTERFACES" p
    let dirs ← directivesOf n p
    let fields ← fieldsOf n p
    pure (.interfaceExt name impls dirs fields)
  else if k == "UNION_TYPE_EXTENSION" then do
    let name ← nameOf p
    let dirs ← directivesOf n p
    let members ← namedTypesOf "UNION_MEMBER_TYPES" p
    pure (.unionExt name dirs members)
  else if k == "ENUM_TYPE_EXTENSION" then do
    let name ← nameOf p
    let dirs ← directivesOf n p
    let values ← enumValuesOf n p
    pure (.enumExt name dirs values)
  else if k == "INPUT_OBJECT_TYPE_EXTENSION" then do
    let name ← nameOf p
    let dirs ← directivesOf n p
    let fields ← inputValuesOf n "INPUT_FIELDS_DEFINITION" p
    pure (.inputExt name dirs fields)
  else none

mutual
  /-- enough fuel for every nested value / type / selection: the number of elements of the tree -/
  def size : Elem → Nat
    | .tok _ _ => 1
    | .node _ cs => sizeList cs + 1
  def sizeList : List Elem → Nat
    | [] => 0
    | e :: es => size e + sizeList es
end

/-- `Document::from_cst`: the definitions that convert, and the location of every `Name` in them -/
def fromCst (root : Elem) : Document × Locs (nameRanges root 0) :=
  filterMapM (cDefinition (size root)) (childrenP isDefinitionKind ⟨(root, 0), fun _ hx => hx⟩)

end Apollo.FromCst
