import ApolloModel.Model.Strings
/-
Model of `apollo_compiler::ast` (ast/mod.rs) and of its serializer (ast/serialize.rs).

The Rust serializer is a set of `serialize_impl` functions that drive a `State` through a handful of
primitive calls: `write(text)`, `indent()`, `indent_or_space()`, `dedent()`, `dedent_or_space()`,
`new_line_or_space()`, `on_single_line(|state| …)`, `newlines_enabled()`.  The model keeps exactly
that factorisation: `cmds…` functions (one per `serialize_impl`) produce the list of primitive calls
(`Cmd`), and `interp` is `State`.  A `write` is either a GraphQL token (`Cmd.tok`, `Cmd.str`) or
ignored text (`Cmd.raw`: a space or a comma), so the *token stream* of the output,
`toksOf`, is read off the command list without looking at the configuration.
-/
namespace Apollo.Ast

abbrev Str := List Char

/-- punctuators -/
inductive P where
  | bang | dollar | amp | spread | colon | eq | at | lParen | rParen | lBracket | rBracket
  | lCurly | rCurly | pipe
  deriving DecidableEq, Repr, Inhabited

/-- significant tokens; a string token carries its *decoded* value -/
inductive Tok where
  | p (k : P)
  | name (s : Str)
  | int (s : Str)
  | float (s : Str)
  | str (s : Str)
  deriving DecidableEq, Repr, Inhabited

mutual
inductive Value where
  | null
  | bool (b : Bool)
  | enum (n : Str)
  | str (s : Str)
  | var (n : Str)
  | float (t : Str)
  | int (t : Str)
  | list (vs : Values)
  | obj (fs : ObjFields)
inductive Values where
  | nil
  | cons (v : Value) (tl : Values)
inductive ObjFields where
  | nil
  | cons (n : Str) (v : Value) (tl : ObjFields)
end

inductive Ty where
  | named (n : Str)
  | nonNullNamed (n : Str)
  | list (t : Ty)
  | nonNullList (t : Ty)
  deriving DecidableEq, Repr, Inhabited

structure Directive where
  name : Str
  args : List (Str × Value)

mutual
inductive Sel where
  | field (alias : Option Str) (name : Str) (args : List (Str × Value)) (dirs : List Directive) (sels : Sels)
  | spread (name : Str) (dirs : List Directive)
  | inline (tc : Option Str) (dirs : List Directive) (sels : Sels)
inductive Sels where
  | nil
  | cons (s : Sel) (tl : Sels)
end

structure VarDef where
  name : Str
  ty : Ty
  default : Option Value
  dirs : List Directive

structure InputValueDef where
  desc : Option Str
  name : Str
  ty : Ty
  default : Option Value
  dirs : List Directive

structure FieldDef where
  desc : Option Str
  name : Str
  args : List InputValueDef
  ty : Ty
  dirs : List Directive

structure EnumValueDef where
  desc : Option Str
  value : Str
  dirs : List Directive

inductive OpType where
  | query | mutation | subscription
  deriving DecidableEq, Repr, Inhabited

inductive Definition where
  | operation (ty : OpType) (name : Option Str) (vars : List VarDef) (dirs : List Directive) (sels : Sels)
  | fragment (name : Str) (tc : Str) (dirs : List Directive) (sels : Sels)
  | directiveDef (desc : Option Str) (name : Str) (args : List InputValueDef) (repeatable : Bool) (locs : List Str)
  | schemaDef (desc : Option Str) (dirs : List Directive) (roots : List (OpType × Str))
  | scalarDef (desc : Option Str) (name : Str) (dirs : List Directive)
  | objectDef (desc : Option Str) (name : Str) (impls : List Str) (dirs : List Directive) (fields : List FieldDef)
  | interfaceDef (desc : Option Str) (name : Str) (impls : List Str) (dirs : List Directive) (fields : List FieldDef)
  | unionDef (desc : Option Str) (name : Str) (dirs : List Directive) (members : List Str)
  | enumDef (desc : Option Str) (name : Str) (dirs : List Directive) (values : List EnumValueDef)
  | inputDef (desc : Option Str) (name : Str) (dirs : List Directive) (fields : List InputValueDef)
  | schemaExt (dirs : List Directive) (roots : List (OpType × Str))
  | scalarExt (name : Str) (dirs : List Directive)
  | objectExt (name : Str) (impls : List Str) (dirs : List Directive) (fields : List FieldDef)
  | interfaceExt (name : Str) (impls : List Str) (dirs : List Directive) (fields : List FieldDef)
  | unionExt (name : Str) (dirs : List Directive) (members : List Str)
  | enumExt (name : Str) (dirs : List Directive) (values : List EnumValueDef)
  | inputExt (name : Str) (dirs : List Directive) (fields : List InputValueDef)

abbrev Document := List Definition

/-! ## Primitive calls on `State` -/

inductive Cmd where
  | tok (t : Tok)                      -- `state.write(<token text>)` (never a string literal)
  | str (isDescription : Bool) (s : Str)   -- `serialize_string_value(state, is_description, s)`
  | raw (s : Str)                      -- `state.write(" ")`, `state.write(",")`: ignored text
  | indent | indentOrSpace | dedent | dedentOrSpace | newLineOrSpace
  | beginSingle | endSingle            -- `on_single_line(|state| …)`
  | rawIfNewlines (s : Str)            -- `if state.newlines_enabled() { state.write(s) }`
  deriving Repr

def kw (s : String) : Cmd := .tok (.name s.toList)
def pn (k : P) : Cmd := .tok (.p k)
def nm (s : Str) : Cmd := .tok (.name s)
def sp : Cmd := .raw [' ']

/-- the token stream of a command list (configuration independent) -/
def toksOf : List Cmd → List Tok
  | [] => []
  | .tok t :: r => t :: toksOf r
  | .str _ s :: r => .str s :: toksOf r
  | _ :: r => toksOf r

/-! ## `serialize_impl` functions -/

/-- `comma_separated(state, open, close, values, serialize_one)` given the already produced
    commands of each value -/
def commaSeparated (opn cls : P) (items : List (List Cmd)) : List Cmd :=
  match items with
  | [] => [pn opn, pn cls]
  | first :: rest =>
    [pn opn, .indent] ++ first ++ (rest.map fun v => [.raw [','], .newLineOrSpace] ++ v).flatten
      ++ [.rawIfNewlines [','], .dedent, pn cls]

/-- `curly_brackets_space_separated` -/
def curly (items : List (List Cmd)) : List Cmd :=
  match items with
  | [] => [pn .lCurly, pn .rCurly]
  | first :: rest =>
    [pn .lCurly, .indentOrSpace] ++ first ++ (rest.map fun v => .newLineOrSpace :: v).flatten
      ++ [.dedentOrSpace, pn .rCurly]

mutual
def cValue : Value → List Cmd
  | .null => [kw "null"]
  | .bool true => [kw "true"]
  | .bool false => [kw "false"]
  | .enum n => [nm n]
  | .str s => [.str false s]
  | .var n => [pn .dollar, nm n]
  | .float t => [.tok (.float t)]
  | .int t => [.tok (.int t)]
  | .list vs => commaSeparated .lBracket .rBracket (cValues vs)
  | .obj fs => commaSeparated .lCurly .rCurly (cObjFields fs)
def cValues : Values → List (List Cmd)
  | .nil => []
  | .cons v tl => cValue v :: cValues tl
def cObjFields : ObjFields → List (List Cmd)
  | .nil => []
  | .cons n v tl => ([nm n, pn .colon, sp] ++ cValue v) :: cObjFields tl
end

/-- `impl Display for Type` -/
def cTy : Ty → List Cmd
  | .named n => [nm n]
  | .nonNullNamed n => [nm n, pn .bang]
  | .list t => pn .lBracket :: cTy t ++ [pn .rBracket]
  | .nonNullList t => pn .lBracket :: cTy t ++ [pn .rBracket, pn .bang]

def cArgument (a : Str × Value) : List Cmd := [nm a.1, pn .colon, sp] ++ cValue a.2

/-- `serialize_arguments` -/
def cArguments (args : List (Str × Value)) : List Cmd :=
  if args.isEmpty then []
  else [.beginSingle] ++ commaSeparated .lParen .rParen (args.map cArgument) ++ [.endSingle]

def cDirective (d : Directive) : List Cmd := [pn .at, nm d.name] ++ cArguments d.args

/-- `DirectiveList::serialize_impl` -/
def cDirectives (ds : List Directive) : List Cmd := (ds.map fun d => sp :: cDirective d).flatten

/-- `serialize_description` -/
def cDescription : Option Str → List Cmd
  | none => []
  | some d => [.str true d, .newLineOrSpace]

def cDefault : Option Value → List Cmd
  | none => []
  | some v => [sp, pn .eq, sp] ++ cValue v

def cVarDef (v : VarDef) : List Cmd :=
  [pn .dollar, nm v.name, pn .colon, sp] ++ cTy v.ty ++ cDefault v.default ++ cDirectives v.dirs

def cInputValueDef (v : InputValueDef) : List Cmd :=
  cDescription v.desc ++ [nm v.name, pn .colon, sp] ++ cTy v.ty ++ cDefault v.default ++ cDirectives v.dirs

/-- `serialize_arguments_definition` -/
def cArgumentsDefinition (args : List InputValueDef) : List Cmd :=
  if args.isEmpty then []
  else if args.any (fun a => a.desc.isSome || !a.dirs.isEmpty) then
    commaSeparated .lParen .rParen (args.map cInputValueDef)
  else [.beginSingle] ++ commaSeparated .lParen .rParen (args.map cInputValueDef) ++ [.endSingle]

def cFieldDef (f : FieldDef) : List Cmd :=
  cDescription f.desc ++ [nm f.name] ++ cArgumentsDefinition f.args ++ [pn .colon, sp] ++ cTy f.ty
    ++ cDirectives f.dirs

def cEnumValueDef (v : EnumValueDef) : List Cmd :=
  cDescription v.desc ++ [nm v.value] ++ cDirectives v.dirs

mutual
def cSel : Sel → List Cmd
  | .field alias name args dirs sels =>
    (match alias with | some a => [nm a, pn .colon, sp] | none => [])
      ++ [nm name] ++ cArguments args ++ cDirectives dirs
      ++ (match sels with | .nil => [] | _ => sp :: curly (cSels sels))
  | .spread name dirs => [pn .spread, nm name] ++ cDirectives dirs
  | .inline tc dirs sels =>
    (match tc with | some t => [pn .spread, sp, kw "on", sp, nm t] | none => [pn .spread])
      ++ cDirectives dirs ++ [sp] ++ curly (cSels sels)
def cSels : Sels → List (List Cmd)
  | .nil => []
  | .cons s tl => cSel s :: cSels tl
end

def OpType.name : OpType → String
  | .query => "query"
  | .mutation => "mutation"
  | .subscription => "subscription"

/-- a separated list `first SEP b SEP c` written as `" "? KW? first (" SEP " x)*`:
    implements (`" implements A & B"`), union members (`" = A | B"`), locations (`" on A | B"`) -/
def cSepList (intro : List Cmd) (sepTok : P) : List Str → List Cmd
  | [] => []
  | first :: rest => intro ++ [nm first] ++ (rest.map fun n => [sp, pn sepTok, sp, nm n]).flatten

def cRootOp (r : OpType × Str) : List Cmd := [kw r.1.name, pn .colon, sp, nm r.2]

/-- `serialize_object_type_like` -/
def cObjectTypeLike (name : Str) (impls : List Str) (dirs : List Directive) (fields : List FieldDef) : List Cmd :=
  [nm name] ++ cSepList [sp, kw "implements", sp] .amp impls ++ cDirectives dirs
    ++ (if fields.isEmpty then [] else sp :: curly (fields.map cFieldDef))

/-- `serialize_union` -/
def cUnion (name : Str) (dirs : List Directive) (members : List Str) : List Cmd :=
  [nm name] ++ cDirectives dirs ++ cSepList [sp, pn .eq, sp] .pipe members

def cEnumBody (name : Str) (dirs : List Directive) (values : List EnumValueDef) : List Cmd :=
  [nm name] ++ cDirectives dirs ++ (if values.isEmpty then [] else sp :: curly (values.map cEnumValueDef))

def cInputBody (name : Str) (dirs : List Directive) (fields : List InputValueDef) : List Cmd :=
  [nm name] ++ cDirectives dirs ++ (if fields.isEmpty then [] else sp :: curly (fields.map cInputValueDef))

/-- `OperationDefinition::serialize_impl`: the shorthand form only when nothing has been written -/
def isShorthand (outputEmpty : Bool) (ty : OpType) (name : Option Str) (vars : List VarDef) (dirs : List Directive) : Bool :=
  outputEmpty && ty == .query && name.isNone && vars.isEmpty && dirs.isEmpty

/-- `Definition::serialize_impl`; `outputEmpty` is `state.output_empty` on entry -/
def cDefinition (outputEmpty : Bool) : Definition → List Cmd
  | .operation ty name vars dirs sels =>
    (if isShorthand outputEmpty ty name vars dirs then []
     else [kw ty.name]
       ++ (match name with | some n => [sp, nm n] | none => [])
       ++ (if vars.isEmpty then []
           else [.beginSingle] ++ commaSeparated .lParen .rParen (vars.map cVarDef) ++ [.endSingle])
       ++ cDirectives dirs ++ [sp])
      ++ curly (cSels sels)
  | .fragment name tc dirs sels =>
    [kw "fragment", sp, nm name, sp, kw "on", sp, nm tc] ++ cDirectives dirs ++ [sp] ++ curly (cSels sels)
  | .directiveDef desc name args repeatable locs =>
    cDescription desc ++ [kw "directive", sp, pn .at, nm name] ++ cArgumentsDefinition args
      ++ (if repeatable then [sp, kw "repeatable"] else [])
      ++ cSepList [sp, kw "on", sp] .pipe locs
  | .schemaDef desc dirs roots =>
    cDescription desc ++ [kw "schema"] ++ cDirectives dirs ++ [sp] ++ curly (roots.map cRootOp)
  | .scalarDef desc name dirs => cDescription desc ++ [kw "scalar", sp, nm name] ++ cDirectives dirs
  | .objectDef desc name impls dirs fields =>
    cDescription desc ++ [kw "type", sp] ++ cObjectTypeLike name impls dirs fields
  | .interfaceDef desc name impls dirs fields =>
    cDescription desc ++ [kw "interface", sp] ++ cObjectTypeLike name impls dirs fields
  | .unionDef desc name dirs members => cDescription desc ++ [kw "union", sp] ++ cUnion name dirs members
  | .enumDef desc name dirs values => cDescription desc ++ [kw "enum", sp] ++ cEnumBody name dirs values
  | .inputDef desc name dirs fields => cDescription desc ++ [kw "input", sp] ++ cInputBody name dirs fields
  | .schemaExt dirs roots =>
    [kw "extend", sp, kw "schema"] ++ cDirectives dirs
      ++ (if roots.isEmpty then [] else sp :: curly (roots.map cRootOp))
  | .scalarExt name dirs => [kw "extend", sp, kw "scalar", sp, nm name] ++ cDirectives dirs
  | .objectExt name impls dirs fields => [kw "extend", sp, kw "type", sp] ++ cObjectTypeLike name impls dirs fields
  | .interfaceExt name impls dirs fields =>
    [kw "extend", sp, kw "interface", sp] ++ cObjectTypeLike name impls dirs fields
  | .unionExt name dirs members => [kw "extend", sp, kw "union", sp] ++ cUnion name dirs members
  | .enumExt name dirs values => [kw "extend", sp, kw "enum", sp] ++ cEnumBody name dirs values
  | .inputExt name dirs fields => [kw "extend", sp, kw "input", sp] ++ cInputBody name dirs fields

/-- `top_level(state, definitions, …)`: `outputEmpty` is the state on entry -/
def cDocument (outputEmpty : Bool) : Document → List Cmd
  | [] => []
  | first :: rest =>
    cDefinition outputEmpty first
      ++ (rest.map fun d => [.rawIfNewlines ['\n'], .newLineOrSpace] ++ cDefinition false d).flatten
      ++ [.rawIfNewlines ['\n']]

/-! ## `State` -/

structure St where
  pre : Option Str          -- `config.indent_prefix`
  saved : List (Option Str) -- prefixes saved by enclosing `on_single_line` calls
  level : Nat               -- `indent_level`
  out : Str                 -- reversed? no: appended in order (small documents)
  underflow : Bool          -- `indent_level -= 1` at zero (debug-mode panic)

def newLineCommon (st : St) (space : Bool) : St :=
  match st.pre with
  | some p => { st with out := st.out ++ '\n' :: Strs.indentStr p st.level }
  | none => if space then { st with out := st.out ++ [' '] } else st

def tokText : Tok → Str
  | .p .bang => ['!'] | .p .dollar => ['$'] | .p .amp => ['&'] | .p .spread => ['.', '.', '.']
  | .p .colon => [':'] | .p .eq => ['='] | .p .at => ['@'] | .p .lParen => ['('] | .p .rParen => [')']
  | .p .lBracket => ['['] | .p .rBracket => [']'] | .p .lCurly => ['{'] | .p .rCurly => ['}']
  | .p .pipe => ['|']
  | .name s => s | .int s => s | .float s => s
  | .str s => Strs.quotedForm s

def stepCmd (st : St) : Cmd → St
  | .tok t => { st with out := st.out ++ tokText t }
  | .str isDesc s => { st with out := st.out ++ Strs.serializeStringValue st.pre st.level isDesc s }
  | .raw s => { st with out := st.out ++ s }
  | .indent => newLineCommon { st with level := st.level + 1 } false
  | .indentOrSpace => newLineCommon { st with level := st.level + 1 } true
  | .dedent => newLineCommon { st with level := st.level - 1, underflow := st.underflow || st.level == 0 } false
  | .dedentOrSpace => newLineCommon { st with level := st.level - 1, underflow := st.underflow || st.level == 0 } true
  | .newLineOrSpace => newLineCommon st true
  | .beginSingle => { st with pre := none, saved := st.pre :: st.saved }
  | .endSingle => match st.saved with
    | p :: rest => { st with pre := p, saved := rest }
    | [] => st
  | .rawIfNewlines s => if st.pre.isSome then { st with out := st.out ++ s } else st

def interp (st : St) (cs : List Cmd) : St := cs.foldl stepCmd st

/-- `impl Display for Serialize<'_, Document>`: the initial state, the indentation of the first line,
    and whether `output_empty` still holds when the first definition is serialized -/
def initSt (pre : Option Str) (level : Nat) : St :=
  { pre, saved := [], level, underflow := false,
    out := match pre with | some p => Strs.indentStr p level | none => [] }

def outputEmptyAtStart (pre : Option Str) (level : Nat) : Bool := !(pre.isSome && level > 0)

def serializeDocument (pre : Option Str) (level : Nat) (doc : Document) : St :=
  interp (initSt pre level) (cDocument (outputEmptyAtStart pre level) doc)

end Apollo.Ast
