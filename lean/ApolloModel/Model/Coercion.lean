import ApolloModel.Model.ExecSchema
/-
Model of crates/apollo-compiler/src/resolvers/input_coercion.rs:
`coerce_variable_values`, `coerce_variable_value` (and `graphql_value_to_json`, in Model/Json.lean).
Recursion takes fuel; `outOfFuel` is its own outcome (`Proofs/CoercionFuel.lean`: never reached with
the fuel the entry point uses).  Error messages are not modelled, only the error class.
-/
namespace Apollo.Coercion
open Apollo

inductive CoerceErr where
  /-- `InputCoercionError::ValueError` (a request error) -/
  | value
  /-- `InputCoercionError::SuspectedValidationBug` -/
  | validationBug
  | outOfFuel
  deriving DecidableEq, Repr, Inhabited

abbrev Res := Except CoerceErr

/-- `MAX_SAFE_INT = (1 << 53) - 1` -/
def maxSafeInt : Int := 9007199254740991

/-- `value.as_f64().is_some_and(|f| f.abs() < MAX_SAFE_INT as f64)` on an integer number:
    the conversion to `f64` is exact below 2^53 and monotone above, and 2^53 − 1 is a float. -/
def floatIntOk (z : Int) : Bool := decide (-9007199254740991 < z) && decide (z < 9007199254740991)

/-- the `ExtendedType::Scalar(_) => match ty_name.as_str()` arm -/
def coerceScalar (name : String) (v : Json) : Res Json :=
  if name = "Int" then
    match v with
    | .int z => if Json.isI64 z && Json.fitsI32 z then .ok v else .error .value
    | _ => .error .value
  else if name = "Float" then
    match v with
    | .float _ => .ok v
    | .int z => if floatIntOk z then .ok v else .error .value
    | _ => .error .value
  else if name = "String" then
    match v with
    | .str _ => .ok v
    | _ => .error .value
  else if name = "Boolean" then
    match v with
    | .bool _ => .ok v
    | _ => .error .value
  else if name = "ID" then
    match v with
    | .str _ => .ok v
    -- `value.is_i64() || value.is_u64()`: every integer number
    | .int _ => .ok v
    | _ => .error .value
  else .ok v

/-- `.iter().map(|item| coerce(item)).collect::<Result<Vec<_>, _>>()`: stops at the first error -/
def coerceItems (f : Json → Res Json) : List Json → Res (List Json)
  | [] => .ok []
  | x :: xs =>
    match f x with
    | .error e => .error e
    | .ok y =>
      match coerceItems f xs with
      | .error e => .error e
      | .ok ys => .ok (y :: ys)

/-- The loop shared by `coerce_variable_values` (over `operation.variables`, `provided` = the request's
    variables, `acc` = the new map) and the input-object arm of `coerce_variable_value` (over
    `ty_def.fields`, `provided` = the given object, `acc` = its clone that is updated in place;
    the Rust looks the field up in the clone, which differs from the original only at the keys of
    earlier fields, and field names are `IndexMap` keys, hence distinct). -/
def coerceDefs (f : Ty → Json → Res Json) (provided : AList Json) : List InputDef → AList Json → Res (AList Json)
  | [], acc => .ok acc
  | d :: rest, acc =>
    match AList.get? provided d.name with
    | some v =>
      match f d.ty v with
      | .error e => .error e
      | .ok rv => coerceDefs f provided rest (AList.insert acc d.name rv)
    | none =>
      match d.default with
      | some dv => coerceDefs f provided rest (AList.insert acc d.name dv.toJson)
      | none => if d.ty.isNonNull then .error .value else coerceDefs f provided rest acc

def unknownKey (fields : List InputDef) (kvs : AList Json) : Bool :=
  kvs.any fun kv => !(fields.any fun fd => fd.name == kv.1)

def wrapArr : Res (List Json) → Res Json
  | .ok ys => .ok (.arr ys)
  | .error e => .error e

def wrapObj : Res (AList Json) → Res Json
  | .ok r => .ok (.obj r)
  | .error e => .error e

/-- the `Type::List(inner) | Type::NonNullList(inner)` arm; `f` is the recursive call -/
def coerceList (f : Ty → Json → Res Json) (inner : Ty) (v : Json) : Res Json :=
  match v with
  | .arr xs => wrapArr (coerceItems (f inner) xs)
  -- "If not an array, treat the value as an array of size one"
  | v => wrapArr (coerceItems (f inner) [v])

/-- the named-type arms; `f` is the recursive call -/
def coerceNamed (f : Ty → Json → Res Json) (s : ExecSchema) (name : String) (v : Json) : Res Json :=
  match s.typeDef? name with
  | none => .error .validationBug
  | some .output => .error .validationBug
  | some .scalar => coerceScalar name v
  | some (.enum values) =>
    match v with
    | .str x => if values.contains x then .ok v else .error .value
    | _ => .error .value
  | some (.input fields) =>
    match v with
    | .obj kvs =>
      if unknownKey fields kvs then .error .value
      else wrapObj (coerceDefs f kvs fields kvs)
    | _ => .error .value

/-- `coerce_variable_value` -/
def coerceValue : Nat → ExecSchema → Ty → Json → Res Json
  | 0, _, _, _ => .error .outOfFuel
  | n + 1, s, ty, v =>
    if v.isNull then
      if ty.isNonNull then .error .value else .ok .null
    else
      match ty.shape with
      | .list inner => coerceList (coerceValue n s) inner v
      | .named name => coerceNamed (coerceValue n s) s name v

def maxDepthDefs : List InputDef → Nat
  | [] => 0
  | d :: rest => max d.ty.depth (maxDepthDefs rest)

def maxDepthTypes : AList TypeDef → Nat
  | [] => 0
  | (_, .input fields) :: rest => max (maxDepthDefs fields) (maxDepthTypes rest)
  | _ :: rest => maxDepthTypes rest

/-- enough fuel for `coerceValue` on `(ty, v)`: each step into the value may restart at a field type -/
def fuelFor (s : ExecSchema) (ty : Ty) (v : Json) : Nat :=
  v.size * (maxDepthTypes s.types + 1) + ty.depth + 1

def fuelForVars (s : ExecSchema) (defs : List InputDef) (values : AList Json) : Nat :=
  (Json.sizeFields values + 1) * (maxDepthTypes s.types + 1) + maxDepthDefs defs + 1

/-- `coerce_variable_values` -/
def coerceVariableValues (s : ExecSchema) (defs : List InputDef) (values : AList Json) : Res (AList Json) :=
  coerceDefs (coerceValue (fuelForVars s defs values) s) values defs []

end Apollo.Coercion
