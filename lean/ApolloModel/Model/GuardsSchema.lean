import ApolloModel.Model.SchemaValidation
import ApolloModel.Model.Guards
/-
Models for C21, part 2: the two schema-side cycle detectors of Model/SchemaValidation.lean
(`FindRecursiveInputValue`, validation/input_object.rs; `FindRecursiveDirective`, validation/directive.rs)
instrumented with the ghosts C21 talks about:
 * `high`  = `RecursionStack::high`: the largest number of names the stack ever held (`RecursionGuard::push`
   inserts the name, records `high = max(high, len)` and only then fails when `len > limit`);
 * `dhigh` = the deepest call entered, counted in frames of the fused model functions (one model frame is at
   most two Rust frames: `input_object_definition` + `input_value_definition`; `directive` +
   `directive_definition`; `type_definition` + `directives` / `enum_value`).
The answers (`R`) are those of the uninstrumented model (`searchFieldsG_fst`, `walkG_fst` in
Proofs/GuardsSchema.lean), which C14's correspondence stream ties to the code.
-/
namespace Apollo.GuardsSchema
open Apollo.SchemaValidation

/-- `for x in xs { f(x)? }` with a state threaded through: stops at the first non-`Ok` -/
def firstErrG {α σ : Type} (f : α → σ → R × σ) : List α → σ → R × σ
  | [], st => (.ok, st)
  | x :: xs, st =>
    match f x st with
    | (.ok, st') => firstErrG f xs st'
    | r => r

/-! ### `FindRecursiveInputValue` -/

structure SG where
  high : Nat
  dhigh : Nat
  deriving Repr, DecidableEq, Inhabited

/-- a frame at depth `depth` (frames below it) is entered -/
def SG.enter (st : SG) (depth : Nat) : SG := { st with dhigh := max st.dhigh (depth + 1) }
/-- `RecursionGuard::push`: after the insert the stack holds `len` names -/
def SG.push (st : SG) (len : Nat) : SG := { st with high := max st.high len }

def searchFieldsG (g : IGraph) (limit : Nat) : Nat → Nat → List Nat → List IField → SG → R × SG
  | 0, _, _, _, st => (.outOfFuel, st)
  | fuel + 1, depth, seen, fs, st =>
    firstErrG (fun f st =>
      if f.nonNullNamed then
        if !seen.contains f.target then
          if f.target < g.length then
            if seen.length + 1 > limit then (.limit, st.push (seen.length + 1))
            else searchFieldsG g limit fuel (depth + 1) (seen ++ [f.target]) (g.fields f.target)
              (st.push (seen.length + 1))
          else (.ok, st)
        else if seen.head? == some f.target then (.recursed, st)
        else (.ok, st)
      else (.ok, st)) fs (st.enter depth)

/-- `FindRecursiveInputValue::check`: `RecursionStack::with_root` inserts the root without touching `high` -/
def checkInputG (g : IGraph) (limit : Nat) (r : Nat) : R × SG :=
  searchFieldsG g limit (limit + 1) 0 [r] (g.fields r) ⟨0, 0⟩

/-! ### `FindRecursiveDirective` -/

structure DG where
  highD : Nat
  highT : Nat
  dhigh : Nat
  deriving Repr, DecidableEq, Inhabited

def DG.enter (st : DG) (depth : Nat) : DG := { st with dhigh := max st.dhigh (depth + 1) }
def DG.pushD (st : DG) (len : Nat) : DG := { st with highD := max st.highD len }
def DG.pushT (st : DG) (len : Nat) : DG := { st with highT := max st.highT len }

def walkG (s : DSchema) (limit : Nat) : Nat → Nat → List Nat → List Nat → Item → DG → R × DG
  | 0, _, _, _, _, st => (.outOfFuel, st)
  | fuel + 1, depth, dg, tg, item, st0 =>
    match item with
    | .dir d =>
      if !dg.contains d then
        match s.dirs[d]? with
        | some args =>
          if dg.length + 1 > limit then (.limit, (st0.enter depth).pushD (dg.length + 1))
          else firstErrG (walkG s limit fuel (depth + 1) (dg ++ [d]) tg) (args.map Item.arg)
            ((st0.enter depth).pushD (dg.length + 1))
        | none => (.ok, st0.enter depth)
      else if dg.head? == some d then (.recursed, st0.enter depth)
      else (.ok, st0.enter depth)
    | .arg a =>
      match firstErrG (walkG s limit fuel (depth + 1) dg tg) (a.dirs.map Item.dir) (st0.enter depth) with
      | (.ok, st1) =>
        match a.ty with
        | some k => if k < s.types.length then walkG s limit fuel (depth + 1) dg tg (.ty k) st1 else (.ok, st1)
        | none => (.ok, st1)
      | r => r
    | .ty k =>
      if tg.contains k then (.ok, st0.enter depth)
      else
        match s.types[k]? with
        | some t =>
          if tg.length + 1 > limit then (.limit, (st0.enter depth).pushT (tg.length + 1))
          else firstErrG (walkG s limit fuel (depth + 1) dg (tg ++ [k])) (typeItems t)
            ((st0.enter depth).pushT (tg.length + 1))
        | none => (.ok, st0.enter depth)

/-- `FindRecursiveDirective::check`: the directive stack starts with the root, the type stack empty; `check` +
    `directive_definition` are the frame at depth 0 -/
def checkDirectiveG (s : DSchema) (limit : Nat) (d : Nat) : R × DG :=
  firstErrG (walkG s limit (4 * limit + 4) 1 [d] []) ((s.dirs.getD d []).map Item.arg) ⟨0, 0, 1⟩

/-! ### `walk_selections_with_deduped_fragments` (validation/variable.rs; the same shape is used by the walkers of
    validation/operation.rs): a `DepthGuard` with limit 500 and a `HashSet` of fragments already entered -/

open Apollo.Guards in
structure WS where
  seen : List Nat
  dhigh : Nat
  /-- selections handed to the callback `f` -/
  visited : Nat

open Apollo.Guards in
def WS.enter (st : WS) (depth : Nat) : WS := { st with dhigh := max st.dhigh (depth + 1) }

open Apollo.Guards in
mutual
/-- `walk_selections_inner` over one selection set at `depth` (= frames below this one); `true` = `RecursionLimitError` -/
def wsList (doc : Doc) (dlimit : Nat) (depth : Nat) (st : WS) : List Sel → Bool × WS
  | [] => (false, st)
  | s :: rest =>
    match wsSel doc dlimit depth { st with visited := st.visited + 1 } s with
    | (false, st') => wsList doc dlimit depth st' rest
    | r => r
termination_by sels => (dlimit + 1 - depth, sizeOf sels)

def wsSel (doc : Doc) (dlimit : Nat) (depth : Nat) (st : WS) : Sel → Bool × WS
  | .nested sels =>
    -- field or inline fragment: `guard.increment()?`
    if depth + 1 > dlimit then (true, st.enter depth)
    else wsList doc dlimit (depth + 1) (st.enter depth) sels
  | .spread n =>
    if st.seen.contains n then (false, st)
    else
      match lookup doc n with
      | none => (false, { st with seen := n :: st.seen })
      | some body =>
        if depth + 1 > dlimit then (true, WS.enter { st with seen := n :: st.seen } depth)
        else wsList doc dlimit (depth + 1) (WS.enter { st with seen := n :: st.seen } depth) body
termination_by s => (dlimit + 1 - depth, sizeOf s)
end

open Apollo.Guards in
/-- `walk_selections_with_deduped_fragments(document, selections, f)` -/
def walkSelections (doc : Doc) (dlimit : Nat) (sels : List Sel) : Bool × WS :=
  wsList doc dlimit 0 ⟨[], 0, 0⟩ sels

end Apollo.GuardsSchema
