import ApolloModel.Model.Introspection
/-
The whole introspection schema of crates/apollo-compiler/src/introspection/resolvers.rs:
`SchemaMetaField`, `TypeDefResolver`, `TypeResolver`, `DirectiveResolver`, `FieldResolver`,
`EnumValueResolver`, `InputValueResolver`, the `__schema` / `__type` / `__typename` meta-fields of
resolvers/execution.rs `execute_field`, and `introspection::partial_execute` (every concrete root
field answers `SkipForPartialExecution`).

The resolvers run in the executor of Model/Execution.lean (C26), generalised in exactly one place:
the resolver table `(object id, field name) ↦ value` becomes a function of the resolver OBJECT, the
field name and the coerced ARGUMENTS (`ObjectValue::resolve_field(&self, info)`), because
`includeDeprecated` and `__type(name:)` are read from the arguments.  Everything else — CollectFields,
CoerceArgumentValues, CompleteValue, null propagation — is the C26 code, reused, not copied.

`ISchema` is what the resolvers read from `apollo_compiler::Schema`: `schema_definition`
(description and root operation types), `types` and `directive_definitions` in `IndexMap` order.
`apolloSchema` is the order `Schema::parse_and_validate` produces.
-/
namespace Apollo.Introspection
open Apollo Apollo.Exec

/-! ### the schema, as far as introspection reads it -/

/-- the `@deprecated` application on a definition: `none` = not deprecated, `some none` =
    `@deprecated` without a `reason` argument, `some (some r)` = `@deprecated(reason: "r")` -/
abbrev Deprecation := Option (Option String)

structure IInputValue where
  name : String
  description : Option String
  ty : Ty
  default : Option Value
  deprecated : Deprecation
  deriving Inhabited

structure IField where
  name : String
  description : Option String
  args : List IInputValue
  ty : Ty
  deprecated : Deprecation
  deriving Inhabited

structure IEnumValue where
  name : String
  description : Option String
  deprecated : Deprecation
  deriving Inhabited

/-- `ExtendedType` -/
inductive ITypeKind where
  | scalar (specifiedBy : Option String)
  | object (implements : List String) (fields : List IField)
  | interface (implements : List String) (fields : List IField)
  | union (members : List String)
  | enum (values : List IEnumValue)
  | inputObject (fields : List IInputValue)
  deriving Inhabited

structure ITypeDef where
  name : String
  description : Option String
  kind : ITypeKind
  deriving Inhabited

structure IDirective where
  name : String
  description : Option String
  args : List IInputValue
  repeatable : Bool
  locations : List String
  deriving Inhabited

structure ISchema where
  description : Option String
  query : Option String
  mutation : Option String
  subscription : Option String
  /-- `schema.types.values()` -/
  types : List ITypeDef
  /-- `schema.directive_definitions.values()` -/
  directives : List IDirective
  deriving Inhabited

/-- `schema.types.get(name)` -/
def ISchema.typeDef? (s : ISchema) (n : String) : Option ITypeDef := s.types.find? (·.name == n)

/-! ### the executor of C26 with resolver OBJECTS instead of a resolver table -/

/-- `ResolvedValue`; `ι` = the resolver objects (`Box<dyn ObjectValue>`) -/
inductive RVg (ι : Type) where
  | leaf (j : Json)
  | error
  | list (items : List (RVg ι))
  | object (ty : String) (o : ι)
  /-- `ResolvedValue::SkipForPartialExecution` -/
  | skip

section Generic
variable {ι : Type}

abbrev RecG (ι : Type) := Path → Ty → RVg ι → List Sel → St → Out × St

/-- `completeItems` of Model/Execution.lean -/
def completeItemsG (rec : RecG ι) (path : Path) (ty inner : Ty) (fields : List Sel) :
    List (RVg ι) → Nat → List Json → St → Out × St
  | [], _, acc, st => (.ok (some (.arr acc)), st)
  | item :: rest, i, acc, st =>
    let p := path ++ [.idx i]
    match item with
    | .error => (.error .propagate, st.push p)
    | item =>
      match rec p inner item fields st with
      | (r, st1) =>
        match tryNullify inner r with
        | .ok none => completeItemsG rec path ty inner fields rest (i + 1) acc st1
        | .ok (some v) => completeItemsG rec path ty inner fields rest (i + 1) (acc ++ [v]) st1
        | .error .propagate => (tryNullify ty (.error .propagate), st1)
        | .error .fuel => (.error .fuel, st1)

def completeListG (rec : RecG ι) (path : Path) (ty : Ty) (fields : List Sel) (items : List (RVg ι)) (st : St) : Out × St :=
  match ty.shape with
  | .named _ => (.error .propagate, st.push path)
  | .list inner => completeItemsG rec path ty inner fields items 0 [] st

/-- `execute_field`: the resolver object is asked with the field name and the coerced arguments -/
def execFieldG (rec : RecG ι) (resolve : ι → String → AList Json → Option (RVg ι)) (env : Env) (path : Path)
    (objTy : String) (obj : ι) (fdef : FieldDef) (fields : List Sel) (st : St) : Out × St :=
  match fields with
  | [] => (.ok none, st)
  | f0 :: _ =>
    match coerceArgs env f0.fargs fdef.args [] with
    | none =>
      let st1 := st.push path
      if fdef.ty.isNonNull then (.error .propagate, st1) else (.ok (some .null), st1)
    | some args =>
      let resolved : Option (RVg ι) :=
        if f0.fname = "__typename" then some (.leaf (.str objTy))
        else
          match resolve obj f0.fname args with
          | none => none
          | some .error => none
          | some rv => some rv
      match resolved with
      | none => (tryNullify fdef.ty (.error .propagate), st.push path)
      | some rv =>
        match rec path fdef.ty rv fields st with
        | (r, st1) => (tryNullify fdef.ty r, st1)

def execGroupsG (rec : RecG ι) (resolve : ι → String → AList Json → Option (RVg ι)) (env : Env) (path : Path)
    (objTy : String) (obj : ι) : AList (List Sel) → AList Json → St → Except Fail (AList Json) × St
  | [], acc, st => (.ok acc, st)
  | (key, fields) :: rest, acc, st =>
    match fields with
    | [] => execGroupsG rec resolve env path objTy obj rest acc st
    | f0 :: _ =>
      match env.schema.typeField? objTy f0.fname with
      | none => execGroupsG rec resolve env path objTy obj rest acc st
      | some fdef =>
        match execFieldG rec resolve env (path ++ [.key key]) objTy obj fdef fields st with
        | (.error e, st1) => (.error e, st1)
        | (.ok none, st1) => execGroupsG rec resolve env path objTy obj rest acc st1
        | (.ok (some v), st1) => execGroupsG rec resolve env path objTy obj rest (AList.insert acc key v) st1

def execSelSetG (rec : RecG ι) (resolve : ι → String → AList Json → Option (RVg ι)) (env : Env) (path : Path)
    (objTy : String) (obj : ι) (sels : List Sel) (st : St) : Except Fail (AList Json) × St :=
  match collectFields env objTy env.cfuel sels [] [] with
  | none => (.error .fuel, st)
  | some (_, groups) => execGroupsG rec resolve env path objTy obj groups [] st

/-- `complete_value` -/
def completeValueG (resolve : ι → String → AList Json → Option (RVg ι)) (env : Env) :
    Nat → Path → Ty → RVg ι → List Sel → St → Out × St
  | 0, _, _, _, _, st => (.error .fuel, st)
  | n + 1, path, ty, rv, fields, st =>
    match rv with
    | .skip => (.ok none, st)
    | .leaf .null => if ty.isNonNull then (.error .propagate, st.push path) else (.ok (some .null), st)
    | .list items => completeListG (completeValueG resolve env n) path ty fields items st
    | .error => (.error .propagate, st.push path)
    | rv =>
      match ty.shape with
      | .list _ => (.error .propagate, st.push path)
      | .named tyName =>
        match env.schema.kind? tyName with
        | none => (.error .propagate, st.push path)
        | some (.inputObject _) => (.error .propagate, st.push path)
        | some k =>
          match rv with
          | .leaf j => completeLeaf path tyName k j st
          | .object resolvedTy o =>
            if resolveObjectType env.schema tyName k resolvedTy then
              match execSelSetG (completeValueG resolve env n) resolve env path resolvedTy o (subSelections fields) st with
              | (.ok m, st1) => (.ok (some (.obj m)), st1)
              | (.error e, st1) => (.error e, st1)
            else (.error .propagate, st.push path)
          | _ => (.error .propagate, st.push path)

/-- `Execution::execute_sync(&initial_value)` on the operation's root selection set -/
def executeG (fuel : Nat) (resolve : ι → String → AList Json → Option (RVg ι)) (env : Env) (root : ι)
    (sels : List Sel) : Outcome :=
  match execSelSetG (completeValueG resolve env fuel) resolve env [] env.schema.query root sels { errors := [] } with
  | (.ok m, st) => .response { data := some m, errors := st.errors }
  | (.error .propagate, st) => .response { data := none, errors := st.errors }
  | (.error .fuel, _) => .outOfFuel

end Generic

/-! ### printing a default value: `val.serialize().no_indent().to_string()` (ast/serialize.rs) -/

def hexDigit (n : Nat) : Char := if n < 10 then Char.ofNat (48 + n) else Char.ofNat (55 + n)

/-- `{:04X}` of a byte -/
def hex4 (n : Nat) : String :=
  String.ofList [hexDigit (n / 4096 % 16), hexDigit (n / 256 % 16), hexDigit (n / 16 % 16), hexDigit (n % 16)]

/-- `serialize_string_value`, not a description, newlines disabled: the characters that are escaped
    are `c < ' ' && c != '\t'`, `"` and `\` -/
def escapeChar (c : Char) : String :=
  if c = '"' then "\\\""
  else if c = '\\' then "\\\\"
  else if c.toNat < 32 && c != '\t' then
    (if c.toNat = 8 then "\\b" else if c.toNat = 10 then "\\n" else if c.toNat = 12 then "\\f"
     else if c.toNat = 13 then "\\r" else "\\u" ++ hex4 c.toNat)
  else String.singleton c

def printString (s : String) : String := "\"" ++ String.join (s.toList.map escapeChar) ++ "\""

mutual
/-- `Value::serialize_impl` on one line: `[a, b]`, `{k: v, l: w}`; numbers as written -/
def printValue : Value → String
  | .null => "null"
  | .bool true => "true"
  | .bool false => "false"
  | .int z => toString z
  | .float t => t
  | .str s => printString s
  | .enum n => n
  | .list xs => "[" ++ ", ".intercalate (printValues xs) ++ "]"
  | .obj kvs => "{" ++ ", ".intercalate (printFields kvs) ++ "}"
def printValues : List Value → List String
  | [] => []
  | x :: xs => printValue x :: printValues xs
def printFields : List (String × Value) → List String
  | [] => []
  | (k, v) :: rest => (k ++ ": " ++ printValue v) :: printFields rest
end

/-! ### the resolver objects -/

inductive IObj where
  /-- `InitialValue` of `partial_execute`, together with the `__schema` / `__type` arms of `execute_field` -/
  | root
  /-- `SchemaMetaField` -/
  | schema
  /-- `TypeDefResolver { def }` -/
  | typeDef (d : ITypeDef)
  /-- `TypeResolver { ty }`: only non-null and list types -/
  | typeRef (ty : Ty)
  | directive (d : IDirective)
  | field (d : IField)
  | enumValue (d : IEnumValue)
  | inputValue (d : IInputValue)

abbrev IRV := RVg IObj

def optStr : Option String → Json
  | some s => .str s
  | none => .null

/-- `type_def(info, name)`: `ResolvedValue::nullable_object(schema.types.get(name).map(..))` -/
def typeDefRV (s : ISchema) (name : String) : IRV :=
  match s.typeDef? name with
  | some d => .object "__Type" (.typeDef d)
  | none => .leaf .null

/-- `type_def_opt` -/
def typeDefOptRV (s : ISchema) : Option String → IRV
  | some n => typeDefRV s n
  | none => .leaf .null

/-- `fn ty(info, ty)` -/
def tyRV (s : ISchema) : Ty → IRV
  | .named n => typeDefRV s n
  | t => .object "__Type" (.typeRef t)

/-- the `types!` macro: the names that are defined types, as `TypeDefResolver`s -/
def typesRV (s : ISchema) (names : List String) : IRV :=
  .list (names.filterMap fun n => (s.typeDef? n).map fun d => .object "__Type" (.typeDef d))

/-- `directive.argument_by_name("reason", schema)`: the argument given, else the default value of
    the `reason` argument in the schema's definition of `@deprecated` -/
def deprecatedDefaultReason (s : ISchema) : Json :=
  match s.directives.find? (·.name == "deprecated") with
  | some d =>
    match d.args.find? (·.name == "reason") with
    | some a => (match a.default with | some (.str r) => .str r | _ => .null)
    | none => .null
  | none => .null

/-- `deprecation_reason` -/
def deprecationReason (s : ISchema) : Deprecation → Json
  | none => .null
  | some none => deprecatedDefaultReason s
  | some (some r) => .str r

/-- `include_deprecated(info.arguments())` -/
def inclArg (args : AList Json) : Bool := includeDeprecated ((AList.get? args "includeDeprecated").getD .null)

/-- `implementers_map().get(name).objects`: object types declaring the interface, in `types` order -/
def implementerObjectsOf (s : ISchema) (iface : String) : List String :=
  s.types.filterMap fun t =>
    match t.kind with
    | .object impls _ => if impls.contains iface then some t.name else none
    | _ => none

def kindText : ITypeKind → String
  | .scalar _ => "SCALAR" | .object _ _ => "OBJECT" | .interface _ _ => "INTERFACE" | .union _ => "UNION"
  | .enum _ => "ENUM" | .inputObject _ => "INPUT_OBJECT"

def inputValuesRV (incl : Bool) (vs : List IInputValue) : IRV :=
  .list ((vs.filter fun v => incl || v.deprecated.isNone).map fun v => .object "__InputValue" (.inputValue v))

/-- `resolve_field`; `none` = `Err(unknown_field_error)` -/
def resolveI (s : ISchema) : IObj → String → AList Json → Option IRV
  | .root, f, args =>
    if f = "__schema" then some (.object "__Schema" .schema)
    else if f = "__type" then
      (match AList.get? args "name" with
       | some (.str n) => some (typeDefRV s n)
       | _ => none)
    else some .skip
  | .schema, f, _ =>
    if f = "description" then some (.leaf (optStr s.description))
    else if f = "types" then some (.list (s.types.map fun d => .object "__Type" (.typeDef d)))
    else if f = "directives" then some (.list (s.directives.map fun d => .object "__Directive" (.directive d)))
    else if f = "queryType" then some (typeDefOptRV s s.query)
    else if f = "mutationType" then some (typeDefOptRV s s.mutation)
    else if f = "subscriptionType" then some (typeDefOptRV s s.subscription)
    else none
  | .typeDef d, f, args =>
    if f = "kind" then some (.leaf (.str (kindText d.kind)))
    else if f = "name" then some (.leaf (.str d.name))
    else if f = "description" then some (.leaf (optStr d.description))
    else if f = "fields" then
      (match d.kind with
       | .object _ fields | .interface _ fields =>
         some (.list ((fields.filter fun x => inclArg args || x.deprecated.isNone).map fun x => .object "__Field" (.field x)))
       | _ => some (.leaf .null))
    else if f = "interfaces" then
      (match d.kind with
       | .object impls _ | .interface impls _ => some (typesRV s impls)
       | _ => some (.leaf .null))
    else if f = "possibleTypes" then
      (match d.kind with
       | .interface _ _ => some (typesRV s (implementerObjectsOf s d.name))
       | .union members => some (typesRV s members)
       | _ => some (.leaf .null))
    else if f = "enumValues" then
      (match d.kind with
       | .enum values =>
         some (.list ((values.filter fun x => inclArg args || x.deprecated.isNone).map fun x => .object "__EnumValue" (.enumValue x)))
       | _ => some (.leaf .null))
    else if f = "inputFields" then
      (match d.kind with
       | .inputObject fields => some (inputValuesRV (inclArg args) fields)
       | _ => some (.leaf .null))
    else if f = "ofType" then some (.leaf .null)
    else if f = "specifiedByURL" then
      (match d.kind with
       | .scalar url => some (.leaf (optStr url))
       | _ => some (.leaf .null))
    else none
  | .typeRef t, f, _ =>
    if f = "kind" then
      some (.leaf (.str (match t with | .list _ => "LIST" | _ => "NON_NULL")))
    else if f = "ofType" then
      (match t with
       | .list inner => some (tyRV s inner)
       | .nonNullNamed n => some (typeDefRV s n)
       | .nonNullList inner => some (.object "__Type" (.typeRef (.list inner)))
       /- `Type::Named(_) => unreachable!()`: `tyRV` never builds it -/
       | .named n => some (typeDefRV s n))
    else if f = "name" ∨ f = "description" ∨ f = "fields" ∨ f = "interfaces" ∨ f = "possibleTypes" ∨ f = "enumValues"
        ∨ f = "inputFields" ∨ f = "specifiedByURL" then some (.leaf .null)
    else none
  | .directive d, f, args =>
    if f = "name" then some (.leaf (.str d.name))
    else if f = "description" then some (.leaf (optStr d.description))
    else if f = "args" then some (inputValuesRV (inclArg args) d.args)
    else if f = "locations" then some (.list (d.locations.map fun l => .leaf (.str l)))
    else if f = "isRepeatable" then some (.leaf (.bool d.repeatable))
    else none
  | .field d, f, args =>
    if f = "name" then some (.leaf (.str d.name))
    else if f = "description" then some (.leaf (optStr d.description))
    else if f = "args" then some (inputValuesRV (inclArg args) d.args)
    else if f = "type" then some (tyRV s d.ty)
    else if f = "isDeprecated" then some (.leaf (.bool d.deprecated.isSome))
    else if f = "deprecationReason" then some (.leaf (deprecationReason s d.deprecated))
    else none
  | .enumValue d, f, _ =>
    if f = "name" then some (.leaf (.str d.name))
    else if f = "description" then some (.leaf (optStr d.description))
    else if f = "isDeprecated" then some (.leaf (.bool d.deprecated.isSome))
    else if f = "deprecationReason" then some (.leaf (deprecationReason s d.deprecated))
    else none
  | .inputValue d, f, _ =>
    if f = "name" then some (.leaf (.str d.name))
    else if f = "description" then some (.leaf (optStr d.description))
    else if f = "type" then some (tyRV s d.ty)
    else if f = "defaultValue" then some (.leaf (optStr (d.default.map printValue)))
    else if f = "isDeprecated" then some (.leaf (.bool d.deprecated.isSome))
    else if f = "deprecationReason" then some (.leaf (deprecationReason s d.deprecated))
    else none

/-! ### the schema the executor runs against (`Schema::type_field`, `schema.types.get`) -/

def IInputValue.toDef (v : IInputValue) : InputDef := { name := v.name, ty := v.ty, default := v.default }

def IField.toDef (f : IField) : FieldDef := { name := f.name, args := f.args.map IInputValue.toDef, ty := f.ty }

/-- the `__schema` / `__type` meta-field definitions (`MetaFieldDefinitions`) -/
def metaFields : List FieldDef :=
  [{ name := "__schema", args := [], ty := .nonNullNamed "__Schema" },
   { name := "__type", args := [{ name := "name", ty := .nonNullNamed "String", default := none }], ty := .named "__Type" }]

def execSchemaOf (s : ISchema) : Exec.Schema :=
  let q := s.query.getD "Query"
  { inputs := { types := s.types.filterMap fun t =>
      match t.kind with
      | .scalar _ => some (t.name, TypeDef.scalar)
      | .enum vs => some (t.name, TypeDef.enum (vs.map (·.name)))
      | .inputObject fs => some (t.name, TypeDef.input (fs.map IInputValue.toDef))
      | _ => none },
    objects := s.types.filterMap fun t =>
      match t.kind with
      | .object impls fs =>
        some (t.name, { implements := impls,
                        fields := fs.map IField.toDef ++ (if t.name == q then metaFields else []) })
      | _ => none,
    interfaces := s.types.filterMap fun t => match t.kind with | .interface _ _ => some t.name | _ => none,
    unions := s.types.filterMap fun t => match t.kind with | .union ms => some (t.name, ms) | _ => none,
    query := q }

/-- `introspection::partial_execute` on a query operation -/
def partialExecute (fuel cfuel : Nat) (s : ISchema) (frags : AList Frag) (vars : AList Json) (sels : List Sel) : Outcome :=
  executeG fuel (resolveI s)
    { schema := execSchemaOf s, frags := frags, vars := vars, world := [], cfuel := cfuel } .root sels

/-! ### what every `Valid<Schema>` contains: built_in_types.graphql, in the order of `schema.types`
(descriptions of the built-in definitions are not modelled: `none`) -/

def ivNo (name : String) (ty : Ty) (default : Option Value) : IInputValue :=
  { name := name, description := none, ty := ty, default := default, deprecated := none }
def fl (name : String) (ty : Ty) : IField := { name := name, description := none, args := [], ty := ty, deprecated := none }
def flDep (name : String) (ty : Ty) : IField :=
  { name := name, description := none, args := [ivNo "includeDeprecated" (.named "Boolean") (some (.bool false))], ty := ty, deprecated := none }
def objT (name : String) (fields : List IField) : ITypeDef := { name := name, description := none, kind := .object [] fields }
def enumT (name : String) (vals : List String) : ITypeDef :=
  { name := name, description := none, kind := .enum (vals.map fun v => { name := v, description := none, deprecated := none }) }

def typeKindNames : List String := ["SCALAR", "OBJECT", "INTERFACE", "UNION", "ENUM", "INPUT_OBJECT", "LIST", "NON_NULL"]

def directiveLocationNames : List String :=
  ["QUERY", "MUTATION", "SUBSCRIPTION", "FIELD", "FRAGMENT_DEFINITION", "FRAGMENT_SPREAD", "INLINE_FRAGMENT",
   "VARIABLE_DEFINITION", "SCHEMA", "SCALAR", "OBJECT", "FIELD_DEFINITION", "ARGUMENT_DEFINITION", "INTERFACE", "UNION",
   "ENUM", "ENUM_VALUE", "INPUT_OBJECT", "INPUT_FIELD_DEFINITION"]

def nnList (n : String) : Ty := .nonNullList (.nonNullNamed n)
def optList (n : String) : Ty := .list (.nonNullNamed n)

def introspectionTypes : List ITypeDef :=
  [objT "__Schema" [fl "description" (.named "String"), fl "types" (nnList "__Type"), fl "queryType" (.nonNullNamed "__Type"),
     fl "mutationType" (.named "__Type"), fl "subscriptionType" (.named "__Type"), fl "directives" (nnList "__Directive")],
   objT "__Type" [fl "kind" (.nonNullNamed "__TypeKind"), fl "name" (.named "String"), fl "description" (.named "String"),
     flDep "fields" (optList "__Field"), fl "interfaces" (optList "__Type"), fl "possibleTypes" (optList "__Type"),
     flDep "enumValues" (optList "__EnumValue"), flDep "inputFields" (optList "__InputValue"), fl "ofType" (.named "__Type"),
     fl "specifiedByURL" (.named "String")],
   enumT "__TypeKind" typeKindNames,
   objT "__Field" [fl "name" (.nonNullNamed "String"), fl "description" (.named "String"), flDep "args" (nnList "__InputValue"),
     fl "type" (.nonNullNamed "__Type"), fl "isDeprecated" (.nonNullNamed "Boolean"), fl "deprecationReason" (.named "String")],
   objT "__InputValue" [fl "name" (.nonNullNamed "String"), fl "description" (.named "String"), fl "type" (.nonNullNamed "__Type"),
     fl "defaultValue" (.named "String"), fl "isDeprecated" (.nonNullNamed "Boolean"), fl "deprecationReason" (.named "String")],
   objT "__EnumValue" [fl "name" (.nonNullNamed "String"), fl "description" (.named "String"),
     fl "isDeprecated" (.nonNullNamed "Boolean"), fl "deprecationReason" (.named "String")],
   objT "__Directive" [fl "name" (.nonNullNamed "String"), fl "description" (.named "String"),
     fl "locations" (nnList "__DirectiveLocation"), flDep "args" (nnList "__InputValue"), fl "isRepeatable" (.nonNullNamed "Boolean")],
   enumT "__DirectiveLocation" directiveLocationNames]

def builtinDirectives : List IDirective :=
  [{ name := "skip", description := none, args := [ivNo "if" (.nonNullNamed "Boolean") none], repeatable := false,
     locations := ["FIELD", "FRAGMENT_SPREAD", "INLINE_FRAGMENT"] },
   { name := "include", description := none, args := [ivNo "if" (.nonNullNamed "Boolean") none], repeatable := false,
     locations := ["FIELD", "FRAGMENT_SPREAD", "INLINE_FRAGMENT"] },
   { name := "deprecated", description := none, args := [ivNo "reason" (.named "String") (some (.str "No longer supported"))],
     repeatable := false, locations := ["FIELD_DEFINITION", "ARGUMENT_DEFINITION", "INPUT_FIELD_DEFINITION", "ENUM_VALUE"] },
   { name := "specifiedBy", description := none, args := [ivNo "url" (.nonNullNamed "String") none], repeatable := false,
     locations := ["SCALAR"] }]

def Ty.innerName : Ty → String
  | .named n => n
  | .nonNullNamed n => n
  | .list t => Ty.innerName t
  | .nonNullList t => Ty.innerName t

/-- the named types referenced by fields, arguments and input fields (`record_type_ref`) -/
def referencedNames (types : List ITypeDef) (directives : List IDirective) : List String :=
  (types.flatMap fun t =>
    match t.kind with
    | .object _ fs | .interface _ fs => fs.flatMap fun f => Ty.innerName f.ty :: f.args.map fun a => Ty.innerName a.ty
    | .inputObject fs => fs.map fun f => Ty.innerName f.ty
    | _ => []) ++
  directives.flatMap fun d => d.args.map fun a => Ty.innerName a.ty

def scalarT (n : String) : ITypeDef := { name := n, description := none, kind := .scalar none }

/-- `Schema::parse_and_validate`: built_in_types.graphql first (introspection types, then the
    built-in scalars — the unused ones are removed by `validate_schema`), then the document's own
    definitions in source order; directive definitions: the four built-in ones, then the document's -/
def apolloSchema (user : ISchema) : ISchema :=
  let dirs := builtinDirectives ++ user.directives
  let used := referencedNames (introspectionTypes ++ user.types) dirs
  { user with
    types := introspectionTypes ++ (ExecSchema.builtinScalars.filter used.contains).map scalarT ++ user.types,
    directives := dirs }

end Apollo.Introspection
