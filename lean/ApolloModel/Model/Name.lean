/-
Model of `Name::is_valid_syntax` (crates/apollo-compiler/src/name.rs) over `List Char`.
The Rust code inspects bytes; every byte of a non-ASCII character is ≥ 0x80 and hence neither a name
start nor a name continue, so the char-level predicate is equivalent (exercised by the
correspondence streams with non-ASCII characters in the alphabet).
-/
namespace Apollo

def isAsciiAlpha (c : Char) : Bool := ('a' ≤ c && c ≤ 'z') || ('A' ≤ c && c ≤ 'Z')
def isAsciiDigit (c : Char) : Bool := '0' ≤ c && c ≤ '9'
def isNameStart (c : Char) : Bool := isAsciiAlpha c || c == '_'
def isNameContinue (c : Char) : Bool := isAsciiAlpha c || isAsciiDigit c || c == '_'

/-- `Name::is_valid_syntax` -/
def isValidName : List Char → Bool
  | [] => false
  | c :: cs => isNameStart c && cs.all isNameContinue

end Apollo
