import ApolloModel.Model.Standalone
/-
C14 growth: directive applications in a schema document.  `validate_directives`
(crates/apollo-compiler/src/validation/directive.rs) is ONE function for executable and type-system
locations; its model is `Standalone.dirDiags` (Model/Standalone.lean, property C20).  Here it is
instantiated with a schema (`Some(schema)`: only the directive-definition table matters) and a
type-system location.  Argument *value* typing is not part of this model.
Also: the duplicate loop of `validate_argument_definitions` (validation/input_object.rs, `UniqueInputValue`).
-/
namespace Apollo.DirApps
open Apollo.Standalone

/-- the eleven type-system locations, in the order of `ast::DirectiveLocation` -/
inductive TsLoc where
  | schema | scalar | object | fieldDefinition | argumentDefinition | interface | union | enum | enumValue
  | inputObject | inputFieldDefinition
  deriving DecidableEq, Repr, Inhabited

def TsLoc.index : TsLoc → Nat
  | .schema => 0 | .scalar => 1 | .object => 2 | .fieldDefinition => 3 | .argumentDefinition => 4
  | .interface => 5 | .union => 6 | .enum => 7 | .enumValue => 8 | .inputObject => 9 | .inputFieldDefinition => 10

def TsLoc.loc (l : TsLoc) : Loc := .typeSystem l.index

/-- what `validate_directives` reads from the schema: the directive definitions -/
def view (dirDef : Name → Option DirDef) : Schema :=
  { root := fun _ => none, kind := fun _ => none, field := fun _ _ => none, dirDef := dirDef, extra := fun _ => [] }

/-- irrelevant when a schema is given (`s.isSome`) -/
def anyParams : Params := ⟨true, fun _ => []⟩

/-- `validate_directives(diagnostics, Some(schema), dirs, location, &[])` -/
def schemaDirDiags (dirDef : Name → Option DirDef) (loc : Loc) (dirs : List Dir) : List Diag :=
  dirDiags anyParams (some (view dirDef)) loc dirs

/-- the `seen` loop of `validate_argument_definitions`: one `UniqueInputValue` per repeated name -/
def argDefDups : List Name → List Name → Nat
  | _, [] => 0
  | seen, n :: ns => if n ∈ seen then argDefDups seen ns + 1 else argDefDups (n :: seen) ns

end Apollo.DirApps
