/-
Model of executable validation with and without a schema (property C20), transliterated from
  crates/apollo-compiler/src/executable/from_ast.rs   (document_from_ast, Operation/Fragment::from_ast, extend_from_ast)
  crates/apollo-compiler/src/executable/validation.rs (validate_with_or_without_schema, validate_standalone_executable)
  crates/apollo-compiler/src/validation/{operation,variable,selection,field,fragment,directive,argument}.rs
The observable is the list of diagnostic *kinds* (the names `unstable_error_name` prints).

What the schema contributes is a "view": root operation types, the kind of every type, the field table
(`Schema::type_field`), the directive definitions.  Rules that need full types (values of correct type,
variable usage allowed, possible fragment spreads, field merging, subscription rules) never influence the
traversal; they are the opaque `extra` of the view.  The `@defer` rules take no schema argument in the
Rust (`validate_defer(document, errors)`) and are the opaque `defer` parameter.
Not modelled: the recursion limits (100 fragments / 500 nesting levels) — generated inputs stay below them.
-/
namespace Apollo.Standalone

abbrev Name := Nat

inductive Value where
  | var (n : Name)
  | bool (b : Bool)
  | str (s : Nat)
  | null
  | other (vars : List Name)   -- any other value; `vars` = the variables occurring inside it
  deriving DecidableEq, Repr

structure Arg where
  name : Name
  value : Value
  deriving DecidableEq, Repr

structure Dir where
  name : Name
  args : List Arg
  deriving DecidableEq, Repr

inductive Loc where
  | query | mutation | subscription | field | fragmentDefinition | fragmentSpread | inlineFragment
  | variableDefinition
  | typeSystem (n : Nat)
  deriving DecidableEq, Repr

inductive OpType where
  | query | mutation | subscription
  deriving DecidableEq, Repr

def OpType.loc : OpType → Loc
  | .query => .query
  | .mutation => .mutation
  | .subscription => .subscription

/-- a selection set (cons-list with the three kinds of selection) -/
inductive Sels where
  | nil
  | field (name : Name) (dirs : List Dir) (args : List Arg) (sub : Sels) (rest : Sels)
  | spread (frag : Name) (dirs : List Dir) (rest : Sels)
  | inline (tc : Option Name) (dirs : List Dir) (sub : Sels) (rest : Sels)
  deriving DecidableEq, Repr

def Sels.isNil : Sels → Bool
  | .nil => true
  | _ => false

structure VarDef where
  name : Name
  ty : Name          -- inner named type
  dirs : List Dir
  deriving DecidableEq, Repr

structure Op where
  ty : OpType
  name : Option Name
  vars : List VarDef
  dirs : List Dir
  sels : Sels
  deriving DecidableEq, Repr

structure Frag where
  name : Name
  tc : Name
  dirs : List Dir
  sels : Sels
  deriving DecidableEq, Repr

inductive Def where
  | op (o : Op)
  | frag (f : Frag)
  | typeSystem
  deriving DecidableEq, Repr

abbrev Ast := List Def

/-- diagnostic kinds -/
inductive Diag where
  -- reported whether or not there is a schema
  | ambiguousAnonymousOperation | operationNameCollision | fragmentNameCollision | typeSystemDefinition
  | uniqueArgument | uniqueVariable | unusedVariable | undefinedFragment | recursiveFragmentDefinition
  | unusedFragment
  | defer (n : Nat)
  -- directive rules
  | undefinedDirective | uniqueDirective | unsupportedLocation | undefinedArgument | requiredArgument
  -- need the schema
  | undefinedRootOperation | undefinedTypeInNamedFragmentTypeCondition | undefinedTypeInInlineFragmentTypeCondition
  | undefinedField | subselectionOnLeaf | missingSubselection | invalidFragmentTarget | variableInputType
  | undefinedDefinition
  | schemaOnly (n : Nat)
  | outOfFuel
  deriving DecidableEq, Repr

/-- The classes the property lists: problems that are errors under every possible schema. -/
def Diag.universal : Diag → Bool
  | .ambiguousAnonymousOperation | .operationNameCollision | .fragmentNameCollision | .typeSystemDefinition
  | .uniqueArgument | .uniqueVariable | .unusedVariable | .undefinedFragment | .recursiveFragmentDefinition
  | .unusedFragment | .defer _ => true
  | _ => false

inductive Kind where
  | composite | leaf | input
  deriving DecidableEq, Repr

structure ArgDef where
  name : Name
  required : Bool
  deriving DecidableEq, Repr

structure DirDef where
  repeatable : Bool
  locs : List Loc
  args : List ArgDef

structure FieldDef where
  ty : Name
  args : List ArgDef

/-- the executable document built by `document_from_ast` -/
structure BuiltDoc where
  anon : Option Op := none
  named : List Op := []
  frags : List Frag := []

def BuiltDoc.ops (d : BuiltDoc) : List Op := d.anon.toList ++ d.named

def BuiltDoc.findFrag (d : BuiltDoc) (n : Name) : Option Frag := d.frags.find? (fun f => f.name == n)

/-- what validation reads from a (valid) schema -/
structure Schema where
  root : OpType → Option Name
  kind : Name → Option Kind
  field : Name → Name → Option FieldDef      -- `Schema::type_field(parent, name)`
  dirDef : Name → Option DirDef
  extra : BuiltDoc → List Nat                 -- diagnostics of the typed rules that are not modelled

/-- Parameters of the model that are read off the code. -/
structure Params where
  /-- `validate_directives` pushes `UndefinedDirective` when `schema` is `None` (the `else` branch of
      `if let Some((schema, directive_definition)) = directive_definition`) -/
  undefinedDirectiveWithoutSchema : Bool
  /-- `validate_defer`: takes the document only -/
  defer : BuiltDoc → List Nat

/-! ### from_ast -/

def buildSels (s : Option Schema) : Name → Sels → Sels × List Diag
  | _, .nil => (.nil, [])
  | parent, .field name dirs args sub rest =>
    let r := buildSels s parent rest
    match s with
    | none =>
      let b := buildSels s parent sub
      (.field name dirs args b.1 r.1, b.2 ++ r.2)
    | some sc =>
      match sc.field parent name with
      | none => (r.1, .undefinedField :: r.2)
      | some fd =>
        if !sub.isNil && sc.kind fd.ty == some .leaf then (r.1, .subselectionOnLeaf :: r.2)
        else
          let b := buildSels s fd.ty sub
          (.field name dirs args b.1 r.1, b.2 ++ r.2)
  | parent, .spread f dirs rest =>
    let r := buildSels s parent rest
    (.spread f dirs r.1, r.2)
  | parent, .inline tc dirs sub rest =>
    let r := buildSels s parent rest
    match tc, s with
    | some t, some sc =>
      if (sc.kind t).isNone then (r.1, .undefinedTypeInInlineFragmentTypeCondition :: r.2)
      else
        let b := buildSels s t sub
        (.inline tc dirs b.1 r.1, b.2 ++ r.2)
    | _, _ =>
      let b := buildSels s (tc.getD parent) sub
      (.inline tc dirs b.1 r.1, b.2 ++ r.2)

/-- `Operation::from_ast`: `none` when the schema has no such root operation -/
def buildOp (s : Option Schema) (o : Op) : Option (Op × List Diag) :=
  match s with
  | none => let b := buildSels none 0 o.sels; some ({ o with sels := b.1 }, b.2)
  | some sc =>
    match sc.root o.ty with
    | none => none
    | some t => let b := buildSels s t o.sels; some ({ o with sels := b.1 }, b.2)

structure BuildState where
  doc : BuiltDoc := {}
  multipleAnonymous : Bool := false
  diags : List Diag := []

def buildDef (s : Option Schema) (st : BuildState) : Def → BuildState
  | .op o =>
    match o.name with
    | some n =>
      let d1 : List Diag := if st.doc.anon.isSome then [.ambiguousAnonymousOperation] else []
      if st.doc.named.any (fun p => p.name == some n) then
        { st with diags := st.diags ++ d1 ++ [.operationNameCollision] }
      else
        match buildOp s o with
        | some (o', ds) =>
          { st with doc := { st.doc with named := st.doc.named ++ [o'] }, diags := st.diags ++ d1 ++ ds }
        | none => { st with diags := st.diags ++ d1 ++ [.undefinedRootOperation] }
    | none =>
      if st.doc.anon.isSome then
        let d1 : List Diag := if st.multipleAnonymous then [] else [.ambiguousAnonymousOperation]
        { st with multipleAnonymous := true, diags := st.diags ++ d1 ++ [.ambiguousAnonymousOperation] }
      else if !st.doc.named.isEmpty then
        { st with diags := st.diags ++ [.ambiguousAnonymousOperation] }
      else
        match buildOp s o with
        | some (o', ds) => { st with doc := { st.doc with anon := some o' }, diags := st.diags ++ ds }
        | none => { st with diags := st.diags ++ [.undefinedRootOperation] }
  | .frag f =>
    if st.doc.frags.any (fun g => g.name == f.name) then
      { st with diags := st.diags ++ [.fragmentNameCollision] }
    else
      match s with
      | some sc =>
        if (sc.kind f.tc).isNone then
          { st with diags := st.diags ++ [.undefinedTypeInNamedFragmentTypeCondition] }
        else
          let b := buildSels s f.tc f.sels
          { st with doc := { st.doc with frags := st.doc.frags ++ [{ f with sels := b.1 }] }, diags := st.diags ++ b.2 }
      | none =>
        let b := buildSels s f.tc f.sels
        { st with doc := { st.doc with frags := st.doc.frags ++ [{ f with sels := b.1 }] }, diags := st.diags ++ b.2 }
  | .typeSystem => { st with diags := st.diags ++ [.typeSystemDefinition] }

def build (s : Option Schema) (ast : Ast) : BuildState := ast.foldl (buildDef s) {}

/-! ### arguments and directives -/

/-- `validate_arguments` -/
def uniqueArgs : List Name → List Arg → List Diag
  | _, [] => []
  | seen, a :: as =>
    if a.name ∈ seen then .uniqueArgument :: uniqueArgs seen as else uniqueArgs (a.name :: seen) as

def Value.isNull : Value → Bool
  | .null => true
  | _ => false

def undefinedArgs (defs : List ArgDef) (args : List Arg) : List Diag :=
  (args.filter (fun a => !defs.any (fun d => d.name == a.name))).map (fun _ => .undefinedArgument)

def requiredArgs (defs : List ArgDef) (args : List Arg) : List Diag :=
  (defs.filter (fun d =>
      d.required && (match args.find? (fun a => a.name == d.name) with
                     | none => true
                     | some a => a.value.isNull))).map (fun _ => .requiredArgument)

/-- `validate_directives`, one location, the directives in order; `seen` = `seen_directives` -/
def dirDiagsAux (p : Params) (s : Option Schema) (loc : Loc) : List Name → List Dir → List Diag
  | _, [] => []
  | seen, d :: ds =>
    let dd := s.bind (fun sc => sc.dirDef d.name)
    let a := uniqueArgs [] d.args
    let b : List Diag :=
      if d.name ∈ seen then
        (if (dd.map (·.repeatable)).getD true then [] else [.uniqueDirective])
      else []
    let seen' := if d.name ∈ seen then seen else d.name :: seen
    let c : List Diag :=
      match dd with
      | some df =>
        (if loc ∈ df.locs then [] else [.unsupportedLocation]) ++ undefinedArgs df.args d.args ++ requiredArgs df.args d.args
      | none =>
        if s.isSome || p.undefinedDirectiveWithoutSchema then [.undefinedDirective] else []
    a ++ b ++ c ++ dirDiagsAux p s loc seen' ds

def dirDiags (p : Params) (s : Option Schema) (loc : Loc) (dirs : List Dir) : List Diag :=
  dirDiagsAux p s loc [] dirs

/-! ### walks that enter each named fragment once -/

/-- names of all fragment spreads reachable (`walk_selections_with_deduped_fragments`, `detect_fragment_cycles`):
    `enter f seen` continues inside fragment `f` -/
def reachSels (enter : Name → List Name → List Name) : Sels → List Name → List Name
  | .nil, seen => seen
  | .field _ _ _ sub rest, seen => reachSels enter rest (reachSels enter sub seen)
  | .spread f _ rest, seen => reachSels enter rest (if f ∈ seen then seen else enter f (f :: seen))
  | .inline _ _ sub rest, seen => reachSels enter rest (reachSels enter sub seen)

def reachFrag (doc : BuiltDoc) : Nat → Name → List Name → List Name
  | 0, _, seen => seen
  | n + 1, f, seen =>
    match doc.findFrag f with
    | some d => reachSels (reachFrag doc n) d.sels seen
    | none => seen

def reach (doc : BuiltDoc) (sels : Sels) : List Name :=
  reachSels (reachFrag doc doc.frags.length) sels []

/-! ### variables -/

def varsValue : Value → List Name
  | .var n => [n]
  | .other vs => vs
  | _ => []

def varsArgs (as : List Arg) : List Name := as.flatMap (fun a => varsValue a.value)
def varsDirs (ds : List Dir) : List Name := ds.flatMap (fun d => varsArgs d.args)

def varsSels : Sels → List Name
  | .nil => []
  | .field _ dirs args sub rest => varsDirs dirs ++ varsArgs args ++ varsSels sub ++ varsSels rest
  | .spread _ dirs rest => varsDirs dirs ++ varsSels rest
  | .inline _ dirs sub rest => varsDirs dirs ++ varsSels sub ++ varsSels rest

def usedVars (doc : BuiltDoc) (o : Op) : List Name :=
  varsDirs o.dirs ++ varsSels o.sels ++
    (reach doc o.sels).flatMap (fun f =>
      match doc.findFrag f with
      | some d => varsDirs d.dirs ++ varsSels d.sels
      | none => [])

/-- `validate_unused_variables`: one diagnostic per distinct unused name -/
def unusedVarDiags (doc : BuiltDoc) (o : Op) : List Diag :=
  (((o.vars.map (·.name)).eraseDups).filter (fun v => !(usedVars doc o).contains v)).map (fun _ => .unusedVariable)

/-- `validate_variable_definitions` -/
def varDefDiags (p : Params) (s : Option Schema) : List Name → List VarDef → List Diag
  | _, [] => []
  | seen, v :: vs =>
    let a := dirDiags p s .variableDefinition v.dirs
    let b : List Diag :=
      match s with
      | some sc =>
        (match sc.kind v.ty with
         | some .composite => [.variableInputType]
         | some _ => []
         | none => [.undefinedDefinition])
      | none => []
    let c : List Diag := if v.name ∈ seen then [.uniqueVariable] else []
    a ++ b ++ c ++ varDefDiags p s (if v.name ∈ seen then seen else v.name :: seen) vs

/-! ### selection sets, fragment definitions -/

/-- `validate_selection_set` with `validate_field`, `validate_fragment_spread`, `validate_inline_fragment`;
    the state is `validated_fragments`; `enter f V` is `validate_fragment_definition` -/
def walkSels (p : Params) (s : Option Schema) (doc : BuiltDoc)
    (enter : Frag → List Name → List Diag × List Name) :
    Option Name → Sels → List Name → List Diag × List Name
  | _, .nil, V => ([], V)
  | ty, .field name dirs args sub rest, V =>
    let d1 := dirDiags p s .field dirs ++ uniqueArgs [] args
    let r : List Diag × List Name :=
      match s, ty with
      | some sc, some t =>
        (match sc.field t name with
         | some fd =>
           let d2 := undefinedArgs fd.args args ++ requiredArgs fd.args args
           if sub.isNil && sc.kind fd.ty == some .composite then (d2 ++ [.missingSubselection], V)
           else
             let r3 := walkSels p s doc enter (some fd.ty) sub V
             (d2 ++ r3.1, r3.2)
         | none => ([], V))
      | _, _ => walkSels p s doc enter none sub V
    let r4 := walkSels p s doc enter ty rest r.2
    (d1 ++ r.1 ++ r4.1, r4.2)
  | ty, .spread f dirs rest, V =>
    let d1 := dirDiags p s .fragmentSpread dirs
    let r : List Diag × List Name :=
      match doc.findFrag f with
      | some d => if f ∈ V then ([], V) else enter d (f :: V)
      | none => ([.undefinedFragment], V)
    let r4 := walkSels p s doc enter ty rest r.2
    (d1 ++ r.1 ++ r4.1, r4.2)
  | ty, .inline tc dirs sub rest, V =>
    let d1 := dirDiags p s .inlineFragment dirs
    let tcd : List Diag :=
      match s, tc with
      | some sc, some t => if sc.kind t == some .composite then [] else [.invalidFragmentTarget]
      | _, _ => []
    let r : List Diag × List Name :=
      if tcd.isEmpty then
        walkSels p s doc enter (match s, tc with | some _, some t => some t | _, _ => ty) sub V
      else ([], V)
    let r4 := walkSels p s doc enter ty rest r.2
    (d1 ++ tcd ++ r.1 ++ r4.1, r4.2)

def fragTy (s : Option Schema) (f : Frag) : Option Name :=
  s.bind (fun sc => if (sc.kind f.tc).isSome then some f.tc else none)

/-- `validate_fragment_definition` (fuel = number of fragments that may still be entered) -/
def enterFrag (p : Params) (s : Option Schema) (doc : BuiltDoc) : Nat → Frag → List Name → List Diag × List Name
  | 0, _, V => ([.outOfFuel], V)
  | n + 1, f, V =>
    let d1 := dirDiags p s .fragmentDefinition f.dirs
    let tcd : List Diag :=
      match s with
      | some sc => if sc.kind f.tc == some .composite then [] else [.invalidFragmentTarget]
      | none => []
    let cyc : List Diag := if f.name ∈ reach doc f.sels then [.recursiveFragmentDefinition] else []
    if tcd.isEmpty && cyc.isEmpty then
      let r := walkSels p s doc (enterFrag p s doc n) (fragTy s f) f.sels V
      (d1 ++ r.1, r.2)
    else (d1 ++ tcd ++ cyc, V)

/-- `validate_operation` -/
def validateOp (p : Params) (s : Option Schema) (doc : BuiltDoc) (o : Op) : List Diag :=
  dirDiags p s o.ty.loc o.dirs ++ varDefDiags p s [] o.vars ++ unusedVarDiags doc o ++
    (walkSels p s doc (enterFrag p s doc doc.frags.length) (s.bind (fun sc => sc.root o.ty)) o.sels []).1

/-- `validate_fragments_used` -/
def fragmentsUsed (doc : BuiltDoc) : List Diag :=
  let used := doc.ops.flatMap (fun o => reach doc o.sels)
  (doc.frags.filter (fun f => !used.contains f.name)).map (fun _ => .unusedFragment)

/-- `validate_with_or_without_schema` on the built document -/
def validateBuilt (p : Params) (s : Option Schema) (doc : BuiltDoc) : List Diag :=
  doc.ops.flatMap (validateOp p s doc) ++ fragmentsUsed doc ++ (p.defer doc).map .defer

/-- `Document::validate_standalone_executable` (`s = none`) and
    `ExecutableDocument::parse_and_validate` / `to_executable_validate` (`s = some schema`) -/
def validate (p : Params) (s : Option Schema) (ast : Ast) : List Diag :=
  let b := build s ast
  b.diags ++ validateBuilt p s b.doc ++
    (match s with
     | some sc => (sc.extra b.doc).map .schemaOnly
     | none => [])

/-- the code before fix 7c4ccc3: `UndefinedDirective` for every directive when there is no schema
    (kept as a regression witness) -/
def unpatchedParams (defer : BuiltDoc → List Nat) : Params :=
  { undefinedDirectiveWithoutSchema := true, defer := defer }

/-- the code since fix 7c4ccc3 (`else if schema.is_some()` in `validate_directives`):
    no `UndefinedDirective` without a schema -/
def patchedParams (defer : BuiltDoc → List Nat) : Params :=
  { undefinedDirectiveWithoutSchema := false, defer := defer }

/-- The code as it is in /repo now; this is what the driver runs, so the correspondence stream
    `c20.standalone` decides which of the two it is (`current_code_is` in Properties/C20.lean). -/
def currentParams (defer : BuiltDoc → List Nat) : Params := patchedParams defer

/-! ### printing (driver) -/

def Diag.name : Diag → String
  | .ambiguousAnonymousOperation => "AmbiguousAnonymousOperation"
  | .operationNameCollision => "OperationNameCollision"
  | .fragmentNameCollision => "FragmentNameCollision"
  | .typeSystemDefinition => "TypeSystemDefinition"
  | .uniqueArgument => "UniqueArgument"
  | .uniqueVariable => "UniqueVariable"
  | .unusedVariable => "UnusedVariable"
  | .undefinedFragment => "UndefinedFragment"
  | .recursiveFragmentDefinition => "RecursiveFragmentDefinition"
  | .unusedFragment => "UnusedFragment"
  | .defer n => s!"Defer{n}"
  | .undefinedDirective => "UndefinedDirective"
  | .uniqueDirective => "UniqueDirective"
  | .unsupportedLocation => "UnsupportedLocation"
  | .undefinedArgument => "UndefinedArgument"
  | .requiredArgument => "RequiredArgument"
  | .undefinedRootOperation => "UndefinedRootOperation"
  | .undefinedTypeInNamedFragmentTypeCondition => "UndefinedTypeInNamedFragmentTypeCondition"
  | .undefinedTypeInInlineFragmentTypeCondition => "UndefinedTypeInInlineFragmentTypeCondition"
  | .undefinedField => "UndefinedField"
  | .subselectionOnLeaf => "SubselectionOnLeaf"
  | .missingSubselection => "MissingSubselection"
  | .invalidFragmentTarget => "InvalidFragmentTarget"
  | .variableInputType => "VariableInputType"
  | .undefinedDefinition => "UndefinedDefinition"
  | .schemaOnly n => s!"SchemaOnly{n}"
  | .outOfFuel => "OutOfFuel"

def verdict (ds : List Diag) : String :=
  if ds.isEmpty then "ok"
  else ",".intercalate ((ds.map Diag.name).mergeSort (fun a b => decide (a ≤ b)))

end Apollo.Standalone
