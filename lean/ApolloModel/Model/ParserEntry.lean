import ApolloModel.Model.Grammar
/-
Entry points: `Parser::parse`, `Parser::parse_selection_set`, `Parser::parse_type`
(parser/mod.rs) — run the grammar, then `GreenNodeBuilder::finish()`.
-/
namespace Apollo.Parse
open Apollo.Rowan hiding Str
open Apollo.Lex hiding Str

def initState (src : Str) (tokenLimit : Option Nat) (recLimit : Nat) : PState :=
  { lx := { src := src, pos := 0, idx := 0, total := utf8Len src, cur := 0, high := 0, limit := tokenLimit, finished := false },
    current := none, builder := Builder.new, pending := [], errors := [],
    recCur := 0, recHigh := 0, recLimit := recLimit, acceptErrors := true,
    original := src, dropped := false, deadBranch := false }

inductive Outcome where
  | tree (root : Elem)
  | panic (msg : String)
  | abort (why : Abort)
  deriving Inhabited

structure PResult where
  outcome : Outcome
  errors : List PErr
  recHigh : Nat
  tokHigh : Nat
  dropped : Bool
  deadBranch : Bool
  deriving Inhabited

def fuelFor (src : Str) : Nat := 4 * src.length + 20

inductive Entry where
  | document | selectionSet | type
  deriving Repr, DecidableEq

def Entry.grammar (e : Entry) (fuel : Nat) : PI Unit :=
  match e with
  | .document => Parse.document fuel
  | .selectionSet => fieldSet fuel
  | .type => ty fuel

def runEntry (m : PI Unit) (s0 : PState) : PResult :=
  match m.run s0 with
  | .ok _ s =>
    { outcome := match s.builder.finish with
        | some root => .tree root
        | none => .panic "GreenNodeBuilder::finish: not exactly one root node",
      errors := s.errors, recHigh := s.recHigh, tokHigh := s.lx.high, dropped := s.dropped, deadBranch := s.deadBranch }
  | .abort w => { outcome := .abort w, errors := [], recHigh := 0, tokHigh := 0, dropped := false, deadBranch := false }
  | .panic msg => { outcome := .panic msg, errors := [], recHigh := 0, tokHigh := 0, dropped := false, deadBranch := false }

def parse (e : Entry) (tokenLimit : Option Nat) (recLimit : Nat) (src : Str) : PResult :=
  runEntry (e.grammar (fuelFor src)) (initState src tokenLimit recLimit)

/-- `DEFAULT_RECURSION_LIMIT` (parser/mod.rs) — checked against the source by the translator -/
def defaultRecursionLimit : Nat := 500

end Apollo.Parse
