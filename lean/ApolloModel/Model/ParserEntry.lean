import ApolloModel.Model.Grammar
/-
Entry points: `Parser::parse`, `Parser::parse_selection_set`, `Parser::parse_type`
(parser/mod.rs) — run the grammar, then `GreenNodeBuilder::finish()`.
-/
namespace Apollo.Parse
open Apollo.Rowan hiding Str
open Apollo.Lex hiding Str

def initState (src : Str) (tokenLimit : Option Nat) (recLimit : Nat) : PState :=
  { lx := { src := src, pos := 0, idx := 0, total := utf8Len src, cur := 0, high := 0, limit := tokenLimit, finished := false },
    current := none, builder := Builder.new, pending := [], errors := [],
    recCur := 0, recHigh := 0, recLimit := recLimit, acceptErrors := true,
    original := src, dropped := false, deadBranch := false }

inductive Outcome where
  | tree (root : Elem)
  | panic (msg : String)
  | abort (why : Abort)
  deriving Inhabited

structure PResult where
  outcome : Outcome
  errors : List PErr
  recHigh : Nat
  tokHigh : Nat
  dropped : Bool
  deadBranch : Bool
  /-- input the parser never consumed: the current token and everything not yet lexed -/
  leftover : Str
  /-- ignored tokens / error fragments queued but not attached to the tree -/
  pendingText : Str
  deriving Inhabited

def fuelFor (src : Str) : Nat := 4 * src.length + 20

inductive Entry where
  | document | selectionSet | type
  deriving Repr, DecidableEq

def errUnlessEnd (k : Option Kind) : PI Unit := if k == none || k == some .eof then pure () else err

/-- `Parser::expect_end_of_input`: the standalone entry points report any token left over -/
def expectEndOfInput : PI Unit := skipIgnored >>= fun _ => peek >>= fun k => errUnlessEnd k

def Entry.grammar (e : Entry) (fuel : Nat) : PI Unit :=
  match e with
  | .document => Parse.document fuel
  | .selectionSet => fieldSet fuel >>= fun _ => expectEndOfInput
  | .type => ty fuel >>= fun _ => expectEndOfInput

/-- `SyntaxTreeBuilder::finish_standalone`: close the temporary root; if it holds exactly one node of
    an expected kind, that node is the tree, otherwise the temporary root stays (single root always). -/
def finishStandalone (b : Builder) (expected : List SK) : Option Elem :=
  match b.finishNode with
  | none => none
  | some b' =>
    match b'.finish with
    | some (.node k [.node k' cs']) => if k' ∈ expected then some (.node k' cs') else some (.node k [.node k' cs'])
    | other => other

/-- which temporary root the entry point opens (`start_standalone`), and the kinds it unwraps -/
def Entry.standalone : Entry → Option (SK × List SK)
  | .document => none
  | .selectionSet => some ("SELECTION_SET", ["SELECTION_SET"])
  | .type => some ("NAMED_TYPE", ["NAMED_TYPE", "LIST_TYPE", "NON_NULL_TYPE"])

def runEntry (e : Entry) (fuel : Nat) (s0 : PState) : PResult :=
  let s0 := match e.standalone with
    | some (k, _) => { s0 with builder := s0.builder.startNode k }
    | none => s0
  match (e.grammar fuel).run s0 with
  | .ok _ s =>
    { outcome := match (match e.standalone with
                        | some (_, expected) => finishStandalone s.builder expected
                        | none => s.builder.finish) with
        | some root => .tree root
        | none => .panic "GreenNodeBuilder::finish: not exactly one root node",
      errors := s.errors, recHigh := s.recHigh, tokHigh := s.lx.high, dropped := s.dropped, deadBranch := s.deadBranch,
      leftover := curText s.current ++ s.lx.src, pendingText := pendingText s.pending }
  | .abort w => { outcome := .abort w, errors := [], recHigh := 0, tokHigh := 0, dropped := false, deadBranch := false, leftover := [], pendingText := [] }
  | .panic msg => { outcome := .panic msg, errors := [], recHigh := 0, tokHigh := 0, dropped := false, deadBranch := false, leftover := [], pendingText := [] }

def parse (e : Entry) (tokenLimit : Option Nat) (recLimit : Nat) (src : Str) : PResult :=
  runEntry e (fuelFor src) (initState src tokenLimit recLimit)

/-- `DEFAULT_RECURSION_LIMIT` (parser/mod.rs) — checked against the source by the translator -/
def defaultRecursionLimit : Nat := 500

end Apollo.Parse
