import ApolloModel.Model.Standalone
import ApolloModel.Model.VariableUsage
/-
Executable validation, the TYPED rules that Model/Standalone.lean (C20, C18) leaves opaque (`extra`),
on a document representation that keeps what they read: full types of variables and of argument /
input-field positions, default values, the shape of argument values, and which object types a
composite type can be at runtime.

Transliterated from crates/apollo-compiler/src/validation/
  field.rs      `validate_field`: per argument `validate_variable_usage`, then `validate_values`
  directive.rs  `validate_directives`: the same two calls per directive argument
  variable.rs   `validate_variable_usage`, `is_variable_usage_allowed` (Model/VariableUsage.lean, C29)
  value.rs      `value_of_correct_type` as far as it meets variables: the `Variable` arm
                (UndefinedVariable; inside lists / input objects only the NAMED type is compared —
                known finding), the descent through lists, input objects and custom-scalar literals
  fragment.rs   `validate_fragment_spread_type` / `get_possible_types` (InvalidFragmentSpread),
                `validate_fragment_spread` / `validate_fragment_definition` / `validate_inline_fragment`
                (which selection sets are walked, per operation: `validated_fragments`)
The structural rules (names, uniqueness, existence, leaf selections, unused variables / fragments,
cycles, directives) are `Standalone.validate` on the erased document (`erase`), not repeated here.
-/
namespace Apollo.ExecRules
open Apollo Apollo.Spec
open Apollo.Standalone (OpType Loc)

/-! ### schema view -/

structure InDef where
  name : String
  ty : Ty
  hasDefault : Bool
  deriving Inhabited

/-- `InputValueDefinition::is_required` -/
def InDef.required (d : InDef) : Bool := d.ty.isNonNull && !d.hasDefault

structure RFieldDef where
  args : List InDef
  ty : Ty
  deriving Inhabited

inductive TKind where
  | scalar (builtin : Bool)
  | enum
  | inputObject (fields : List InDef)
  | object (implements : List String)
  | interface (implements : List String)
  | union (members : List String)
  deriving Inhabited

def TKind.isComposite : TKind → Bool
  | .object _ | .interface _ | .union _ => true
  | _ => false

def TKind.isInput : TKind → Bool
  | .scalar _ | .enum | .inputObject _ => true
  | _ => false

def TKind.isLeaf : TKind → Bool
  | .scalar _ | .enum => true
  | _ => false

structure TypeInfo where
  name : String
  kind : TKind
  /-- explicit fields (object and interface types) -/
  fields : List (String × RFieldDef)
  deriving Inhabited

structure RDirDef where
  name : String
  repeatable : Bool
  locs : List Loc
  args : List InDef

structure RSchema where
  types : List TypeInfo
  query : Option String
  mutation : Option String
  subscription : Option String
  dirs : List RDirDef

def RSchema.typeInfo? (s : RSchema) (n : String) : Option TypeInfo := s.types.find? (·.name == n)

def builtinScalarNames : List String := ["Int", "Float", "String", "Boolean", "ID"]

/-- `schema.types.get(name)`, with value.rs's fallback to the built-in scalar definitions -/
def RSchema.kindForValue (s : RSchema) (n : String) : Option TKind :=
  match s.typeInfo? n with
  | some t => some t.kind
  | none => if builtinScalarNames.contains n then some (.scalar true) else none

def RSchema.root (s : RSchema) : OpType → Option String
  | .query => s.query
  | .mutation => s.mutation
  | .subscription => s.subscription

/-- `Schema::type_field` with the meta-fields -/
def RSchema.field (s : RSchema) (parent fname : String) : Option RFieldDef :=
  match s.typeInfo? parent with
  | none => none
  | some t =>
    match t.fields.find? (·.1 == fname) with
    | some (_, fd) => some fd
    | none =>
      if fname == "__typename" && t.kind.isComposite then some { args := [], ty := .nonNullNamed "String" }
      else if s.query == some parent && fname == "__schema" then some { args := [], ty := .nonNullNamed "__Schema" }
      else if s.query == some parent && fname == "__type" then
        some { args := [{ name := "name", ty := .nonNullNamed "String", hasDefault := false }], ty := .named "__Type" }
      else none

/-- `get_possible_types` -/
def RSchema.possibleTypes (s : RSchema) (n : String) : List String :=
  match s.typeInfo? n with
  | some { kind := .object _, .. } => [n]
  | some { kind := .interface _, .. } =>
    s.types.filterMap fun t => match t.kind with
      | .object impls => if impls.contains n then some t.name else none
      | _ => none
  | some { kind := .union ms, .. } => ms
  | _ => []

/-! ### documents -/

/-- an argument value, as far as the variable rules look at it -/
inductive RVal where
  | var (n : String)
  | null
  /-- Int, Float, String, Boolean or Enum literal -/
  | lit
  | list (items : List RVal)
  | obj (fields : List (String × RVal))
  deriving Inhabited

structure RArg where
  name : String
  value : RVal
  deriving Inhabited

structure RDir where
  name : String
  args : List RArg
  deriving Inhabited

inductive RSels where
  | nil
  | field (name : String) (dirs : List RDir) (args : List RArg) (sub : RSels) (rest : RSels)
  | spread (frag : String) (dirs : List RDir) (rest : RSels)
  | inline (tc : Option String) (dirs : List RDir) (sub : RSels) (rest : RSels)
  deriving Inhabited

def RSels.isNil : RSels → Bool
  | .nil => true
  | _ => false

structure RVarDef where
  name : String
  ty : Ty
  default : DefaultValue
  dirs : List RDir

structure ROp where
  ty : OpType
  name : Option String
  vars : List RVarDef
  dirs : List RDir
  sels : RSels

structure RFrag where
  name : String
  tc : String
  dirs : List RDir
  sels : RSels

inductive RDef where
  | op (o : ROp)
  | frag (f : RFrag)
  | typeSystem

abbrev RAst := List RDef

/-! ### `document_from_ast`: which definitions and selections survive (the diagnostics of this phase are
`Standalone.build`'s) -/

def buildSels (s : RSchema) : String → RSels → RSels
  | _, .nil => .nil
  | parent, .field name dirs args sub rest =>
    let r := buildSels s parent rest
    match s.field parent name with
    | none => r
    | some fd =>
      if !sub.isNil && ((s.typeInfo? fd.ty.innerNamedType).map (·.kind.isLeaf)) == some true then r
      else .field name dirs args (buildSels s fd.ty.innerNamedType sub) r
  | parent, .spread f dirs rest => .spread f dirs (buildSels s parent rest)
  | parent, .inline tc dirs sub rest =>
    let r := buildSels s parent rest
    match tc with
    | some t => if (s.typeInfo? t).isNone then r else .inline tc dirs (buildSels s t sub) r
    | none => .inline tc dirs (buildSels s parent sub) r

structure RBuilt where
  anon : Option ROp := none
  named : List ROp := []
  frags : List RFrag := []

def RBuilt.ops (d : RBuilt) : List ROp := d.anon.toList ++ d.named
def RBuilt.findFrag (d : RBuilt) (n : String) : Option RFrag := d.frags.find? (·.name == n)

def buildDef (s : RSchema) (st : RBuilt) : RDef → RBuilt
  | .op o =>
    let built : Option ROp := (s.root o.ty).map fun t => { o with sels := buildSels s t o.sels }
    match o.name with
    | some n =>
      if st.named.any (fun p => p.name == some n) then st
      else match built with
        | some o' => { st with named := st.named ++ [o'] }
        | none => st
    | none =>
      if st.anon.isSome || !st.named.isEmpty then st
      else match built with
        | some o' => { st with anon := some o' }
        | none => st
  | .frag f =>
    if st.frags.any (fun g => g.name == f.name) then st
    else if (s.typeInfo? f.tc).isNone then st
    else { st with frags := st.frags ++ [{ f with sels := buildSels s f.tc f.sels }] }
  | .typeSystem => st

def build (s : RSchema) (ast : RAst) : RBuilt := ast.foldl (buildDef s) {}

/-! ### the typed diagnostics -/

inductive TDiag where
  | undefinedVariable (n : String)
  | disallowedVariableUsage (n : String)
  /-- a variable inside a list / input object whose NAMED type differs from the position's
      (`UnsupportedValueType` from the `Variable` arm of value.rs) -/
  | nestedVariableType (n : String)
  | invalidFragmentSpread
  /-- any other `value_of_correct_type` diagnostic (family "values", not modelled here) -/
  | valueShape
  deriving DecidableEq, Repr

/-- `undefined_variables_in_opaque_value` -/
def opaqueVars (vars : List RVarDef) : Nat → RVal → List TDiag
  | 0, _ => []
  | _ + 1, .var n => if vars.any (·.name == n) then [] else [.undefinedVariable n]
  | k + 1, .list xs => xs.flatMap (opaqueVars vars k)
  | k + 1, .obj kvs => kvs.flatMap fun kv => opaqueVars vars k kv.2
  | _ + 1, _ => []

/-- `ty.is_list() || custom scalar` -/
def acceptsList (ty : Ty) (kind : TKind) : Bool :=
  ty.isList || (match kind with | .scalar false => true | _ => false)

/-- `ty.item_type()` -/
def itemTy : Ty → Ty
  | .list t => t
  | .nonNullList t => t
  | t => t

/-- the `Variable` arm -/
def varValueDiags (vars : List RVarDef) (ty : Ty) (kind : TKind) (n : String) : List TDiag :=
  match vars.find? (·.name == n) with
  | some vd =>
    if kind.isInput && vd.ty.innerNamedType == ty.innerNamedType then [] else [.nestedVariableType n]
  | none => [.undefinedVariable n]

/-- the keys of an object literal given to an input object: `unique_object_fields` (a key written twice,
    `UniqueInputValue`) and the search for a key the input object does not define (`UndefinedInputValue`);
    reported as `.valueShape` (which of the two, and how often: family "values", Model/ExecValues.lean) -/
def keyDiags (fields : List InDef) (kvs : List (String × RVal)) : List TDiag :=
  if decide ((kvs.map (·.1)).Nodup) && kvs.all (fun kv => fields.any (·.name == kv.1)) then [] else [.valueShape]

/-- `value_of_correct_type`, the part that meets variables.  `fuel` = nesting of the literal. -/
def valueDiags (s : RSchema) (vars : List RVarDef) : Nat → Ty → RVal → List TDiag
  | 0, _, _ => []
  | k + 1, ty, v =>
    match s.kindForValue ty.innerNamedType with
    | none => []
    | some kind =>
      match v with
      | .var n => varValueDiags vars ty kind n
      | .null => []            -- (null at a non-null position: family "values")
      | .lit => []
      | .list xs =>
        if !acceptsList ty kind then [.valueShape]
        -- a list literal given to a (non-list) custom scalar is opaque, like an object literal
        else if !ty.isList then xs.flatMap (opaqueVars vars k)
        else if kind.isInput then xs.flatMap (valueDiags s vars k (itemTy ty))
        else [.valueShape]
      | .obj kvs =>
        (match kind with
         | .scalar false => kvs.flatMap fun kv => opaqueVars vars k kv.2
         | .inputObject fields =>
           keyDiags fields kvs ++
           fields.flatMap fun fd =>
             match kvs.find? (·.1 == fd.name) with
             | some (_, x) => valueDiags s vars k fd.ty x
             | none => []
         | _ => [.valueShape])

mutual
def RVal.depth : RVal → Nat
  | .list xs => RVal.depthList xs + 1
  | .obj kvs => RVal.depthFields kvs + 1
  | _ => 1
def RVal.depthList : List RVal → Nat
  | [] => 0
  | x :: xs => max (RVal.depth x) (RVal.depthList xs)
def RVal.depthFields : List (String × RVal) → Nat
  | [] => 0
  | (_, x) :: rest => max (RVal.depth x) (RVal.depthFields rest)
end

def varDefault (vars : List RVarDef) (n : String) : Option RVarDef := vars.find? (·.name == n)

/-- `validate_variable_usage` returns `Err`: the value is a variable the operation defines and
    `is_variable_usage_allowed` is false -/
def usageFails (vars : List RVarDef) (d : InDef) : RVal → Bool
  | .var n =>
    (match vars.find? (·.name == n) with
     | some vd => !Model.isVariableUsageAllowed vd.ty vd.default d.ty d.hasDefault
     | none => false)
  | _ => false

/-- one argument against its definition: `validate_variable_usage`, then (if it did not fail)
    `validate_values` -/
def argDiags (s : RSchema) (vars : List RVarDef) (d : InDef) (a : RArg) : List TDiag :=
  match a.value with
  | .var n =>
    if usageFails vars d (.var n) then [.disallowedVariableUsage n]
    else valueDiags s vars 2 d.ty (.var n)
  | v => valueDiags s vars (v.depth + 1) d.ty v

/-- the arguments of a field or directive whose definition is known; arguments without a definition
    are `UndefinedArgument` (structural) and not looked into -/
def argsDiags (s : RSchema) (vars : List RVarDef) (defs : List InDef) (args : List RArg) : List TDiag :=
  args.flatMap fun a =>
    match defs.find? (·.name == a.name) with
    | some d => argDiags s vars d a
    | none => []

/-- `validate_directives`: arguments of defined directives -/
def dirsDiags (s : RSchema) (vars : List RVarDef) (dirs : List RDir) : List TDiag :=
  dirs.flatMap fun d =>
    match s.dirs.find? (·.name == d.name) with
    | some dd => argsDiags s vars dd.args d.args
    | none => []

/-- `validate_fragment_spread_type` -/
def spreadDiags (s : RSchema) (against tc : String) : List TDiag :=
  if tc == against then []
  else if (s.typeInfo? tc).isNone || (s.typeInfo? against).isNone then []
  else if (s.possibleTypes against).any (s.possibleTypes tc).contains then [] else [.invalidFragmentSpread]

def isCompositeType (s : RSchema) (n : String) : Bool := ((s.typeInfo? n).map (·.kind.isComposite)) == some true

/-- names of the fragment spreads reachable from a selection set (`detect_fragment_cycles`) -/
def reachSels (enter : String → List String → List String) : RSels → List String → List String
  | .nil, seen => seen
  | .field _ _ _ sub rest, seen => reachSels enter rest (reachSels enter sub seen)
  | .spread f _ rest, seen => reachSels enter rest (if seen.contains f then seen else enter f (f :: seen))
  | .inline _ _ sub rest, seen => reachSels enter rest (reachSels enter sub seen)

def reachFrag (doc : RBuilt) : Nat → String → List String → List String
  | 0, _, seen => seen
  | n + 1, f, seen =>
    match doc.findFrag f with
    | some d => reachSels (reachFrag doc n) d.sels seen
    | none => seen

def reach (doc : RBuilt) (sels : RSels) : List String := reachSels (reachFrag doc doc.frags.length) sels []

/-- `validate_selection_set` (same walk as `Standalone.walkSels`): the typed diagnostics.
    `V` = `validated_fragments` of the operation; `enter` = `validate_fragment_definition`. -/
def walkSels (s : RSchema) (doc : RBuilt) (vars : List RVarDef)
    (enter : RFrag → List String → List TDiag × List String) :
    Option String → RSels → List String → List TDiag × List String
  | _, .nil, V => ([], V)
  | ty, .field name dirs args sub rest, V =>
    let d1 := dirsDiags s vars dirs
    let r : List TDiag × List String :=
      match ty with
      | some t =>
        (match s.field t name with
         | some fd =>
           let d2 := argsDiags s vars fd.args args
           if sub.isNil && isCompositeType s fd.ty.innerNamedType then (d2, V)
           else
             let r3 := walkSels s doc vars enter (some fd.ty.innerNamedType) sub V
             (d2 ++ r3.1, r3.2)
         | none => ([], V))
      | none => walkSels s doc vars enter none sub V
    let r4 := walkSels s doc vars enter ty rest r.2
    (d1 ++ r.1 ++ r4.1, r4.2)
  | ty, .spread f dirs rest, V =>
    let d1 := dirsDiags s vars dirs
    let r : List TDiag × List String :=
      match doc.findFrag f with
      | some d =>
        let sp := match ty with | some t => spreadDiags s t d.tc | none => []
        if V.contains f then (sp, V)
        else
          let e := enter d (f :: V)
          (sp ++ e.1, e.2)
      | none => ([], V)
    let r4 := walkSels s doc vars enter ty rest r.2
    (d1 ++ r.1 ++ r4.1, r4.2)
  | ty, .inline tc dirs sub rest, V =>
    let d1 := dirsDiags s vars dirs
    let r : List TDiag × List String :=
      match tc with
      | none => walkSels s doc vars enter ty sub V
      | some c =>
        if !isCompositeType s c then ([], V)
        else
          let sp := match ty with | some t => spreadDiags s t c | none => []
          let r3 := walkSels s doc vars enter (some c) sub V
          (sp ++ r3.1, r3.2)
    let r4 := walkSels s doc vars enter ty rest r.2
    (d1 ++ r.1 ++ r4.1, r4.2)

/-- `validate_fragment_definition`, for one operation's variables -/
def enterFrag (s : RSchema) (doc : RBuilt) (vars : List RVarDef) : Nat → RFrag → List String → List TDiag × List String
  | 0, _, V => ([], V)
  | n + 1, f, V =>
    let d1 := dirsDiags s vars f.dirs
    if !isCompositeType s f.tc || (reach doc f.sels).contains f.name then (d1, V)
    else
      let r := walkSels s doc vars (enterFrag s doc vars n) (some f.tc) f.sels V
      (d1 ++ r.1, r.2)

/-- `validate_operation`: the typed diagnostics of one operation — each operation has its own
    `validated_fragments` and its own variable definitions.  (Directives on variable definitions get
    NO variables in scope: `Default::default()`.) -/
def opDiags (s : RSchema) (doc : RBuilt) (o : ROp) : List TDiag :=
  dirsDiags s o.vars o.dirs ++ o.vars.flatMap (fun v => dirsDiags s [] v.dirs) ++
    (walkSels s doc o.vars (enterFrag s doc o.vars doc.frags.length) (s.root o.ty) o.sels []).1

def typedDiags (s : RSchema) (ast : RAst) : List TDiag :=
  let doc := build s ast
  doc.ops.flatMap (opDiags s doc)

def TDiag.kindName : TDiag → String
  | .undefinedVariable _ => "UndefinedVariable"
  | .disallowedVariableUsage _ => "DisallowedVariableUsage"
  | .nestedVariableType _ => "NestedVariableType"
  | .invalidFragmentSpread => "InvalidFragmentSpread"
  | .valueShape => "ValueShape"

/-! ### erasure to the representation of Model/Standalone.lean -/

/-- reserved names, at the numbers Model/Standalone.lean / Model/TypedDoc.lean fix -/
def reservedNames : List String :=
  ["skip", "include", "defer", "if", "label", "__typename", "__schema", "__type", "String", "__Schema", "__Type"]

def intern (tbl : List String) (n : String) : Nat := tbl.idxOf n

mutual
/-- the variables occurring in a value (`variables_in_value`) -/
def RVal.vars : RVal → List String
  | .var n => [n]
  | .list xs => RVal.varsList xs
  | .obj kvs => RVal.varsFields kvs
  | _ => []
def RVal.varsList : List RVal → List String
  | [] => []
  | x :: xs => RVal.vars x ++ RVal.varsList xs
def RVal.varsFields : List (String × RVal) → List String
  | [] => []
  | (_, x) :: rest => RVal.vars x ++ RVal.varsFields rest
end

def eraseVal (tbl : List String) : RVal → Standalone.Value
  | .var n => .var (intern tbl n)
  | .null => .null
  | .lit => .other []
  | v => .other ((RVal.vars v).map (intern tbl))

def eraseArgs (tbl : List String) (as : List RArg) : List Standalone.Arg :=
  as.map fun a => { name := intern tbl a.name, value := eraseVal tbl a.value }

def eraseDirs (tbl : List String) (ds : List RDir) : List Standalone.Dir :=
  ds.map fun d => { name := intern tbl d.name, args := eraseArgs tbl d.args }

def eraseSels (tbl : List String) : RSels → Standalone.Sels
  | .nil => .nil
  | .field n ds as sub rest => .field (intern tbl n) (eraseDirs tbl ds) (eraseArgs tbl as) (eraseSels tbl sub) (eraseSels tbl rest)
  | .spread f ds rest => .spread (intern tbl f) (eraseDirs tbl ds) (eraseSels tbl rest)
  | .inline tc ds sub rest => .inline (tc.map (intern tbl)) (eraseDirs tbl ds) (eraseSels tbl sub) (eraseSels tbl rest)

def eraseDef (tbl : List String) : RDef → Standalone.Def
  | .op o => .op { ty := o.ty, name := o.name.map (intern tbl),
                   vars := o.vars.map fun v => { name := intern tbl v.name, ty := intern tbl v.ty.innerNamedType, dirs := eraseDirs tbl v.dirs },
                   dirs := eraseDirs tbl o.dirs, sels := eraseSels tbl o.sels }
  | .frag f => .frag { name := intern tbl f.name, tc := intern tbl f.tc, dirs := eraseDirs tbl f.dirs, sels := eraseSels tbl f.sels }
  | .typeSystem => .typeSystem

def erase (tbl : List String) (ast : RAst) : Standalone.Ast := ast.map (eraseDef tbl)

def eraseArgDefs (tbl : List String) (ds : List InDef) : List Standalone.ArgDef :=
  ds.map fun d => { name := intern tbl d.name, required := d.required }

/-- the view `Standalone.validate` reads, from the schema (names through the table) -/
def viewOf (tbl : List String) (s : RSchema) : Standalone.Schema :=
  let nameOf (i : Nat) : String := tbl.getD i ""
  { root := fun t => (s.root t).map (intern tbl),
    kind := fun i => (s.typeInfo? (nameOf i)).map fun t =>
      if t.kind.isComposite then .composite else if t.kind.isLeaf then .leaf else .input,
    field := fun p f => (s.field (nameOf p) (nameOf f)).map fun fd =>
      { ty := intern tbl fd.ty.innerNamedType, args := eraseArgDefs tbl fd.args },
    dirDef := fun i => (s.dirs.find? (·.name == nameOf i)).map fun d =>
      { repeatable := d.repeatable, locs := d.locs, args := eraseArgDefs tbl d.args },
    extra := fun _ => [] }

end Apollo.ExecRules
