import ApolloModel.Model.Ast
/-
Canonical one-line dump of an AST (the same format is written by harness/src/p08.rs from the real
`ast::Document`), used to compare the reference parser with the real parser + from_cst.rs.
-/
namespace Apollo.Ast

def hexDigits (n : Nat) : Str := (Nat.toDigits 16 n)

/-- identifier characters stay, everything else becomes `\<hex>;` -/
def q (s : Str) : String :=
  String.ofList (s.flatMap fun c =>
    if c.isAlphanum || c == '_' || c == '-' || c == '.' || c == '+' then [c] else '\\' :: hexDigits c.toNat ++ [';'])

def dOpt (f : α → String) : Option α → String
  | none => "-"
  | some a => "?" ++ f a

def dList (f : α → String) (l : List α) : String := "[" ++ " ".intercalate (l.map f) ++ "]"

mutual
def dValue : Value → String
  | .null => "N"
  | .bool true => "T"
  | .bool false => "F"
  | .enum n => "E" ++ q n
  | .str s => "S" ++ q s
  | .var n => "V" ++ q n
  | .float t => "D" ++ q t
  | .int t => "I" ++ q t
  | .list vs => "(L" ++ dValues vs ++ ")"
  | .obj fs => "(O" ++ dObjFields fs ++ ")"
def dValues : Values → String
  | .nil => ""
  | .cons v tl => " " ++ dValue v ++ dValues tl
def dObjFields : ObjFields → String
  | .nil => ""
  | .cons n v tl => " " ++ q n ++ ":" ++ dValue v ++ dObjFields tl
end

def dTy : Ty → String
  | .named n => q n
  | .nonNullNamed n => q n ++ "!"
  | .list t => "[" ++ dTy t ++ "]"
  | .nonNullList t => "[" ++ dTy t ++ "]!"

def dArg (a : Str × Value) : String := q a.1 ++ ":" ++ dValue a.2
def dDirective (d : Directive) : String := "@" ++ q d.name ++ dList dArg d.args
def dDirs (ds : List Directive) : String := dList dDirective ds

mutual
def dSel : Sel → String
  | .field alias name args dirs sels =>
    "(f " ++ dOpt q alias ++ " " ++ q name ++ " " ++ dList dArg args ++ " " ++ dDirs dirs ++ " {" ++ dSels sels ++ "})"
  | .spread name dirs => "(s " ++ q name ++ " " ++ dDirs dirs ++ ")"
  | .inline tc dirs sels => "(i " ++ dOpt q tc ++ " " ++ dDirs dirs ++ " {" ++ dSels sels ++ "})"
def dSels : Sels → String
  | .nil => ""
  | .cons s tl => " " ++ dSel s ++ dSels tl
end

def dVarDef (v : VarDef) : String :=
  "(v " ++ q v.name ++ " " ++ dTy v.ty ++ " " ++ dOpt dValue v.default ++ " " ++ dDirs v.dirs ++ ")"
def dInputValueDef (v : InputValueDef) : String :=
  "(iv " ++ dOpt q v.desc ++ " " ++ q v.name ++ " " ++ dTy v.ty ++ " " ++ dOpt dValue v.default ++ " " ++ dDirs v.dirs ++ ")"
def dFieldDef (v : FieldDef) : String :=
  "(fd " ++ dOpt q v.desc ++ " " ++ q v.name ++ " " ++ dList dInputValueDef v.args ++ " " ++ dTy v.ty ++ " " ++ dDirs v.dirs ++ ")"
def dEnumValueDef (v : EnumValueDef) : String :=
  "(ev " ++ dOpt q v.desc ++ " " ++ q v.value ++ " " ++ dDirs v.dirs ++ ")"
def dRoot (r : OpType × Str) : String := r.1.name ++ ":" ++ q r.2

def dDefinition : Definition → String
  | .operation ty name vars dirs sels =>
    "(op " ++ ty.name ++ " " ++ dOpt q name ++ " " ++ dList dVarDef vars ++ " " ++ dDirs dirs ++ " {" ++ dSels sels ++ "})"
  | .fragment name tc dirs sels => "(frag " ++ q name ++ " " ++ q tc ++ " " ++ dDirs dirs ++ " {" ++ dSels sels ++ "})"
  | .directiveDef desc name args rep locs =>
    "(dirdef " ++ dOpt q desc ++ " " ++ q name ++ " " ++ dList dInputValueDef args ++ " " ++ (if rep then "R" else "-") ++ " " ++ dList q locs ++ ")"
  | .schemaDef desc dirs roots => "(schema " ++ dOpt q desc ++ " " ++ dDirs dirs ++ " " ++ dList dRoot roots ++ ")"
  | .scalarDef desc name dirs => "(scalar " ++ dOpt q desc ++ " " ++ q name ++ " " ++ dDirs dirs ++ ")"
  | .objectDef desc name impls dirs fields =>
    "(type " ++ dOpt q desc ++ " " ++ q name ++ " " ++ dList q impls ++ " " ++ dDirs dirs ++ " " ++ dList dFieldDef fields ++ ")"
  | .interfaceDef desc name impls dirs fields =>
    "(interface " ++ dOpt q desc ++ " " ++ q name ++ " " ++ dList q impls ++ " " ++ dDirs dirs ++ " " ++ dList dFieldDef fields ++ ")"
  | .unionDef desc name dirs members => "(union " ++ dOpt q desc ++ " " ++ q name ++ " " ++ dDirs dirs ++ " " ++ dList q members ++ ")"
  | .enumDef desc name dirs values => "(enum " ++ dOpt q desc ++ " " ++ q name ++ " " ++ dDirs dirs ++ " " ++ dList dEnumValueDef values ++ ")"
  | .inputDef desc name dirs fields => "(input " ++ dOpt q desc ++ " " ++ q name ++ " " ++ dDirs dirs ++ " " ++ dList dInputValueDef fields ++ ")"
  | .schemaExt dirs roots => "(xschema " ++ dDirs dirs ++ " " ++ dList dRoot roots ++ ")"
  | .scalarExt name dirs => "(xscalar " ++ q name ++ " " ++ dDirs dirs ++ ")"
  | .objectExt name impls dirs fields =>
    "(xtype " ++ q name ++ " " ++ dList q impls ++ " " ++ dDirs dirs ++ " " ++ dList dFieldDef fields ++ ")"
  | .interfaceExt name impls dirs fields =>
    "(xinterface " ++ q name ++ " " ++ dList q impls ++ " " ++ dDirs dirs ++ " " ++ dList dFieldDef fields ++ ")"
  | .unionExt name dirs members => "(xunion " ++ q name ++ " " ++ dDirs dirs ++ " " ++ dList q members ++ ")"
  | .enumExt name dirs values => "(xenum " ++ q name ++ " " ++ dDirs dirs ++ " " ++ dList dEnumValueDef values ++ ")"
  | .inputExt name dirs fields => "(xinput " ++ q name ++ " " ++ dDirs dirs ++ " " ++ dList dInputValueDef fields ++ ")"

def dDocument (d : Document) : String := " ".intercalate (d.map dDefinition)

end Apollo.Ast
