/-
Model of `schema/from_ast.rs` (`SchemaBuilder`: `add_ast_document`, `type_definition!`, `type_extension!`,
`*Type::from_ast` / `extend_ast`, `SchemaDefinition::from_ast` / `extend_ast` / `add_root_operations`,
`extend_sticky` / `collect_sticky`, `build_inner`, `add_implicit_root_types`, `adopt_type_extensions`),
of `DiagnosticList::sort`, and of `executable/from_ast.rs`
(`ExecutableDocumentBuilder::add_ast_document`).

The abstract schema (ordered types; ordered component lists with origins) is meant to be reused by
the serialization model (C12).

Conventions
* a *position* is a natural number: the identity of a syntax node (in the harness: the byte offset of the
  node in the concatenation of all sources).  Nothing in the builder inspects positions; only the final
  diagnostics sort does.
* `IndexMap<Name, V>` = association list in insertion order; `orphan_type_extensions :
  IndexMap<Name, Vec<Definition>>` filled with `entry(name).or_default().push(def)` and emptied with
  `shift_remove(name)` = one flat queue in arrival order (keys = names in first-occurrence order, the
  `Vec` of a name = the queue filtered by that name, `shift_remove` = filtering the name out).
* the payload of a component (a field's type and arguments, a directive's arguments, descriptions) is
  not modelled: a component is its name, its position and its origin.
-/
namespace Apollo.SchemaBuild

abbrev Name := String
abbrev Pos := Nat

inductive Kind where
  | scalar | object | interface | union | enum | inputObject
  deriving DecidableEq, Repr, Inhabited

inductive DefTag where
  | schemaDef
  | schemaExt
  | directiveDef
  | typeDef (k : Kind)
  | typeExt (k : Kind)
  | operation
  | fragment
  deriving DecidableEq, Repr, Inhabited

/-- a member of an AST definition: directive application, implemented interface, field, enum value,
    union member, input field, or root operation (`name` = operation type, `target` = object type name).
    `errPos` is where a duplicate is reported, `pos` is the location of the built component
    (they differ for root operations only: the whole `query: T` vs the name `T`). -/
structure Item where
  name : Name
  pos : Pos
  errPos : Pos
  target : Name
  deriving DecidableEq, Repr, Inhabited

/-- one `ast::Definition` -/
structure Def where
  tag : DefTag
  name : Name
  pos : Pos
  namePos : Pos
  directives : List Item
  interfaces : List Item
  members : List Item
  deriving DecidableEq, Repr, Inhabited

/-- `Component<T>` / `ComponentName`: `origin = none` is `ComponentOrigin::Definition`,
    `some p` is `Extension(id)` for the extension at position `p`; `pos = none`: no source location -/
structure Comp where
  name : Name
  pos : Option Pos
  origin : Option Pos
  target : Name
  deriving DecidableEq, Repr, Inhabited

structure Body where
  directives : List Comp
  interfaces : List Comp
  members : List Comp
  deriving DecidableEq, Repr, Inhabited

def Body.empty : Body := ⟨[], [], []⟩

/-- one entry of `Schema::types` -/
structure TypeEntry where
  name : Name
  kind : Kind
  builtin : Bool
  pos : Option Pos
  body : Body
  deriving DecidableEq, Repr, Inhabited

structure DirEntry where
  name : Name
  pos : Option Pos
  builtin : Bool
  deriving DecidableEq, Repr, Inhabited

inductive Diag where
  | executableDefinition (isFragment : Bool)
  | schemaDefinitionCollision
  | directiveDefinitionCollision (name : Name)
  | typeDefinitionCollision (name : Name)
  | builtInScalarTypeRedefinition
  | orphanSchemaExtension
  | orphanTypeExtension (name : Name)
  | typeExtensionKindMismatch (name : Name) (ext : Kind) (defn : Kind)
  | duplicateRootOperation (op : Name)
  | duplicateInterface (k : Kind) (type : Name) (iface : Name)
  | memberCollision (k : Kind) (type : Name) (member : Name)
  deriving DecidableEq, Repr, Inhabited

structure Err where
  pos : Pos
  diag : Diag
  deriving DecidableEq, Repr, Inhabited

structure SchemaDefn where
  pos : Option Pos
  body : Body          -- `members` = root operations (name = operation type)
  deriving DecidableEq, Repr, Inhabited

structure Builder where
  adopt : Bool
  ignoreBuiltin : Bool
  types : List TypeEntry
  directiveDefs : List DirEntry
  schemaDef : SchemaDefn
  schemaFound : Bool
  orphanSchemaExts : List Def
  orphanQ : List Def
  errors : List Err
  deriving DecidableEq, Repr, Inhabited

/-! ### `extend_sticky`, `collect_sticky`, `to_component` -/

def Item.toComp (origin : Option Pos) (it : Item) : Comp :=
  { name := it.name, pos := some it.pos, origin := origin, target := it.target }

def hasName (cs : List Comp) (n : Name) : Bool := cs.any (fun c => c.name == n)

/-- `extend_sticky` / `extend_sticky_set`: the first entry with a name wins, every later one is
    reported with `dup` at its own location -/
def extendSticky (dup : Name → Diag) (origin : Option Pos) :
    List Comp → List Err → List Item → List Comp × List Err
  | cs, errs, [] => (cs, errs)
  | cs, errs, it :: rest =>
    if hasName cs it.name then extendSticky dup origin cs (errs ++ [⟨it.errPos, dup it.name⟩]) rest
    else extendSticky dup origin (cs ++ [it.toComp origin]) errs rest

/-- the common shape of every `from_ast` struct literal and every `extend_ast`:
    directives appended, then interfaces (sticky), then fields / values / members / root operations
    (sticky) -/
def extendBody (dupI dupM : Name → Diag) (origin : Option Pos) (b : Body) (d : Def) (errs : List Err) :
    Body × List Err :=
  let dirs := b.directives ++ d.directives.map (Item.toComp origin)
  let (ifs, errs1) := extendSticky dupI origin b.interfaces errs d.interfaces
  let (ms, errs2) := extendSticky dupM origin b.members errs1 d.members
  (⟨dirs, ifs, ms⟩, errs2)

/-- `BuildError::DuplicateImplementsInterfaceIn{Object,Interface}` with `type_name` -/
def dupIface (k : Kind) (ty : Name) : Name → Diag := fun i => .duplicateInterface k ty i
/-- `BuildError::{ObjectField,InterfaceField,EnumValue,UnionMember,InputField}NameCollision` -/
def dupMember (k : Kind) (ty : Name) : Name → Diag := fun m => .memberCollision k ty m

/-- `XType::extend_ast(errors, ext)` -/
def extendType (t : TypeEntry) (e : Def) (errs : List Err) : TypeEntry × List Err :=
  let (b, errs') := extendBody (dupIface t.kind e.name) (dupMember t.kind e.name) (some e.pos) t.body e errs
  ({ t with body := b }, errs')

/-- the struct literal of `XType::from_ast` -/
def typeOfDef (k : Kind) (d : Def) (errs : List Err) : TypeEntry × List Err :=
  let (b, errs') := extendBody (dupIface k d.name) (dupMember k d.name) none Body.empty d errs
  ({ name := d.name, kind := k, builtin := false, pos := some d.pos, body := b }, errs')

def kindOfExt (e : Def) : Kind :=
  match e.tag with
  | .typeExt k => k
  | _ => .scalar      -- `unreachable!()` in the code; the queue only ever holds type extensions

/-- the `for def in &extensions { if let XTypeExtension(ext) = def { ty.extend_ast(errors, ext) } else
    { report_queued_kind_mismatch(…) } }` loop of `from_ast` (after fix 9875890: a queued extension of
    another kind is reported exactly like one that follows the definition) -/
def adoptStep (k : Kind) (acc : TypeEntry × List Err) (e : Def) : TypeEntry × List Err :=
  if e.tag = .typeExt k then extendType acc.1 e acc.2
  else (acc.1, acc.2 ++ [⟨e.namePos, .typeExtensionKindMismatch e.name (kindOfExt e) k⟩])

/-- `XType::from_ast(errors, definition, extensions)` -/
def typeFromAst (k : Kind) (d : Def) (exts : List Def) (errs : List Err) : TypeEntry × List Err :=
  exts.foldl (adoptStep k) (typeOfDef k d errs)

/-! ### schema definition -/

def dupRoot : Name → Diag := fun op => .duplicateRootOperation op
def noIface : Name → Diag := fun _ => .schemaDefinitionCollision   -- never used: schema definitions have no interfaces

/-- `SchemaDefinition::extend_ast` -/
def extendSchema (s : SchemaDefn) (e : Def) (errs : List Err) : SchemaDefn × List Err :=
  let (b, errs') := extendBody noIface dupRoot (some e.pos) s.body e errs
  ({ s with body := b }, errs')

def schemaOfDef (d : Def) (errs : List Err) : SchemaDefn × List Err :=
  let (b, errs') := extendBody noIface dupRoot none Body.empty d errs
  ({ pos := some d.pos, body := b }, errs')

def schemaStep (acc : SchemaDefn × List Err) (e : Def) : SchemaDefn × List Err :=
  extendSchema acc.1 e acc.2

/-- `SchemaDefinition::from_ast(errors, definition, extensions)` -/
def schemaFromAst (d : Def) (exts : List Def) (errs : List Err) : SchemaDefn × List Err :=
  exts.foldl schemaStep (schemaOfDef d errs)

/-! ### the builder loop -/

def findType (ts : List TypeEntry) (n : Name) : Option TypeEntry := ts.find? (fun t => t.name == n)

/-- `types.get_mut(name)` followed by an in-place update -/
def setType (ts : List TypeEntry) (n : Name) (t' : TypeEntry) : List TypeEntry :=
  ts.map (fun t => if t.name == n then t' else t)

def push (s : Builder) (p : Pos) (d : Diag) : Builder := { s with errors := s.errors ++ [⟨p, d⟩] }

/-- `type_definition!` -/
def stepTypeDef (s : Builder) (k : Kind) (d : Def) : Builder :=
  match findType s.types d.name with
  | none =>
    let exts := s.orphanQ.filter (fun e => e.name == d.name)       -- shift_remove(name).unwrap_or_default()
    let rest := s.orphanQ.filter (fun e => !(e.name == d.name))
    let (t, errs) := typeFromAst k d exts s.errors
    { s with types := s.types ++ [t], orphanQ := rest, errors := errs }
  | some prev =>
    if s.ignoreBuiltin && prev.builtin then s
    else if k == .scalar && prev.builtin then push s d.pos .builtInScalarTypeRedefinition
    else push s d.namePos (.typeDefinitionCollision d.name)

/-- `type_extension!` -/
def stepTypeExt (s : Builder) (k : Kind) (e : Def) : Builder :=
  match findType s.types e.name with
  | some t =>
    if t.kind = k then
      let (t', errs) := extendType t e s.errors
      { s with types := setType s.types e.name t', errors := errs }
    else push s e.namePos (.typeExtensionKindMismatch e.name k t.kind)
  | none => { s with orphanQ := s.orphanQ ++ [e] }

def findDir (ds : List DirEntry) (n : Name) : Option DirEntry := ds.find? (fun t => t.name == n)

def stepDirectiveDef (s : Builder) (d : Def) : Builder :=
  match findDir s.directiveDefs d.name with
  | none => { s with directiveDefs := s.directiveDefs ++ [⟨d.name, some d.pos, false⟩] }
  | some prev =>
    if prev.builtin then
      { s with directiveDefs := s.directiveDefs.map (fun x => if x.name == d.name then ⟨d.name, some d.pos, false⟩ else x) }
    else push s d.namePos (.directiveDefinitionCollision d.name)

/-- one iteration of `for definition in &document.definitions` (`executable_definitions_are_errors = true`) -/
def step (s : Builder) (d : Def) : Builder :=
  match d.tag with
  | .schemaDef =>
    if s.schemaFound then push s d.pos .schemaDefinitionCollision
    else
      let (sd, errs) := schemaFromAst d s.orphanSchemaExts s.errors
      { s with schemaDef := sd, schemaFound := true, orphanSchemaExts := [], errors := errs }
  | .schemaExt =>
    if s.schemaFound then
      let (sd, errs) := extendSchema s.schemaDef d s.errors
      { s with schemaDef := sd, errors := errs }
    else { s with orphanSchemaExts := s.orphanSchemaExts ++ [d] }
  | .directiveDef => stepDirectiveDef s d
  | .typeDef k => stepTypeDef s k d
  | .typeExt k => stepTypeExt s k d
  | .operation => push s d.pos (.executableDefinition false)
  | .fragment => push s d.pos (.executableDefinition true)

/-- `add_ast_document`: a left fold over the definitions of one document -/
def addDocument (s : Builder) (ds : List Def) : Builder := ds.foldl step s

/-- `SchemaBuilder::parse(src₁, …).parse(src₂, …)…` -/
def addSources (s : Builder) (srcs : List (List Def)) : Builder := srcs.foldl addDocument s

/-! ### `build_inner` -/

/-- keys of the orphan `IndexMap`: names in first-occurrence order -/
def firstNames : List Def → List Name
  | [] => []
  | e :: rest => e.name :: (firstNames rest).filter (fun n => !(n == e.name))

/-- the loop of `adopt_type_extensions` -/
def adoptOrphanStep (k : Kind) (acc : TypeEntry × List Err) (e : Def) : TypeEntry × List Err :=
  if e.tag = .typeExt k then extendType acc.1 e acc.2
  else (acc.1, acc.2 ++ [⟨e.namePos, .typeExtensionKindMismatch e.name (kindOfExt e) k⟩])

/-- `adopt_type_extensions(errors, type_name, extensions)`; `extensions[0]` decides the kind -/
def adoptTypeExtensions (n : Name) (exts : List Def) (errs : List Err) : TypeEntry × List Err :=
  match exts with
  | [] => (⟨n, .scalar, false, none, Body.empty⟩, errs)          -- unreachable: groups are non-empty
  | first :: _ =>
    let k := kindOfExt first
    exts.foldl (adoptOrphanStep k) (⟨n, k, false, some first.pos, Body.empty⟩, errs)

def isObject (ts : List TypeEntry) (n : Name) : Bool :=
  match findType ts n with
  | some t => t.kind == .object
  | none => false

/-- `add_implicit_root_types`: overwrites the three slots; returns whether any was set -/
def implicitRoots (ts : List TypeEntry) : List Comp :=
  ([("query", "Query"), ("mutation", "Mutation"), ("subscription", "Subscription")].filter
    (fun p => isObject ts p.2)).map (fun p => ⟨p.1, none, none, p.2⟩)

def setRoots (sd : SchemaDefn) (roots : List Comp) : SchemaDefn :=
  { sd with body := { sd.body with
      members := sd.body.members.filter (fun c => !(hasName roots c.name)) ++ roots } }

/-- `build_inner` without the final sort -/
def finishRaw (s : Builder) : Builder :=
  -- orphan type extensions
  let s1 : Builder :=
    if s.adopt then
      (firstNames s.orphanQ).foldl (fun (acc : Builder) n =>
        let (t, errs) := adoptTypeExtensions n (s.orphanQ.filter (fun e => e.name == n)) acc.errors
        { acc with types := acc.types ++ [t], errors := errs }) { s with orphanQ := [] }
    else
      (firstNames s.orphanQ).foldl (fun (acc : Builder) n =>
        (s.orphanQ.filter (fun e => e.name == n)).foldl
          (fun (a : Builder) e => push a e.namePos (.orphanTypeExtension e.name)) acc) { s with orphanQ := [] }
  -- schema definition
  if s1.schemaFound then s1
  else if s1.adopt then
    let (sd, errs) := s1.orphanSchemaExts.foldl schemaStep (s1.schemaDef, s1.errors)
    let sd' := if sd.body.members.isEmpty then setRoots sd (implicitRoots s1.types) else sd
    { s1 with schemaDef := sd', errors := errs, orphanSchemaExts := [] }
  else
    let roots := implicitRoots s1.types
    if !roots.isEmpty then
      let (sd, errs) := s1.orphanSchemaExts.foldl schemaStep (setRoots s1.schemaDef roots, s1.errors)
      { s1 with schemaDef := sd, errors := errs, orphanSchemaExts := [] }
    else
      s1.orphanSchemaExts.foldl (fun (a : Builder) e => push a e.pos .orphanSchemaExtension)
        { s1 with orphanSchemaExts := [] }

/-! ### `DiagnosticList::sort`: `sort_by_key` (stable) on the location -/

def insertBy {α : Type} (lt : α → α → Bool) (x : α) : List α → List α
  | [] => [x]
  | y :: ys => if lt x y then x :: y :: ys else y :: insertBy lt x ys

/-- stable insertion sort: an element is placed after all elements that are not greater (in particular after
    the equal ones that came before it, and it never overtakes an equal one) -/
def sortBy {α : Type} (lt : α → α → Bool) : List α → List α
  | [] => []
  | x :: xs => insertBy lt x (sortBy lt xs)

def Err.lt (a b : Err) : Bool := decide (a.pos < b.pos)

/-- what `SchemaBuilder::build()` returns: the schema and the sorted diagnostics -/
def build (s : Builder) (srcs : List (List Def)) : Builder :=
  let r := finishRaw (addSources s srcs)
  { r with errors := sortBy Err.lt r.errors }

/-! ### initial state: `SchemaBuilder::new()` (built-in scalars, introspection types, directives) -/

def builtinTypes : List TypeEntry :=
  [("__Schema", Kind.object), ("__Type", .object), ("__TypeKind", .enum), ("__Field", .object),
   ("__InputValue", .object), ("__EnumValue", .object), ("__Directive", .object),
   ("__DirectiveLocation", .enum), ("Int", .scalar), ("Float", .scalar), ("String", .scalar),
   ("Boolean", .scalar), ("ID", .scalar)].map (fun p => ⟨p.1, p.2, true, none, Body.empty⟩)

def builtinDirectives : List DirEntry :=
  ["skip", "include", "deprecated", "specifiedBy"].map (fun n => ⟨n, none, true⟩)

def Builder.new (adopt ignoreBuiltin : Bool) : Builder :=
  { adopt := adopt, ignoreBuiltin := ignoreBuiltin, types := builtinTypes, directiveDefs := builtinDirectives,
    schemaDef := ⟨none, Body.empty⟩, schemaFound := false, orphanSchemaExts := [], orphanQ := [], errors := [] }

/-- a completely empty builder (used in examples) -/
def Builder.blank : Builder :=
  { adopt := false, ignoreBuiltin := false, types := [], directiveDefs := [],
    schemaDef := ⟨none, Body.empty⟩, schemaFound := false, orphanSchemaExts := [], orphanQ := [], errors := [] }

/-! ### executable documents: `ExecutableDocumentBuilder::add_ast_document` -/

/-- an executable definition as the builder sees it.  `rootOk`: the schema has a root type for the
    operation's type (or there is no schema); `condOk`: the fragment's type condition exists;
    `inner`: positions of the diagnostics that building the selection set pushes
    (`SelectionSet::extend_from_ast`: undefined fields), in order. -/
structure XDef where
  tag : DefTag
  name : Option Name
  pos : Pos
  namePos : Pos
  condPos : Pos
  rootOk : Bool
  condOk : Bool
  inner : List Pos
  deriving DecidableEq, Repr, Inhabited

inductive XDiag where
  | ambiguousAnonymousOperation
  | undefinedRootOperation
  | operationNameCollision (name : Name)
  | fragmentNameCollision (name : Name)
  | undefinedTypeCondition (fragment : Name)
  | typeSystemDefinition
  | undefinedField
  deriving DecidableEq, Repr, Inhabited

structure XErr where
  pos : Pos
  diag : XDiag
  deriving DecidableEq, Repr, Inhabited

structure XBuilder where
  anonymous : Option Pos                 -- `document.operations.anonymous` (its location)
  named : List (Name × Pos)              -- `document.operations.named`
  fragments : List (Name × Pos)          -- `document.fragments`
  multipleAnonymous : Bool
  errors : List XErr
  deriving DecidableEq, Repr, Inhabited

def XErr.lt (a b : XErr) : Bool := decide (a.pos < b.pos)

def XBuilder.new : XBuilder := ⟨none, [], [], false, []⟩

def xpush (s : XBuilder) (p : Pos) (d : XDiag) : XBuilder := { s with errors := s.errors ++ [⟨p, d⟩] }

def xinner (s : XBuilder) (d : XDef) : XBuilder :=
  { s with errors := s.errors ++ d.inner.map (fun p => ⟨p, .undefinedField⟩) }

def hasKey (l : List (Name × Pos)) (n : Name) : Bool := l.any (fun p => p.1 == n)

def xstep (s : XBuilder) (d : XDef) : XBuilder :=
  match d.tag with
  | .operation =>
    match d.name with
    | some n =>
      let s1 := match s.anonymous with
        | some a => xpush s a .ambiguousAnonymousOperation
        | none => s
      if hasKey s1.named n then xpush s1 d.namePos (.operationNameCollision n)
      else if d.rootOk then { xinner s1 d with named := s1.named ++ [(n, d.pos)] }
      else xpush s1 d.pos .undefinedRootOperation
    | none =>
      match s.anonymous with
      | some prev =>
        let s1 := if s.multipleAnonymous then s
                  else xpush { s with multipleAnonymous := true } prev .ambiguousAnonymousOperation
        xpush s1 d.pos .ambiguousAnonymousOperation
      | none =>
        if !s.named.isEmpty then xpush s d.pos .ambiguousAnonymousOperation
        else if d.rootOk then { xinner s d with anonymous := some d.pos }
        else xpush s d.pos .undefinedRootOperation
  | .fragment =>
    match d.name with
    | some n =>
      if hasKey s.fragments n then xpush s d.namePos (.fragmentNameCollision n)
      else if d.condOk then { xinner s d with fragments := s.fragments ++ [(n, d.pos)] }
      else xpush s d.condPos (.undefinedTypeCondition n)
    | none => s
  | _ => xpush s d.pos .typeSystemDefinition

def xaddDocument (s : XBuilder) (ds : List XDef) : XBuilder := ds.foldl xstep s
def xaddSources (s : XBuilder) (srcs : List (List XDef)) : XBuilder := srcs.foldl xaddDocument s

def xbuild (srcs : List (List XDef)) : XBuilder :=
  let r := xaddSources XBuilder.new srcs
  { r with errors := sortBy XErr.lt r.errors }

end Apollo.SchemaBuild
