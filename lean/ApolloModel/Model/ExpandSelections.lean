/-
`expand_selections` (crates/apollo-compiler/src/validation/selection.rs): the breadth-first expansion of
one or more selection sets into the list of all fields selected, each with the type of the selection set
it is written in.  Inline fragments and fragment spreads are queued; `seen_fragments` makes every named
fragment contribute once.  Fields are leaves of the expansion (their own selection sets are expanded
later, group by group).
-/
namespace Apollo.Expand

/-- a selection, as far as the expansion looks at it: a field (identified by `id`), an inline fragment
    (its selection set has type `ty`: the type condition, or the enclosing type), a fragment spread -/
inductive ESel where
  | field (id : Nat)
  | inline (ty : String) (sels : List ESel)
  | spread (name : String)
  deriving Inhabited

/-- `executable::SelectionSet`: `ty` and `selections` -/
abbrev ESet := String × List ESel

/-- `document.fragments`: name ↦ the fragment's selection set (its `ty` is the type condition) -/
abbrev Frags := List (String × ESet)

def Frags.get? (fs : Frags) (n : String) : Option ESet := (fs.find? (·.1 == n)).map (·.2)

structure St where
  queue : List ESet
  seen : List String
  out : List (String × Nat)

/-- `for selection in &next_set.selections { match selection { … } }` -/
def visit (frags : Frags) (ty : String) : List ESel → St → St
  | [], st => st
  | .field id :: rest, st => visit frags ty rest { st with out := st.out ++ [(ty, id)] }
  | .inline t sels :: rest, st => visit frags ty rest { st with queue := st.queue ++ [(t, sels)] }
  | .spread n :: rest, st =>
    if st.seen.contains n then visit frags ty rest st
    else
      match frags.get? n with
      | some set => visit frags ty rest { st with seen := n :: st.seen, queue := st.queue ++ [set] }
      | none => visit frags ty rest { st with seen := n :: st.seen }

/-- `while let Some(next_set) = queue.pop_front() { … }` -/
def loop (frags : Frags) : Nat → St → St
  | 0, st => st
  | fuel + 1, st =>
    match st.queue with
    | [] => st
    | (ty, sels) :: q => loop frags fuel (visit frags ty sels { st with queue := q })

mutual
def ESel.size : ESel → Nat
  | .inline _ sels => ESel.sizeList sels + 1
  | _ => 1
def ESel.sizeList : List ESel → Nat
  | [] => 0
  | x :: xs => ESel.size x + ESel.sizeList xs
end

/-- enough iterations: every queued set is an inline fragment of something visited or a fragment body -/
def fuelFor (frags : Frags) (sets : List ESet) : Nat :=
  (sets.map fun s => ESel.sizeList s.2 + 1).sum + (frags.map fun f => ESel.sizeList f.2.2 + 1).sum + 1

/-- `expand_selections(fragments, selection_sets)` -/
def expand (frags : Frags) (sets : List ESet) : List (String × Nat) :=
  (loop frags (fuelFor frags sets) { queue := sets, seen := [], out := [] }).out

/-! ### the depth-first expansion (the reading of "the set of selections … including visiting fragments and
inline fragments": harness `flatten`, the specification side of c17.merge / c17.expand); `visited` is shared
by the whole expansion; fuel = number of fragment definitions that may still be entered -/

structure DAcc where
  visited : List String
  out : List (String × Nat)
  /-- a fragment had to be entered with no fuel left -/
  exhausted : Bool := false

mutual
def dfsSel (enter : String → DAcc → DAcc) (ty : String) : ESel → DAcc → DAcc
  | .field id, acc => { acc with out := acc.out ++ [(ty, id)] }
  | .inline t ss, acc => dfsSels enter t ss acc
  | .spread n, acc => if acc.visited.contains n then acc else enter n { acc with visited := n :: acc.visited }
def dfsSels (enter : String → DAcc → DAcc) (ty : String) : List ESel → DAcc → DAcc
  | [], acc => acc
  | s :: rest, acc => dfsSels enter ty rest (dfsSel enter ty s acc)
end

def dfsFrag (frags : Frags) : Nat → String → DAcc → DAcc
  | 0, n, acc => match frags.get? n with | some _ => { acc with exhausted := true } | none => acc
  | k + 1, n, acc =>
    match frags.get? n with
    | some F => dfsSels (dfsFrag frags k) F.1 F.2 acc
    | none => acc

def flatten (frags : Frags) (sets : List ESet) : DAcc :=
  sets.foldl (fun acc S => dfsSels (dfsFrag frags frags.length) S.1 S.2 acc) { visited := [], out := [] }

end Apollo.Expand
