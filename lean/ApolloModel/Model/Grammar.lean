import ApolloModel.Model.ParserPrims
/-
Model of parser/grammar/*.rs — one definition per Rust function, same order of effects.
Written in `PI`'s do-notation, so every function here preserves `Inv`, satisfies `Frame` and never
panics *by construction* (see ParserCore.lean).  Fuel is a model artefact for the recursive cycles
(type → type, value → list/object → value, selection set → selection → field → selection set).
-/
namespace Apollo.Parse
open Apollo.Rowan hiding Str
open Apollo.Lex hiding Str

def kw (s : String) (d : Str) : Bool := d == s.toList
def kwOpt (s : String) (d : Option Str) : Bool := d == some s.toList

/-! ### name.rs -/

/-- `name::name` (`validate_name` cannot fire on lexer-produced Name tokens, see `lex_name`) -/
def name : PI Unit := do
  match ← peekToken with
  | some t => if t.kind == .name then withNode "NAME" (bump "IDENT") else err
  | none => err

def alias : PI Unit := withNode "ALIAS" (do name; bump "COLON")

/-! ### ty.rs -/

inductive TyRes where
  | ok                 -- `Ok(())` after the whole function body
  | early              -- `return Ok(())` at the recursion limit
  | errTok (t : Tok)   -- `Err(Some(token))`
  | errNone            -- `Err(None)`

def tyParse : Nat → PI TyRes
  | 0 => PI.outOfFuel
  | n + 1 => do
    let r ← wrapIf "NON_NULL_TYPE"
      (do
        match ← peek with
        | some .lBracket =>
          withNode "LIST_TYPE" (do
            bump "L_BRACK"
            let inner ← withRec (do limitErr; pure none) (do pure (some (← tyParse n)))
            match inner with
            | none => pure TyRes.early
            | some res =>
              match res with
              | .errTok t => errAtToken t
              | _ => pure ()
              expect .rBracket "R_BRACK"
              pure TyRes.ok)
        | some .name =>
          withNode "NAMED_TYPE" (withNode "NAME" (do eat "IDENT"; pure TyRes.ok))
        | some _ => do
          match ← popDrop with
          | some t => pure (TyRes.errTok t)
          | none => pure TyRes.errNone
        | none => pure TyRes.errNone)
      (fun r => match r with
        | .ok => do
          skipIgnored
          pure ((← peek) == some .bang)
        | _ => pure false)
      (eat "BANG")
    match r with
    | .ok => skipIgnored
    | _ => pure ()
    pure r

def ty (n : Nat) : PI Unit := do
  match ← tyParse n with
  | .errTok t => errAtToken t
  | .errNone => err
  | _ => pure ()

def namedType : PI Unit := do
  if (← peek) == some .name then withNode "NAMED_TYPE" name

/-! ### variable.rs (variable), value.rs -/

def variableNode : PI Unit := withNode "VARIABLE" (do bump "DOLLAR"; name)

def enumValue : PI Unit :=
  withNode "ENUM_VALUE" (do
    match ← peekToken with
    | some t =>
      if t.kind == .name then do
        if kw "true" t.data || kw "false" t.data || kw "null" t.data then err
        name
      else err
    | none => err)

mutual
  def value : Nat → Bool → Bool → PI Unit
    | 0, _, _ => PI.outOfFuel
    | n + 1, isConst, popOnError => do
      match ← peek with
      | some .dollar =>
        if isConst then (if popOnError then errAndPop else err)
        variableNode
      | some .int => withNode "INT_VALUE" (bump "INT")
      | some .float => withNode "FLOAT_VALUE" (bump "FLOAT")
      | some .stringValue => withNode "STRING_VALUE" (bump "STRING")
      | some .name =>
        match ← peekToken with
        | some t =>
          if kw "true" t.data then withNode "BOOLEAN_VALUE" (bump "true_KW")
          else if kw "false" t.data then withNode "BOOLEAN_VALUE" (bump "false_KW")
          else if kw "null" t.data then withNode "NULL_VALUE" (bump "null_KW")
          else enumValue
        | none => pure ()
      | some .lBracket => listValue n isConst
      | some .lCurly => objectValue n isConst
      | _ => if popOnError then errAndPop else err

  def listValue : Nat → Bool → PI Unit
    | 0, _ => PI.outOfFuel
    | n + 1, isConst =>
      withNode "LIST_VALUE" (do
        bump "L_BRACK"
        peekWhile fun node =>
          if node == .rBracket then do bump "R_BRACK"; pure false
          else if node == .eof then pure false
          else withRec (do limitErr; pure false) (do value n isConst true; pure true))

  def objectValue : Nat → Bool → PI Unit
    | 0, _ => PI.outOfFuel
    | n + 1, isConst =>
      withNode "OBJECT_VALUE" (do
        bump "L_CURLY"
        peekWhileKind .name (objectField n isConst)
        expect .rCurly "R_CURLY")

  def objectField : Nat → Bool → PI Unit
    | 0, _ => PI.outOfFuel
    | n + 1, isConst =>
      withNode "OBJECT_FIELD" (do
        name
        if (← peek) == some .colon then
          bump "COLON"
          withRec limitErr (value n isConst true)
        else err)
end

def defaultValue (n : Nat) : PI Unit := withNode "DEFAULT_VALUE" (do bump "EQ"; value n true false)

/-! ### argument.rs, directive.rs (applications) -/

def argument (n : Nat) (isConst : Bool) : PI Unit :=
  withNode "ARGUMENT" (do
    name
    if (← peek) == some .colon then
      bump "COLON"
      value n isConst false
    else err)

def arguments (n : Nat) (isConst : Bool) : PI Unit :=
  withNode "ARGUMENTS" (do
    bump "L_PAREN"
    if (← peek) == some .name then argument n isConst else err
    peekWhileKind .name (argument n isConst)
    expect .rParen "R_PAREN")

def directive (n : Nat) (isConst : Bool) : PI Unit :=
  withNode "DIRECTIVE" (do
    expect .at "AT"
    name
    if (← peek) == some .lParen then arguments n isConst)

def directives (n : Nat) (isConst : Bool) : PI Unit :=
  withNode "DIRECTIVES" (peekWhileKind .at (directive n isConst))

/-! ### description.rs, input.rs (values), variable.rs (definitions) -/

def description : PI Unit := withNode "DESCRIPTION" (withNode "STRING_VALUE" (bump "STRING"))

def isNameOrString (k : Option Kind) : Bool := k == some .name || k == some .stringValue

def inputValueDefinition (n : Nat) : PI Unit :=
  withNode "INPUT_VALUE_DEFINITION" (do
    if (← peek) == some .stringValue then description
    name
    if (← peek) == some .colon then
      bump "COLON"
      let k ← peek
      if k == some .name || k == some .lBracket then
        ty n
        if (← peek) == some .eq then defaultValue n
        if (← peek) == some .at then directives n true
      else err
    else err)

def variableDefinition (n : Nat) : PI Unit :=
  withNode "VARIABLE_DEFINITION" (do
    variableNode
    if (← peek) == some .colon then
      bump "COLON"
      let k ← peek
      if k == some .name || k == some .lBracket then
        ty n
        if (← peek) == some .eq then defaultValue n
        if (← peek) == some .at then directives n true
      else err
    else err)

def variableDefinitions (n : Nat) : PI Unit :=
  withNode "VARIABLE_DEFINITIONS" (do
    bump "L_PAREN"
    if (← peek) == some .dollar then variableDefinition n else err
    peekWhileKind .dollar (variableDefinition n)
    expect .rParen "R_PAREN")

/-- the body shared by `arguments_definition` and the inlined copy in `directive_definition` -/
def argumentsDefinitionBody (n : Nat) : PI Unit := do
  bump "L_PAREN"
  if isNameOrString (← peek) then inputValueDefinition n else err
  peekWhile fun kind =>
    if kind == .name || kind == .stringValue then do inputValueDefinition n; pure true
    else pure false
  expect .rParen "R_PAREN"

def argumentsDefinition (n : Nat) : PI Unit := withNode "ARGUMENTS_DEFINITION" (argumentsDefinitionBody n)

/-! ### fragment.rs (non-recursive parts), selection.rs, field.rs -/

def fragmentName : PI Unit :=
  withNode "FRAGMENT_NAME" (do
    match ← peekToken with
    | some t =>
      if t.kind == .name && kw "on" t.data then err
      else if t.kind == .name then name
      else err
    | none => err)

def typeCondition : PI Unit :=
  withNode "TYPE_CONDITION" (do
    match ← peekToken with
    | some t =>
      if t.kind == .name && kw "on" t.data then bump "on_KW" else err
      if (← peek) == some .name then namedType else err
    | none => err)

def fragmentSpread (n : Nat) : PI Unit :=
  withNode "FRAGMENT_SPREAD" (do
    bump "SPREAD"
    if (← peek) == some .name then fragmentName else err
    if (← peek) == some .at then directives n false)

/-- `peek_while` whose closure also updates a captured flag (`has_selection`) -/
def peekWhileFlagLoop (body : Kind → PI (Bool × Bool)) : Nat → Bool → PI Bool
  | 0, _ => PI.outOfFuel
  | fuel + 1, flag => do
    match ← peek with
    | none => pure flag
    | some kind =>
      let before ← getCurrent
      let (cont, set) ← body kind
      let flag := flag || set
      if cont then
        let after ← getCurrent
        if before == after then PI.stuck else peekWhileFlagLoop body fuel flag
      else pure flag

mutual
  def selectionSet : Nat → PI Unit
    | 0 => PI.outOfFuel
    | n + 1 => do
      if (← peek) == some .lCurly then
        withNode "SELECTION_SET" (do
          bump "L_CURLY"
          let ok ← withRec (do limitErr; pure false) (do selection n; pure true)
          if ok then expect .rCurly "R_CURLY")

  def selection : Nat → PI Unit
    | 0 => PI.outOfFuel
    | n + 1 => do
      let len ← srcLen
      let hasSelection ← peekWhileFlagLoop (fun kind =>
        if kind == .spread then do
          match ← peekTokenN 2 with
          | some next =>
            if next.kind == .name && !(kw "on" next.data) then fragmentSpread n
            else if next.kind == .at || next.kind == .name || next.kind == .lCurly then inlineFragment n
            else do err; bump "SPREAD"
            pure (true, true)
          | none => do errAndPop; pure (false, false)
        else if kind == .lCurly then pure (false, false)
        else if kind == .name then do field n; pure (true, true)
        else pure (false, false)) (len + 3) false
      if !hasSelection then err

  def field : Nat → PI Unit
    | 0 => PI.outOfFuel
    | n + 1 =>
      withNode "FIELD" (do
        if (← peek) == some .name then
          if (← peekN 2) == some .colon then alias
          name
        else err
        if (← peek) == some .lParen then arguments n false
        if (← peek) == some .at then directives n false
        if (← peek) == some .lCurly then selectionSet n)

  def inlineFragment : Nat → PI Unit
    | 0 => PI.outOfFuel
    | n + 1 =>
      withNode "INLINE_FRAGMENT" (do
        bump "SPREAD"
        if (← peek) == some .name then typeCondition
        if (← peek) == some .at then directives n false
        if (← peek) == some .lCurly then selectionSet n else err)
end

/-- `selection::field_set` (entry point of `Parser::parse_selection_set`) -/
def fieldSet (n : Nat) : PI Unit := do
  if (← peek) == some .lCurly then selectionSet n
  else withNode "SELECTION_SET" (withRec limitErr (selection n))

def fragmentDefinition (n : Nat) : PI Unit :=
  withNode "FRAGMENT_DEFINITION" (do
    -- `document()` looks past a description to select a definition, but a Fragment Definition does not have one
    if (← peek) == some .stringValue then errAndPop
    bump "fragment_KW"
    fragmentName
    typeCondition
    if (← peek) == some .at then directives n false
    if (← peek) == some .lCurly then selectionSet n else err)

/-! ### operation.rs -/

def operationType : PI Unit := do
  match ← peekData with
  | some d =>
    withNode "OPERATION_TYPE" (
      if kw "query" d then bump "query_KW"
      else if kw "subscription" d then bump "subscription_KW"
      else if kw "mutation" d then bump "mutation_KW"
      else errAndPop)
  | none => pure ()

def operationDefinition (n : Nat) : PI Unit := do
  match ← peek with
  | some .name =>
    withNode "OPERATION_DEFINITION" (do
      operationType
      if (← peek) == some .name then name
      if (← peek) == some .lParen then variableDefinitions n
      if (← peek) == some .at then directives n false
      if (← peek) == some .lCurly then selectionSet n else errAndPop)
  | some .lCurly => withNode "OPERATION_DEFINITION" (selectionSet n)
  | _ => errAndPop

/-! ### type system: field.rs, schema.rs, scalar.rs, object.rs, interface.rs, union_.rs, enum_.rs, input.rs, directive.rs -/

def fieldDefinition (n : Nat) : PI Unit :=
  withNode "FIELD_DEFINITION" (do
    if (← peek) == some .stringValue then description
    name
    if (← peek) == some .lParen then argumentsDefinition n
    if (← peek) == some .colon then
      bump "COLON"
      let k ← peek
      if k == some .name || k == some .lBracket then
        ty n
        if (← peek) == some .at then directives n true
        let _ ← peek                      -- `if p.peek().is_some() { return }`: no effect either way
      else err
    else err)

def fieldsDefinition (n : Nat) : PI Unit :=
  withNode "FIELDS_DEFINITION" (do
    bump "L_CURLY"
    if isNameOrString (← peek) then fieldDefinition n else err
    peekWhile fun kind =>
      if kind == .name || kind == .stringValue then do fieldDefinition n; pure true
      else pure false
    expect .rCurly "R_CURLY")

def rootOperationTypeDefinition : PI Unit :=
  withNode "ROOT_OPERATION_TYPE_DEFINITION" (do
    operationType
    if (← peek) == some .colon then
      bump "COLON"
      namedType
    else err)

/-- `peek_while_kind` whose closure sets a captured flag -/
def peekWhileKindFlagLoop (expectK : Kind) (body : PI Unit) : Nat → Bool → PI Bool
  | 0, _ => PI.outOfFuel
  | fuel + 1, flag => do
    match ← peek with
    | none => pure flag
    | some kind =>
      if kind != expectK then pure flag
      else
        let before ← getCurrent
        body
        let after ← getCurrent
        if before == after then PI.stuck else peekWhileKindFlagLoop expectK body fuel true

def schemaDefinition (n : Nat) : PI Unit :=
  withNode "SCHEMA_DEFINITION" (do
    if (← peek) == some .stringValue then description
    if kwOpt "schema" (← peekData) then bump "schema_KW"
    if (← peek) == some .at then directives n true
    if (← peek) == some .lCurly then
      bump "L_CURLY"
      let len ← srcLen
      let has ← peekWhileKindFlagLoop .name rootOperationTypeDefinition (len + 3) false
      if !has then err
      expect .rCurly "R_CURLY"
    else err)

def schemaExtension (n : Nat) : PI Unit :=
  withNode "SCHEMA_EXTENSION" (do
    bump "extend_KW"
    bump "schema_KW"
    let mut meets := false
    if (← peek) == some .at then
      meets := true
      directives n true
    if (← peek) == some .lCurly then
      meets := true
      bump "L_CURLY"
      let len ← srcLen
      let has ← peekWhileKindFlagLoop .name rootOperationTypeDefinition (len + 3) false
      if !has then err
      expect .rCurly "R_CURLY"
    if !meets then err)

def nameOrErr : PI Unit := do
  if (← peek) == some .name then name else err

def scalarTypeDefinition (n : Nat) : PI Unit :=
  withNode "SCALAR_TYPE_DEFINITION" (do
    if (← peek) == some .stringValue then description
    if kwOpt "scalar" (← peekData) then bump "scalar_KW"
    nameOrErr
    if (← peek) == some .at then directives n true)

def scalarTypeExtension (n : Nat) : PI Unit :=
  withNode "SCALAR_TYPE_EXTENSION" (do
    bump "extend_KW"
    bump "scalar_KW"
    nameOrErr
    if (← peek) == some .at then directives n true else err)

def implementsInterfaces : PI Unit :=
  withNode "IMPLEMENTS_INTERFACES" (do
    bump "implements_KW"
    parseSeparatedList .amp "AMP" (do
      if (← peek) == some .name then namedType else err))

def objectTypeDefinition (n : Nat) : PI Unit :=
  withNode "OBJECT_TYPE_DEFINITION" (do
    if (← peek) == some .stringValue then description
    if kwOpt "type" (← peekData) then bump "type_KW"
    nameOrErr
    match ← peekToken with
    | some t => if t.kind == .name && kw "implements" t.data then implementsInterfaces
    | none => pure ()
    if (← peek) == some .at then directives n true
    if (← peek) == some .lCurly then fieldsDefinition n)

def objectTypeExtension (n : Nat) : PI Unit :=
  withNode "OBJECT_TYPE_EXTENSION" (do
    bump "extend_KW"
    bump "type_KW"
    let mut meets := false
    nameOrErr
    if kwOpt "implements" (← peekData) then
      meets := true
      implementsInterfaces
    if (← peek) == some .at then
      meets := true
      directives n true
    if (← peek) == some .lCurly then
      meets := true
      fieldsDefinition n
    if !meets then err)

def interfaceTypeDefinition (n : Nat) : PI Unit :=
  withNode "INTERFACE_TYPE_DEFINITION" (do
    if (← peek) == some .stringValue then description
    if kwOpt "interface" (← peekData) then bump "interface_KW"
    nameOrErr
    if kwOpt "implements" (← peekData) then implementsInterfaces
    if (← peek) == some .at then directives n true
    if (← peek) == some .lCurly then fieldsDefinition n)

def interfaceTypeExtension (n : Nat) : PI Unit :=
  withNode "INTERFACE_TYPE_EXTENSION" (do
    bump "extend_KW"
    bump "interface_KW"
    let mut meets := false
    nameOrErr
    if kwOpt "implements" (← peekData) then
      meets := true
      implementsInterfaces
    if (← peek) == some .at then
      meets := true
      directives n true
    if (← peek) == some .lCurly then
      meets := true
      fieldsDefinition n
    if !meets then err)

def unionMemberTypes : PI Unit :=
  withNode "UNION_MEMBER_TYPES" (do
    bump "EQ"
    parseSeparatedList .pipe "PIPE" (do
      if (← peek) == some .name then namedType else err))

def unionTypeDefinition (n : Nat) : PI Unit :=
  withNode "UNION_TYPE_DEFINITION" (do
    if (← peek) == some .stringValue then description
    if kwOpt "union" (← peekData) then bump "union_KW"
    nameOrErr
    if (← peek) == some .at then directives n true
    if (← peek) == some .eq then unionMemberTypes)

def unionTypeExtension (n : Nat) : PI Unit :=
  withNode "UNION_TYPE_EXTENSION" (do
    bump "extend_KW"
    bump "union_KW"
    let mut meets := false
    nameOrErr
    if (← peek) == some .at then
      meets := true
      directives n true
    if (← peek) == some .eq then
      meets := true
      unionMemberTypes
    if !meets then err)

def enumValueDefinition (n : Nat) : PI Unit := do
  if isNameOrString (← peek) then
    withNode "ENUM_VALUE_DEFINITION" (do
      if (← peek) == some .stringValue then description
      enumValue
      if (← peek) == some .at then directives n true)

def enumValuesDefinition (n : Nat) : PI Unit :=
  withNode "ENUM_VALUES_DEFINITION" (do
    bump "L_CURLY"
    if isNameOrString (← peek) then enumValueDefinition n else err
    peekWhile fun kind =>
      if kind == .name || kind == .stringValue then do enumValueDefinition n; pure true
      else pure false
    expect .rCurly "R_CURLY")

def enumTypeDefinition (n : Nat) : PI Unit :=
  withNode "ENUM_TYPE_DEFINITION" (do
    if (← peek) == some .stringValue then description
    if kwOpt "enum" (← peekData) then bump "enum_KW"
    nameOrErr
    if (← peek) == some .at then directives n true
    if (← peek) == some .lCurly then enumValuesDefinition n)

def enumTypeExtension (n : Nat) : PI Unit :=
  withNode "ENUM_TYPE_EXTENSION" (do
    bump "extend_KW"
    bump "enum_KW"
    let mut meets := false
    nameOrErr
    if (← peek) == some .at then
      meets := true
      directives n true
    if (← peek) == some .lCurly then
      meets := true
      enumValuesDefinition n
    if !meets then err)

def inputFieldsDefinition (n : Nat) : PI Unit :=
  withNode "INPUT_FIELDS_DEFINITION" (do
    bump "L_CURLY"
    if isNameOrString (← peek) then inputValueDefinition n else err
    peekWhile fun kind =>
      if kind == .name || kind == .stringValue then do inputValueDefinition n; pure true
      else pure false
    expect .rCurly "R_CURLY")

def inputObjectTypeDefinition (n : Nat) : PI Unit :=
  withNode "INPUT_OBJECT_TYPE_DEFINITION" (do
    if (← peek) == some .stringValue then description
    if kwOpt "input" (← peekData) then bump "input_KW"
    nameOrErr
    if (← peek) == some .at then directives n true
    if (← peek) == some .lCurly then inputFieldsDefinition n)

def inputObjectTypeExtension (n : Nat) : PI Unit :=
  withNode "INPUT_OBJECT_TYPE_EXTENSION" (do
    bump "extend_KW"
    bump "input_KW"
    let mut meets := false
    nameOrErr
    if (← peek) == some .at then
      meets := true
      directives n true
    if (← peek) == some .lCurly then
      meets := true
      inputFieldsDefinition n
    if !meets then err)

def directiveLocationKeywords : List String :=
  ["QUERY", "MUTATION", "SUBSCRIPTION", "FIELD", "FRAGMENT_DEFINITION", "FRAGMENT_SPREAD", "INLINE_FRAGMENT",
   "VARIABLE_DEFINITION", "SCHEMA", "SCALAR", "OBJECT", "FIELD_DEFINITION", "ARGUMENT_DEFINITION", "INTERFACE",
   "UNION", "ENUM", "ENUM_VALUE", "INPUT_OBJECT", "INPUT_FIELD_DEFINITION"]

def directiveLocation : PI Unit := do
  match ← peekToken with
  | none => pure ()
  | some t =>
    if t.kind == .name then
      match directiveLocationKeywords.find? (kw · t.data) with
      | some k => withNode "DIRECTIVE_LOCATION" (bump (k ++ "_KW"))
      | none => err
    else err

def directiveLocations : PI Unit := parseSeparatedList .pipe "PIPE" directiveLocation

def directiveDefinition (n : Nat) : PI Unit :=
  withNode "DIRECTIVE_DEFINITION" (do
    if (← peek) == some .stringValue then description
    if kwOpt "directive" (← peekData) then bump "directive_KW"
    if (← peek) == some .at then bump "AT" else err
    name
    if (← peek) == some .lParen then withNode "ARGUMENTS_DEFINITION" (argumentsDefinitionBody n)
    if kwOpt "repeatable" (← peekData) then bump "repeatable_KW"
    match ← peekData with
    | some d => if kw "on" d then bump "on_KW" else err
    | none => pure ()
    let k ← peek
    if k == some .name || k == some .pipe then withNode "DIRECTIVE_LOCATIONS" directiveLocations
    else err)

/-! ### extensions.rs, document.rs -/

def extensions (n : Nat) : PI Unit := do
  let d ← peekDataN 2
  if kwOpt "schema" d then schemaExtension n
  else if kwOpt "scalar" d then scalarTypeExtension n
  else if kwOpt "type" d then objectTypeExtension n
  else if kwOpt "interface" d then interfaceTypeExtension n
  else if kwOpt "union" d then unionTypeExtension n
  else if kwOpt "enum" d then enumTypeExtension n
  else if kwOpt "input" d then inputObjectTypeExtension n
  else errAndPop

def selectDefinition (n : Nat) (d : Str) : PI Unit :=
  if kw "directive" d then directiveDefinition n
  else if kw "enum" d then enumTypeDefinition n
  else if kw "extend" d then extensions n
  else if kw "fragment" d then fragmentDefinition n
  else if kw "input" d then inputObjectTypeDefinition n
  else if kw "interface" d then interfaceTypeDefinition n
  else if kw "type" d then objectTypeDefinition n
  else if kw "query" d || kw "mutation" d || kw "subscription" d || kw "{" d then operationDefinition n
  else if kw "scalar" d then scalarTypeDefinition n
  else if kw "schema" d then schemaDefinition n
  else if kw "union" d then unionTypeDefinition n
  else errAndPop

/-- which definition parser a top-level token starts (the `match kind { … }` in `document()`) -/
def documentDispatch (n : Nat) (kind : Kind) : PI Unit := do
  if kind == .stringValue then
    match ← peekDataN 2 with
    | some d => selectDefinition n d
    | none => errAndPop
  else if kind == .name || kind == .lCurly then
    match ← peekData with
    | some d => selectDefinition n d
    | none => errAndPop
  else errAndPop

/-- one iteration of the `peek_while` closure in `document()`.
    `assert_eq!(p.recursion_limit.current, 0, …)` holds by `Frame.recCur` (every definition restores
    the counter); the model records a violation in the `deadBranch` ghost flag instead of panicking. -/
def documentStep (n : Nat) (kind : Kind) : PI Bool :=
  if kind == .eof then assertRecZero >>= fun _ => pure false
  else assertRecZero >>= fun _ => documentDispatch n kind >>= fun _ => pure true

/-- `if let None | Some(TokenKind::Eof) = p.peek() { p.err("Unexpected <EOF>.") }` -/
def errIfEmpty (k : Option Kind) : PI Unit := if k == none || k == some .eof then err else pure ()

def documentBody (n : Nat) : PI Unit :=
  peek >>= fun k =>
  errIfEmpty k >>= fun _ =>
  peekWhile (documentStep n) >>= fun _ =>
  pushIgnored

def document (n : Nat) : PI Unit := withNode "DOCUMENT" (documentBody n)

end Apollo.Parse
