/-
Model of the algorithmic parts of apollo-compiler's schema validation
(crates/apollo-compiler/src/validation/{input_object,interface,schema,directive}.rs, validation/mod.rs
`RecursionStack`/`RecursionGuard`).  Names are natural numbers (indices into the schema's definition
lists); a name that is out of range is "not defined / not of the looked-up kind".

The model follows the code as it is: the searches keep a *stack* of names (not a visited set), stop at
the first error, report a cycle only when it returns to the name the search started from, and give up
with `limit` when more than `limit` names are on the stack.
-/
namespace Apollo.SchemaValidation

/-- `Result<(), CycleError>`; `outOfFuel` is the model's own "recursion fuel exhausted" outcome
    (shown impossible with fuel `limit + 1`). -/
inductive R where
  | ok
  | recursed
  | limit
  | outOfFuel
  deriving Repr, DecidableEq, Inhabited

/-- a `for x in xs { f(x)? }` loop: the first non-`Ok` result is returned -/
def firstErr {α : Type} (f : α → R) : List α → R
  | [] => .ok
  | x :: xs => match f x with
    | .ok => firstErr f xs
    | e => e

/-! ## 1. `FindRecursiveInputValue` (validation/input_object.rs) -/

/-- an input value definition as the search sees it: `nonNullNamed = true` for `T!` exactly
    (`ast::Type::NonNullNamed`), `target` = index of the named type among the input objects
    (≥ number of input objects: some other type, `get_input_object` is `None`). -/
structure IField where
  nonNullNamed : Bool
  target : Nat
  deriving Repr, DecidableEq, Inhabited

/-- the input objects of a schema: node `i`'s fields in declaration order -/
abbrev IGraph := List (List IField)

def IGraph.fields (g : IGraph) (i : Nat) : List IField := g.getD i []

/-- `input_value_definition` / `input_object_definition`, fused.  `seen` is the `RecursionStack`
    (first element = the root pushed by `with_root`), `fs` the fields still to visit. -/
def searchFields (g : IGraph) (limit : Nat) : Nat → List Nat → List IField → R
  | 0, _, _ => .outOfFuel
  | fuel + 1, seen, fs =>
    firstErr (fun f =>
      if f.nonNullNamed then
        if !seen.contains f.target then
          if f.target < g.length then
            -- `seen.push(name)?` : insert, then fail when `len > limit`
            if seen.length + 1 > limit then .limit
            else searchFields g limit fuel (seen ++ [f.target]) (g.fields f.target)
          else .ok
        else if seen.head? == some f.target then .recursed
        else .ok
      else .ok) fs

/-- `FindRecursiveInputValue::check(schema, input_object)` for input object `r` -/
def checkInput (g : IGraph) (limit : Nat) (r : Nat) : R :=
  searchFields g limit (limit + 1) [r] (g.fields r)

/-- the input objects for which validation pushes a diagnostic -/
def failingInputs (g : IGraph) (limit : Nat) : List Nat :=
  (List.range g.length).filter fun r => checkInput g limit r != .ok

/-! ## 2. `validate_implements_interfaces` + the self-implementation loop (validation/interface.rs) -/

structure TypeInfo where
  isInterface : Bool
  /-- declared `implements` list (names = indices; out of range = undefined) -/
  implements : List Nat
  deriving Repr, DecidableEq, Inhabited

abbrev ISchema := List TypeInfo

/-- `schema.get_interface(name)` -/
def getInterface (s : ISchema) (n : Nat) : Option TypeInfo :=
  match s[n]? with
  | some t => if t.isInterface then some t else none
  | none => none

/-- names in `implements` that are not interfaces: one `UndefinedDefinition` each -/
def undefinedImplements (s : ISchema) (t : TypeInfo) : List Nat :=
  t.implements.filter fun n => (getInterface s n).isNone

/-- `(transitive_interface, via_interface)` pairs missing from the declared list: one
    `TransitiveImplementedInterfaces` each -/
def missingTransitive (s : ISchema) (t : TypeInfo) : List (Nat × Nat) :=
  t.implements.flatMap fun via =>
    match getInterface s via with
    | some i => (i.implements.filter fun tr => !t.implements.contains tr).map fun tr => (tr, via)
    | none => []

/-- `RecursiveInterfaceDefinition`: an interface listing itself -/
def selfImplements (self : Nat) (t : TypeInfo) : List Nat :=
  if t.isInterface then t.implements.filter (· == self) else []

def implementsDiagCount (s : ISchema) (self : Nat) (t : TypeInfo) : Nat :=
  (undefinedImplements s t).length + (missingTransitive s t).length + (selfImplements self t).length

/-! ## 3. `validate_root_operation_definitions` + the query-root check (validation/schema.rs) -/

inductive RootTarget where
  | object (name : Nat)
  | otherKind (name : Nat)
  | undefined (name : Nat)
  deriving Repr, DecidableEq, Inhabited

def RootTarget.name : RootTarget → Nat
  | .object n | .otherKind n | .undefined n => n

inductive RootDiag where
  | queryRootMissing
  | notObject (name : Nat)
  | undefinedType (name : Nat)
  | duplicate (name : Nat)
  deriving Repr, DecidableEq, Inhabited

/-- the loop over `iter_root_operations()` with its `seen` vector -/
def rootLoop : List Nat → List RootTarget → List RootDiag
  | _, [] => []
  | seen, t :: rest =>
    let kindDiag := match t with
      | .object _ => []
      | .otherKind n => [RootDiag.notObject n]
      | .undefined n => [RootDiag.undefinedType n]
    if seen.contains t.name then kindDiag ++ [RootDiag.duplicate t.name] ++ rootLoop seen rest
    else kindDiag ++ rootLoop (seen ++ [t.name]) rest

/-- `validate_schema_definition` without the directive part: `query`, `mutation`, `subscription` -/
def validateRoots (q m sub : Option RootTarget) : List RootDiag :=
  (if q.isNone then [RootDiag.queryRootMissing] else [])
    ++ rootLoop [] ([q, m, sub].filterMap id)

/-! ## 4. `FindRecursiveDirective` (validation/directive.rs) -/

/-- an input value definition (directive argument or input-object field) as the search sees it -/
structure DArg where
  /-- directives applied to it (indices; out of range = undefined) -/
  dirs : List Nat
  /-- `some k` = the inner named type is user type `k`; `none` = built-in or undefined type -/
  ty : Option Nat
  deriving Repr, DecidableEq, Inhabited

inductive TKind where
  | scalar | enum | input
  deriving Repr, DecidableEq, Inhabited

structure DType where
  kind : TKind
  dirs : List Nat
  /-- directives of each enum value -/
  valueDirs : List (List Nat)
  /-- input-object fields -/
  fields : List DArg
  deriving Repr, DecidableEq, Inhabited

structure DSchema where
  /-- directive definitions: their arguments -/
  dirs : List (List DArg)
  types : List DType
  deriving Repr, DecidableEq, Inhabited

/-- what the search walks over -/
inductive Item where
  | dir (d : Nat)
  | arg (a : DArg)
  | ty (k : Nat)
  deriving Repr, DecidableEq, Inhabited

/-- sub-items of a type definition, in the order `type_definition` visits them -/
def typeItems (t : DType) : List Item :=
  t.dirs.map Item.dir ++
    (match t.kind with
     | .scalar => []
     | .enum => (t.valueDirs.flatMap id).map Item.dir
     | .input => t.fields.map Item.arg)

/-- `directive` / `directive_definition` / `input_value` / `type_definition`, fused over `Item`.
    `dg` = directive stack (first = the definition being checked), `tg` = type stack. -/
def walk (s : DSchema) (limit : Nat) : Nat → List Nat → List Nat → Item → R
  | 0, _, _, _ => .outOfFuel
  | fuel + 1, dg, tg, item =>
    match item with
    | .dir d =>
      if !dg.contains d then
        match s.dirs[d]? with
        | some args =>
          if dg.length + 1 > limit then .limit
          else firstErr (walk s limit fuel (dg ++ [d]) tg) (args.map Item.arg)
        | none => .ok
      else if dg.head? == some d then .recursed
      else .ok
    | .arg a =>
      match firstErr (walk s limit fuel dg tg) (a.dirs.map Item.dir) with
      | .ok =>
        match a.ty with
        | some k => if k < s.types.length then walk s limit fuel dg tg (.ty k) else .ok
        | none => .ok
      | e => e
    | .ty k =>
      if tg.contains k then .ok
      else
        match s.types[k]? with
        | some t =>
          if tg.length + 1 > limit then .limit
          else firstErr (walk s limit fuel dg (tg ++ [k])) (typeItems t)
        | none => .ok

/-- `FindRecursiveDirective::check(schema, directive_def)` for directive `d` -/
def checkDirective (s : DSchema) (limit : Nat) (d : Nat) : R :=
  firstErr (walk s limit (4 * limit + 4) [d] []) ((s.dirs.getD d []).map Item.arg)

def failingDirectives (s : DSchema) (limit : Nat) : List Nat :=
  (List.range s.dirs.length).filter fun d => checkDirective s limit d != .ok

end Apollo.SchemaValidation
