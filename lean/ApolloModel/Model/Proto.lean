/-
Line protocol shared with the Rust harness (harness/src/util.rs `enc`):
a field is `=raw text` or `#cp,cp,…` (decimal code points; `#` alone is the empty string).
-/
namespace Apollo.Proto

def decodeField (f : String) : List Char :=
  match f.toList with
  | '=' :: rest => rest
  | '#' :: rest =>
    if rest.isEmpty then []
    else ((String.ofList rest).splitOn ",").filterMap fun s => s.toNat?.map Char.ofNat
  | cs => cs

def encodeField (cs : List Char) : String :=
  if !cs.isEmpty && cs.all (fun c => ' ' ≤ c && c ≤ '~') then "=" ++ String.ofList cs
  else "#" ++ ",".intercalate (cs.map fun c => toString c.toNat)

def boolStr (b : Bool) : String := if b then "true" else "false"

def parseBool (s : String) : Bool := s == "true"

end Apollo.Proto
