import ApolloModel.Model.Standalone
/-
Model of the typed executable document (property C18), transliterated from
  crates/apollo-compiler/src/schema/mod.rs     (Schema::type_field, MetaFieldDefinitions, root_operation)
  crates/apollo-compiler/src/executable/from_ast.rs (document_from_ast, Operation/Fragment::from_ast,
                                                     SelectionSet::extend_from_ast; Field::new, new_inline_fragment)
  crates/apollo-compiler/src/executable/mod.rs (SelectionSet::root_fields / all_fields)
The untyped input is the AST of Model/Standalone.lean (`Sels`, `Ast`); the output carries what the Rust
stores: per field the definition it was given and the type of its selection set, per inline fragment the type
of its selection set, per operation / fragment the type of the root selection set.
-/
namespace Apollo.Typed
open Apollo.Standalone

/-- reserved names (the harness interns them at these numbers) -/
def nTypename : Name := 5
def nSchema : Name := 6
def nType : Name := 7
def nString : Name := 8
def nSchemaTy : Name := 9
def nTypeTy : Name := 10

inductive TKind where
  | object | interface | union | scalar | enum | inputObject
  deriving DecidableEq, Repr

def TKind.isComposite : TKind → Bool
  | .object | .interface | .union => true
  | _ => false

def TKind.isLeaf : TKind → Bool
  | .scalar | .enum => true
  | _ => false

/-- a field definition: the identity of the definition node and its inner named type -/
structure FDef where
  id : Nat
  ty : Name
  deriving DecidableEq, Repr

structure TypeDef where
  name : Name
  kind : TKind
  fields : List (Name × FDef)     -- explicit fields (object and interface types)
  deriving Repr

structure TSchema where
  types : List TypeDef
  query : Option Name
  mutation : Option Name
  subscription : Option Name

def TSchema.findType (s : TSchema) (t : Name) : Option TypeDef := s.types.find? (fun d => d.name == t)

def TSchema.root (s : TSchema) : OpType → Option Name
  | .query => s.query
  | .mutation => s.mutation
  | .subscription => s.subscription

/-- `MetaFieldDefinitions`: `__typename: String!`, `__schema: __Schema!`, `__type(name: String!): __Type` -/
def metaTypename : FDef := { id := 0, ty := nString }
def metaSchema : FDef := { id := 1, ty := nSchemaTy }
def metaType : FDef := { id := 2, ty := nTypeTy }

inductive Lookup where
  | ok (d : FDef)
  | noSuchType
  | noSuchField
  deriving DecidableEq, Repr

def explicitField (td : TypeDef) (f : Name) : Option FDef :=
  match td.kind with
  | .object | .interface => (td.fields.find? (fun p => p.1 == f)).map (·.2)
  | _ => none

/-- `Schema::type_field` -/
def typeField (s : TSchema) (t f : Name) : Lookup :=
  match s.findType t with
  | none => .noSuchType
  | some td =>
    match explicitField td f with
    | some d => .ok d
    | none =>
      if f == nTypename && td.kind.isComposite then .ok metaTypename
      else if s.query == some t then
        (if f == nSchema then .ok metaSchema else if f == nType then .ok metaType else .noSuchField)
      else .noSuchField

/-- typed selections -/
inductive TSels where
  | nil
  | field (name : Name) (defn : FDef) (ty : Name) (sub : TSels) (rest : TSels)
  | spread (frag : Name) (rest : TSels)
  | inline (tc : Option Name) (ty : Name) (sub : TSels) (rest : TSels)
  deriving DecidableEq, Repr

def TSels.isNil : TSels → Bool
  | .nil => true
  | _ => false

def leafType (s : TSchema) (t : Name) : Bool :=
  match s.findType t with
  | some td => td.kind.isLeaf
  | none => false

/-- `SelectionSet::extend_from_ast` with a schema; `parent` is `self.ty` -/
def buildT (s : TSchema) : Name → Sels → TSels
  | _, .nil => .nil
  | parent, .field name _ _ sub rest =>
    let r := buildT s parent rest
    match typeField s parent name with
    | .ok d =>
      if !sub.isNil && leafType s d.ty then r            -- SubselectionOnScalarType / SubselectionOnEnumType
      else .field name d d.ty (buildT s d.ty sub) r      -- `Field::new(name, def)`: selection_set.ty = def.ty.inner_named_type()
    | .noSuchField => r                                   -- UndefinedField
    | .noSuchType => r                                    -- silently dropped
  | parent, .spread f _ rest => .spread f (buildT s parent rest)
  | parent, .inline tc _ sub rest =>
    let r := buildT s parent rest
    match tc with
    | some t =>
      if (s.findType t).isNone then r                     -- UndefinedTypeInInlineFragmentTypeCondition
      else .inline tc t (buildT s t sub) r                -- `InlineFragment::with_type_condition`
    | none => .inline none parent (buildT s parent sub) r -- `InlineFragment::without_type_condition(self.ty)`

structure TOp where
  opType : OpType
  name : Option Name
  ty : Name
  sels : TSels
  deriving Repr

structure TFrag where
  name : Name
  ty : Name
  sels : TSels
  deriving Repr

structure TDoc where
  anon : Option TOp := none
  named : List TOp := []
  frags : List TFrag := []

def TDoc.ops (d : TDoc) : List TOp := d.anon.toList ++ d.named
def TDoc.findFrag (d : TDoc) (n : Name) : Option TFrag := d.frags.find? (fun f => f.name == n)

/-- `Operation::from_ast` -/
def buildOpT (s : TSchema) (o : Op) : Option TOp :=
  match s.root o.ty with
  | none => none
  | some t => some { opType := o.ty, name := o.name, ty := t, sels := buildT s t o.sels }

/-- `add_ast_document_not_adding_sources`, document part (diagnostics are the subject of Model/Standalone) -/
def buildDefT (s : TSchema) (doc : TDoc) : Def → TDoc
  | .op o =>
    match o.name with
    | some n =>
      if doc.named.any (fun p => p.name == some n) then doc
      else
        match buildOpT s o with
        | some o' => { doc with named := doc.named ++ [o'] }
        | none => doc
    | none =>
      if doc.anon.isSome then doc
      else if !doc.named.isEmpty then doc
      else
        match buildOpT s o with
        | some o' => { doc with anon := some o' }
        | none => doc
  | .frag f =>
    if doc.frags.any (fun g => g.name == f.name) then doc
    else if (s.findType f.tc).isNone then doc
    else { doc with frags := doc.frags ++ [{ name := f.name, ty := f.tc, sels := buildT s f.tc f.sels }] }
  | .typeSystem => doc

def buildDocT (s : TSchema) (ast : Ast) : TDoc := ast.foldl (buildDefT s) {}

/-! ### the iterators -/

/-- what an iterator yields: the field (name, type of its selection set) -/
abbrev Item := Name × Name

/-- `root_fields` (`all = false`) and `all_fields` (`all = true`): the `from_fn` closure run to exhaustion.
    `stack` = the stack of slice iterators (each the remaining selections), `seen` = `fragments_seen`;
    one unit of fuel per turn of the `while let` loop. -/
def run (doc : TDoc) (all : Bool) : Nat → List TSels → List Name → List Item
  | 0, _, _ => []
  | _ + 1, [], _ => []
  | n + 1, .nil :: st, seen => run doc all n st seen
  | n + 1, .field name _ ty sub rest :: st, seen =>
    (name, ty) :: run doc all n (if all && !sub.isNil then sub :: rest :: st else rest :: st) seen
  | n + 1, .inline _ _ sub rest :: st, seen => run doc all n (sub :: rest :: st) seen
  | n + 1, .spread f rest :: st, seen =>
    match doc.findFrag f with
    | some d =>
      if f ∈ seen then run doc all n (rest :: st) seen
      else run doc all n (d.sels :: rest :: st) (f :: seen)
    | none => run doc all n (rest :: st) seen

/-- The specification: recursive depth-first walk that enters each named fragment once (at its first
    occurrence).  Returns the fields, the fragments seen, and the number of loop turns the iterator needs. -/
def dfsSels (all : Bool) (find : Name → Option TSels) (enter : TSels → List Name → List Item × List Name × Nat) :
    TSels → List Name → List Item × List Name × Nat
  | .nil, seen => ([], seen, 1)
  | .field name _ ty sub rest, seen =>
    if all && !sub.isNil then
      let a := dfsSels all find enter sub seen
      let b := dfsSels all find enter rest a.2.1
      ((name, ty) :: a.1 ++ b.1, b.2.1, 1 + a.2.2 + b.2.2)
    else
      let b := dfsSels all find enter rest seen
      ((name, ty) :: b.1, b.2.1, 1 + b.2.2)
  | .inline _ _ sub rest, seen =>
    let a := dfsSels all find enter sub seen
    let b := dfsSels all find enter rest a.2.1
    (a.1 ++ b.1, b.2.1, 1 + a.2.2 + b.2.2)
  | .spread f rest, seen =>
    match find f with
    | some body =>
      if f ∈ seen then
        let b := dfsSels all find enter rest seen
        (b.1, b.2.1, 1 + b.2.2)
      else
        let a := enter body (f :: seen)
        let b := dfsSels all find enter rest a.2.1
        (a.1 ++ b.1, b.2.1, 1 + a.2.2 + b.2.2)
    | none =>
      let b := dfsSels all find enter rest seen
      (b.1, b.2.1, 1 + b.2.2)

/-- entering a fragment body; `k` bounds the nesting of fragment entries -/
def dfsFrag (all : Bool) (find : Name → Option TSels) : Nat → TSels → List Name → List Item × List Name × Nat
  | 0, _, seen => ([], seen, 0)
  | k + 1, body, seen => dfsSels all find (dfsFrag all find k) body seen

def TDoc.find (doc : TDoc) (f : Name) : Option TSels := (doc.findFrag f).map (·.sels)

/-- the specification of both iterators on a selection set -/
def dfs (doc : TDoc) (all : Bool) (t : TSels) : List Item × List Name × Nat :=
  dfsSels all doc.find (dfsFrag all doc.find doc.frags.length) t []

/-- the iterator as the harness observes it (fuel = the number of loop turns of the specification) -/
def iterate (doc : TDoc) (all : Bool) (t : TSels) : List Item :=
  run doc all (dfs doc all t).2.2 [t] []

/-! ### printing (driver) -/

def optStr : Option Name → String
  | some n => toString n
  | none => "-"

def dumpSels : TSels → String
  | .nil => ""
  | .field name d ty sub rest => s!"F{name}:{d.id}:{ty}[{dumpSels sub}]" ++ dumpSels rest
  | .spread f rest => s!"S{f};" ++ dumpSels rest
  | .inline tc ty sub rest => s!"I{optStr tc}:{ty}[{dumpSels sub}]" ++ dumpSels rest

def dumpItems (is : List Item) : String := " ".intercalate (is.map fun i => s!"{i.1}:{i.2}")

def dumpDoc (doc : TDoc) : String :=
  " ".intercalate (doc.ops.map fun o =>
      s!"op:{optStr o.name}:{o.ty}[{dumpSels o.sels}] R({dumpItems (iterate doc false o.sels)}) A({dumpItems (iterate doc true o.sels)})")
    ++ " | " ++
  " ".intercalate (doc.frags.map fun f => s!"frag:{f.name}:{f.ty}[{dumpSels f.sels}]")

end Apollo.Typed
