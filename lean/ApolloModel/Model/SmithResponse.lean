import ApolloModel.Model.Types
/-
Model of apollo-smith's `ResponseBuilder` (crates/apollo-smith/src/response.rs, generators.rs):
`build_data` → `selection_set` → `concrete_type`, `collect_fields`, `generate_field_value`,
`list_layers`, `leaf_field`, `should_be_null`, and the default scalar generators.

The randomness source (`RandomProvider`) is a *script*: the list of answers it will give, one per call,
in call order.  `choose_index(len)` answers `v` (the code indexes with it: an answer ≥ len is the
`expect("choose_index returned valid index")` panic), `gen_usize_range(min, max)` answers `min + v`,
`gen_i32_range(min, max)` answers `min + v`, `gen_bool` answers `v = 1`, `ratio(n, d)` answers `v < n`,
`gen_alphanumeric_char` answers the `v`-th lower-case letter, `gen_f64_range` consumes one answer and the
value is printed as `0.5` (floats are not compared).  Partial data and custom generators are not modelled.
-/
namespace Apollo.Smith

inductive TypeDef where
  | scalar
  | enum (values : List Name)
  | object (impls : List Name)
  | interface
  | union (members : List Name)
  | input
  deriving Repr, DecidableEq, Inhabited

/-- `schema.types` in map order -/
abbrev Schema := List (Name × TypeDef)

def Schema.get? (s : Schema) (n : Name) : Option TypeDef := (s.find? (·.1 == n)).map (·.2)

mutual
inductive Sel where
  /-- `field.alias`, `field.name`, `field.ty()` (the definition's type), `field.selection_set.ty`,
      `field.selection_set.selections` -/
  | field (alias : Option Name) (name : Name) (ty : Ty) (subTy : Name) (sub : Sels)
  | spread (name : Name)
  | inline (tc : Option Name) (sub : Sels)
inductive Sels where
  | nil
  | cons (s : Sel) (tl : Sels)
end

def Sels.isEmpty : Sels → Bool
  | .nil => true
  | _ => false

def Sels.append : Sels → Sels → Sels
  | .nil, b => b
  | .cons s tl, b => .cons s (tl.append b)

/-- `doc.fragments`: name ↦ (type condition, selections) -/
abbrev Fragments := List (Name × Name × Sels)

def Fragments.get? (fs : Fragments) (n : Name) : Option (Name × Sels) := (fs.find? (·.1 == n)).map (·.2)

/-- what `collect_fields` keeps of a field -/
structure FieldInfo where
  name : Name
  ty : Ty
  subTy : Name
  sub : Sels

/-- `IndexMap<String, Vec<Node<Field>>>` in insertion order -/
abbrev Grouped := List (String × List FieldInfo)

/-- `collected.entry(key).or_default().append(fields)` -/
def Grouped.add (g : Grouped) (key : String) (fields : List FieldInfo) : Grouped :=
  match g with
  | [] => [(key, fields)]
  | (k, fs) :: rest => if k == key then (k, fs ++ fields) :: rest else (k, fs) :: Grouped.add rest key fields

def Grouped.addAll (g : Grouped) (more : Grouped) : Grouped := more.foldl (fun acc kv => acc.add kv.1 kv.2) g

/-- `obj.implements_interfaces.contains(ty)` for an object type entry -/
def implementsDirectly (td : TypeDef) (iface : Name) : Bool :=
  match td with
  | .object impls => impls.contains iface
  | _ => false

/-- `type_condition_matches(cond, concrete)` -/
def typeConditionMatches (s : Schema) (cond concrete : Name) : Bool :=
  if cond == concrete then true
  else
    match s.get? cond with
    | some .interface =>
      match s.get? concrete with
      | some td => implementsDirectly td cond
      | none => false
    | some (.union members) => members.contains concrete
    | _ => false

/-- `collect_fields(selection_set, concrete_type)`; fuel bounds the descent through fragments -/
def collectFields (s : Schema) (frags : Fragments) (concrete : Name) : Nat → Sels → Option Grouped
  | 0, _ => none
  | _ + 1, .nil => some []
  | f + 1, .cons sel tl =>
    let here : Option Grouped :=
      match sel with
      | .field alias name ty subTy sub => some [(alias.getD name, [{ name, ty, subTy, sub }])]
      | .spread name =>
        match frags.get? name with
        | some (cond, fsels) => if typeConditionMatches s cond concrete then collectFields s frags concrete f fsels else some []
        | none => some []
      | .inline tc sub =>
        let matches_ := match tc with | none => true | some c => typeConditionMatches s c concrete
        if matches_ then collectFields s frags concrete f sub else some []
    match here, collectFields s frags concrete f tl with
    | some a, some b => some (Grouped.addAll (Grouped.addAll [] a) b)
    | _, _ => none

/-! ### JSON values -/

mutual
inductive Json where
  | null
  | bool (b : Bool)
  | int (i : Int)
  | half                      -- the scripted float
  | str (s : String)
  | arr (items : Jsons)
  | obj (fields : JFields)
inductive Jsons where
  | nil
  | cons (j : Json) (tl : Jsons)
inductive JFields where
  | nil
  | cons (k : String) (v : Json) (tl : JFields)
end

def Jsons.ofList : List Json → Jsons
  | [] => .nil
  | j :: r => .cons j (Jsons.ofList r)

/-- `Map::insert`: replaces the value of an existing key in place, else appends -/
def JFields.insert : JFields → String → Json → JFields
  | .nil, k, v => .cons k v .nil
  | .cons k0 v0 tl, k, v => if k0 == k then .cons k0 v tl else .cons k0 v0 (tl.insert k v)

mutual
def Json.render : Json → String
  | .null => "null"
  | .bool true => "true"
  | .bool false => "false"
  | .int i => toString i
  | .half => "0.5"
  | .str s => "\"" ++ s ++ "\""
  | .arr items => "[" ++ items.render true ++ "]"
  | .obj fields => "{" ++ fields.render true ++ "}"
def Jsons.render : Jsons → Bool → String
  | .nil, _ => ""
  | .cons j tl, first => (if first then "" else ",") ++ j.render ++ tl.render false
def JFields.render : JFields → Bool → String
  | .nil, _ => ""
  | .cons k v tl, first => (if first then "" else ",") ++ "\"" ++ k ++ "\":" ++ v.render ++ tl.render false
end

/-! ### the builder -/

inductive Res (α : Type) where
  | ok (a : α) (script : List Nat)
  | exhausted                 -- the script ran out (`ResponseError::Exhausted`)
  | emptyChoose               -- `choose_index(0)`
  | panic (site : String)     -- `expect` / `unreachable!` in response.rs
  | outOfFuel
  deriving Inhabited

structure Cfg where
  minList : Nat
  maxList : Nat
  nullRatio : Option (Nat × Nat)

/-- one answer of the randomness source -/
def draw : List Nat → Res Nat
  | [] => .exhausted
  | v :: r => .ok v r

def chooseIndex (len : Nat) (script : List Nat) : Res Nat :=
  if len == 0 then .emptyChoose else draw script

/-- objects of the schema that list `iface` in `implements_interfaces`, in map order -/
def implementers (s : Schema) (iface : Name) : List Name :=
  (s.filter fun e => implementsDirectly e.2 iface).map (·.1)

/-- `concrete_type(ty)` -/
def concreteType (s : Schema) (ty : Name) (script : List Nat) : Res Name :=
  match s.get? ty with
  | some (.union members) =>
    match chooseIndex members.length script with
    | .ok idx r =>
      match members[idx]? with
      | some m => .ok m r
      | none => .panic "choose_index returned valid index"
    | .exhausted => .exhausted | .emptyChoose => .emptyChoose | .panic p => .panic p | .outOfFuel => .outOfFuel
  | some .interface =>
    let impls := implementers s ty
    if impls.length == 0 then .ok ty script
    else
      match chooseIndex impls.length script with
      | .ok idx r =>
        match impls[idx]? with
        | some m => .ok m r
        | none => .panic "idx came from counting the same filter"
      | .exhausted => .exhausted | .emptyChoose => .emptyChoose | .panic p => .panic p | .outOfFuel => .outOfFuel
  | _ => .ok ty script

/-- `should_be_null()` -/
def shouldBeNull (cfg : Cfg) (script : List Nat) : Res Bool :=
  match cfg.nullRatio with
  | none => .ok false script
  | some (n, _) =>
    match draw script with
    | .ok v r => .ok (decide (v < n)) r
    | .exhausted => .exhausted | .emptyChoose => .emptyChoose | .panic p => .panic p | .outOfFuel => .outOfFuel

/-- `len` alphanumeric characters -/
def genChars : Nat → List Nat → Res (List Char)
  | 0, script => .ok [] script
  | n + 1, script =>
    match draw script with
    | .ok v r =>
      match genChars n r with
      | .ok cs r' => .ok (Char.ofNat (97 + v) :: cs) r'
      | .exhausted => .exhausted | .emptyChoose => .emptyChoose | .panic p => .panic p | .outOfFuel => .outOfFuel
    | .exhausted => .exhausted | .emptyChoose => .emptyChoose | .panic p => .panic p | .outOfFuel => .outOfFuel

/-- `StringGenerator { min_len: 1, max_len: 10 }` -/
def genString (script : List Nat) : Res Json :=
  match draw script with
  | .ok v r =>
    match genChars (1 + v) r with
    | .ok cs r' => .ok (.str (String.ofList cs)) r'
    | .exhausted => .exhausted | .emptyChoose => .emptyChoose | .panic p => .panic p | .outOfFuel => .outOfFuel
  | .exhausted => .exhausted | .emptyChoose => .emptyChoose | .panic p => .panic p | .outOfFuel => .outOfFuel

/-- `Generators::generate_scalar` with the default registry -/
def generateScalar (name : Name) (script : List Nat) : Res Json :=
  if name == "Boolean" then
    match draw script with
    | .ok v r => .ok (.bool (v == 1)) r
    | .exhausted => .exhausted | .emptyChoose => .emptyChoose | .panic p => .panic p | .outOfFuel => .outOfFuel
  else if name == "Int" then
    match draw script with
    | .ok v r => .ok (.int v) r
    | .exhausted => .exhausted | .emptyChoose => .emptyChoose | .panic p => .panic p | .outOfFuel => .outOfFuel
  else if name == "Float" then
    match draw script with
    | .ok _ r => .ok .half r
    | .exhausted => .exhausted | .emptyChoose => .emptyChoose | .panic p => .panic p | .outOfFuel => .outOfFuel
  else if name == "ID" then
    match draw script with
    | .ok v r => .ok (.str (toString v)) r
    | .exhausted => .exhausted | .emptyChoose => .emptyChoose | .panic p => .panic p | .outOfFuel => .outOfFuel
  else genString script

/-- `leaf_field(type_name)` -/
def leafField (s : Schema) (typeName : Name) (script : List Nat) : Res Json :=
  match s.get? typeName with
  | none => .panic "validated schema should contain the type"
  | some (.enum values) =>
    match chooseIndex values.length script with
    | .ok idx r =>
      match values[idx]? with
      | some v => .ok (.str v) r
      | none => .panic "choose_index returned valid index"
    | .exhausted => .exhausted | .emptyChoose => .emptyChoose | .panic p => .panic p | .outOfFuel => .outOfFuel
  | some .scalar => generateScalar typeName script
  | some _ => .panic "A field with an empty selection set must be a scalar or enum type"

def mergedSelections : List FieldInfo → Sels
  | [] => .nil
  | f :: r => f.sub.append (mergedSelections r)

mutual
/-- `selection_set(selection_set)` for `SelectionSet { ty, selections }` -/
def selectionSet (s : Schema) (frags : Fragments) (cfg : Cfg) : Nat → Name → Sels → List Nat → Res Json
  | 0, _, _, _ => .outOfFuel
  | f + 1, ty, sels, script =>
    match concreteType s ty script with
    | .ok concrete r =>
      match collectFields s frags concrete (f + 1) sels with
      | none => .outOfFuel
      | some grouped =>
        match groupValues s frags cfg f concrete grouped .nil r with
        | .ok fields r' => .ok (.obj fields) r'
        | .exhausted => .exhausted | .emptyChoose => .emptyChoose | .panic p => .panic p | .outOfFuel => .outOfFuel
    | .exhausted => .exhausted | .emptyChoose => .emptyChoose | .panic p => .panic p | .outOfFuel => .outOfFuel
/-- the `for (key, fields) in grouped_fields` loop -/
def groupValues (s : Schema) (frags : Fragments) (cfg : Cfg) : Nat → Name → Grouped → JFields → List Nat → Res JFields
  | 0, _, _, _, _ => .outOfFuel
  | _ + 1, _, [], acc, script => .ok acc script
  | f + 1, concrete, (key, fields) :: rest, acc, script =>
    match fields with
    | [] => .panic "fields[0]"
    | mf :: _ =>
      match groupValue s frags cfg f concrete mf fields script with
      | .ok v r => groupValues s frags cfg f concrete rest (acc.insert key v) r
      | .exhausted => .exhausted | .emptyChoose => .emptyChoose | .panic p => .panic p | .outOfFuel => .outOfFuel
/-- the value of one response key: `__typename`, a null (only for a nullable field), or a generated value -/
def groupValue (s : Schema) (frags : Fragments) (cfg : Cfg) : Nat → Name → FieldInfo → List FieldInfo → List Nat → Res Json
  | 0, _, _, _, _ => .outOfFuel
  | f + 1, concrete, mf, fields, script =>
    if mf.name == "__typename" then .ok (.str concrete) script
    else if !mf.ty.isNonNull then
      match shouldBeNull cfg script with
      | .ok true r => .ok .null r
      | .ok false r => fieldValue s frags cfg f mf fields mf.ty r
      | .exhausted => .exhausted | .emptyChoose => .emptyChoose | .panic p => .panic p | .outOfFuel => .outOfFuel
    else fieldValue s frags cfg f mf fields mf.ty script
/-- `generate_field_value` + `list_layers(ty, item)`: `ty` is the remaining part of the field type -/
def fieldValue (s : Schema) (frags : Fragments) (cfg : Cfg) : Nat → FieldInfo → List FieldInfo → Ty → List Nat → Res Json
  | 0, _, _, _, _ => .outOfFuel
  | f + 1, mf, fields, ty, script =>
    match ty with
    | .list inner | .nonNullList inner =>
      match draw script with
      | .ok v r =>
        match listItems s frags cfg f mf fields inner (cfg.minList + v) r with
        | .ok items r' => .ok (.arr items) r'
        | .exhausted => .exhausted | .emptyChoose => .emptyChoose | .panic p => .panic p | .outOfFuel => .outOfFuel
      | .exhausted => .exhausted | .emptyChoose => .emptyChoose | .panic p => .panic p | .outOfFuel => .outOfFuel
    | .named n | .nonNullNamed n =>
      if !mf.sub.isEmpty then selectionSet s frags cfg f mf.subTy (mergedSelections fields) script
      else leafField s n script
/-- the `for _ in 0..num_values` loop of `list_layers` -/
def listItems (s : Schema) (frags : Fragments) (cfg : Cfg) : Nat → FieldInfo → List FieldInfo → Ty → Nat → List Nat → Res Jsons
  | 0, _, _, _, _, _ => .outOfFuel
  | _ + 1, _, _, _, 0, script => .ok .nil script
  | f + 1, mf, fields, inner, n + 1, script =>
    match fieldValue s frags cfg f mf fields inner script with
    | .ok v r =>
      match listItems s frags cfg f mf fields inner n r with
      | .ok vs r' => .ok (.cons v vs) r'
      | .exhausted => .exhausted | .emptyChoose => .emptyChoose | .panic p => .panic p | .outOfFuel => .outOfFuel
    | .exhausted => .exhausted | .emptyChoose => .emptyChoose | .panic p => .panic p | .outOfFuel => .outOfFuel
end

/-- `build_data()` for the operation's root selection set (no partial data) -/
def buildData (s : Schema) (frags : Fragments) (cfg : Cfg) (fuel : Nat) (rootTy : Name) (sels : Sels) (script : List Nat) :
    Res Json :=
  selectionSet s frags cfg fuel rootTy sels script

end Apollo.Smith
